/- The RANGE of the parser: every tree any of the seven parser functions returns satisfies the side
   conditions of `RTF.WE/WEs/WO/WS/WB` ("a tree the parser can produce"), so that the print/parse
   round trip of the whole grammar (`RTF.print_parse_program`, C07) applies to EVERY program that
   parses: parsing is a retraction of printing on all parsed programs, the printed form is a normal form.

   * `PE Q ..` : the shape predicate, parametric in a predicate `Q` on the identifiers of the tree
     (no condition on float literals);
   * `ok_all`  : induction on fuel over all seven parser functions (organised like `ParsedFloats`):
     from tokens whose identifiers satisfy `Q`, only `PE Q` trees are returned;
   * `we_of_pe` : `PE Q` + literals `LitF` (`ParsedFloats`) + literals finite  →  `RTF.WE`;
   * `parseTokens_range`, `parse_range`, `parse_print_parse`, and the TEXT level (`parse_render_print`). -/
import Nlmodel.Proofs.C08
import Nlmodel.Proofs.Lemmas.RoundTrip
import Nlmodel.Proofs.Lemmas.FloatText
import Nlmodel.Proofs.Lemmas.ParsedFloats
import Nlmodel.Proofs.Lemmas.LexCover
namespace Nl
open F64

/-! ### every float literal of the tree is finite -/

mutual
def Expr.AllFinF : Expr → Prop
  | .infix l _ r => l.AllFinF ∧ r.AllFinF
  | .pre _ r => r.AllFinF
  | .int _ => True
  | .float x => F64.isInf x = false
  | .bool _ => True
  | .ifE c t e => c.AllFinF ∧ t.AllFinF ∧ e.AllFinF
  | .ident _ => True
  | .func _ _ b => b.AllFinF
  | .call f as => f.AllFinF ∧ as.AllFinF
  | .assign l r => l.AllFinF ∧ r.AllFinF
  | .str _ => True
  | .arr vs => vs.AllFinF
  | .index l i => l.AllFinF ∧ i.AllFinF
  | .whileE c b => c.AllFinF ∧ b.AllFinF
def Stmt.AllFinF : Stmt → Prop
  | .letS _ e => e.AllFinF
  | .ret e => e.AllFinF
  | .expr e => e.AllFinF
  | .block b => b.AllFinF
  | .brk => True
  | .cont => True
def Block.AllFinF : Block → Prop
  | .nil => True
  | .cons s b => s.AllFinF ∧ b.AllFinF
def Exprs.AllFinF : Exprs → Prop
  | .nil => True
  | .cons e es => e.AllFinF ∧ es.AllFinF
def OptBlock.AllFinF : OptBlock → Prop
  | .none => True
  | .some b => b.AllFinF
end

namespace PR
open RTF

/-! ### the shape of parsed trees (identifiers satisfy `Q`; nothing is said about float literals) -/

mutual
inductive PE (Q : Text → Prop) : Expr → Prop where
  | int (v : Int) : 0 ≤ v → v ≤ MAX_INT → PE Q (.int v)
  | float (x : UInt64) : PE Q (.float x)
  | bool (b : Bool) : PE Q (.bool b)
  | str (s : Text) : PE Q (.str s)
  | ident (n : Text) : Q n → PE Q (.ident n)
  | pre (op : Op) (r : Expr) : (op = .not ∨ op = .sub) → PE Q r → PE Q (.pre op r)
  | bin (l : Expr) (op : Op) (r : Expr) : RT.isBin op → isFunc l = false → PE Q l → PE Q r → PE Q (.infix l op r)
  | assign (l r : Expr) : assignable l = true → PE Q l → PE Q r → PE Q (.assign l r)
  | ifE (c : Expr) (t : Block) (e : OptBlock) : PE Q c → PB Q t → PO Q e → PE Q (.ifE c t e)
  | whileE (c : Expr) (b : Block) : PE Q c → PB Q b → PE Q (.whileE c b)
  | func (name : Text) (ps : List Text) (body : Block) : (name = [] ∨ Q name) → (∀ p ∈ ps, Q p) → PB Q body →
      PE Q (.func name ps body)
  | call (f : Expr) (as : Exprs) : callable f = true → PE Q f → PEs Q as → PE Q (.call f as)
  | arr (vs : Exprs) : PEs Q vs → PE Q (.arr vs)
  | index (l i : Expr) : indexable l = true → PE Q l → PE Q i → PE Q (.index l i)
inductive PEs (Q : Text → Prop) : Exprs → Prop where
  | nil : PEs Q .nil
  | cons (e : Expr) (es : Exprs) : PE Q e → PEs Q es → PEs Q (.cons e es)
inductive PS (Q : Text → Prop) : Stmt → Prop where
  | letS (n : Text) (e : Expr) : Q n → PE Q e → PS Q (.letS n e)
  | ret (e : Expr) : PE Q e → PS Q (.ret e)
  | expr (e : Expr) : PE Q e → PS Q (.expr e)
  | block (b : Block) : PB Q b → PS Q (.block b)
  | brk : PS Q .brk
  | cont : PS Q .cont
inductive PB (Q : Text → Prop) : Block → Prop where
  | nil : PB Q .nil
  | cons (s : Stmt) (b : Block) : PS Q s → PB Q b → PB Q (.cons s b)
inductive PO (Q : Text → Prop) : OptBlock → Prop where
  | none : PO Q .none
  | some (b : Block) : PB Q b → PO Q (.some b)
end

/-! ### tokens whose identifiers satisfy `Q` -/

/-- every identifier token of the list satisfies `Q` -/
def TQ (Q : Text → Prop) (ts : List Token) : Prop := ∀ n, Token.ident n ∈ ts → Q n

variable {Q : Text → Prop}

theorem cur_q {ts : List Token} {n : Text} (h : TQ Q ts) (hc : cur ts = .ident n) : Q n := by
  cases ts with
  | nil => cases hc
  | cons t ts => simp only [cur] at hc; subst hc; exact h n List.mem_cons_self

theorem adv_q {ts : List Token} (h : TQ Q ts) : TQ Q (adv ts) := by
  cases ts with
  | nil => exact h
  | cons t ts => exact fun x hx => h x (List.mem_cons_of_mem _ hx)

theorem skipOpt_q {ts : List Token} (t : Token) (h : TQ Q ts) : TQ Q (skipOpt t ts) := by
  unfold skipOpt
  split
  · exact adv_q h
  · exact h

theorem skipTok_q {ts ts' : List Token} {t : Token} (hs : skipTok t ts = .ok ts') (h : TQ Q ts) : TQ Q ts' := by
  unfold skipTok at hs
  split at hs
  · injection hs with hs; subst hs; exact adv_q h
  · cases hs

theorem params_q : ∀ (f : Nat) (ts : List Token) (r : List Text × List Token), parseParams f ts = .ok r → TQ Q ts →
    (∀ p ∈ r.1, Q p) ∧ TQ Q r.2 := by
  intro f
  induction f with
  | zero => intro ts r h; simp [parseParams] at h
  | succ f ih =>
    intro ts r h hts
    rw [parseParams] at h
    split at h
    · injection h with h; subst h; exact ⟨fun p hp => (by cases hp), hts⟩
    · rename_i n hc
      cases h1 : parseParams f (skipOpt .comma (adv ts)) with
      | error e => rw [h1] at h; cases h
      | ok q =>
        obtain ⟨ps, ts'⟩ := q
        rw [h1] at h
        injection h with h; subst h
        obtain ⟨a, b⟩ := ih _ (ps, ts') h1 (skipOpt_q _ (adv_q hts))
        refine ⟨?_, b⟩
        intro p hp
        rcases List.mem_cons.1 hp with e | e
        · subst e; exact cur_q hts hc
        · exact a p e
    · cases h

/-! ### literals and operators -/

theorem parseIntLit_pe (s : Text) (e : Expr) (h : parseIntLit s = .ok e) : PE Q e := by
  unfold parseIntLit at h
  simp only at h
  split at h
  · rename_i hle
    injection h with h; subst h
    exact .int _ (by omega) hle
  · cases h

theorem parseFloatLit_pe (s : Text) : PE Q (parseFloatLit s) := by
  unfold parseFloatLit
  split <;> exact .float _

theorem binop_isBin {t : Token} {op : Op} (h : t.binop = some op) : RT.isBin op := by
  cases t <;> simp only [Token.binop] at h <;> first | (cases h; done) | (injection h with h; subst h; simp [RT.isBin])

theorem assignable_of_isIdent {l : Expr} (h : isIdent l = true) : assignable l = true := by
  cases l <;> simp_all [isIdent, assignable]

/-! ### the induction over the seven parser functions -/

/-- what every parser function returns: a tree of the parser's shape and a good rest of the tokens -/
structure OK (Q : Text → Prop) (f : Nat) : Prop where
  pre : ∀ ts r, TQ Q ts → parsePrefix f ts = .ok r → PE Q r.1 ∧ TQ Q r.2
  expr : ∀ p ts r, TQ Q ts → parseExpr f p ts = .ok r → PE Q r.1 ∧ TQ Q r.2
  loop : ∀ p l ts r, PE Q l → TQ Q ts → parseLoop f p l ts = .ok r → PE Q r.1 ∧ TQ Q r.2
  elems : ∀ c ts r, TQ Q ts → parseElems f c ts = .ok r → PEs Q r.1 ∧ TQ Q r.2
  stmt : ∀ ts r, TQ Q ts → parseStatement f ts = .ok r → PS Q r.1 ∧ TQ Q r.2
  block : ∀ ts r, TQ Q ts → parseBlock f ts = .ok r → PB Q r.1 ∧ TQ Q r.2
  stmts : ∀ b ts r, TQ Q ts → parseStmts f b ts = .ok r → PB Q r.1 ∧ TQ Q r.2

section step
variable {f : Nat} (ih : OK Q f)
include ih

theorem expr_succ (p : Nat) (ts : List Token) (r : Expr × List Token) (hts : TQ Q ts) (h : parseExpr (f + 1) p ts = .ok r) :
    PE Q r.1 ∧ TQ Q r.2 := by
  rw [parseExpr] at h
  cases h1 : parsePrefix f ts with
  | error e => rw [h1] at h; cases h
  | ok q =>
    obtain ⟨l, ts'⟩ := q
    rw [h1] at h
    obtain ⟨a, b⟩ := ih.pre _ _ hts h1
    exact ih.loop _ _ _ _ a b h

theorem elems_succ (c : Token) (ts : List Token) (r : Exprs × List Token) (hts : TQ Q ts) (h : parseElems (f + 1) c ts = .ok r) :
    PEs Q r.1 ∧ TQ Q r.2 := by
  rw [parseElems] at h
  split at h
  · injection h with h; subst h; exact ⟨.nil, hts⟩
  · cases h1 : parseExpr f 0 ts with
    | error e => rw [h1] at h; cases h
    | ok q =>
      obtain ⟨e, ts1⟩ := q
      rw [h1] at h
      simp only at h
      obtain ⟨a1, b1⟩ := ih.expr _ _ _ hts h1
      cases h2 : parseElems f c (skipOpt .comma ts1) with
      | error e => rw [h2] at h; cases h
      | ok q2 =>
        obtain ⟨es, ts2⟩ := q2
        rw [h2] at h
        obtain ⟨a2, b2⟩ := ih.elems _ _ _ (skipOpt_q _ b1) h2
        injection h with h; subst h
        exact ⟨.cons _ _ a1 a2, b2⟩

theorem block_succ (ts : List Token) (r : Block × List Token) (hts : TQ Q ts) (h : parseBlock (f + 1) ts = .ok r) :
    PB Q r.1 ∧ TQ Q r.2 := by
  rw [parseBlock] at h
  cases h0 : skipTok .lbrace ts with
  | error e => rw [h0] at h; cases h
  | ok ts1 =>
    rw [h0] at h; simp only at h
    cases h1 : parseStmts f true ts1 with
    | error e => rw [h1] at h; cases h
    | ok q =>
      obtain ⟨b, ts2⟩ := q
      rw [h1] at h; simp only at h
      obtain ⟨a1, b1⟩ := ih.stmts _ _ _ (skipTok_q h0 hts) h1
      cases h2 : skipTok .rbrace ts2 with
      | error e => rw [h2] at h; cases h
      | ok ts3 =>
        rw [h2] at h
        injection h with h; subst h
        exact ⟨a1, skipTok_q h2 b1⟩

theorem stmts_succ (b : Bool) (ts : List Token) (r : Block × List Token) (hts : TQ Q ts) (h : parseStmts (f + 1) b ts = .ok r) :
    PB Q r.1 ∧ TQ Q r.2 := by
  rw [parseStmts] at h
  split at h
  · injection h with h; subst h; exact ⟨.nil, hts⟩
  · cases h1 : parseStatement f ts with
    | error e => rw [h1] at h; cases h
    | ok q =>
      obtain ⟨s, ts1⟩ := q
      rw [h1] at h
      simp only at h
      obtain ⟨a1, b1⟩ := ih.stmt _ _ hts h1
      cases h2 : parseStmts f b ts1 with
      | error e => rw [h2] at h; cases h
      | ok q2 =>
        obtain ⟨bl, ts2⟩ := q2
        rw [h2] at h
        obtain ⟨a2, b2⟩ := ih.stmts _ _ _ b1 h2
        injection h with h; subst h
        exact ⟨.cons _ _ a1 a2, b2⟩

theorem stmt_succ (ts : List Token) (r : Stmt × List Token) (hts : TQ Q ts) (h : parseStatement (f + 1) ts = .ok r) :
    PS Q r.1 ∧ TQ Q r.2 := by
  rw [parseStatement] at h
  split at h
  · simp only at h
    split at h
    · rename_i n hn
      cases h0 : skipTok .assign (adv (adv ts)) with
      | error e => rw [h0] at h; cases h
      | ok ts2 =>
        rw [h0] at h; simp only at h
        cases h1 : parseExpr f 0 ts2 with
        | error e => rw [h1] at h; cases h
        | ok q =>
          obtain ⟨e, ts3⟩ := q
          rw [h1] at h
          obtain ⟨a1, b1⟩ := ih.expr _ _ _ (skipTok_q h0 (adv_q (adv_q hts))) h1
          injection h with h; subst h
          exact ⟨.letS _ _ (cur_q (adv_q hts) hn) a1, skipOpt_q _ b1⟩
    · cases h
  · cases h1 : parseBlock f ts with
    | error e => rw [h1] at h; cases h
    | ok q =>
      obtain ⟨b, ts1⟩ := q
      rw [h1] at h
      obtain ⟨a1, b1⟩ := ih.block _ _ hts h1
      injection h with h; subst h
      exact ⟨.block _ a1, skipOpt_q _ b1⟩
  · cases h1 : parseExpr f 0 (adv ts) with
    | error e => rw [h1] at h; cases h
    | ok q =>
      obtain ⟨e, ts1⟩ := q
      rw [h1] at h
      obtain ⟨a1, b1⟩ := ih.expr _ _ _ (adv_q hts) h1
      injection h with h; subst h
      exact ⟨.ret _ a1, skipOpt_q _ b1⟩
  · injection h with h; subst h; exact ⟨.cont, skipOpt_q _ (adv_q hts)⟩
  · injection h with h; subst h; exact ⟨.brk, skipOpt_q _ (adv_q hts)⟩
  · cases h1 : parseExpr f 0 ts with
    | error e => rw [h1] at h; cases h
    | ok q =>
      obtain ⟨e, ts1⟩ := q
      rw [h1] at h
      obtain ⟨a1, b1⟩ := ih.expr _ _ _ hts h1
      injection h with h; subst h
      exact ⟨.expr _ a1, skipOpt_q _ b1⟩

theorem loop_succ (p : Nat) (l : Expr) (ts : List Token) (r : Expr × List Token) (hl : PE Q l) (hts : TQ Q ts)
    (h : parseLoop (f + 1) p l ts = .ok r) : PE Q r.1 ∧ TQ Q r.2 := by
  rw [parseLoop] at h
  simp only at h
  by_cases c1 : cur ts = .semi
  · simp only [c1, ↓reduceIte] at h; injection h with h; subst h; exact ⟨hl, hts⟩
  · simp only [c1, ↓reduceIte] at h
    by_cases c2 : (!decide (p < (cur ts).prec)) = true
    · simp only [c2, ↓reduceIte] at h; injection h with h; subst h; exact ⟨hl, hts⟩
    · simp only [c2, ↓reduceIte, Bool.false_eq_true] at h
      split at h
      · rename_i op hop
        have hbin : RT.isBin op := binop_isBin hop
        by_cases c3 : isFunc l = true
        · simp only [c3, ↓reduceIte] at h; cases h
        · have c3' : isFunc l = false := by simpa using c3
          simp only [c3, ↓reduceIte, Bool.false_eq_true] at h
          by_cases c4 : (decide (cur (adv ts) = Token.assign) && isIdent l) = true
          · simp only [c4, ↓reduceIte] at h
            have hid : isIdent l = true := by
              simp only [Bool.and_eq_true] at c4; exact c4.2
            cases h1 : parseExpr f 0 (adv (adv ts)) with
            | error e => rw [h1] at h; cases h
            | ok q =>
              obtain ⟨x, ts2⟩ := q
              rw [h1] at h
              obtain ⟨a1, b1⟩ := ih.expr _ _ _ (adv_q (adv_q hts)) h1
              refine ih.loop _ _ _ _ ?_ b1 h
              exact .assign _ _ (assignable_of_isIdent hid) hl (.bin _ _ _ hbin c3' hl a1)
          · simp only [c4, ↓reduceIte, Bool.false_eq_true] at h
            cases h1 : parseExpr f (cur ts).prec (adv ts) with
            | error e => rw [h1] at h; cases h
            | ok q =>
              obtain ⟨x, ts2⟩ := q
              rw [h1] at h
              obtain ⟨a1, b1⟩ := ih.expr _ _ _ (adv_q hts) h1
              refine ih.loop _ _ _ _ ?_ b1 h
              exact .bin _ _ _ hbin c3' hl a1
      · split at h
        · by_cases c3 : (!assignable l) = true
          · simp only [c3, ↓reduceIte] at h; cases h
          · simp only [c3, ↓reduceIte, Bool.false_eq_true] at h
            cases h1 : parseExpr f 1 (adv ts) with
            | error e => rw [h1] at h; cases h
            | ok q =>
              obtain ⟨x, ts2⟩ := q
              rw [h1] at h
              obtain ⟨a1, b1⟩ := ih.expr _ _ _ (adv_q hts) h1
              refine ih.loop _ _ _ _ ?_ b1 h
              exact .assign _ _ (by simpa using c3) hl a1
        · by_cases c3 : (!callable l) = true
          · simp only [c3, ↓reduceIte] at h; cases h
          · simp only [c3, ↓reduceIte, Bool.false_eq_true] at h
            cases h1 : parseElems f .rparen (adv ts) with
            | error e => rw [h1] at h; cases h
            | ok q =>
              obtain ⟨x, ts2⟩ := q
              rw [h1] at h
              obtain ⟨a1, b1⟩ := ih.elems _ _ _ (adv_q hts) h1
              refine ih.loop _ _ _ _ ?_ (adv_q b1) h
              exact .call _ _ (by simpa using c3) hl a1
        · by_cases c3 : (!indexable l) = true
          · simp only [c3, ↓reduceIte] at h; cases h
          · simp only [c3, ↓reduceIte, Bool.false_eq_true] at h
            cases h1 : parseExpr f 0 (adv ts) with
            | error e => rw [h1] at h; cases h
            | ok q =>
              obtain ⟨x, ts1⟩ := q
              rw [h1] at h
              simp only at h
              obtain ⟨a1, b1⟩ := ih.expr _ _ _ (adv_q hts) h1
              cases h2 : skipTok .rbracket ts1 with
              | error e => rw [h2] at h; cases h
              | ok ts2 =>
                rw [h2] at h
                refine ih.loop _ _ _ _ ?_ (skipTok_q h2 b1) h
                exact .index _ _ (by simpa using c3) hl a1
        · injection h with h; subst h; exact ⟨hl, hts⟩

theorem pre_succ (ts : List Token) (r : Expr × List Token) (hts : TQ Q ts) (h : parsePrefix (f + 1) ts = .ok r) :
    PE Q r.1 ∧ TQ Q r.2 := by
  rw [parsePrefix] at h
  split at h
  · -- integer literal
    rename_i s _
    cases h1 : parseIntLit s with
    | error e => rw [h1] at h; cases h
    | ok e =>
      rw [h1] at h
      injection h with h; subst h
      exact ⟨parseIntLit_pe s e h1, adv_q hts⟩
  · -- float literal
    injection h with h; subst h
    exact ⟨parseFloatLit_pe _, adv_q hts⟩
  · injection h with h; subst h; exact ⟨.bool _, adv_q hts⟩
  · injection h with h; subst h; exact ⟨.bool _, adv_q hts⟩
  · injection h with h; subst h; exact ⟨.str _, adv_q hts⟩
  · -- ( e )
    cases h1 : parseExpr f 0 (adv ts) with
    | error e => rw [h1] at h; cases h
    | ok q =>
      obtain ⟨x, ts1⟩ := q
      rw [h1] at h; simp only at h
      obtain ⟨a1, b1⟩ := ih.expr _ _ _ (adv_q hts) h1
      cases h2 : skipTok .rparen ts1 with
      | error e => rw [h2] at h; cases h
      | ok ts2 =>
        rw [h2] at h
        injection h with h; subst h
        exact ⟨a1, skipTok_q h2 b1⟩
  · -- als
    cases h1 : parseExpr f 0 (adv ts) with
    | error e => rw [h1] at h; cases h
    | ok q =>
      obtain ⟨c, ts1⟩ := q
      rw [h1] at h
      simp only at h
      obtain ⟨a1, b1⟩ := ih.expr _ _ _ (adv_q hts) h1
      cases h2 : parseBlock f ts1 with
      | error e => rw [h2] at h; cases h
      | ok q2 =>
        obtain ⟨t, ts2⟩ := q2
        rw [h2] at h
        simp only at h
        obtain ⟨a2, b2⟩ := ih.block _ _ b1 h2
        by_cases c1 : cur ts2 = .kwElse
        · simp only [c1, ↓reduceIte] at h
          by_cases c2 : cur (adv ts2) = .kwIf
          · simp only [c2, ↓reduceIte] at h
            cases h3 : parseStatement f (adv ts2) with
            | error e => rw [h3] at h; cases h
            | ok q3 =>
              obtain ⟨st, ts4⟩ := q3
              rw [h3] at h
              obtain ⟨a3, b3⟩ := ih.stmt _ _ (adv_q b2) h3
              injection h with h; subst h
              exact ⟨.ifE _ _ _ a1 a2 (.some _ (.cons _ _ a3 .nil)), b3⟩
          · simp only [c2, ↓reduceIte] at h
            cases h3 : parseBlock f (adv ts2) with
            | error e => rw [h3] at h; cases h
            | ok q3 =>
              obtain ⟨eb, ts4⟩ := q3
              rw [h3] at h
              obtain ⟨a3, b3⟩ := ih.block _ _ (adv_q b2) h3
              injection h with h; subst h
              exact ⟨.ifE _ _ _ a1 a2 (.some _ a3), b3⟩
        · simp only [c1, ↓reduceIte] at h
          injection h with h; subst h
          exact ⟨.ifE _ _ _ a1 a2 .none, b2⟩
  · cases h1 : parseExpr f (Token.prec .bang) (adv ts) with
    | error e => rw [h1] at h; cases h
    | ok q =>
      obtain ⟨x, ts1⟩ := q
      rw [h1] at h
      obtain ⟨a1, b1⟩ := ih.expr _ _ _ (adv_q hts) h1
      injection h with h; subst h
      exact ⟨.pre _ _ (.inl rfl) a1, b1⟩
  · cases h1 : parseExpr f (Token.prec .minus) (adv ts) with
    | error e => rw [h1] at h; cases h
    | ok q =>
      obtain ⟨x, ts1⟩ := q
      rw [h1] at h
      obtain ⟨a1, b1⟩ := ih.expr _ _ _ (adv_q hts) h1
      injection h with h; subst h
      exact ⟨.pre _ _ (.inr rfl) a1, b1⟩
  · rename_i n hc
    injection h with h; subst h; exact ⟨.ident _ (cur_q hts hc), adv_q hts⟩
  · -- functie
    have key : ∀ (name : Text) (ts2 : List Token), (name = [] ∨ Q name) → TQ Q ts2 →
          (match skipTok Token.lparen ts2 with
          | Except.ok ts3 =>
            match parseParams (ts3.length + 1) ts3 with
            | Except.ok (ps, ts4) =>
              match skipTok Token.rparen ts4 with
              | Except.ok ts5 =>
                match parseBlock f ts5 with
                | Except.ok (b, ts6) => Except.ok (Expr.func name ps b, ts6)
                | Except.error e => Except.error e
              | Except.error e => Except.error e
            | Except.error e => Except.error e
          | Except.error e => Except.error e) = Except.ok r → PE Q r.1 ∧ TQ Q r.2 := by
      intro name ts2 hname h2ok h
      cases h0 : skipTok .lparen ts2 with
      | error e => rw [h0] at h; cases h
      | ok ts3 =>
        rw [h0] at h; simp only at h
        cases h1 : parseParams (ts3.length + 1) ts3 with
        | error e => rw [h1] at h; cases h
        | ok q =>
          obtain ⟨ps, ts4⟩ := q
          rw [h1] at h; simp only at h
          obtain ⟨hps, h4ok⟩ := params_q _ _ _ h1 (skipTok_q h0 h2ok)
          cases h2 : skipTok .rparen ts4 with
          | error e => rw [h2] at h; cases h
          | ok ts5 =>
            rw [h2] at h; simp only at h
            cases h3 : parseBlock f ts5 with
            | error e => rw [h3] at h; cases h
            | ok q3 =>
              obtain ⟨b, ts6⟩ := q3
              rw [h3] at h
              obtain ⟨a3, b3⟩ := ih.block _ _ (skipTok_q h2 h4ok) h3
              injection h with h; subst h
              exact ⟨.func _ _ _ hname hps a3, b3⟩
    simp only at h
    refine key _ _ ?_ ?_ h
    · split
      · rename_i n hc2; exact .inr (cur_q (adv_q hts) hc2)
      · exact .inl rfl
    · split
      · exact adv_q (adv_q hts)
      · exact adv_q hts
  · cases h1 : parseExpr f 0 (adv ts) with
    | error e => rw [h1] at h; cases h
    | ok q =>
      obtain ⟨c, ts1⟩ := q
      rw [h1] at h
      simp only at h
      obtain ⟨a1, b1⟩ := ih.expr _ _ _ (adv_q hts) h1
      cases h2 : parseBlock f ts1 with
      | error e => rw [h2] at h; cases h
      | ok q2 =>
        obtain ⟨b, ts2⟩ := q2
        rw [h2] at h
        obtain ⟨a2, b2⟩ := ih.block _ _ b1 h2
        injection h with h; subst h
        exact ⟨.whileE _ _ a1 a2, b2⟩
  · cases h1 : parseElems f .rbracket (adv ts) with
    | error e => rw [h1] at h; cases h
    | ok q =>
      obtain ⟨vs, ts1⟩ := q
      rw [h1] at h; simp only at h
      obtain ⟨a1, b1⟩ := ih.elems _ _ _ (adv_q hts) h1
      cases h2 : skipTok .rbracket ts1 with
      | error e => rw [h2] at h; cases h
      | ok ts2 =>
        rw [h2] at h
        injection h with h; subst h
        exact ⟨.arr _ a1, skipTok_q h2 b1⟩
  · cases h
end step

theorem ok_all (Q : Text → Prop) : ∀ f, OK Q f := by
  intro f
  induction f with
  | zero =>
    exact ⟨fun _ _ _ h => by simp [parsePrefix] at h, fun _ _ _ _ h => by simp [parseExpr] at h,
      fun _ _ _ _ _ _ h => by simp [parseLoop] at h, fun _ _ _ _ h => by simp [parseElems] at h,
      fun _ _ _ h => by simp [parseStatement] at h, fun _ _ _ h => by simp [parseBlock] at h,
      fun _ _ _ _ h => by simp [parseStmts] at h⟩
  | succ f ih => exact ⟨pre_succ ih, expr_succ ih, loop_succ ih, elems_succ ih, stmt_succ ih, block_succ ih, stmts_succ ih⟩


/-- every tree `parseTokens` returns has the parser's shape -/
theorem parseTokens_pe (Q : Text → Prop) (ts : List Token) (hts : TQ Q ts) (ast : Block) (h : parseTokens ts = .ok ast) : PB Q ast := by
  unfold parseTokens at h
  cases h1 : parseStmts (parseFuel ts) false ts with
  | error e => rw [h1] at h; cases h
  | ok q =>
    obtain ⟨b, rest⟩ := q
    rw [h1] at h
    injection h with h; subst h
    exact ((ok_all Q _).stmts _ _ _ hts h1).1

/-! ### from the shape to `RTF.WB`: float literals are `LitF` (ParsedFloats) and finite (hypothesis) -/

mutual
theorem we_of_pe : (e : Expr) → PE Q e → e.AllLitF → e.AllFinF → WE e
  | .int v, .int _ h0 h1, _, _ => .int v h0 h1
  | .float x, _, hl, hf => .float x (F64T.floatRT_of_litF x hl hf)
  | .bool b, _, _, _ => .bool b
  | .str s, _, _, _ => .str s
  | .ident n, _, _, _ => .ident n
  | .pre op r, .pre _ _ hop hr, hl, hf => .pre op r hop (we_of_pe r hr hl hf)
  | .infix l op r, .bin _ _ _ hop hfl hpl hpr, hl, hf =>
    .bin l op r hop hfl (we_of_pe l hpl hl.1 hf.1) (we_of_pe r hpr hl.2 hf.2)
  | .assign l r, .assign _ _ ha hpl hpr, hl, hf => .assign l r ha (we_of_pe l hpl hl.1 hf.1) (we_of_pe r hpr hl.2 hf.2)
  | .ifE c t e, .ifE _ _ _ hc ht he, hl, hf =>
    .ifE c t e (we_of_pe c hc hl.1 hf.1) (wb_of_pb t ht hl.2.1 hf.2.1) (wo_of_po e he hl.2.2 hf.2.2)
  | .whileE c b, .whileE _ _ hc hb, hl, hf => .whileE c b (we_of_pe c hc hl.1 hf.1) (wb_of_pb b hb hl.2 hf.2)
  | .func name ps body, .func _ _ _ _ _ hb, hl, hf => .func name ps body (wb_of_pb body hb hl hf)
  | .call f as, .call _ _ hc hpf has, hl, hf => .call f as hc (we_of_pe f hpf hl.1 hf.1) (wes_of_pes as has hl.2 hf.2)
  | .arr vs, .arr _ hvs, hl, hf => .arr vs (wes_of_pes vs hvs hl hf)
  | .index l i, .index _ _ hx hpl hpi, hl, hf => .index l i hx (we_of_pe l hpl hl.1 hf.1) (we_of_pe i hpi hl.2 hf.2)
theorem wes_of_pes : (es : Exprs) → PEs Q es → es.AllLitF → es.AllFinF → WEs es
  | .nil, _, _, _ => .nil
  | .cons e es, .cons _ _ he hes, hl, hf => .cons e es (we_of_pe e he hl.1 hf.1) (wes_of_pes es hes hl.2 hf.2)
theorem ws_of_ps : (s : Stmt) → PS Q s → s.AllLitF → s.AllFinF → WS s
  | .letS n e, .letS _ _ _ he, hl, hf => .letS n e (we_of_pe e he hl hf)
  | .ret e, .ret _ he, hl, hf => .ret e (we_of_pe e he hl hf)
  | .expr e, .expr _ he, hl, hf => .expr e (we_of_pe e he hl hf)
  | .block b, .block _ hb, hl, hf => .block b (wb_of_pb b hb hl hf)
  | .brk, _, _, _ => .brk
  | .cont, _, _, _ => .cont
theorem wb_of_pb : (b : Block) → PB Q b → b.AllLitF → b.AllFinF → WB b
  | .nil, _, _, _ => .nil
  | .cons s b, .cons _ _ hs hb, hl, hf => .cons s b (ws_of_ps s hs hl.1 hf.1) (wb_of_pb b hb hl.2 hf.2)
theorem wo_of_po : (o : OptBlock) → PO Q o → o.AllLitF → o.AllFinF → WO o
  | .none, _, _, _ => .none
  | .some b, .some _ hb, hl, hf => .some b (wb_of_pb b hb hl hf)
end

/-! ### THE RANGE OF THE PARSER -/

/-- PARSER RANGE (token level): whatever `parseTokens` returns from a token list whose float tokens
    start with a digit (all the lexer makes) is a tree "the parser can produce" in the sense of
    `RTF.WB` — integer literals in `0..MAX_INT`, prefix operators `!`/`-` only, the 13 binary
    operators with a non-function left operand, assignment targets / call targets / index bases
    exactly as `assignable`/`callable`/`indexable`, `x op= e` as `x = x op e` — provided no float
    literal of it is `+∞` (a literal of ≥ 309 digits; its printed form `inf.0` is not a number,
    `F64T.not_floatRT_inf`, so this is exactly what has to be excluded) -/
theorem parseTokens_range (ts : List Token) (hts : ParsedFloats.TsOK ts) (ast : Block) (h : parseTokens ts = .ok ast)
    (hfin : ast.AllFinF) : RTF.WB ast :=
  wb_of_pb ast (parseTokens_pe (fun _ => True) ts (fun _ _ => True.intro) ast h)
    (ParsedFloats.parseTokens_allLitF ts hts ast h) hfin

/-- PARSER RANGE (source level), for every character-class table and every source text -/
theorem parse_range (cc : CharClass) (src : Text) (ast : Block) (h : parse cc src = .ok ast) (hfin : ast.AllFinF) : RTF.WB ast :=
  parseTokens_range (lex cc src) (ParsedFloats.lex_tokens_ok cc src) ast h hfin

/-- PARSING IS A RETRACTION OF PRINTING ON ALL PARSED PROGRAMS: every program that parses, printed
    canonically and parsed again, gives the same tree — the printed form is a normal form -/
theorem parse_print_parse (cc : CharClass) (src : Text) (ast : Block) (h : parse cc src = .ok ast) (hfin : ast.AllFinF) :
    parseTokens (printProgram ast) = .ok ast :=
  RTF.print_parse_program ast (parse_range cc src ast h hfin)

theorem parseTokens_print_parse (ts : List Token) (hts : ParsedFloats.TsOK ts) (ast : Block) (h : parseTokens ts = .ok ast)
    (hfin : ast.AllFinF) : parseTokens (printProgram ast) = .ok ast :=
  RTF.print_parse_program ast (parseTokens_range ts hts ast h hfin)

/-- the canonical print is injective on parsed programs: two source texts have the same tree iff
    they have the same canonical token sequence -/
theorem same_tree_iff_same_print (cc : CharClass) (src1 src2 : Text) (a1 a2 : Block)
    (h1 : parse cc src1 = .ok a1) (h2 : parse cc src2 = .ok a2) (f1 : a1.AllFinF) (f2 : a2.AllFinF) :
    a1 = a2 ↔ printProgram a1 = printProgram a2 := by
  constructor
  · intro e; rw [e]
  · intro e
    have p1 := parse_print_parse cc src1 a1 h1 f1
    have p2 := parse_print_parse cc src2 a2 h2 f2
    rw [e, p2] at p1
    injection p1 with p1
    exact p1.symm


/-! ### TEXT level: the canonical print of a parsed program is spellable -/

/-- the spelling of a float token the lexer can read back: `digit digits . digits` -/
def FShape (s : Text) : Prop :=
  ∃ c a b, s = c :: a ++ '.' :: b ∧ isDigit c = true ∧ a.all isDigit = true ∧ b.all isDigit = true

theorem all_digits {d : Text} (h : ∀ c ∈ d, c.isDigit = true) : d.all isDigit = true :=
  List.all_eq_true.2 h

theorem shape_nodot (d : Text) (hne : d ≠ []) (hall : ∀ c ∈ d, c.isDigit = true) :
    FShape (if d.contains '.' then d else d ++ ".0".toList) := by
  have hc : d.contains '.' = false := by
    cases hcc : d.contains '.' with
    | false => rfl
    | true =>
      have hm : '.' ∈ d := by simpa using hcc
      have := hall '.' hm
      revert this; decide
  rw [hc]
  simp only [Bool.false_eq_true, ↓reduceIte]
  cases d with
  | nil => exact absurd rfl hne
  | cons c a =>
    refine ⟨c, a, ['0'], rfl, hall c List.mem_cons_self, all_digits (fun x hx => hall x (List.mem_cons_of_mem _ hx)), by decide⟩

theorem shape_dot (a b : Text) (hne : a ≠ []) (ha : ∀ c ∈ a, c.isDigit = true) (hb : ∀ c ∈ b, c.isDigit = true) :
    FShape (if (a ++ '.' :: b).contains '.' then a ++ '.' :: b else (a ++ '.' :: b) ++ ".0".toList) := by
  have hc : (a ++ '.' :: b).contains '.' = true := by simp
  rw [hc]
  simp only [↓reduceIte]
  cases a with
  | nil => exact absurd rfl hne
  | cons c a' =>
    exact ⟨c, a', b, rfl, ha c List.mem_cons_self, all_digits (fun x hx => ha x (List.mem_cons_of_mem _ hx)), all_digits hb⟩

theorem render_shape (q : Nat) (p : Int) :
    FShape (if (F64T.render (F64T.signText false) q p).contains '.' then F64T.render (F64T.signText false) q p
      else F64T.render (F64T.signText false) q p ++ ".0".toList) := by
  have hds := F64T.natToDigits_digit q
  have hne := F64T.natToDigits_ne_nil q
  by_cases hp : p ≥ 0
  · have e : F64T.render (F64T.signText false) q p = natToDigits q ++ List.replicate p.toNat '0' := by
      unfold F64T.render F64T.signText; simp [hp]
    rw [e]
    refine shape_nodot _ (by simp [hne]) ?_
    intro c hc
    rcases List.mem_append.1 hc with h | h
    · exact hds c h
    · exact F64T.replicate_zero_digit _ c h
  · by_cases hk : (natToDigits q).length > (-p).toNat
    · have e : F64T.render (F64T.signText false) q p
          = (natToDigits q).take ((natToDigits q).length - (-p).toNat) ++ '.' :: (natToDigits q).drop ((natToDigits q).length - (-p).toNat) := by
        unfold F64T.render F64T.signText; simp [hp, hk]
      rw [e]
      refine shape_dot _ _ ?_ (fun c hc => hds c (List.mem_of_mem_take hc)) (fun c hc => hds c (List.mem_of_mem_drop hc))
      intro h0
      have := congrArg List.length h0
      simp only [List.length_take, List.length_nil] at this
      omega
    · have e : F64T.render (F64T.signText false) q p
          = ['0'] ++ '.' :: (List.replicate ((-p).toNat - (natToDigits q).length) '0' ++ natToDigits q) := by
        have : "0.".toList = ['0', '.'] := rfl
        unfold F64T.render F64T.signText; simp [hp, hk, this]
      rw [e]
      refine shape_dot _ _ (by simp) (fun c hc => by simp at hc; subst hc; decide) ?_
      intro c hc
      rcases List.mem_append.1 hc with h | h
      · exact F64T.replicate_zero_digit _ c h
      · exact hds c h

/-- the literal spelling of every finite, non-negative, non-NaN float is a float token the lexer reads back -/
theorem floatLit_shape (x : UInt64) (h : SimH.LitF x) (hfin : isInf x = false) : FShape (floatLit x) := by
  obtain ⟨hneg, hnan⟩ := h
  unfold floatLit
  simp only
  by_cases h3 : isZero x = true
  · rw [F64T.toDecimal_zero x hnan hfin h3, hneg]
    have e : F64T.signText false ++ ['0'] = ['0'] := rfl
    rw [e]
    exact shape_nodot ['0'] (by simp) (fun c hc => by simp at hc; subst hc; decide)
  · have h3' : isZero x = false := by simpa using h3
    rw [F64T.toDecimal_finite x hnan hfin h3', hneg]
    exact render_shape _ _


/-- a spellable identifier: identifier characters, not a keyword -/
def WFI (cc : CharClass) (n : Text) : Prop := LR.WFTok cc (.ident n)

def AllWF (cc : CharClass) (ts : List Token) : Prop := ∀ t ∈ ts, LR.WFTok cc t

section wf
variable {cc : CharClass}

theorem allwf_nil : AllWF cc [] := fun _ h => by cases h

theorem allwf_cons {t : Token} {ts : List Token} (ht : LR.WFTok cc t) (h : AllWF cc ts) : AllWF cc (t :: ts) := by
  intro x hx
  rcases List.mem_cons.1 hx with e | e
  · subst e; exact ht
  · exact h x e

theorem allwf_single {t : Token} (ht : LR.WFTok cc t) : AllWF cc [t] := allwf_cons ht allwf_nil

theorem allwf_append {a b : List Token} (ha : AllWF cc a) (hb : AllWF cc b) : AllWF cc (a ++ b) := by
  intro x hx
  rcases List.mem_append.1 hx with e | e
  · exact ha x e
  · exact hb x e

theorem allwf_ite {c : Prop} [Decidable c] {a b : List Token} (ha : AllWF cc a) (hb : AllWF cc b) :
    AllWF cc (if c then a else b) := by
  split
  · exact ha
  · exact hb

theorem allwf_paren {ts : List Token} (h : AllWF cc ts) : AllWF cc (paren ts) :=
  allwf_cons True.intro (allwf_append h (allwf_single True.intro))

theorem allwf_braces {ts : List Token} (h : AllWF cc ts) : AllWF cc (braces ts) :=
  allwf_cons True.intro (allwf_append h (allwf_single True.intro))

theorem wf_int (n : Nat) : LR.WFTok cc (.int (natToDec n)) := by
  obtain ⟨_, hall, hne⟩ := C14.natToDec_spec n
  cases hx : natToDec n with
  | nil => exact absurd hx hne
  | cons c cs =>
    rw [hx] at hall
    simp only [List.all_cons, Bool.and_eq_true] at hall
    exact ⟨c, cs, rfl, hall.1, hall.2⟩

theorem wf_str (s : Text) : LR.WFTok cc (.str (escape s)) := fun r => LR.scanStr_escape s r

theorem wf_op (op : Op) : LR.WFTok cc (opToken op) := by
  cases op <;> exact True.intro

theorem wf_params : ∀ (ps : List Text), (∀ p ∈ ps, WFI cc p) → AllWF cc (printParams ps)
  | [], _ => allwf_nil
  | q :: ps, h =>
    allwf_cons (h q List.mem_cons_self) (allwf_cons True.intro (wf_params ps (fun p hp => h p (List.mem_cons_of_mem _ hp))))

theorem wf_fname (name : Text) (h : name = [] ∨ WFI cc name) : AllWF cc (if name.isEmpty then [] else [.ident name]) := by
  rcases h with rfl | h
  · exact allwf_nil
  · exact allwf_ite allwf_nil (allwf_single h)

end wf

mutual
theorem wfE (cc : CharClass) : (e : Expr) → PE (WFI cc) e → e.AllLitF → e.AllFinF → AllWF cc (printE e)
  | .int v, _, _, _ => by simp only [printE]; exact allwf_single (wf_int _)
  | .float x, _, hl, hf => by simp only [printE]; exact allwf_single (floatLit_shape x hl hf)
  | .bool b, _, _, _ => by cases b <;> exact allwf_single True.intro
  | .str s, _, _, _ => by simp only [printE]; exact allwf_single (wf_str s)
  | .ident n, .ident _ hq, _, _ => by simp only [printE]; exact allwf_single hq
  | .pre op r, .pre _ _ _ hr, hl, hf => by
    have a := wfE cc r hr hl hf
    simp only [printE]
    exact allwf_cons (wf_op op) (allwf_ite a (allwf_paren a))
  | .infix l op r, .bin _ _ _ _ _ hpl hpr, hl, hf => by
    have a := wfE cc l hpl hl.1 hf.1
    have b := wfE cc r hpr hl.2 hf.2
    simp only [printE]
    exact allwf_append (allwf_append (allwf_ite (allwf_paren a) a) (allwf_single (wf_op op))) (allwf_ite (allwf_paren b) b)
  | .assign l r, .assign _ _ _ hpl hpr, hl, hf => by
    have a := wfE cc l hpl hl.1 hf.1
    have b := wfE cc r hpr hl.2 hf.2
    rw [RTF.print_assign]
    exact allwf_append (allwf_append a (allwf_single True.intro)) (allwf_ite (allwf_paren b) b)
  | .ifE c t e, .ifE _ _ _ hc ht he, hl, hf => by
    have a := wfE cc c hc hl.1 hf.1
    have b := wfB cc t ht hl.2.1 hf.2.1
    have d := wfO cc e he hl.2.2 hf.2.2
    simp only [printE]
    exact allwf_append (allwf_append (allwf_append (allwf_single True.intro) a) (allwf_braces b)) d
  | .whileE c b, .whileE _ _ hc hb, hl, hf => by
    have a := wfE cc c hc hl.1 hf.1
    have d := wfB cc b hb hl.2 hf.2
    simp only [printE]
    exact allwf_append (allwf_append (allwf_single True.intro) a) (allwf_braces d)
  | .func name ps body, .func _ _ _ hn hps hb, hl, hf => by
    have d := wfB cc body hb hl hf
    simp only [printE]
    exact allwf_append (allwf_append (allwf_append (allwf_append (allwf_append (allwf_single True.intro) (wf_fname name hn))
      (allwf_single True.intro)) (wf_params ps hps)) (allwf_single True.intro)) (allwf_braces d)
  | .call f as, .call _ _ _ hpf has, hl, hf => by
    have a := wfE cc f hpf hl.1 hf.1
    have b := wfEs cc as has hl.2 hf.2
    simp only [printE]
    exact allwf_append (allwf_append (allwf_append a (allwf_single True.intro)) b) (allwf_single True.intro)
  | .arr vs, .arr _ hvs, hl, hf => by
    have b := wfEs cc vs hvs hl hf
    simp only [printE]
    exact allwf_append (allwf_append (allwf_single True.intro) b) (allwf_single True.intro)
  | .index l i, .index _ _ _ hpl hpi, hl, hf => by
    have a := wfE cc l hpl hl.1 hf.1
    have b := wfE cc i hpi hl.2 hf.2
    simp only [printE]
    exact allwf_append (allwf_append (allwf_append a (allwf_single True.intro)) b) (allwf_single True.intro)
theorem wfEs (cc : CharClass) : (es : Exprs) → PEs (WFI cc) es → es.AllLitF → es.AllFinF → AllWF cc (printArgs es)
  | .nil, _, _, _ => by simp only [printArgs]; exact allwf_nil
  | .cons e es, .cons _ _ he hes, hl, hf => by
    have a := wfE cc e he hl.1 hf.1
    have b := wfEs cc es hes hl.2 hf.2
    simp only [printArgs]
    exact allwf_append (allwf_append a (allwf_single True.intro)) b
theorem wfS (cc : CharClass) : (s : Stmt) → PS (WFI cc) s → s.AllLitF → s.AllFinF → AllWF cc (printS s)
  | .letS n e, .letS _ _ hq he, hl, hf => by
    have a := wfE cc e he hl hf
    simp only [printS]
    exact allwf_append (allwf_append (allwf_cons True.intro (allwf_cons hq (allwf_single True.intro))) a) (allwf_single True.intro)
  | .ret e, .ret _ he, hl, hf => by
    have a := wfE cc e he hl hf
    simp only [printS]
    exact allwf_append (allwf_append (allwf_single True.intro) a) (allwf_single True.intro)
  | .expr e, .expr _ he, hl, hf => by
    have a := wfE cc e he hl hf
    simp only [printS]
    exact allwf_append a (allwf_single True.intro)
  | .block b, .block _ hb, hl, hf => by
    have a := wfB cc b hb hl hf
    simp only [printS]
    exact allwf_append (allwf_braces a) (allwf_single True.intro)
  | .brk, _, _, _ => by simp only [printS]; exact allwf_cons True.intro (allwf_single True.intro)
  | .cont, _, _, _ => by simp only [printS]; exact allwf_cons True.intro (allwf_single True.intro)
theorem wfB (cc : CharClass) : (b : Block) → PB (WFI cc) b → b.AllLitF → b.AllFinF → AllWF cc (printStmts b)
  | .nil, _, _, _ => by simp only [printStmts]; exact allwf_nil
  | .cons s b, .cons _ _ hs hb, hl, hf => by
    have a := wfS cc s hs hl.1 hf.1
    have d := wfB cc b hb hl.2 hf.2
    simp only [printStmts]
    exact allwf_append a d
theorem wfO (cc : CharClass) : (o : OptBlock) → PO (WFI cc) o → o.AllLitF → o.AllFinF → AllWF cc (printO o)
  | .none, _, _, _ => by simp only [printO]; exact allwf_nil
  | .some b, .some _ hb, hl, hf => by
    have a := wfB cc b hb hl hf
    simp only [printO]
    exact allwf_append (allwf_single True.intro) (allwf_braces a)
end

/-- identifiers that come out of the lexer are spellable (`LC.lex_wf`) -/
theorem lex_tq (cc : CharClass) (src : Text) : TQ (WFI cc) (lex cc src) :=
  fun n hn => LC.lex_wf cc src (.ident n) hn (by intro h; cases h)

/-- THE SPELLABILITY HYPOTHESIS OF THE TEXT ROUND TRIP IS A THEOREM FOR PARSED PROGRAMS: every token
    of the canonical print of a parsed program is one the lexer reads back from its spelling -/
theorem print_wf (cc : CharClass) (src : Text) (ast : Block) (h : parse cc src = .ok ast) (hfin : ast.AllFinF) :
    ∀ t ∈ printProgram ast, LR.WFTok cc t :=
  wfB cc ast (parseTokens_pe (WFI cc) (lex cc src) (lex_tq cc src) ast h) (ParsedFloats.parse_allLitF cc src ast h) hfin

/-- TEXT-LEVEL NORMAL FORM: every program that parses, printed canonically, spelled as text under ANY
    layout (`ks`: no blanks where maximal munch allows, any whitespace, comments) and parsed again,
    gives the same tree -/
theorem parse_render_print (cc : CharClass) (hcc : LR.CCWF cc) (src : Text) (ast : Block) (h : parse cc src = .ok ast)
    (hfin : ast.AllFinF) (ks : List Nat) : parse cc (render (printProgram ast) ks) = .ok ast :=
  by
    unfold parse
    rw [C08.C08_lex_render cc hcc _ ks (print_wf cc src ast h hfin)]
    exact RTF.print_parse_program ast (parse_range cc src ast h hfin)

/-- two texts — differing e.g. only in layout, comments, redundant parentheses, optional `;`/`,`,
    `x += e` for `x = x + e` — denote the same tree iff their canonical texts (any one layout) coincide -/
theorem same_tree_iff_same_canonical_text (cc : CharClass) (hcc : LR.CCWF cc) (src1 src2 : Text) (a1 a2 : Block)
    (h1 : parse cc src1 = .ok a1) (h2 : parse cc src2 = .ok a2) (f1 : a1.AllFinF) (f2 : a2.AllFinF) (ks : List Nat) :
    a1 = a2 ↔ render (printProgram a1) ks = render (printProgram a2) ks := by
  constructor
  · intro e; rw [e]
  · intro e
    have p1 := parse_render_print cc hcc src1 a1 h1 f1 ks
    have p2 := parse_render_print cc hcc src2 a2 h2 f2 ks
    rw [e, p2] at p1
    injection p1 with p1
    exact p1.symm


/-! ### the finiteness hypothesis is necessary: the one gap between the parser's range and `RTF.WB` -/

/-- the literal `2` followed by 308 zeros and `.0` (2·10^308 > the largest finite double) -/
def bigLit : Text := '2' :: List.replicate 308 '0' ++ ['.', '0']

/-- the program `2000…0.0;` as a tree: the single float literal `+∞` -/
def infProgram : Block := .cons (.expr (.float (inf false))) .nil

set_option exponentiation.threshold 4096 in
set_option maxRecDepth 100000 in
theorem parseDec_bigLit : parseDec bigLit = some (inf false) := by decide

theorem parseFloatLit_bigLit : parseFloatLit bigLit = .float (inf false) := by
  unfold parseFloatLit; rw [parseDec_bigLit]

theorem parseTokens_bigLit : parseTokens [.float bigLit] = .ok infProgram := by
  simp [parseTokens, parseFuel, parseStmts, parseStatement, parseExpr, parsePrefix, parseLoop, cur, adv,
    parseFloatLit_bigLit, skipOpt, Token.prec, infProgram]

theorem infProgram_not_wb : ¬ RTF.WB infProgram := by
  intro h
  cases h with
  | cons _ _ hs _ =>
    cases hs with
    | expr _ he =>
      cases he with
      | float _ hf => exact F64T.not_floatRT_inf hf

theorem parseFloatLit_inf_spelling : parseFloatLit (floatLit (inf false)) = .float 0 := by
  have h : parseDec (floatLit (inf false)) = none := by decide
  unfold parseFloatLit; rw [h]

/-- the printed form of the `+∞` literal reads back as the number 0: the round trip really fails there -/
theorem infProgram_print_parse : parseTokens (printProgram infProgram) = .ok (.cons (.expr (.float 0)) .nil) := by
  simp [parseTokens, parseFuel, parseStmts, parseStatement, parseExpr, parsePrefix, parseLoop, cur, adv,
    parseFloatLit_inf_spelling, skipOpt, infProgram, printProgram, printStmts, printS, printE]

/-- COUNTEREXAMPLE (token level): a token list the lexer can produce, accepted by the parser, whose tree
    is not in `RTF.WB` and is not reproduced by print → parse -/
theorem range_gap_tokens :
    ParsedFloats.TsOK [.float bigLit] ∧ parseTokens [.float bigLit] = .ok infProgram ∧ ¬ RTF.WB infProgram ∧
      parseTokens (printProgram infProgram) ≠ .ok infProgram := by
  refine ⟨?_, parseTokens_bigLit, infProgram_not_wb, ?_⟩
  · intro t ht
    simp only [List.mem_singleton] at ht
    subst ht
    exact ⟨'2', _, rfl, by decide⟩
  · rw [infProgram_print_parse]
    intro h
    injection h with h
    unfold infProgram at h
    injection h with h _
    injection h with h
    injection h with h
    revert h; decide

theorem bigLit_wf (cc : CharClass) : LR.WFTok cc (.float bigLit) :=
  ⟨'2', List.replicate 308 '0', ['0'], rfl, by decide, all_digits (F64T.replicate_zero_digit 308), by decide⟩

/-- COUNTEREXAMPLE (source level), for every character-class table and every layout: the source text
    `2000…0.0` (309 digits) parses to a tree outside `RTF.WB`; so `AllFinF` is exactly what
    `parse_range` and `parse_print_parse` have to exclude -/
theorem range_gap_source (cc : CharClass) (hcc : LR.CCWF cc) (ks : List Nat) :
    parse cc (render [.float bigLit] ks) = .ok infProgram ∧ ¬ infProgram.AllFinF ∧ ¬ RTF.WB infProgram ∧
      parseTokens (printProgram infProgram) ≠ .ok infProgram := by
  refine ⟨?_, ?_, infProgram_not_wb, range_gap_tokens.2.2.2⟩
  · unfold parse
    rw [C08.C08_lex_render cc hcc _ ks (by
      intro t ht
      simp only [List.mem_singleton] at ht
      subst ht
      exact bigLit_wf cc)]
    exact parseTokens_bigLit
  · intro h
    have h' : isInf (inf false) = false := h.1
    revert h'; decide

end PR
end Nl
