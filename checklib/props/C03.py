"""C03 — a value that is still reachable is never reclaimed."""
import itertools

from .. import core, diff, gen
from ..core import hx
from .common_diff import run_cases, generic_replay

PROOF_MODULE = "Nlmodel.Proofs.C03"
PROOF_FILES = ["Nlmodel/Proofs/C03.lean", "Nlmodel/Proofs/Lemmas/GCMark.lean", "Nlmodel/Proofs/Lemmas/GCReach.lean", "Nlmodel/Model/GC.lean"]
THEOREM_FILE = PROOF_FILES[0]
LEVEL_TEXT = ("Lean theorems about the collector model (mirror of gc.rs after its repair; mark = recursive descent through arrays with the already-marked test, sweep = release exactly the unmarked managed objects): with the fuel the collector supplies, the mark phase reaches EVERY managed object reachable from the roots through nested, aliased and cyclic arrays (measure: number of unmarked managed objects); after a collection every reachable managed object is still managed with identical contents and unmanaged objects are untouched; the managed list never holds an address twice across allocation, collection and hand-over, so no object is released twice. Tied to gc.rs by (i) collector operation sequences (allocate float/string/array, link into array incl. cycles, collect with a chosen root set, hand over, destroy) run on the REAL GC and on the model, comparing after every operation which objects are still allocated and which are managed - complete enumeration up to a length bound, random beyond; (ii) whole allocating programs: the number of objects kept and released by every collection of the real VM equals the model's; (iii) a shadow heap in object.rs that turns any use of a released box or a second release into a reported event. RUN LEVEL, ALL PROGRAMS: type soundness of the machine's values in every reachable state (TI.exec_wt over all instructions, ghost kind map) discharges the side conditions of the collector theorems, so C03_every_return_of_every_run_keeps_reachable holds at every collection point of every run with no hypothesis on the heap; and C03_no_dangling_reference: in every state a run of any program on a fresh machine passes through, every value the machine holds and every element of every unreleased array points to an unreleased cell, and every unreleased cell is managed (ND.exec_ok over all instructions, ND.post_gc for collections) - the model's form of 'no program ever observes a freed object'.")
LEVEL_NOTE = ("Trusted: Lean kernel; the allocator (fresh addresses; reuse is below the model); that the VM passes all of its roots at each collection is checked by the per-collection correspondence and the shadow heap, the machine-level invariant 'no value the machine holds points to a released cell' IS a theorem for every reachable state of every program on a fresh machine (C03_no_dangling_reference); 'no object is released twice' is a theorem at the level of single frees: every free of every sweep and of the final drop hits a live cell of a duplicate-free list, in every reachable state, sessions included (C03_every_sweep_frees_live_cells, C03_managed_cells_are_live, Lemmas/Ledger.lean).")
TECHNIQUE = "Lean 4 proof (mark completeness with cycles, collection preserves reachable, no double release) + collector op-sequence and per-collection correspondence with shadow heap"
RULE = ("collector op sequences over a small object universe: complete enumeration up to length 4 (quick) / 5 (thorough) from a seeded prefix, "
        "random sequences up to length 14; allocating programs biased to nested/aliased/cyclic arrays and calls inside array literals and "
        "argument lists; non-trivial = distinct sequence/program whose live/managed sets or per-collection counts were compared")
EXHAUSTIVE = True


def op_choices(n, arrays):
    """ops applicable with n objects, `arrays` = ids of arrays"""
    last = n - 1
    ids = sorted(set([0, last]) if n > 0 else [])
    ops = ["F", "S", "A:-"]
    if n > 0:
        ops += ["A:%d" % last, "A:0,%d" % last]
        ops += ["R:-", "R:%d" % last, "R:0", "U:%d" % last, "U:0"]
        for a in arrays[-2:]:
            for j in ids:
                ops.append("L:%d:%d" % (a, j))
        if arrays:
            ops.append("R:%d" % arrays[0])
    ops.append("D")
    return ops


def enum_seqs(prefix, n0, arrays0, depth):
    out = []

    def go(seq, n, arrays, d):
        out.append(seq)
        if d == 0:
            return
        for op in op_choices(n, arrays):
            n2, arr2 = n, arrays
            if op[0] in "FSA":
                if op[0] == "A":
                    arr2 = arrays + [n]
                n2 = n + 1
            go(seq + [op], n2, arr2, d - 1)
    go(list(prefix), n0, list(arrays0), depth)
    return out


def random_seq(rng):
    seq, n, arrays = [], 0, []
    for _ in range(rng.range(3, 14)):
        c = rng.below(10)
        if n == 0 or c < 2:
            seq.append(rng.pick(["F", "S"]))
            n += 1
        elif c < 4:
            k = rng.below(4)
            seq.append("A:" + (",".join(str(rng.below(n)) for _ in range(k)) if k else "-"))
            arrays.append(n)
            n += 1
        elif c < 6 and arrays:
            seq.append("L:%d:%d" % (rng.pick(arrays), rng.below(n)))
        elif c < 8:
            k = rng.below(3)
            seq.append("R:" + (",".join(str(rng.below(n)) for _ in range(k)) if k else "-"))
        elif c == 8:
            seq.append("U:%d" % rng.below(n))
        else:
            seq.append(rng.pick(["D", "F"]))
            if seq[-1] == "F":
                n += 1
    return seq


def heap_program(rng):
    """programs that keep heap values alive across collections in every kind of root"""
    lines = ['stel g = [1.5, "s", [2.5]];', "stel alias = g;", 'functie mk(n) { [n, "x", 0.5 + 1.0] };',
             "functie idf(x) { x };", "functie deep(n) { als n < 1 { antwoord [\"leaf\"] }; [deep(n - 1), n] };"]
    vis = ["g", "alias"]
    for _ in range(rng.range(3, 10)):
        c = rng.below(12)
        v = rng.pick(vis)
        if c == 0:
            lines.append("stel v%d = [mk(%d), idf(%s), mk(%d)];" % (len(vis), rng.below(9), v, rng.below(9)))
            vis.append("v%d" % (len(vis)))
        elif c == 1:
            lines.append("stel v%d = idf(mk(%d));" % (len(vis), rng.below(9)))
            vis.append("v%d" % (len(vis)))
        elif c == 2:
            lines.append("%s[0] = %s;" % (v, rng.pick(vis)))          # aliasing / cycles
        elif c == 3:
            lines.append("stel v%d = deep(%d);" % (len(vis), rng.below(5)))
            vis.append("v%d" % (len(vis)))
        elif c == 4:
            lines.append("print(idf(%s), mk(1));" % v)
        elif c == 5:
            lines.append("idf(1.5) + idf(2.5) * idf(mk(3)[2]);")
        elif c == 6:
            lines.append("%s = mk(%d);" % (v, rng.below(9)))
        elif c == 7:
            lines.append("stel i%d = 0; zolang i%d < 3 { i%d += 1; %s = [idf(%s), string(i%d)]; };" % ((len(vis),) * 3 + (v, rng.pick(vis), len(vis))))
        elif c == 8:
            lines.append("functie h%d(a, b) { stel t = [a, b]; idf(t); [t, idf(a)] }; stel v%d = h%d(%s, mk(2));" % (len(vis), len(vis), len(vis), v))
            vis.append("v%d" % (len(vis)))
        elif c == 9:
            lines.append("stel s%d = string(idf(1.25)); s%d[0] = s%d;" % ((len(vis),) * 3))
        elif c == 10:
            lines.append("lengte(idf([mk(1), mk(2)])) + lengte(idf(\"abc\"));")
        else:
            lines.append("idf(%s);" % v)
    lines.append("[%s]" % ", ".join(rng.pick(vis) for _ in range(3)))
    return "\n".join(lines)


def root_matrix():
    """every place a live value can sit when a collection runs (the machine's root groups: operand
    stack incl. suspended frames' locals and pending operands, constants, globals, the last-popped
    register, the value being returned) x every way a function returns (`Return` / `ReturnValue`,
    with and without allocation inside) x fresh heap values of every kind; more allocation follows
    the call so that a wrongly released box is reused before the root is observed"""
    fresh = ["2.5 * 3.0", "string(42)", '"a" + "b"', "[1.5 + 1.0]", "[[2.5 * 2.0], string(7)]"]
    fkinds = ["functie f() { stel t = 1.5 * 2.0 }", "functie f() { }", "functie f() { 1 }", "functie f() { antwoord [9.5 + 0.0] }",
              "functie f() { stel t = [0.5 + 0.5]; zolang nee { } }", "functie f() { stel t = string(5); als nee { 1 } }"]
    alloc = ["6.0 * 7.0", "string(99)", "[8.5 - 0.5]"]
    out = []
    # DEPTH: the collecting call is made directly (`f()`: the collection runs while returning into the frame that holds the
    # root) or through two intermediate functions (`m2()` -> `m1()` -> `f()`: the collections run while returning into
    # frames ABOVE the one that holds the root, whose part of the stack lies below their base pointer)
    deep = "functie m1() { stel q = f(); stel h = string(3); 0 }\nfunctie m2() { stel h = [0.25 + 0.25]; m1(); m1(); 0 }"
    for depth, call, pre in (("", "f()", ""), ("-deep", "m2()", deep)):
        for vi, v in enumerate(fresh):
            for fi, f in enumerate(fkinds):
                a = alloc[(vi + fi) % len(alloc)]
                a2 = alloc[(vi + fi + 1) % len(alloc)]
                f = f + ";\n" + pre if pre else f
                c = call
                out.append(("root-last" + depth, "%s;\n%s;\n%s;\nstel x = %s;\nstel y = %s;\nstel z = %s;" % (f, "stel w = 0", v, c, a, a2)))
                out.append(("root-last-fn" + depth, "%s;\nfunctie o() { %s; stel x = %s; stel y = %s }\no();" % (f, v, c, a)))
                out.append(("root-global" + depth, "%s;\nstel g = %s;\n%s;\nstel y = %s;\nstel z = %s;\ng" % (f, v, c, a, a2)))
                out.append(("root-local" + depth, "%s;\nfunctie o() { stel l = %s; %s; stel y = %s; stel z = %s; l }\no()" % (f, v, c, a, a2)))
                out.append(("root-param" + depth, "%s;\nfunctie o(p) { %s; stel y = %s; stel z = %s; p }\no(%s)" % (f, c, a, a2, v)))
                out.append(("root-pending" + depth, "%s;\n[%s, %s, %s, %s]" % (f, v, c, a, a2)))
                out.append(("root-pending-fn" + depth, "%s;\nfunctie o() { [%s, %s, %s, %s] }\n[%s, o(), %s]" % (f, v, c, a, a2, v, a)))
                out.append(("root-argument" + depth, "%s;\nfunctie k(a, b, c) { [a, c] }\nk(%s, %s, %s)" % (f, v, c, a)))
                out.append(("root-returned" + depth, "%s;\nfunctie r() { stel q = %s; %s }\n[r(), %s, %s]" % (f, c, v, c, a)))
                out.append(("root-element" + depth, "%s;\nstel g = [0, [0]];\ng[1][0] = %s;\n%s;\nstel y = %s;\ng" % (f, v, c, a)))
                out.append(("root-caller-chain" + depth, "%s;\nfunctie o1() { stel l1 = %s; stel r = o2(); [l1, r] }\nfunctie o2() { stel l2 = %s; %s; stel y = %s; [l2, y] }\n[%s, o1(), %s]" % (f, v, a, c, a2, v, a)))
    return out


def run(res, tier, rng, table_diffs=()):
    seqs = enum_seqs(["F", "S", "A:0,1"], 3, [2], 3 if tier == "quick" else 4)
    seqs += enum_seqs([], 0, [], 4 if tier == "quick" else 5)
    for _ in range(2000 if tier == "quick" else 40000):
        seqs.append(random_seq(rng))
    reqs = ["gcops " + " ".join(s) for s in seqs if s]
    ia = core.impl(reqs)
    ma = core.model(reqs)
    bad = 0
    for q, i, m in zip(reqs, ia, ma):
        res.seen(q)
        res.count("gcops-len-%d" % min(len(q.split(" ")) - 1, 8))
        st = diff.stats(i)
        oracle_bad = i.startswith(("PANIC", "CRASH", "TIMEOUT")) or (st and (st.get("dfree", "0") != "0" or st.get("uaf", "0") != "0" or st.get("final", "0") != "0" or st.get("afterdrop", "0") != diff.stats(m).get("afterdrop", "0")))
        if (oracle_bad or i != m) and bad < 4:
            bad += 1
            # does the implementation itself lose a reachable object / release twice? (PANIC = use of a released object)
            res.violation("the collector released a reachable object, released an object twice, or kept garbage" if oracle_bad or "DEAD" in i or "live=" in i
                          else "collector model differs from gc.rs",
                          dict(kind="gcops", input=q, impl=i, model=m, unchecked="correspondence Model/GC vs gc.rs (theorems of Proofs/C03)"),
                          no_input=False)
    cases = []
    for _ in range(400 if tier == "quick" else 8000):
        cases.append(("heap-program", heap_program(rng.fork())))
    directed = ['functie f() { "abc" } f()', 'stel a = [1.5, "x"]; functie g() { a } g(); a[1]', "stel a = [1]; a[0] = a; functie f() { 0 } f(); a",
                "functie f(x) { x } [f(1.5), f(\"s\"), f([2.5])]", "functie f(x) { x } f(f(f([f(1.5)])))", "functie f() { [1.5] } stel r = f(); f(); f(); r",
                'stel s = "a"; functie f() { s[0] = s; 0 } f(); f(); s', "functie f(a, b) { a } f([1.5], f([2.5], 0))",
                "stel keep = []; functie push(x) { keep = [keep, x]; 0 } push(1.5); push(\"s\"); push([2.5]); keep",
                "functie f() { 1.5 } 1.0 + f() + f() * f()", "functie f() { \"x\" } print(f(), f(), f()); f()"]
    for d in directed:
        cases.append(("directed", d))
    from .. import gen2
    for d in gen2.deep_tower_programs():
        cases.append(("deep-tower", d))
    for d in gen2.alias_multiplicity_programs():
        cases.append(("alias-multiplicity", d))
    cases += root_matrix()
    # THE SAME CONSTRUCTOR EVALUATED AGAIN after its first value died and a collection ran: an implementation that remembers
    # "the" empty list / empty text / a small constant object somewhere the collector does not see hands out a released object
    for lit in ["[]", '""', "[[]]", '[""]', "1.5", '"s"', "[1]", "[[], []]", '"" + ""', "[] == []"]:
        for k in (1, 2, 3):
            calls = " ".join("g();" for _ in range(k))
            cases.append(("again", "functie g() { stel t = %s; 0 }; %s functie h() { 0.5 + 0.5 }; h(); stel a = %s; stel b = [2.5 + 1.0, \"q\" + \"r\"]; [a, lengte(string(a)), b]" % (lit, calls, lit)))
            cases.append(("again", "%s; 1; functie h() { [7.5] }; %s stel a = %s; stel c = h(); [a, c, %s]" % (lit, " ".join("h();" for _ in range(k)), lit, lit)))
            cases.append(("again", "functie m() { [%s, %s] }; stel x = m(); %s stel y = m(); functie n() { string(1.5) }; n(); [x, y, lengte(string(y))]" % (lit, lit, " ".join("m();" for _ in range(k)))))
    # HEAP PRESSURE: many objects allocated with no function return in between (hence no collection by the rule "collect at
    # returns"), their number sweeping every value around the usual thresholds (2^10, 2^11, 2^12) — and then structures built from
    # FRESH heap values whose elements are, for a moment, only in the machine's hands (popped operands of a list literal, arguments
    # of a builtin, the left operand of a concatenation): a collection triggered by allocation count at such a point must see them
    spans = list(range(1000, 1045)) + list(range(2030, 2062, 2)) + list(range(4080, 4112, 4)) if tier == "quick" else \
        list(range(960, 1100)) + list(range(2000, 2100)) + list(range(4050, 4150)) + list(range(8150, 8250))
    for n in spans:
        cases.append(("pressure", "stel i = 0; stel x = 0.5; zolang i < %d { x = x + 1.5; i += 1 }; stel r = [x * 1.5, [x * 2.5, string(i)], \"s\" + string(i)]; "
                                  "stel k = [[i * 1.0], [[x + 0.25]]]; [r, r[1][0], lengte(r[2]), k, string(x) + string(i)]" % n))
        cases.append(("pressure-fn", "functie f(a) { a }; stel i = 0; stel x = 0.5; zolang i < %d { x = x + 1.5; i += 1 }; print([x * 2.0, [string(i)]], string(x * 3.0)); "
                                     "[f([x * 1.5, [x * 2.5]]), [string(i), [x - 0.5]]]" % n))
    run_cases(res, "C03", cases)


_generic = generic_replay("C03")


def replay(res, rp):
    if rp.get("kind") == "gcops":
        i = core.impl([rp["input"]])[0]
        m = core.model([rp["input"]])[0]
        print("impl :", i[:400])
        print("model:", m[:400])
        st = diff.stats(i)
        if i != m or i.startswith("PANIC") or st.get("dfree", "0") != "0" or st.get("uaf", "0") != "0":
            print("VIOLATION property=C03 replay=replay")
            return 1
        return 0
    return _generic(res, rp)
