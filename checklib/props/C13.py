"""C13 — arrays and strings: shared by reference, indexed exactly, measured in characters."""
from .. import core, diff
from ..core import hx

PROOF_MODULE = "Nlmodel.Proofs.C13"
PROOF_FILES = ["Nlmodel/Proofs/C13.lean", "Nlmodel/Model/Value.lean", "Nlmodel/Model/VM.lean", "Nlmodel/Spec/Eval.lean"]
THEOREM_FILE = PROOF_FILES[0]
LEVEL_TEXT = ("Lean theorems: index normalisation is exactly 'from the front for i >= 0, from the back for i < 0, error outside [-len, len)'; a non-integer index is a type error and an out-of-range one an index error, with no state change (the error result carries no store); a write through an address is observed through every alias, changes exactly one position and no other address or variable; string replacement is by character position. The store operations are tied to vm.rs by evaluating, for arrays of length 0-6 and strings of 0-6 code points of 1-4 bytes, EVERY index from -(len+2) to len+2 for read, write, write through an alias, write inside a callee, lengte, with every value type as index and as stored value, on the real interpreter, the definitional semantics and the machine model, plus an independent expectation computed from Python list semantics. MACHINE = SEMANTICS on every read and write (C13_index_read_agrees, C13_index_write_agrees; part of the forward simulation of C01 stage 5): under the cell-wise relation between the store of the semantics and the machine heap (injective address map), a read yields related values and a write changes the ONE cell both aliases denote and re-establishes the relation for every other array, string and variable. SESSION 7: BY CHARACTER, NOT BYTE as a theorem: Model/Utf8.lean mirrors the byte-level operations of vm.rs (chars().count(), char_indices().nth(), len_utf8, replace_range, isize/usize bounds logic) on UTF-8 byte lists; C13_bytes_count_characters, C13_bytes_locate_character, C13_bytes_read_is_character_read, C13_bytes_write_is_character_write hold for every text, index and replacement, and C13_machine_read/write_is_byte_read/write show that the machine model's string operations ARE these byte-level functions on the bytes of the stored text. The byte-level model is compared with the real interpreter on raw bytes (driver command utf8) for random texts over code points of every width incl. the boundary code points.")
LEVEL_NOTE = ("Aliasing across calls (an alias held by a caller, passed as an argument, returned, stored in a global, nested in another array) is inside the C01 simulation since stage 6 (C01_heap_and_calls_*: shared-by-reference store on the semantics side, cell-wise heap relation on the machine side, kept through every collection). Trusted: Lean kernel; Rust std's chars()/char_indices()/replace_range agree with code-point lists (exercised with 1-4 byte code points, not proved); 'leaves the sequence unchanged after an error' is a theorem on the model and is observable on the implementation only through the error kind (a run ends at its first error).")
TECHNIQUE = "Lean 4 proof (index normalisation, aliasing at store level) + complete index enumeration against the real interpreter"
RULE = ("for every length 0..6 and every index in [-(len+2), len+2]: array read, write, write via alias, write in callee, nested "
        "alias; string read, write, lengte over code points of 1-4 bytes; every value type as index and as element; "
        "non-trivial = distinct program whose outcome was compared with the Python-list expectation")
EXHAUSTIVE = True

CPS = ["a", "é", "日", "😀", "z", "ß", "ࠀ"]


def lit(v):
    if isinstance(v, bool):
        return "ja" if v else "nee"
    if isinstance(v, int):
        return str(v) if v >= 0 else "(0 - %d)" % -v
    if isinstance(v, str):
        return '"' + v + '"'
    if isinstance(v, list):
        return "[" + ", ".join(lit(x) for x in v) + "]"
    raise ValueError(v)


def canon(v):
    if isinstance(v, bool):
        return "b:ja" if v else "b:nee"
    if isinstance(v, int):
        return "i:%d" % v
    if isinstance(v, str):
        return "s:" + hx(v)
    if isinstance(v, list):
        return "a:[" + " ".join(canon(x) for x in v) + "]"


def norm(n, i):
    j = i + n if i < 0 else i
    return j if 0 <= j < n else None


def run(res, tier, rng, table_diffs=()):
    cases = []   # (source, expected observation or None)
    for n in range(0, 7):
        arr = [10 * (k + 1) for k in range(n)]
        s = "".join(CPS[k % len(CPS)] for k in range(n))
        for i in range(-(n + 2), n + 3):
            j = norm(n, i)
            il = lit(i)
            # array read
            cases.append(("stel a = %s; a[%s]" % (lit(arr), il), "ok " + canon(arr[j]) if j is not None else "err Index"))
            # write, value of the assignment, then the array
            new = list(arr)
            if j is not None:
                new[j] = 99
            cases.append(("stel a = %s; a[%s] = 99; a" % (lit(arr), il), "ok " + canon(new) if j is not None else "err Index"))
            cases.append(("stel a = %s; stel b = a; b[%s] = 99; a" % (lit(arr), il), "ok " + canon(new) if j is not None else "err Index"))
            cases.append(("stel a = %s; functie f(x) { x[%s] = 99; 0 } f(a); a" % (lit(arr), il), "ok " + canon(new) if j is not None else "err Index"))
            cases.append(("stel a = %s; stel n = [a, a]; stel c = n[1]; c[%s] = 99; [a, n[0]]" % (lit(arr), il),
                          "ok " + canon([new, new]) if j is not None else "err Index"))
            cases.append(("stel a = %s; (a[%s] = 7) + 1" % (lit(arr), il), "ok i:8" if j is not None else "err Index"))
            # strings
            cases.append(("stel s = %s; s[%s]" % (lit(s), il), "ok " + canon(s[j]) if j is not None else "err Index"))
            ns = s[:j] + "ÿ" + s[j + 1:] if j is not None else None
            cases.append(("stel s = %s; s[%s] = \"ÿ\"; s" % (lit(s), il), "ok " + canon(ns) if j is not None else "err Index"))
            ns2 = s[:j] + "xyz" + s[j + 1:] if j is not None else None
            cases.append(("stel s = %s; stel t = s; t[%s] = \"xyz\"; [s, lengte(s)]" % (lit(s), il),
                          "ok a:[%s i:%d]" % (canon(ns2), len(ns2)) if j is not None else "err Index"))
            cases.append(("stel s = %s; s[%s] = 5; s" % (lit(s), il), "err Type" if j is not None else "err Index"))
        cases.append(("lengte(%s)" % lit(s), "ok i:%d" % n))
        cases.append(("lengte(%s)" % lit(arr), "ok i:%d" % n))
        cases.append(("stel s = %s; s[0] = s; s" % lit(s), "ok " + canon(s + s[1:]) if n > 0 else "err Index"))
    bad_idx = ["ja", "nee", "1.5", '"0"', "[0]", "als nee { 1 }", "functie() { 0 }"]
    for b in bad_idx:
        cases.append(("stel a = [1, 2]; a[%s]" % b, "err Type"))
        cases.append(("stel a = [1, 2]; a[%s] = 3" % b, "err Type"))
        cases.append(("stel s = \"ab\"; s[%s]" % b, "err Type"))
    for base in ["5", "ja", "1.5", "als nee { 1 }"]:
        cases.append(("stel v = %s; v[0]" % base, "err Type"))
        cases.append(("stel v = %s; v[0] = 1" % base, "err Type"))
    elems = ["1", "ja", "1.5", '"s"', "[1, [2]]", "als nee { 1 }", "functie() { 0 }"]
    for e in elems:
        cases.append(("stel a = [0, 0]; a[1] = %s; [a[1], a]" % e, None))
        cases.append(("stel a = [%s, %s]; stel b = a; b[0] = a; lengte(a)" % (e, e), "ok i:2"))
    # random operation sequences
    for _ in range(400 if tier == "quick" else 8000):
        n = rng.range(0, 6)
        lines = ["stel a = %s;" % lit([rng.below(9) for _ in range(n)]), "stel b = a;", "stel s = %s;" % lit("".join(rng.pick(CPS) for _ in range(rng.below(7))))]
        for _ in range(rng.range(1, 8)):
            c = rng.below(7)
            i = rng.range(-(n + 1), n + 1)
            if c == 0:
                lines.append("a[%s] = %d;" % (lit(i), rng.below(100)))
            elif c == 1:
                lines.append("b[%s] = a[%s];" % (lit(i), lit(rng.range(-(n + 1), n + 1))))
            elif c == 2:
                lines.append("print(a, b, s, lengte(s));")
            elif c == 3:
                lines.append("s[%s] = %s;" % (lit(rng.range(-3, 3)), lit(rng.pick(CPS + ["", "xy"]))))
            elif c == 4:
                lines.append("functie g(x, k) { x[k] = lengte(x); x } g(a, %s);" % lit(i))
            elif c == 5:
                lines.append("b = [a, b];")
            else:
                lines.append("stel c = s; c[%s] = s[%s];" % (lit(rng.range(-2, 2)), lit(rng.range(-2, 2))))
        lines.append("[a, b, s]")
        cases.append(("\n".join(lines), None))
    byte_level(res, tier, rng)
    from .. import gen2
    cases += [(p, None) for p in gen2.shrinking_text_programs()]
    cases += [(p, None) for p in gen2.fresh_result_programs()]
    rs = diff.eval_all([c[0] for c in cases], budget=100000)
    reported = 0
    for (src, exp), r in zip(cases, rs):
        kind, detail = diff.classify(r)
        io = diff.obs(r["impl"]).split(" | ")[0]
        res.seen(src, nontrivial=(kind == "ok"))
        res.count("outcome:" + kind)
        res.count("impl:" + " ".join(io.split(" ")[:2]) if io.startswith("err") else "impl:ok")
        wrong = exp is not None and io != exp
        if (wrong or kind in ("spec-mismatch", "impl-bad", "model-mismatch")) and reported < 5:
            reported += 1
            res.violation("array/string operation gives a wrong result" if wrong or kind != "model-mismatch" else "machine model differs from vm.rs",
                          dict(kind="oracle" if wrong else kind, input=src, expected=exp, impl=r["impl"], spec=r["spec"], model=r["model"], detail=detail),
                          no_input=(not wrong and kind == "model-mismatch"))


WIDE = ["a", "z", "0", "é", "ß", "ÿ", "€", "日", "\u0800", "\uffff", "😀", "\U00010000", "\U0010ffff", "\x7f", "\x80", "\u07ff"]


def byte_level(res, tier, rng):
    """the byte-level UTF-8 model (`Model/Utf8.lean`: countChars, nthSpan, byteIndexGet/Set = chars().count(),
    char_indices().nth(), replace_range) on the RAW BYTES of a text vs the real interpreter on that text: read, write with
    replacements of 0..3 characters of every width (same byte size / different character count included), length after
    the write, order and equality.  The theorems `C13_bytes_*` say the byte-level model equals the character-level one."""
    def text(k):
        return "".join(rng.pick(WIDE) for _ in range(k))
    srcs, mreq, post = [], [], []
    n = 500 if tier == "quick" else 20000
    for _ in range(n):
        t = text(rng.below(7))
        i = rng.range(-(len(t) + 2), len(t) + 2)
        c = rng.below(5)
        tb = "x" + t.encode("utf-8").hex()
        if c == 0:
            srcs.append('stel s = "%s"; s[%s]' % (t, lit(i)))
            mreq.append("utf8 get %s %d" % (tb, i))
            post.append("get")
        elif c in (1, 2):
            r = text(rng.pick([0, 1, 1, 2, 3]))
            srcs.append('stel s = "%s"; stel r = "%s"; s[%s] = r; [s, lengte(s), lengte(r), s == "%s"]' % (t, r, lit(i), t))
            mreq.append("utf8 set %s %d x%s" % (tb, i, r.encode("utf-8").hex()))
            post.append(("set", t, r))
        elif c == 3:
            u = text(rng.below(4)) if rng.chance(2, 3) else t[:rng.below(len(t) + 1)] + text(rng.below(2))
            srcs.append('["%s" < "%s", "%s" == "%s", "%s" >= "%s"]' % (t, u, t, u, t, u))
            mreq.append("utf8 lt %s x%s" % (tb, u.encode("utf-8").hex()))
            post.append(("lt", tb, "x" + u.encode("utf-8").hex()))
        else:
            srcs.append('lengte("%s")' % t)
            mreq.append("utf8 len %s" % tb)
            post.append("len")
    impl = core.impl(["eval 100000 %s" % hx(p) for p in srcs])
    mod = core.model(mreq)
    # second round of model questions: length of the written text, equality
    q2, where = [], []
    for k, (pk, m) in enumerate(zip(post, mod)):
        if isinstance(pk, tuple) and pk[0] == "set" and m.startswith("ok "):
            q2 += ["utf8 len " + m[3:], "utf8 eq %s x%s" % (m[3:], pk[1].encode("utf-8").hex())]
            where.append(k)
        elif isinstance(pk, tuple) and pk[0] == "lt":
            q2 += ["utf8 eq %s %s" % (pk[1], pk[2]), "utf8 lt %s %s" % (pk[2], pk[1])]
            where.append(k)
    a2 = core.model(q2) if q2 else []
    second = {k: (a2[2 * j], a2[2 * j + 1]) for j, k in enumerate(where)}
    reported = 0
    jn = {"true": "b:ja", "false": "b:nee"}
    for k, (src, pk, io, m) in enumerate(zip(srcs, post, impl, mod)):
        io = diff.obs(io).split(" | ")[0]
        if pk == "get":
            exp = "ok s:" + m[3:] if m.startswith("ok ") else m
        elif pk == "len":
            exp = "ok i:" + m
        elif pk[0] == "set":
            if m.startswith("ok "):
                ln, eq = second[k]
                exp = "ok a:[s:%s i:%s i:%d %s]" % (m[3:], ln, len(pk[2]), jn[eq])
            else:
                exp = m
        else:
            eq, gt = second[k]
            exp = "ok a:[%s %s %s]" % (jn[m], jn[eq], jn["true" if (eq == "true" or gt == "true") else "false"])
        res.count("byte-level:" + (pk if isinstance(pk, str) else pk[0]))
        res.seen(src, nontrivial=True)
        if io != exp and reported < 4:
            reported += 1
            res.violation("a text operation does not act on characters the way the byte-level UTF-8 model (proved equal to the character-level one) does",
                          dict(kind="oracle", input=src, expected=exp, impl=io, generator="byte-level"))


def replay(res, rp):
    r = diff.one(rp["input"], budget=100000)
    kind, detail = diff.classify(r)
    io = diff.obs(r["impl"]).split(" | ")[0]
    print("impl:", r["impl"][:300], "\nspec:", r["spec"][:300], "\nexpected:", rp.get("expected"))
    if (rp.get("expected") and io != rp["expected"]) or kind not in ("ok",) and not kind.startswith("excluded"):
        print("VIOLATION property=C13 replay=replay")
        return 1
    return 0
