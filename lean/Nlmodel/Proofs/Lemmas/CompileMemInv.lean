/-
  The ledger invariant of the compile-phase memory machine (Model/CompileMem) and its preservation
  by the four transitions: an occurrence whose constant is re-used (duplicate box), an occurrence
  whose constant is new (pool box), `handOver`, `destroyC` (failure / drop of the compiler).

  `h0` is the heap before the compiler existed; everything at addresses below `h0.cells.size` is
  foreign and never touched.  Every address from `h0.cells.size` on is in exactly one of three
  places: managed by the compiler's collector (live), handed over (live, not managed), or in the
  free log (freed).
-/
import Nlmodel.Model.CompileMem
import Nlmodel.Proofs.Lemmas.Ledger
namespace Nl
namespace CompileMem
open GC

/-! ### heap basics -/

theorem alloc_size (h : Heap) (c : Cell) : (h.alloc c).1.cells.size = h.cells.size + 1 := by
  simp [Heap.alloc]

theorem alloc_get (h : Heap) (c : Cell) (a : Nat) :
    (h.alloc c).1.get a = if a = h.cells.size then c else h.get a := by
  simp only [Heap.alloc, Heap.get, Array.getD_eq_getD_getElem?, Array.getElem?_push]
  by_cases e : a = h.cells.size
  · simp [e]
  · simp [e]

theorem alloc_get_new (h : Heap) (c : Cell) : (h.alloc c).1.get h.cells.size = c := by
  rw [alloc_get]; simp

theorem alloc_get_old (h : Heap) (c : Cell) (a : Nat) (ha : a ≠ h.cells.size) : (h.alloc c).1.get a = h.get a := by
  rw [alloc_get]; simp [ha]

theorem cellOf_ne_freed {c : Const} (hc : isHeap c = true) : cellOf c ≠ .freed := by
  cases c <;> simp_all [isHeap, cellOf]

theorem allocBox_fst {m : Mem} {c : Const} (hc : isHeap c = true) :
    (allocBox m c).1 = { heap := (m.heap.alloc (cellOf c)).1, managed := m.heap.cells.size :: m.managed } := by
  cases c <;> simp_all [isHeap, allocBox, cellOf, Mem.allocFloat, Mem.allocStr, Heap.alloc]

theorem allocBox_snd (m : Mem) (c : Const) : (allocBox m c).2 = m.heap.cells.size := by
  cases c <;> rfl

/-- the address returned with the box is the address of the value `Object::float/string` returns -/
theorem allocFloat_addr (m : Mem) (b : UInt64) : (m.allocFloat b).2 = .float m.heap.cells.size := rfl
theorem allocStr_addr (m : Mem) (s : Text) : (m.allocStr s).2 = .str m.heap.cells.size := rfl

/-- the two shapes of a step -/
def allocDup (w : CM) (c : Const) : CM :=
  { w with mem := { heap := (w.mem.heap.alloc (cellOf c)).1, managed := w.mem.heap.cells.size :: w.mem.managed },
           dups := w.mem.heap.cells.size :: w.dups }
def allocPush (w : CM) (c : Const) : CM :=
  { w with mem := { heap := (w.mem.heap.alloc (cellOf c)).1, managed := w.mem.heap.cells.size :: w.mem.managed },
           pool := w.pool ++ [(c, w.mem.heap.cells.size)] }

theorem step_cases (w : CM) (c : Const) :
    (isHeap c = false ∧ step w c = w) ∨
    (isHeap c = true ∧ (w.pool.any (fun e => Const.same e.1 c) = true) ∧ step w c = allocDup w c) ∨
    (isHeap c = true ∧ (w.pool.any (fun e => Const.same e.1 c) = false) ∧ step w c = allocPush w c) := by
  cases hc : isHeap c with
  | false => left; simp [step, hc]
  | true =>
    right
    have hk : (w.pool.findIdx? (fun e => Const.same e.1 c)).isSome = w.pool.any (fun e => Const.same e.1 c) := by
      rw [List.findIdx?_isSome]
    cases hf : w.pool.findIdx? (fun e => Const.same e.1 c) with
    | some i =>
      left
      rw [hf] at hk
      refine ⟨rfl, by simpa using hk.symm, ?_⟩
      simp only [step, hc, if_true, hf, allocDup, allocBox_fst hc, allocBox_snd]
    | none =>
      right
      rw [hf] at hk
      refine ⟨rfl, by simpa using hk.symm, ?_⟩
      simp only [step, hc, if_true, hf, allocPush, allocBox_fst hc, allocBox_snd]

/-! ### the invariant -/

structure Inv (h0 : Heap) (w : CM) : Prop where
  base : h0.cells.size ≤ w.mem.heap.cells.size
  old : ∀ a, a < h0.cells.size → w.mem.heap.get a = h0.get a
  manND : w.mem.managed.Nodup
  manIff : ∀ a, a ∈ w.mem.managed ↔ (a ∈ w.dups ∨ a ∈ w.pool.map Prod.snd)
  poolND : (w.pool.map Prod.snd).Nodup
  dupPool : ∀ a, a ∈ w.dups → a ∉ w.pool.map Prod.snd
  manLive : ∀ a, a ∈ w.mem.managed → h0.cells.size ≤ a ∧ ND.Live w.mem.heap a
  poolCell : ∀ e, e ∈ w.pool → isHeap e.1 = true ∧ w.mem.heap.get e.2 = cellOf e.1
  logND : w.log.Nodup
  logFreed : ∀ a, a ∈ w.log → h0.cells.size ≤ a ∧ a < w.mem.heap.cells.size ∧ w.mem.heap.get a = .freed
  handND : (w.handed.map Prod.snd).Nodup
  handCell : ∀ e, e ∈ w.handed →
    h0.cells.size ≤ e.2 ∧ isHeap e.1 = true ∧ w.mem.heap.get e.2 = cellOf e.1 ∧ e.2 ∉ w.mem.managed
  part : ∀ a, h0.cells.size ≤ a → a < w.mem.heap.cells.size →
    a ∈ w.mem.managed ∨ a ∈ w.log ∨ a ∈ w.handed.map Prod.snd

/-- a fresh compiler on any heap -/
theorem inv_init (h0 : Heap) : Inv h0 { mem := { heap := h0, managed := [] } } where
  base := Nat.le_refl _
  old := fun _ _ => rfl
  manND := List.nodup_nil
  manIff := by simp
  poolND := List.nodup_nil
  dupPool := by simp
  manLive := by simp
  poolCell := by simp
  logND := List.nodup_nil
  logFreed := by simp
  handND := List.nodup_nil
  handCell := by simp
  part := by intro a h1 h2; simp at h1 h2; omega

/-- the next address is in none of the lists -/
theorem fresh {h0 : Heap} {w : CM} (h : Inv h0 w) :
    w.mem.heap.cells.size ∉ w.mem.managed ∧ w.mem.heap.cells.size ∉ w.log ∧
    w.mem.heap.cells.size ∉ w.handed.map Prod.snd ∧ w.mem.heap.cells.size ∉ w.pool.map Prod.snd ∧
    w.mem.heap.cells.size ∉ w.dups := by
  have hm : w.mem.heap.cells.size ∉ w.mem.managed := fun hm => by
    have := ND.live_lt (h.manLive _ hm).2; omega
  refine ⟨hm, ?_, ?_, ?_, ?_⟩
  · intro hl; have := (h.logFreed _ hl).2.1; omega
  · intro hh
    obtain ⟨e, he, hea⟩ := List.mem_map.1 hh
    obtain ⟨_, hc, hg, _⟩ := h.handCell e he
    have hl : ND.Live w.mem.heap e.2 := by unfold ND.Live; rw [hg]; exact cellOf_ne_freed hc
    have := ND.live_lt hl; omega
  · intro hp; exact hm ((h.manIff _).2 (Or.inr hp))
  · intro hd; exact hm ((h.manIff _).2 (Or.inl hd))

theorem live_alloc {h : Heap} {c : Cell} {a : Nat} (hl : ND.Live h a) : ND.Live (h.alloc c).1 a := by
  unfold ND.Live at hl ⊢
  rw [alloc_get_old h c a (by have := ND.live_lt hl; omega)]
  exact hl

theorem inv_allocDup {h0 : Heap} {w : CM} (h : Inv h0 w) (c : Const) (hc : isHeap c = true) :
    Inv h0 (allocDup w c) := by
  obtain ⟨f1, f2, f3, f4, f5⟩ := fresh h
  have hnew : ND.Live (w.mem.heap.alloc (cellOf c)).1 w.mem.heap.cells.size := by
    unfold ND.Live; rw [alloc_get_new]; exact cellOf_ne_freed hc
  constructor
  · show h0.cells.size ≤ (w.mem.heap.alloc (cellOf c)).1.cells.size
    rw [alloc_size]; have := h.base; omega
  · intro a ha
    show (w.mem.heap.alloc (cellOf c)).1.get a = h0.get a
    rw [alloc_get_old _ _ _ (by have := h.base; omega)]; exact h.old a ha
  · show (w.mem.heap.cells.size :: w.mem.managed).Nodup
    exact List.nodup_cons.2 ⟨f1, h.manND⟩
  · intro a
    show a ∈ w.mem.heap.cells.size :: w.mem.managed ↔ (a ∈ w.mem.heap.cells.size :: w.dups ∨ a ∈ w.pool.map Prod.snd)
    simp only [List.mem_cons, h.manIff a, or_assoc]
  · exact h.poolND
  · intro a ha
    show a ∉ w.pool.map Prod.snd
    cases List.mem_cons.1 ha with
    | inl e => rw [e]; exact f4
    | inr e => exact h.dupPool a e
  · intro a ha
    show h0.cells.size ≤ a ∧ ND.Live (w.mem.heap.alloc (cellOf c)).1 a
    cases List.mem_cons.1 ha with
    | inl e => rw [e]; exact ⟨h.base, hnew⟩
    | inr e => exact ⟨(h.manLive a e).1, live_alloc (h.manLive a e).2⟩
  · intro e he
    show isHeap e.1 = true ∧ (w.mem.heap.alloc (cellOf c)).1.get e.2 = cellOf e.1
    have hne : e.2 ≠ w.mem.heap.cells.size := fun hh => f4 (List.mem_map.2 ⟨e, he, hh⟩)
    rw [alloc_get_old _ _ _ hne]; exact h.poolCell e he
  · exact h.logND
  · intro a ha
    show h0.cells.size ≤ a ∧ a < (w.mem.heap.alloc (cellOf c)).1.cells.size ∧ (w.mem.heap.alloc (cellOf c)).1.get a = .freed
    obtain ⟨h1, h2, h3⟩ := h.logFreed a ha
    rw [alloc_size, alloc_get_old _ _ _ (by omega)]
    exact ⟨h1, by omega, h3⟩
  · exact h.handND
  · intro e he
    show h0.cells.size ≤ e.2 ∧ isHeap e.1 = true ∧ (w.mem.heap.alloc (cellOf c)).1.get e.2 = cellOf e.1 ∧
      e.2 ∉ w.mem.heap.cells.size :: w.mem.managed
    obtain ⟨h1, h2, h3, h4⟩ := h.handCell e he
    have hne : e.2 ≠ w.mem.heap.cells.size := fun hh => f3 (List.mem_map.2 ⟨e, he, hh⟩)
    rw [alloc_get_old _ _ _ hne]
    exact ⟨h1, h2, h3, by simp [hne, h4]⟩
  · intro a h1 h2
    show a ∈ w.mem.heap.cells.size :: w.mem.managed ∨ a ∈ w.log ∨ a ∈ w.handed.map Prod.snd
    have h2' : a < w.mem.heap.cells.size + 1 := by rw [← alloc_size _ (cellOf c)]; exact h2
    by_cases e : a = w.mem.heap.cells.size
    · left; simp [e]
    · cases h.part a h1 (by omega) with
      | inl x => left; exact List.mem_cons_of_mem _ x
      | inr x => right; exact x

theorem inv_allocPush {h0 : Heap} {w : CM} (h : Inv h0 w) (c : Const) (hc : isHeap c = true) :
    Inv h0 (allocPush w c) := by
  obtain ⟨f1, f2, f3, f4, f5⟩ := fresh h
  have hnew : ND.Live (w.mem.heap.alloc (cellOf c)).1 w.mem.heap.cells.size := by
    unfold ND.Live; rw [alloc_get_new]; exact cellOf_ne_freed hc
  constructor
  · show h0.cells.size ≤ (w.mem.heap.alloc (cellOf c)).1.cells.size
    rw [alloc_size]; have := h.base; omega
  · intro a ha
    show (w.mem.heap.alloc (cellOf c)).1.get a = h0.get a
    rw [alloc_get_old _ _ _ (by have := h.base; omega)]; exact h.old a ha
  · show (w.mem.heap.cells.size :: w.mem.managed).Nodup
    exact List.nodup_cons.2 ⟨f1, h.manND⟩
  · intro a
    show a ∈ w.mem.heap.cells.size :: w.mem.managed ↔
      (a ∈ w.dups ∨ a ∈ (w.pool ++ [(c, w.mem.heap.cells.size)]).map Prod.snd)
    simp only [List.mem_cons, h.manIff a, List.map_append, List.mem_append, List.map_cons, List.map_nil,
      List.not_mem_nil, or_false]
    constructor
    · rintro (e | e | e)
      · exact Or.inr (Or.inr e)
      · exact Or.inl e
      · exact Or.inr (Or.inl e)
    · rintro (e | e | e)
      · exact Or.inr (Or.inl e)
      · exact Or.inr (Or.inr e)
      · exact Or.inl e
  · show ((w.pool ++ [(c, w.mem.heap.cells.size)]).map Prod.snd).Nodup
    rw [List.map_append, List.nodup_append]
    refine ⟨h.poolND, by simp, ?_⟩
    intro a ha b hb
    simp at hb
    intro e; rw [hb] at e; rw [e] at ha; exact f4 ha
  · intro a ha
    show a ∉ (w.pool ++ [(c, w.mem.heap.cells.size)]).map Prod.snd
    simp only [List.map_append, List.mem_append, List.map_cons, List.map_nil, List.mem_cons, List.not_mem_nil,
      or_false, not_or]
    exact ⟨h.dupPool a ha, fun e => f5 (e ▸ ha)⟩
  · intro a ha
    show h0.cells.size ≤ a ∧ ND.Live (w.mem.heap.alloc (cellOf c)).1 a
    cases List.mem_cons.1 ha with
    | inl e => rw [e]; exact ⟨h.base, hnew⟩
    | inr e => exact ⟨(h.manLive a e).1, live_alloc (h.manLive a e).2⟩
  · intro e he
    show isHeap e.1 = true ∧ (w.mem.heap.alloc (cellOf c)).1.get e.2 = cellOf e.1
    cases List.mem_append.1 he with
    | inl he =>
      have hne : e.2 ≠ w.mem.heap.cells.size := fun hh => f4 (List.mem_map.2 ⟨e, he, hh⟩)
      rw [alloc_get_old _ _ _ hne]; exact h.poolCell e he
    | inr he =>
      simp at he; subst he
      exact ⟨hc, alloc_get_new _ _⟩
  · exact h.logND
  · intro a ha
    show h0.cells.size ≤ a ∧ a < (w.mem.heap.alloc (cellOf c)).1.cells.size ∧ (w.mem.heap.alloc (cellOf c)).1.get a = .freed
    obtain ⟨h1, h2, h3⟩ := h.logFreed a ha
    rw [alloc_size, alloc_get_old _ _ _ (by omega)]
    exact ⟨h1, by omega, h3⟩
  · exact h.handND
  · intro e he
    show h0.cells.size ≤ e.2 ∧ isHeap e.1 = true ∧ (w.mem.heap.alloc (cellOf c)).1.get e.2 = cellOf e.1 ∧
      e.2 ∉ w.mem.heap.cells.size :: w.mem.managed
    obtain ⟨h1, h2, h3, h4⟩ := h.handCell e he
    have hne : e.2 ≠ w.mem.heap.cells.size := fun hh => f3 (List.mem_map.2 ⟨e, he, hh⟩)
    rw [alloc_get_old _ _ _ hne]
    exact ⟨h1, h2, h3, by simp [hne, h4]⟩
  · intro a h1 h2
    show a ∈ w.mem.heap.cells.size :: w.mem.managed ∨ a ∈ w.log ∨ a ∈ w.handed.map Prod.snd
    have h2' : a < w.mem.heap.cells.size + 1 := by rw [← alloc_size _ (cellOf c)]; exact h2
    by_cases e : a = w.mem.heap.cells.size
    · left; simp [e]
    · cases h.part a h1 (by omega) with
      | inl x => left; exact List.mem_cons_of_mem _ x
      | inr x => right; exact x

theorem inv_step {h0 : Heap} {w : CM} (h : Inv h0 w) (c : Const) : Inv h0 (step w c) := by
  rcases step_cases w c with ⟨_, e⟩ | ⟨hc, _, e⟩ | ⟨hc, _, e⟩
  · rw [e]; exact h
  · rw [e]; exact inv_allocDup h c hc
  · rw [e]; exact inv_allocPush h c hc

theorem inv_compileAllocFrom {h0 : Heap} (occ : List Const) : ∀ {w : CM}, Inv h0 w → Inv h0 (compileAllocFrom w occ) := by
  induction occ with
  | nil => intro w h; exact h
  | cons c occ ih =>
    intro w h
    simp only [compileAllocFrom, List.foldl_cons] at ih ⊢
    exact ih (inv_step h c)

end CompileMem
end Nl
