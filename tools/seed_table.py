#!/usr/bin/env python3
"""Regenerate the table of DESIGN.md section 12 from seeded/*/meta.json.

Usage: tools/seed_table.py            print the table
       tools/seed_table.py --write    replace the block between the markers in DESIGN.md
"""
import glob
import json
import os
import re
import sys

VERIF = os.path.dirname(os.path.dirname(os.path.abspath(__file__)))
BEGIN, END = "<!-- seed-table:begin -->", "<!-- seed-table:end -->"


def first_line(notes):
    for l in notes.split("\n"):
        l = l.strip().lstrip("# ").strip()
        if l:
            return re.sub(r"^C\d\d\s*/\s*m\d\s*[—-]\s*", "", l)[:140]
    return ""


def table():
    rows = []
    for p in sorted(glob.glob(os.path.join(VERIF, "seeded", "C*", "meta.json"))):
        m = json.load(open(p))
        hist = m.get("history", [])
        checks = m.get("checks", {})
        ran = ",".join(sorted(checks))
        caught = m.get("caught_by", [])
        how = []
        for c in caught:
            v = (checks[c].get("violations") or [""])[0]
            how.append(c + ("*" if v.endswith("no-failing-input-found") else ""))
        first = ""
        if hist:
            first = "missed by the target check at first (%s); caught after: %s" % (", ".join(hist[0].get("caught_by", [])) or "by none", hist[0].get("strengthened", ""))
        rows.append("| %s | %s | %s | %s | %s | %s |" % (m["id"], first_line(m.get("needs_to_manifest", "")), ran, ", ".join(how) or "**none**",
                                                    "yes" if m.get("caught_by_target") else "**no**", first))
    head = ("| change | what it does | checks run | caught by (`*` = correspondence broke, no failing input found) | by its own property's check | note |\n"
            "|---|---|---|---|---|---|")
    return head + "\n" + "\n".join(rows)


def main():
    t = table()
    if "--write" in sys.argv:
        p = os.path.join(VERIF, "DESIGN.md")
        s = open(p).read()
        if BEGIN in s:
            s = s[:s.index(BEGIN) + len(BEGIN)] + "\n" + t + "\n" + s[s.index(END):]
        else:
            s = s.replace("(table pending: evaluation runs in the background)", BEGIN + "\n" + t + "\n" + END)
        open(p, "w").write(s)
    else:
        print(t)


if __name__ == "__main__":
    main()
