/- Forward simulation, stage 4 (C01, C12): functions, calls, parameters and locals on the flat stack.
   Frame layout facts, configurations and one lemma per instruction. -/
import Nlmodel.Proofs.Lemmas.SimCtlProg
namespace Nl
namespace SimF
open Spec Sim

/-! ## array facts about the frame layout `below ++ locs ++ ops` -/

theorem frame_push (below locs ops : Array Value) (v : Value) :
    (below ++ locs ++ ops).push v = below ++ locs ++ ops.push v := by
  apply Array.ext'; simp

theorem frame_local (below locs ops : Array Value) (k : Nat) (hk : k < locs.size) :
    (below ++ locs ++ ops)[below.size + k]? = locs[k]? := by
  rw [Array.append_assoc, Array.getElem?_append_right (by omega)]
  have : below.size + k - below.size = k := by omega
  rw [this, Array.getElem?_append_left hk]

theorem frame_setLocal (below locs ops : Array Value) (k : Nat) (v : Value) (hk : k < locs.size) :
    (below ++ locs ++ ops).setIfInBounds (below.size + k) v = below ++ locs.setIfInBounds k v ++ ops := by
  apply Array.ext'
  simp only [Array.toList_setIfInBounds, Array.toList_append]
  rw [List.append_assoc, List.set_append_right _ _ (by simp)]
  have : below.size + k - below.toList.length = k := by simp
  rw [this, List.set_append_left _ _ (by simpa using hk), List.append_assoc]

theorem frame_size (below locs ops : Array Value) : (below ++ locs ++ ops).size = below.size + locs.size + ops.size := by
  simp; omega

theorem frame_truncate (below rest : Array Value) : (below ++ rest).extract 0 below.size = below := by
  apply Array.ext'; simp

/-! ## configurations -/

/-- the machine `s0` in the frame `below ++ locs ++ ops` (base pointer = `below.size`) with suspended callers `fr` -/
def mkS (s0 : VM) (ip : Nat) (below locs ops g : Array Value) (l : Value) (fr : List Frame) : VM :=
  { s0 with ip := ip, stack := below ++ locs ++ ops, globals := g, last := l, frames := fr, depth := fr.length, bp := below.size }

@[simp] theorem mkS_ip (s0 ip below locs ops g l fr) : (mkS s0 ip below locs ops g l fr).ip = ip := rfl
@[simp] theorem mkS_stack (s0 ip below locs ops g l fr) : (mkS s0 ip below locs ops g l fr).stack = below ++ locs ++ ops := rfl
@[simp] theorem mkS_globals (s0 ip below locs ops g l fr) : (mkS s0 ip below locs ops g l fr).globals = g := rfl
@[simp] theorem mkS_last (s0 ip below locs ops g l fr) : (mkS s0 ip below locs ops g l fr).last = l := rfl
@[simp] theorem mkS_frames (s0 ip below locs ops g l fr) : (mkS s0 ip below locs ops g l fr).frames = fr := rfl
@[simp] theorem mkS_depth (s0 ip below locs ops g l fr) : (mkS s0 ip below locs ops g l fr).depth = fr.length := rfl
@[simp] theorem mkS_bp (s0 ip below locs ops g l fr) : (mkS s0 ip below locs ops g l fr).bp = below.size := rfl
@[simp] theorem mkS_cvals (s0 ip below locs ops g l fr) : (mkS s0 ip below locs ops g l fr).cvals = s0.cvals := rfl
@[simp] theorem mkS_mem (s0 ip below locs ops g l fr) : (mkS s0 ip below locs ops g l fr).mem = s0.mem := rfl

section steps
variable {C : Code} {s0 : VM} {i : Nat} {below locs ops g : Array Value} {l : Value} {fr : List Frame} {rest : List Instr}

theorem step_exec {ins : Instr} (h : CodeAt C i (ins :: rest)) :
    step C (mkS s0 i below locs ops g l fr) = exec ins (i + ins.size) (mkS s0 i below locs ops g l fr) := by
  rw [step_at (s := mkS s0 i below locs ops g l fr) (by simpa using h)]; rfl

theorem step_push_of {ins : Instr} {v : Value} (h : CodeAt C i (ins :: rest))
    (hex : ∀ s : VM, exec ins (i + ins.size) s = .next { s with ip := i + ins.size, stack := s.stack.push v }) :
    step C (mkS s0 i below locs ops g l fr) = .next (mkS s0 (i + ins.size) below locs (ops.push v) g l fr) := by
  rw [step_exec h, hex]
  simp only [mkS, frame_push]

theorem step_null (h : CodeAt C i (.null :: rest)) :
    step C (mkS s0 i below locs ops g l fr) = .next (mkS s0 (i + 1) below locs (ops.push .null) g l fr) :=
  step_push_of h (fun _ => rfl)

theorem step_true (h : CodeAt C i (.true_ :: rest)) :
    step C (mkS s0 i below locs ops g l fr) = .next (mkS s0 (i + 1) below locs (ops.push (.bool true)) g l fr) :=
  step_push_of h (fun _ => rfl)

theorem step_false (h : CodeAt C i (.false_ :: rest)) :
    step C (mkS s0 i below locs ops g l fr) = .next (mkS s0 (i + 1) below locs (ops.push (.bool false)) g l fr) :=
  step_push_of h (fun _ => rfl)

theorem step_jump {t : Nat} (h : CodeAt C i (.jump t :: rest)) :
    step C (mkS s0 i below locs ops g l fr) = .next (mkS s0 t below locs ops g l fr) := by
  rw [step_exec h]; rfl

theorem step_const {k : Nat} {v : Value} (h : CodeAt C i (.const k :: rest)) (hk : s0.cvals[k]? = some v)
    (hv : ∀ a, v ≠ .str a) :
    step C (mkS s0 i below locs ops g l fr) = .next (mkS s0 (i + 3) below locs (ops.push v) g l fr) := by
  rw [step_exec h]
  cases v <;> simp [exec, hk, mkS, frame_push, Instr.size] at hv ⊢

theorem step_getGlobal {k : Nat} (h : CodeAt C i (.getGlobal k :: rest)) :
    step C (mkS s0 i below locs ops g l fr) = .next (mkS s0 (i + 3) below locs (ops.push (g.getD k .null)) g l fr) := by
  rw [step_exec h]; simp only [exec, mkS, frame_push, Instr.size]

theorem step_getLocal {k : Nat} {v : Value} (h : CodeAt C i (.getLocal k :: rest)) (hk : locs[k]? = some v) :
    step C (mkS s0 i below locs ops g l fr) = .next (mkS s0 (i + 3) below locs (ops.push v) g l fr) := by
  rw [step_exec h]
  have hlt : k < locs.size := by
    rcases Array.getElem?_eq_some_iff.mp hk with ⟨hlt, _⟩; exact hlt
  simp only [exec, mkS_stack, mkS_bp, frame_local below locs ops k hlt, hk, mkS, frame_push, Instr.size]

/-- the frame with a value on top, popped -/
theorem pop_frame (below locs ops : Array Value) (v : Value) :
    pop1 (below ++ locs ++ ops.push v) = some (v, below ++ locs ++ ops) := by
  rw [← frame_push, pop1_push]

theorem step_pop {v : Value} (h : CodeAt C i (.pop :: rest)) :
    step C (mkS s0 i below locs (ops.push v) g l fr) = .next (mkS s0 (i + 1) below locs ops g v fr) := by
  rw [step_exec h]; simp only [exec, mkS_stack, pop_frame, Instr.size]; rfl

theorem step_setGlobal {k : Nat} {v : Value} (h : CodeAt C i (.setGlobal k :: rest)) :
    step C (mkS s0 i below locs (ops.push v) g l fr) = .next (mkS s0 (i + 3) below locs ops (setGlobalArr g k v) l fr) := by
  rw [step_exec h]
  simp only [exec, mkS_stack, pop_frame, mkS_globals, Instr.size]
  rfl

theorem step_setLocal {k : Nat} {v : Value} (h : CodeAt C i (.setLocal k :: rest)) (hk : k < locs.size) :
    step C (mkS s0 i below locs (ops.push v) g l fr) = .next (mkS s0 (i + 3) below (locs.setIfInBounds k v) ops g l fr) := by
  rw [step_exec h]
  have : below.size + k < (below ++ locs ++ ops).size := by rw [frame_size]; omega
  simp only [exec, mkS_stack, pop_frame, mkS_bp, this, ↓reduceIte, frame_setLocal below locs ops k v hk, Instr.size]
  rfl

theorem step_jif {t : Nat} {b : Bool} (h : CodeAt C i (.jumpIfFalse t :: rest)) :
    step C (mkS s0 i below locs (ops.push (.bool b)) g l fr) = .next (mkS s0 (if b then i + 3 else t) below locs ops g l fr) := by
  rw [step_exec h]; simp only [exec, mkS_stack, pop_frame, Instr.size]; rfl

theorem step_jif_err {t : Nat} {v : Value} (h : CodeAt C i (.jumpIfFalse t :: rest)) (hv : ∀ b, v ≠ .bool b) :
    ∃ s2, step C (mkS s0 i below locs (ops.push v) g l fr) = .error .type s2 := by
  rw [step_exec h]
  cases v <;> simp only [exec, mkS_stack, pop_frame] <;> first | exact ⟨_, rfl⟩ | exact absurd rfl (hv _)
end steps

end SimF
end Nl
