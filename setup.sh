#!/bin/sh
# Build the framework from files on disk only (offline): the Lean model + proofs + driver, and the
# correspondence harness against /repo's current tree with the hooks on.
set -e
cd "$(dirname "$0")"
mkdir -p build
( cd lean && lake build )
( cd harness && CARGO_NET_OFFLINE=true CARGO_TARGET_DIR="$PWD/../build/harness-target" cargo build --offline --release --quiet )
( cd harness && CARGO_NET_OFFLINE=true CARGO_TARGET_DIR="$PWD/../build/harness-target" cargo build --offline --quiet )
./build/harness-target/release/nlharness --unicode build/unicode.txt
echo setup-ok
