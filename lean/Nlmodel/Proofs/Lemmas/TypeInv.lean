/- Type soundness of the machine's values: in every state any run reaches, the tag of every value
   (on the stack, in a global, a constant, the last-popped register, or an element of a heap array)
   agrees with the kind of the cell it points to — cells never change kind, they are only released.
   Consequence: `GC.HeapKindOK`, the hypothesis of the collector theorems (C03/C04), holds in every
   reachable state. -/
import Nlmodel.Model.VM
import Nlmodel.Proofs.Lemmas.GCMark
namespace Nl
namespace TI

inductive Kind where
  | float | str | arr
  deriving DecidableEq

/-- the ghost state: the kind each address was allocated with -/
abbrev KMap := Nat → Kind

def ValOK (κ : KMap) (n : Nat) : Value → Prop
  | .float a => a < n ∧ κ a = .float
  | .str a => a < n ∧ κ a = .str
  | .arr a => a < n ∧ κ a = .arr
  | _ => True

def CellOK (κ : KMap) (n : Nat) (a : Nat) : Cell → Prop
  | .float _ => κ a = .float
  | .str _ => κ a = .str
  | .arr vs => κ a = .arr ∧ ∀ v, v ∈ vs → ValOK κ n v
  | .freed => True

def HeapWT (κ : KMap) (h : Heap) : Prop := ∀ a, a < h.cells.size → CellOK κ h.cells.size a (h.get a)

structure Ext (κ : KMap) (n : Nat) (κ' : KMap) (n' : Nat) : Prop where
  le : n ≤ n'
  same : ∀ a, a < n → κ' a = κ a

theorem Ext.refl (κ : KMap) (n : Nat) : Ext κ n κ n := ⟨Nat.le_refl _, fun _ _ => rfl⟩

theorem Ext.trans {κ1 κ2 κ3 : KMap} {n1 n2 n3 : Nat} (a : Ext κ1 n1 κ2 n2) (b : Ext κ2 n2 κ3 n3) : Ext κ1 n1 κ3 n3 :=
  ⟨Nat.le_trans a.le b.le, fun x hx => by rw [b.same x (Nat.lt_of_lt_of_le hx a.le), a.same x hx]⟩

theorem ValOK.ext {κ κ' : KMap} {n n' : Nat} {v : Value} (h : ValOK κ n v) (e : Ext κ n κ' n') : ValOK κ' n' v := by
  cases v <;> simp only [ValOK] at h ⊢
  all_goals exact ⟨Nat.lt_of_lt_of_le h.1 e.le, by rw [e.same _ h.1]; exact h.2⟩

theorem CellOK.ext {κ κ' : KMap} {n n' a : Nat} {c : Cell} (h : CellOK κ n a c) (ha : a < n) (e : Ext κ n κ' n') : CellOK κ' n' a c := by
  cases c <;> simp only [CellOK] at h ⊢
  · rw [e.same a ha]; exact h
  · rw [e.same a ha]; exact h
  · exact ⟨by rw [e.same a ha]; exact h.1, fun v hv => (h.2 v hv).ext e⟩

/-! ### the heap primitives -/

theorem get_push_old (h : Heap) (c : Cell) (a : Nat) (ha : a < h.cells.size) : (h.alloc c).1.get a = h.get a := by
  simp [Heap.alloc, Heap.get, Array.getD_eq_getD_getElem?, Array.getElem?_push_lt ha, Array.getElem?_eq_getElem ha]

theorem get_push_new (h : Heap) (c : Cell) : (h.alloc c).1.get h.cells.size = c := by
  simp [Heap.alloc, Heap.get, Array.getD_eq_getD_getElem?]

theorem size_alloc (h : Heap) (c : Cell) : (h.alloc c).1.cells.size = h.cells.size + 1 := by simp [Heap.alloc]

theorem size_set (h : Heap) (a : Nat) (c : Cell) : (h.set a c).cells.size = h.cells.size := by simp [Heap.set]

theorem get_set_other (h : Heap) (a b : Nat) (c : Cell) (hab : b ≠ a) : (h.set a c).get b = h.get b := by
  simp [Heap.set, Heap.get, Array.getD_eq_getD_getElem?, Ne.symm hab]

theorem get_set_self (h : Heap) (a : Nat) (c : Cell) (ha : a < h.cells.size) : (h.set a c).get a = c := by
  simp [Heap.set, Heap.get, Array.getD_eq_getD_getElem?, ha]

def kindOf : Cell → Kind
  | .str _ => .str
  | .arr _ => .arr
  | _ => .float

def upd (κ : KMap) (a : Nat) (k : Kind) : KMap := fun x => if x = a then k else κ x

theorem ext_upd (κ : KMap) (n : Nat) (k : Kind) : Ext κ n (upd κ n k) (n + 1) :=
  ⟨Nat.le_succ _, fun a ha => by simp [upd, Nat.ne_of_lt ha]⟩

/-- allocation of a live cell whose elements (if it is an array) are well-typed -/
theorem heapWT_alloc {κ : KMap} {h : Heap} (hw : HeapWT κ h) (c : Cell) (hc : c ≠ .freed)
    (hel : ∀ vs, c = .arr vs → ∀ v, v ∈ vs → ValOK κ h.cells.size v) :
    HeapWT (upd κ h.cells.size (kindOf c)) (h.alloc c).1 := by
  intro a ha
  rw [size_alloc] at ha ⊢
  have e := ext_upd κ h.cells.size (kindOf c)
  by_cases hlt : a < h.cells.size
  · rw [get_push_old h c a hlt]
    exact (hw a hlt).ext hlt e
  · have : a = h.cells.size := by omega
    subst this
    rw [get_push_new]
    cases c with
    | float x => simp [CellOK, upd, kindOf]
    | str s => simp [CellOK, upd, kindOf]
    | arr vs => exact ⟨by simp [upd, kindOf], fun v hv => (hel vs rfl v hv).ext e⟩
    | freed => exact absurd rfl hc

theorem heapWT_set {κ : KMap} {h : Heap} (hw : HeapWT κ h) (a : Nat) (c : Cell) (hc : CellOK κ h.cells.size a c) :
    HeapWT κ (h.set a c) := by
  intro b hb
  rw [size_set] at hb ⊢
  by_cases e : b = a
  · subst e; rw [get_set_self h b c hb]; exact hc
  · rw [get_set_other h a b c e]; exact hw b hb

theorem heapWT_freeAll {κ : KMap} (l : List Nat) : ∀ {h : Heap}, HeapWT κ h → HeapWT κ (GC.freeAll h l) := by
  induction l with
  | nil => intro h hw; exact hw
  | cons x l ih =>
    intro h hw
    simp only [GC.freeAll, List.foldl_cons]
    exact ih (heapWT_set hw x .freed trivial)

theorem freeAll_size (l : List Nat) : ∀ (h : Heap), (GC.freeAll h l).cells.size = h.cells.size := by
  induction l with
  | nil => intro h; rfl
  | cons x l ih => intro h; simp only [GC.freeAll, List.foldl_cons] at ih ⊢; rw [ih]; simp [Heap.free, Heap.set]

theorem heapWT_run {κ : KMap} {m : Mem} (hw : HeapWT κ m.heap) (roots : List Value) :
    HeapWT κ (GC.run m roots).heap ∧ (GC.run m roots).heap.cells.size = m.heap.cells.size := by
  unfold GC.run
  split
  · exact ⟨hw, rfl⟩
  · exact ⟨heapWT_freeAll _ hw, freeAll_size _ _⟩

/-- elements read from a well-typed heap are well-typed -/
theorem arrAt_ok {κ : KMap} {h : Heap} (hw : HeapWT κ h) (a : Nat) : ∀ v, v ∈ h.arrAt a → ValOK κ h.cells.size v := by
  intro v hv
  by_cases ha : a < h.cells.size
  · have := hw a ha
    cases hg : h.get a with
    | arr vs => rw [hg] at this; simp only [Heap.arrAt, hg] at hv; exact this.2 v hv
    | _ => simp [Heap.arrAt, hg] at hv
  · have : h.get a = .freed := by
      simp only [Heap.get, Array.getD_eq_getD_getElem?]
      have : h.cells[a]? = none := by simp; omega
      simp [this]
    simp [Heap.arrAt, this] at hv

/-- the bridge to the collector theorems -/
theorem heapKindOK {κ : KMap} {h : Heap} (hw : HeapWT κ h) : GC.HeapKindOK h := by
  intro a v hv
  have hv' := arrAt_ok hw a v hv
  have key : ∀ b, b < h.cells.size → κ b ≠ .arr → h.arrAt b = [] := by
    intro b hb hk
    have := hw b hb
    cases hg : h.get b with
    | arr vs => rw [hg] at this; exact absurd this.1 hk
    | _ => simp [Heap.arrAt, hg]
  cases v with
  | float b => exact key b hv'.1 (by rw [hv'.2]; decide)
  | str b => exact key b hv'.1 (by rw [hv'.2]; decide)
  | _ => trivial

theorem kindOK_of_valOK {κ : KMap} {h : Heap} (hw : HeapWT κ h) (v : Value) (hv : ValOK κ h.cells.size v) : GC.KindOK h v := by
  have key : ∀ b, b < h.cells.size → κ b ≠ .arr → h.arrAt b = [] := by
    intro b hb hk
    have := hw b hb
    cases hg : h.get b with
    | arr vs => rw [hg] at this; exact absurd this.1 hk
    | _ => simp [Heap.arrAt, hg]
  cases v with
  | float b => exact key b hv.1 (by rw [hv.2]; decide)
  | str b => exact key b hv.1 (by rw [hv.2]; decide)
  | _ => trivial

/-! ### the memory operations: each yields an extension of the ghost state, a well-typed heap and a well-typed result -/

/-- what a memory operation establishes -/
structure Post (κ : KMap) (m : Mem) (m' : Mem) (v : Value) : Prop where
  ex : ∃ κ', Ext κ m.heap.cells.size κ' m'.heap.cells.size ∧ HeapWT κ' m'.heap ∧ ValOK κ' m'.heap.cells.size v

theorem post_same {κ : KMap} {m : Mem} (hw : HeapWT κ m.heap) (v : Value) (hv : ValOK κ m.heap.cells.size v) : Post κ m m v :=
  ⟨κ, Ext.refl _ _, hw, hv⟩

theorem post_allocFloat {κ : KMap} {m : Mem} (hw : HeapWT κ m.heap) (x : UInt64) : Post κ m (m.allocFloat x).1 (m.allocFloat x).2 := by
  refine ⟨upd κ m.heap.cells.size .float, ?_, heapWT_alloc hw (.float x) (by simp) (fun vs e => by cases e), ?_⟩
  · show Ext κ m.heap.cells.size _ (m.heap.alloc (.float x)).1.cells.size
    rw [size_alloc]; exact ext_upd _ _ _
  · show ValOK _ (m.heap.alloc (.float x)).1.cells.size (.float m.heap.cells.size)
    rw [size_alloc]; simp [ValOK, upd]

theorem post_allocStr {κ : KMap} {m : Mem} (hw : HeapWT κ m.heap) (t : Text) : Post κ m (m.allocStr t).1 (m.allocStr t).2 := by
  refine ⟨upd κ m.heap.cells.size .str, ?_, heapWT_alloc hw (.str t) (by simp) (fun vs e => by cases e), ?_⟩
  · show Ext κ m.heap.cells.size _ (m.heap.alloc (.str t)).1.cells.size
    rw [size_alloc]; exact ext_upd _ _ _
  · show ValOK _ (m.heap.alloc (.str t)).1.cells.size (.str m.heap.cells.size)
    rw [size_alloc]; simp [ValOK, upd]

theorem post_allocArr {κ : KMap} {m : Mem} (hw : HeapWT κ m.heap) (vs : List Value) (hvs : ∀ v, v ∈ vs → ValOK κ m.heap.cells.size v) :
    Post κ m (m.allocArr vs).1 (m.allocArr vs).2 := by
  refine ⟨upd κ m.heap.cells.size .arr, ?_, heapWT_alloc hw (.arr vs) (by simp) (fun vs' e => by injection e with e; subst e; exact hvs), ?_⟩
  · show Ext κ m.heap.cells.size _ (m.heap.alloc (.arr vs)).1.cells.size
    rw [size_alloc]; exact ext_upd _ _ _
  · show ValOK _ (m.heap.alloc (.arr vs)).1.cells.size (.arr m.heap.cells.size)
    rw [size_alloc]; simp [ValOK, upd]

theorem post_box {κ : KMap} {m : Mem} (hw : HeapWT κ m.heap) (arg : Value) (harg : ValOK κ m.heap.cells.size arg) (p : PRes) :
    Post κ m (m.box arg p).2 (m.box arg p).1 := by
  cases p with
  | null => exact post_same hw _ trivial
  | bool b => exact post_same hw _ trivial
  | int i => exact post_same hw _ trivial
  | float x => exact post_allocFloat hw x
  | str s => exact post_allocStr hw s
  | same => exact post_same hw _ harg

theorem post_binop {κ : KMap} {m : Mem} (hw : HeapWT κ m.heap) (op : BinOp) (l r : Value) (hl : ValOK κ m.heap.cells.size l)
    (v : Value) (m' : Mem) (he : binop op l r m = .ok (v, m')) : Post κ m m' v := by
  unfold binop at he
  split at he
  · injection he with he
    have := post_box hw l hl ‹PRes›
    rw [← (Prod.mk.inj he).1, ← (Prod.mk.inj he).2]; exact this
  · cases he

theorem post_callBuiltin {κ : KMap} {m : Mem} (hw : HeapWT κ m.heap) (b : Builtin) (args : List Value)
    (hargs : ∀ v, v ∈ args → ValOK κ m.heap.cells.size v) (out : List Text)
    (v : Value) (m' : Mem) (out' : List Text) (he : callBuiltin b args m out = .ok (v, m', out')) : Post κ m m' v := by
  unfold callBuiltin at he
  split at he
  · injection he with he
    rw [← (Prod.mk.inj he).1, ← (Prod.mk.inj (Prod.mk.inj he).2).1]; exact post_same hw _ trivial
  · split at he
    · rename_i w
      split at he
      · rename_i p _
        have hb := post_box hw w (hargs w (by simp)) p
        generalize m.box w p = bx at he hb
        obtain ⟨r, mm⟩ := bx
        simp only [Except.ok.injEq, Prod.mk.injEq] at he
        obtain ⟨rfl, rfl, _⟩ := he
        exact hb
      · cases he
    · cases he

theorem getD_ok {κ : KMap} {n : Nat} (vs : List Value) (hvs : ∀ v, v ∈ vs → ValOK κ n v) (k : Nat) : ValOK κ n (vs.getD k .null) := by
  rw [List.getD_eq_getElem?_getD]
  cases hk : vs[k]? with
  | none => trivial
  | some w => exact hvs w (List.mem_of_getElem? hk)

theorem post_indexGet {κ : KMap} {m : Mem} (hw : HeapWT κ m.heap) (l i : Value)
    (v : Value) (m' : Mem) (he : indexGet l i m = .ok (v, m')) : Post κ m m' v := by
  unfold indexGet at he
  split at he
  · split at he
    · simp only at he
      split at he
      · injection he with he
        rw [← (Prod.mk.inj he).1, ← (Prod.mk.inj he).2]
        exact post_same hw _ (getD_ok _ (arrAt_ok hw _) _)
      · cases he
    · simp only at he
      split at he
      · injection he with he
        rw [← (Prod.mk.inj he).1, ← (Prod.mk.inj he).2]
        exact post_allocStr hw _
      · cases he
    · cases he
  · cases he

theorem set_ok {κ : KMap} {n : Nat} (vs : List Value) (hvs : ∀ v, v ∈ vs → ValOK κ n v) (k : Nat) (x : Value) (hx : ValOK κ n x) :
    ∀ v, v ∈ vs.set k x → ValOK κ n v := by
  intro v hv
  rcases List.mem_or_eq_of_mem_set hv with h | h
  · exact hvs v h
  · rw [h]; exact hx

theorem post_indexSet {κ : KMap} {m : Mem} (hw : HeapWT κ m.heap) (l i x : Value) (hl : ValOK κ m.heap.cells.size l)
    (hx : ValOK κ m.heap.cells.size x) (v : Value) (m' : Mem) (he : indexSet l i x m = .ok (v, m')) : Post κ m m' v := by
  unfold indexSet at he
  split at he
  · split at he
    · simp only at he
      split at he
      · injection he with he
        rw [← (Prod.mk.inj he).1, ← (Prod.mk.inj he).2]
        refine ⟨κ, ?_, ?_, ?_⟩
        · show Ext κ _ κ (m.heap.set _ _).cells.size
          rw [size_set]; exact Ext.refl _ _
        · exact heapWT_set hw _ _ ⟨hl.2, set_ok _ (arrAt_ok hw _) _ _ hx⟩
        · show ValOK κ (m.heap.set _ _).cells.size x
          rw [size_set]; exact hx
      · cases he
    · simp only at he
      split at he
      · split at he
        · injection he with he
          rw [← (Prod.mk.inj he).1, ← (Prod.mk.inj he).2]
          refine ⟨κ, ?_, ?_, ?_⟩
          · show Ext κ _ κ (m.heap.set _ _).cells.size
            rw [size_set]; exact Ext.refl _ _
          · exact heapWT_set hw _ _ hl.2
          · show ValOK κ (m.heap.set _ _).cells.size _
            rw [size_set]; exact hx
        · cases he
      · cases he
    · cases he
  · cases he

/-! ### the machine state -/

def ArrOK (κ : KMap) (n : Nat) (xs : Array Value) : Prop := ∀ v, v ∈ xs.toList → ValOK κ n v

theorem ArrOK.ext {κ κ' : KMap} {n n' : Nat} {xs : Array Value} (h : ArrOK κ n xs) (e : Ext κ n κ' n') : ArrOK κ' n' xs :=
  fun v hv => (h v hv).ext e

theorem arrOK_push {κ : KMap} {n : Nat} {xs : Array Value} (h : ArrOK κ n xs) (v : Value) (hv : ValOK κ n v) : ArrOK κ n (xs.push v) := by
  intro w hw
  simp only [Array.toList_push, List.mem_append, List.mem_singleton] at hw
  rcases hw with hw | hw
  · exact h w hw
  · rw [hw]; exact hv

theorem arrOK_pop1 {κ : KMap} {n : Nat} {xs : Array Value} (h : ArrOK κ n xs) (v : Value) (st : Array Value) (hp : pop1 xs = some (v, st)) :
    ValOK κ n v ∧ ArrOK κ n st := by
  unfold pop1 at hp
  split at hp
  · rename_i w hb
    injection hp with hp
    rw [← (Prod.mk.inj hp).1, ← (Prod.mk.inj hp).2]
    refine ⟨h w (Array.mem_toList_iff.2 (Array.mem_of_back? hb)), fun u hu => ?_⟩
    rw [Array.toList_pop] at hu
    exact h u (List.dropLast_subset _ hu)
  · cases hp

theorem arrOK_extract {κ : KMap} {n : Nat} {xs : Array Value} (h : ArrOK κ n xs) (a b : Nat) : ArrOK κ n (xs.extract a b) := by
  intro v hv
  rw [Array.toList_extract, List.extract_eq_take_drop] at hv
  exact h v (List.mem_of_mem_drop (List.mem_of_mem_take hv))

theorem arrOK_popN {κ : KMap} {n : Nat} {xs : Array Value} (h : ArrOK κ n xs) (k : Nat) (vs : List Value) (st : Array Value)
    (hp : popN xs k = some (vs, st)) : (∀ v, v ∈ vs → ValOK κ n v) ∧ ArrOK κ n st := by
  unfold popN at hp
  split at hp
  · injection hp with hp
    rw [← (Prod.mk.inj hp).1, ← (Prod.mk.inj hp).2]
    exact ⟨arrOK_extract h _ _, arrOK_extract h _ _⟩
  · cases hp

theorem arrOK_set {κ : KMap} {n : Nat} {xs : Array Value} (h : ArrOK κ n xs) (k : Nat) (v : Value) (hv : ValOK κ n v) :
    ArrOK κ n (xs.setIfInBounds k v) := by
  intro w hw
  rw [Array.toList_setIfInBounds] at hw
  rcases List.mem_or_eq_of_mem_set hw with e | e
  · exact h w e
  · rw [e]; exact hv

theorem arrOK_pad {κ : KMap} {n : Nat} {xs : Array Value} (h : ArrOK κ n xs) (k : Nat) : ArrOK κ n (xs ++ Array.replicate k .null) := by
  intro w hw
  simp only [Array.toList_append, Array.toList_replicate, List.mem_append, List.mem_replicate] at hw
  rcases hw with e | e
  · exact h w e
  · rw [e.2]; trivial

theorem arrOK_getElem? {κ : KMap} {n : Nat} {xs : Array Value} (h : ArrOK κ n xs) (k : Nat) (v : Value) (hk : xs[k]? = some v) : ValOK κ n v :=
  h v (by rw [← Array.getElem?_toList] at hk; exact List.mem_of_getElem? hk)

theorem arrOK_getD {κ : KMap} {n : Nat} {xs : Array Value} (h : ArrOK κ n xs) (k : Nat) : ValOK κ n (xs.getD k .null) := by
  rw [Array.getD_eq_getD_getElem?]
  cases hk : xs[k]? with
  | none => trivial
  | some w => exact arrOK_getElem? h k w hk

structure VMWT (κ : KMap) (s : VM) : Prop where
  heap : HeapWT κ s.mem.heap
  stack : ArrOK κ s.mem.heap.cells.size s.stack
  globals : ArrOK κ s.mem.heap.cells.size s.globals
  cvals : ArrOK κ s.mem.heap.cells.size s.cvals
  last : ValOK κ s.mem.heap.cells.size s.last

def WT (s : VM) : Prop := ∃ κ, VMWT κ s

def StepWT : Step → Prop
  | .next s => WT s
  | .halt v s => ∃ κ, VMWT κ s ∧ ValOK κ s.mem.heap.cells.size v
  | .error _ s => WT s
  | .fault _ => True

/-- the memory is untouched: only the value holders change -/
theorem same_mem {κ : KMap} {s : VM} (h : VMWT κ s) (s' : VM) (hm : s'.mem = s.mem)
    (hst : ArrOK κ s.mem.heap.cells.size s'.stack) (hg : ArrOK κ s.mem.heap.cells.size s'.globals)
    (hc : s'.cvals = s.cvals) (hl : ValOK κ s.mem.heap.cells.size s'.last) : WT s' :=
  ⟨κ, by rw [hm]; exact h.heap, by rw [hm]; exact hst, by rw [hm]; exact hg, by rw [hm, hc]; exact h.cvals, by rw [hm]; exact hl⟩

/-- a memory operation produced `v`, which is pushed on (what is left of) the stack -/
theorem push_result {κ : KMap} {s : VM} (h : VMWT κ s) (m' : Mem) (v : Value) (hp : Post κ s.mem m' v) (st : Array Value)
    (hst : ArrOK κ s.mem.heap.cells.size st) (s' : VM) (hm : s'.mem = m') (hs : s'.stack = st.push v) (hg : s'.globals = s.globals)
    (hc : s'.cvals = s.cvals) (hl : s'.last = s.last) : WT s' := by
  obtain ⟨κ', e, hw, hv⟩ := hp.ex
  refine ⟨κ', by rw [hm]; exact hw, ?_, ?_, ?_, ?_⟩
  · rw [hm, hs]; exact arrOK_push (hst.ext e) v hv
  · rw [hm, hg]; exact h.globals.ext e
  · rw [hm, hc]; exact h.cvals.ext e
  · rw [hm, hl]; exact h.last.ext e

theorem doReturn_wt {κ : KMap} {s : VM} (h : VMWT κ s) (r : Value) (hr : ValOK κ s.mem.heap.cells.size r) (extra : List Value) :
    StepWT (doReturn s r extra) := by
  unfold doReturn
  split
  · trivial
  · split
    · trivial
    · simp only [StepWT]
      split
      · exact same_mem h _ rfl (arrOK_push (arrOK_extract h.stack _ _) r hr) h.globals rfl h.last
      · have hrun := heapWT_run h.heap (VM.roots { s with stack := s.stack.extract 0 s.bp, frames := ‹List Frame›, depth := s.depth - 1, ip := (‹Frame›).ip, bp := (‹Frame›).bp } extra)
        refine ⟨κ, hrun.1, ?_, ?_, ?_, ?_⟩
        · show ArrOK κ (GC.run _ _).heap.cells.size _
          rw [hrun.2]; exact arrOK_push (arrOK_extract h.stack _ _) r hr
        · show ArrOK κ (GC.run _ _).heap.cells.size _
          rw [hrun.2]; exact h.globals
        · show ArrOK κ (GC.run _ _).heap.cells.size _
          rw [hrun.2]; exact h.cvals
        · show ValOK κ (GC.run _ _).heap.cells.size _
          rw [hrun.2]; exact h.last

theorem exec_wt {κ : KMap} (i : Instr) (ip' : Nat) (s : VM) (h : VMWT κ s) : StepWT (exec i ip' s) := by
  have h' : VMWT κ { s with ip := ip' } := ⟨h.heap, h.stack, h.globals, h.cvals, h.last⟩
  cases i <;> simp only [exec]
  case const k =>
    split
    · trivial
    · rename_i a hk
      exact push_result h' _ _ (post_allocStr h.heap _) _ h.stack _ rfl rfl rfl rfl rfl
    · rename_i v _ hk
      exact same_mem h' _ rfl (arrOK_push h.stack v (arrOK_getElem? h.cvals _ v hk)) h.globals rfl h.last
  case setGlobal k =>
    split
    · trivial
    · rename_i v st hp
      obtain ⟨hv, hst⟩ := arrOK_pop1 h.stack v st hp
      refine same_mem h' _ rfl hst ?_ rfl h.last
      apply arrOK_set _ _ _ hv
      split
      · exact arrOK_pad h.globals _
      · exact h.globals
  case getGlobal k => exact same_mem h' _ rfl (arrOK_push h.stack _ (arrOK_getD h.globals k)) h.globals rfl h.last
  case setLocal k =>
    split
    · trivial
    · rename_i v st hp
      obtain ⟨hv, hst⟩ := arrOK_pop1 h.stack v st hp
      split
      · exact same_mem h' _ rfl (arrOK_set hst _ v hv) h.globals rfl h.last
      · trivial
  case getLocal k =>
    split
    · rename_i v hk
      exact same_mem h' _ rfl (arrOK_push h.stack v (arrOK_getElem? h.stack _ v hk)) h.globals rfl h.last
    · trivial
  case jump t => exact same_mem h' _ rfl h.stack h.globals rfl h.last
  case jumpIfFalse t =>
    split
    · trivial
    · rename_i b st hp
      exact same_mem h' _ rfl (arrOK_pop1 h.stack _ st hp).2 h.globals rfl h.last
    · rename_i v st _ hp
      exact same_mem h' _ rfl (arrOK_pop1 h.stack _ st hp).2 h.globals rfl h.last
  case pop =>
    split
    · trivial
    · rename_i v st hp
      obtain ⟨hv, hst⟩ := arrOK_pop1 h.stack v st hp
      exact same_mem h' _ rfl hst h.globals rfl hv
  case null => exact same_mem h' _ rfl (arrOK_push h.stack _ trivial) h.globals rfl h.last
  case true_ => exact same_mem h' _ rfl (arrOK_push h.stack _ trivial) h.globals rfl h.last
  case false_ => exact same_mem h' _ rfl (arrOK_push h.stack _ trivial) h.globals rfl h.last
  case bin op =>
    split
    · trivial
    · rename_i r st1 hp1
      obtain ⟨hr, hst1⟩ := arrOK_pop1 h.stack r st1 hp1
      split
      · trivial
      · rename_i l st2 hp2
        obtain ⟨hl, hst2⟩ := arrOK_pop1 hst1 l st2 hp2
        split
        · rename_i v m he
          exact push_result h' m v (post_binop h.heap op l r hl v m he) st2 hst2 _ rfl rfl rfl rfl rfl
        · exact same_mem h' _ rfl hst2 h.globals rfl h.last
  case fused op loc k =>
    split
    · trivial
    · rename_i l hl
      split
      · trivial
      · rename_i r hr
        split
        · rename_i v m he
          exact push_result h' m v (post_binop h.heap op l r (arrOK_getElem? h.stack _ l hl) v m he) _ h.stack _ rfl rfl rfl rfl rfl
        · exact same_mem h' _ rfl h.stack h.globals rfl h.last
  case not =>
    split
    · trivial
    · rename_i b st hp
      exact same_mem h' _ rfl (arrOK_push (arrOK_pop1 h.stack _ st hp).2 _ trivial) h.globals rfl h.last
    · rename_i v st _ hp
      exact same_mem h' _ rfl (arrOK_pop1 h.stack _ st hp).2 h.globals rfl h.last
  case negate =>
    split
    · trivial
    · rename_i n st hp
      split
      · exact same_mem h' _ rfl (arrOK_push (arrOK_pop1 h.stack _ st hp).2 _ trivial) h.globals rfl h.last
      · exact same_mem h' _ rfl (arrOK_pop1 h.stack _ st hp).2 h.globals rfl h.last
    · rename_i a st hp
      exact push_result h' _ _ (post_allocFloat h.heap _) st (arrOK_pop1 h.stack _ st hp).2 _ rfl rfl rfl rfl rfl
    · rename_i v st _ _ hp
      exact same_mem h' _ rfl (arrOK_pop1 h.stack _ st hp).2 h.globals rfl h.last
  case call argc =>
    split
    · trivial
    · rename_i fip nl st hp
      have hst := (arrOK_pop1 h.stack _ st hp).2
      split
      · exact same_mem h' _ rfl hst h.globals rfl h.last
      · split
        · exact same_mem h' _ rfl hst h.globals rfl h.last
        · split
          · trivial
          · exact same_mem h' _ rfl (arrOK_pad hst _) h.globals rfl h.last
    · rename_i v st _ hp
      exact same_mem h' _ rfl (arrOK_pop1 h.stack _ st hp).2 h.globals rfl h.last
  case callBuiltin b argc =>
    split
    · trivial
    · rename_i args st hp
      obtain ⟨hargs, hst⟩ := arrOK_popN h.stack argc args st hp
      split
      · trivial
      · rename_i bi _
        split
        · rename_i v m out he
          have hpost := post_callBuiltin h.heap bi args hargs s.out v m out he
          obtain ⟨κ', e, hw, hv⟩ := hpost.ex
          exact ⟨κ', hw, arrOK_push (hst.ext e) v hv, h.globals.ext e, h.cvals.ext e, h.last.ext e⟩
        · exact same_mem h' _ rfl hst h.globals rfl h.last
  case retv =>
    split
    · trivial
    · rename_i v st hp
      obtain ⟨hv, hst⟩ := arrOK_pop1 h.stack v st hp
      have hw : VMWT κ { s with ip := ip', stack := st } := ⟨h.heap, hst, h.globals, h.cvals, h.last⟩
      exact doReturn_wt hw v hv _
  case ret => exact doReturn_wt h' .null trivial _
  case array n =>
    split
    · trivial
    · rename_i vs st hp
      obtain ⟨hvs, hst⟩ := arrOK_popN h.stack n vs st hp
      exact push_result h' _ _ (post_allocArr h.heap vs hvs) st hst _ rfl rfl rfl rfl rfl
  case indexGet =>
    split
    · trivial
    · rename_i idx st1 hp1
      obtain ⟨_, hst1⟩ := arrOK_pop1 h.stack idx st1 hp1
      split
      · trivial
      · rename_i l st2 hp2
        obtain ⟨_, hst2⟩ := arrOK_pop1 hst1 l st2 hp2
        split
        · rename_i v m he
          exact push_result h' m v (post_indexGet h.heap l idx v m he) st2 hst2 _ rfl rfl rfl rfl rfl
        · exact same_mem h' _ rfl hst2 h.globals rfl h.last
  case indexSet =>
    split
    · trivial
    · rename_i x st1 hp1
      obtain ⟨hx, hst1⟩ := arrOK_pop1 h.stack x st1 hp1
      split
      · trivial
      · rename_i idx st2 hp2
        obtain ⟨_, hst2⟩ := arrOK_pop1 hst1 idx st2 hp2
        split
        · trivial
        · rename_i l st3 hp3
          obtain ⟨hl, hst3⟩ := arrOK_pop1 hst2 l st3 hp3
          split
          · rename_i v m he
            exact push_result h' m v (post_indexSet h.heap l idx x hl hx v m he) st3 hst3 _ rfl rfl rfl rfl rfl
          · exact same_mem h' _ rfl hst3 h.globals rfl h.last
  case halt => exact ⟨κ, h', h.last⟩

theorem step_wt (c : Code) (s : VM) (h : WT s) : StepWT (step c s) := by
  obtain ⟨κ, h⟩ := h
  unfold step
  split
  · trivial
  · exact exec_wt _ _ _ h

def OutcomeWT : Outcome → Prop
  | .value v s => ∃ κ, VMWT κ s ∧ ValOK κ s.mem.heap.cells.size v
  | .error _ s => WT s
  | .budget s => WT s
  | .fault _ => True

theorem runSteps_wt (c : Code) : ∀ (n : Nat) (s : VM), WT s → OutcomeWT (runSteps c n s) := by
  intro n
  induction n with
  | zero => intro s h; exact h
  | succ n ih =>
    intro s h
    have := step_wt c s h
    simp only [runSteps]
    cases hs : step c s with
    | next s' => rw [hs] at this; exact ih s' this
    | halt v s' => rw [hs] at this; exact this
    | error e s' => rw [hs] at this; exact this
    | fault site => trivial

/-- the states a run passes through -/
inductive Reachable (c : Code) (s0 : VM) : VM → Prop where
  | start : Reachable c s0 s0
  | step (s s' : VM) : Reachable c s0 s → step c s = .next s' → Reachable c s0 s'

theorem reachable_wt (c : Code) (s0 : VM) (h0 : WT s0) (s : VM) (hr : Reachable c s0 s) : WT s := by
  induction hr with
  | start => exact h0
  | step s s' _ hs ih =>
    have := step_wt c s ih
    rw [hs] at this
    exact this

theorem wt_kinds {s : VM} (h : WT s) : GC.HeapKindOK s.mem.heap ∧
    ∀ v, v ∈ s.stack.toList ++ s.cvals.toList ++ s.globals.toList ++ [s.last] → GC.KindOK s.mem.heap v := by
  obtain ⟨κ, h⟩ := h
  refine ⟨heapKindOK h.heap, fun v hv => kindOK_of_valOK h.heap v ?_⟩
  simp only [List.mem_append, List.mem_singleton] at hv
  rcases hv with ((hv | hv) | hv) | hv
  · exact h.stack v hv
  · exact h.cvals v hv
  · exact h.globals v hv
  · rw [hv]; exact h.last

/-! ### the start of a run, its end, and sessions -/

theorem loadConsts_wt : ∀ (cs : List Const) (κ : KMap) (m : Mem) (vs : Array Value), HeapWT κ m.heap → ArrOK κ m.heap.cells.size vs →
    ∃ κ', Ext κ m.heap.cells.size κ' (loadConsts cs (m, vs)).1.heap.cells.size ∧ HeapWT κ' (loadConsts cs (m, vs)).1.heap ∧
      ArrOK κ' (loadConsts cs (m, vs)).1.heap.cells.size (loadConsts cs (m, vs)).2 := by
  intro cs
  induction cs with
  | nil => intro κ m vs hw hv; exact ⟨κ, Ext.refl _ _, hw, hv⟩
  | cons c cs ih =>
    intro κ m vs hw hv
    cases c with
    | int i => exact ih κ m _ hw (arrOK_push hv _ trivial)
    | fn ip nl => exact ih κ m _ hw (arrOK_push hv _ trivial)
    | float b =>
      obtain ⟨κ1, e1, hw1, hv1⟩ := (post_allocFloat hw b).ex
      obtain ⟨κ2, e2, hw2, hv2⟩ := ih κ1 (m.allocFloat b).1 (vs.push (m.allocFloat b).2) hw1 (arrOK_push (hv.ext e1) _ hv1)
      exact ⟨κ2, e1.trans e2, hw2, hv2⟩
    | str t =>
      obtain ⟨κ1, e1, hw1, hv1⟩ := (post_allocStr hw t).ex
      obtain ⟨κ2, e2, hw2, hv2⟩ := ih κ1 (m.allocStr t).1 (vs.push (m.allocStr t).2) hw1 (arrOK_push (hv.ext e1) _ hv1)
      exact ⟨κ2, e1.trans e2, hw2, hv2⟩

theorem wt_empty : WT ({} : VM) :=
  ⟨fun _ => .float, fun a ha => by simp at ha, fun v hv => by simp at hv, fun v hv => by simp at hv, fun v hv => by simp at hv, trivial⟩

/-- a run starts well-typed on a fresh machine and on whatever an earlier run of the session left -/
theorem start_wt (prev : VM) (bc : Bytecode) (h : WT prev) : WT (prev.start bc) := by
  obtain ⟨κ, h⟩ := h
  obtain ⟨κ', e, hw, hv⟩ := loadConsts_wt bc.consts κ { heap := prev.mem.heap, managed := [] } #[] h.heap (fun v hv => by simp at hv)
  refine ⟨κ', ?_, ?_, ?_, ?_, ?_⟩
  · simpa [VM.start] using hw
  · intro v hv; simp [VM.start] at hv
  · have := h.globals.ext e; simpa [VM.start] using this
  · simpa [VM.start] using hv
  · trivial

/-- EVERY STATE ANY RUN REACHES is well-typed -/
theorem run_wt (prev : VM) (bc : Bytecode) (h : WT prev) (n : Nat) : OutcomeWT (runSteps bc.code n (prev.start bc)) :=
  runSteps_wt bc.code n _ (start_wt prev bc h)

theorem destroy_wt {κ : KMap} {s : VM} (h : VMWT κ s) (man : List Nat) : VMWT κ { s with mem := GC.destroy { s.mem with managed := man } } := by
  have hs : (GC.freeAll s.mem.heap man).cells.size = s.mem.heap.cells.size := freeAll_size _ _
  refine ⟨heapWT_freeAll _ h.heap, ?_, ?_, ?_, ?_⟩
  · show ArrOK κ (GC.freeAll s.mem.heap man).cells.size _; rw [hs]; exact h.stack
  · show ArrOK κ (GC.freeAll s.mem.heap man).cells.size _; rw [hs]; exact h.globals
  · show ArrOK κ (GC.freeAll s.mem.heap man).cells.size _; rw [hs]; exact h.cvals
  · show ValOK κ (GC.freeAll s.mem.heap man).cells.size _; rw [hs]; exact h.last

/-- ... also what `VM::run` leaves for the next line of a session, however the run ended -/
theorem vmrun_wt (prev : VM) (bc : Bytecode) (h : WT prev) (budget : Nat) :
    match VM.run prev bc budget with
    | .value _ s => WT s
    | .error _ s => WT s
    | .budget s => WT s
    | .fault _ => True := by
  have := run_wt prev bc h budget
  unfold VM.run
  cases hr : runSteps bc.code budget (prev.start bc) with
  | value v s => rw [hr] at this; obtain ⟨κ, hw, _⟩ := this; exact ⟨κ, destroy_wt hw _⟩
  | error e s => rw [hr] at this; obtain ⟨κ, hw⟩ := this; exact ⟨κ, destroy_wt hw _⟩
  | budget s => rw [hr] at this; obtain ⟨κ, hw⟩ := this; exact ⟨κ, destroy_wt hw _⟩
  | fault site => trivial

end TI
end Nl
