/- Forward simulation, stage 3, continued: statements, blocks in statement and in value position,
   the assembly of the induction, and whole programs (C01, C11). -/
import Nlmodel.Proofs.Lemmas.SimCtl
namespace Nl
namespace Sim
open Spec

theorem Reach.weaken {Γ : Gam} (d : Gam) {C : Code} {s0 : VM} {ip : Nat} {stk g : Array Value} {l : Value}
    {ip' : Nat} {stk' : Array Value} {st st' : SState}
    (h : Reach (d ++ Γ) C s0 ip stk g l ip' stk' st st') : Reach Γ C s0 ip stk g l ip' stk' st st' := by
  obtain ⟨g', l', n, hn, hr, hl, ho, hle⟩ := h
  exact ⟨g', l', n, hn, rel_weaken d hr, hl, ho, hle⟩

/-- a statement run first: its scope `Γ1 = d ++ Γ` is the scope the rest starts in -/
theorem GoalU.seq {Γ Γ2 : Gam} (d : Gam) {ab : Bool} {lp : LoopCtx} {C : Code} {s0 : VM} {ip : Nat} {stk g : Array Value} {l : Value}
    {ip1 : Nat} {g1 : Array Value} {l1 : Value} {endIp : Nat} {st st1 : SState} {r : Res Unit}
    (n : Nat) (hpre : execN C n (setv s0 ip stk g l) = some (setv s0 ip1 stk g1 l1))
    (ho : st1.out = st.out) (hle : st1.lenv = st.lenv)
    (h : GoalU (d ++ Γ) Γ2 ab lp C s0 ip1 stk g1 l1 endIp st1 r) : GoalU Γ Γ2 ab lp C s0 ip stk g l endIp st r := by
  cases r with
  | val v st' => exact Reach.prefix n hpre ho hle h
  | brk st' => exact ⟨h.1, (h.2.prefix n hpre ho hle).weaken d⟩
  | cont st' => exact ⟨h.1, (h.2.prefix n hpre ho hle).weaken d⟩
  | err er st' => exact Fails.after n hpre h
  | ret _ _ => exact h
  | fuel => trivial
  | unspec _ => trivial

/-- the result of a statement seen as the result of something in value position -/
def liftU (r : Res Unit) (k : SState → Res SVal) : Res SVal :=
  match r with
  | .val () st1 => k st1
  | .brk s => .brk s | .cont s => .cont s | .ret v s => .ret v s
  | .err e s => .err e s | .unspec s => .unspec s | .fuel => .fuel

theorem ps_succ (f : Nat) (ih : PAll f) : PS (f + 1) := by
  intro Γ ab s Γ1 hx hok st pos lp cs C s0 stk g l hcode hpool hrel hlast
  cases hx with
  | expr _ _ e he =>
    simp only [emitS] at hcode hpool
    obtain ⟨hc1, hc2⟩ := hcode.append
    rw [emitE_size] at hc2
    have h := ih.e Γ ab e he hok st pos lp cs C s0 stk g l hc1 hpool hrel hlast
    simp only [evalS, sizeS]
    cases hr : evalE f e st with
    | val v st1 =>
      rw [hr] at h
      obtain ⟨mv, hmv, g1, l1, n, hn, hrel1, hl1, ho1, hle1⟩ := h
      refine ⟨g1, mv, n + 1, ?_, hrel1, hmv, ho1, hle1⟩
      rw [execN_step C n _ _ _ hn (step_pop hc2)]; congr 2
    | err er st1 => rw [hr] at h; exact h
    | fuel => trivial
    | unspec _ => trivial
    | brk _ => rw [hr] at h; exact h
    | cont _ => rw [hr] at h; exact h
    | ret _ _ => rw [hr] at h; exact h
  | letS _ _ b k e hf he =>
    have hok' := gamOK_cons hok b k hf
    simp only [emitS, setVar] at hcode hpool
    obtain ⟨hc1, hc2⟩ := hcode.append
    rw [emitE_size] at hc2
    have hrel0 := rel_unbind st g b k hf hrel
    have h := ih.e _ ab e he hok' (st.unbind ⟨b, .global k⟩) pos lp cs C s0 stk g l hc1 hpool hrel0
      (by simpa [LastRel, SState.unbind, isGlobalSlot] using hlast)
    simp only [evalS, sizeS]
    cases hr : evalE f e (st.unbind ⟨b, .global k⟩) with
    | val v st1 =>
      rw [hr] at h
      obtain ⟨mv, hmv, g1, l1, n, hn, hrel1, hl1, ho1, hle1⟩ := h
      refine ⟨setGlobalArr g1 k mv, l1, n + 1, ?_, rel_bind hok' st1 g1 b k List.mem_cons_self v mv hmv hrel1, ?_, ?_, ?_⟩
      · rw [execN_step C n _ _ _ hn (step_setGlobal hc2)]; congr 2
      · simpa [LastRel, SState.bind, isGlobalSlot] using hl1
      · simp [SState.bind, isGlobalSlot, ho1, SState.unbind]
      · simp [SState.bind, isGlobalSlot, hle1, SState.unbind]
    | err er st1 => rw [hr] at h; exact h
    | fuel => trivial
    | unspec _ => trivial
    | brk _ =>
      rw [hr] at h
      exact ⟨h.1, by
        have := h.2.weaken (Γ := Γ) [(b, k)]
        obtain ⟨g', l', n, hn, hr', hl', ho, hle⟩ := this
        exact ⟨g', l', n, hn, hr', hl', by simpa [SState.unbind, isGlobalSlot] using ho, by simpa [SState.unbind, isGlobalSlot] using hle⟩⟩
    | cont _ =>
      rw [hr] at h
      exact ⟨h.1, by
        have := h.2.weaken (Γ := Γ) [(b, k)]
        obtain ⟨g', l', n, hn, hr', hl', ho, hle⟩ := this
        exact ⟨g', l', n, hn, hr', hl', by simpa [SState.unbind, isGlobalSlot] using ho, by simpa [SState.unbind, isGlobalSlot] using hle⟩⟩
    | ret _ _ => rw [hr] at h; exact h
  | block _ _ b Γ2 hb =>
    simp only [emitS] at hcode hpool
    have h := ih.b Γ ab b Γ2 hb hok st pos lp cs C s0 stk g l hcode hpool hrel hlast
    obtain ⟨_, d, hd⟩ := xb_scope b hb hok
    simp only [evalS, sizeS]
    cases hr : evalB f b st with
    | val u st1 => rw [hr] at h; subst hd; exact h.weaken d
    | err er st1 => rw [hr] at h; exact h
    | fuel => trivial
    | unspec _ => trivial
    | brk _ => rw [hr] at h; exact h
    | cont _ => rw [hr] at h; exact h
    | ret _ _ => rw [hr] at h; exact h
  | brk _ =>
    simp only [emitS] at hcode
    simp only [evalS, sizeS, GoalU]
    refine ⟨by first | rfl | trivial, g, l, 2, ?_, hrel, hlast, rfl, rfl⟩
    have h1 := execN_one C _ _ (step_null (s0 := s0) (stk := stk) (g := g) (l := l) hcode)
    rw [execN_step C 1 _ _ _ h1 (step_jump (by simpa [Instr.size] using hcode.tail))]
    rfl
  | cont _ =>
    simp only [emitS] at hcode
    simp only [evalS, sizeS, GoalU]
    refine ⟨by first | rfl | trivial, g, l, 2, ?_, hrel, hlast, rfl, rfl⟩
    have h1 := execN_one C _ _ (step_null (s0 := s0) (stk := stk) (g := g) (l := l) hcode)
    rw [execN_step C 1 _ _ _ h1 (step_jump (by simpa [Instr.size] using hcode.tail))]
    rfl

theorem pb_succ (f : Nat) (ih : PAll f) : PB (f + 1) := by
  intro Γ ab b Γ2 hx hok st pos lp cs C s0 stk g l hcode hpool hrel hlast
  cases hx with
  | nil _ _ =>
    simp only [evalB, sizeB, GoalU, Nat.add_zero]
    exact Reach.refl _ C s0 pos stk g l st hrel hlast
  | cons _ _ Γ1 _ s rest hs hrest =>
    simp only [emitB] at hcode hpool
    obtain ⟨hc1, hc2⟩ := hcode.append
    rw [emitS_size] at hc2
    have hpool1 : PoolOK s0.cvals (emitS s pos lp cs).2 := hpool.mono (emitB_ext rest _ _ _)
    have h1 := ih.s Γ ab s Γ1 hs hok st pos lp cs C s0 stk g l hc1 hpool1 hrel hlast
    obtain ⟨hok1, d, hd⟩ := xs_scope hs hok
    simp only [evalB, sizeB]
    cases hr : evalS f s st with
    | val u st1 =>
      rw [hr] at h1
      obtain ⟨g1, l1, n, hn, hrel1, hl1, ho1, hle1⟩ := h1
      have h2 := ih.b Γ1 ab rest Γ2 hrest hok1 st1 (pos + sizeS s) lp _ C s0 stk g1 l1 hc2 hpool hrel1 hl1
      subst hd
      rw [← Nat.add_assoc]
      exact GoalU.seq d n hn ho1 hle1 h2
    | err er st1 => rw [hr] at h1; exact h1
    | fuel => trivial
    | unspec _ => trivial
    | brk _ => rw [hr] at h1; exact h1
    | cont _ => rw [hr] at h1; exact h1
    | ret _ _ => rw [hr] at h1; exact h1

theorem goalU_then_null {Γ Γ1 : Gam} (d : Gam) (hd : Γ1 = d ++ Γ) {ab : Bool} {lp : LoopCtx} {C : Code} {s0 : VM} {pos : Nat}
    {stk g : Array Value} {l : Value} {e1 : Nat} {st : SState} {r : Res Unit}
    (h : GoalU Γ Γ1 ab lp C s0 pos stk g l e1 st r) (hnull : CodeAt C e1 [.null]) :
    GoalV Γ ab lp C s0 pos stk g l (e1 + 1) stk st (liftU r (fun st1 => .val .null st1)) := by
  subst hd
  cases r with
  | val u st1 => exact ⟨.null, rfl, (Reach.then h (fun g' l' => step_null hnull)).weaken d⟩
  | brk st' => exact h
  | cont st' => exact h
  | err er st' => exact h
  | ret _ _ => exact h
  | fuel => trivial
  | unspec _ => trivial

/-- a block whose single statement leaves no value: the statement, then `Null` -/
theorem pbv_novalue (f : Nat) (ih : PAll f) {Γ Γ1 : Gam} {ab : Bool} (s : RStmt) (hs : XS Γ ab s Γ1) (hok : GamOK Γ)
    {st : SState} {pos : Nat} {lp : LoopCtx} {cs : List Const} {C : Code} {s0 : VM} {stk g : Array Value} {l : Value}
    (heval : evalBV (f + 1) (.cons s .nil) st = liftU (evalS f s st) (fun st1 => .val .null st1))
    (hasv : ∀ c, asValue (.cons s .nil) c = c ++ [.null])
    (hsz : sizeBV (.cons s .nil) = sizeS s + 1)
    (hcode : CodeAt C pos (asValue (.cons s .nil) (emitB (.cons s .nil) pos lp cs).1))
    (hpool : PoolOK s0.cvals (emitB (.cons s .nil) pos lp cs).2)
    (hrel : Rel Γ st g) (hlast : LastRel st l) :
    GoalV Γ ab lp C s0 pos stk g l (pos + sizeBV (.cons s .nil)) stk st (evalBV (f + 1) (.cons s .nil) st) := by
  rw [hasv] at hcode
  simp only [emitB, List.append_nil] at hcode hpool
  obtain ⟨hc1, hc2⟩ := hcode.append
  rw [emitS_size] at hc2
  have h := ih.s Γ ab s Γ1 hs hok st pos lp cs C s0 stk g l hc1 hpool hrel hlast
  obtain ⟨_, d, hd⟩ := xs_scope hs hok
  rw [heval, hsz, ← Nat.add_assoc]
  exact goalU_then_null d hd h hc2

theorem GoalV.weaken {Γ : Gam} (d : Gam) {ab : Bool} {lp : LoopCtx} {C : Code} {s0 : VM} {ip : Nat} {stk g : Array Value} {l : Value}
    {endIp : Nat} {base : Array Value} {st : SState} {r : Res SVal}
    (h : GoalV (d ++ Γ) ab lp C s0 ip stk g l endIp base st r) : GoalV Γ ab lp C s0 ip stk g l endIp base st r := by
  cases r with
  | val v st' => obtain ⟨mv, hmv, hre⟩ := h; exact ⟨mv, hmv, hre.weaken d⟩
  | brk st' => exact ⟨h.1, h.2.weaken d⟩
  | cont st' => exact ⟨h.1, h.2.weaken d⟩
  | err er st' => exact h
  | ret _ _ => exact h
  | fuel => trivial
  | unspec _ => trivial

theorem tailKind_cons_cons (s s2 : RStmt) (r : RBlock) : (RBlock.cons s (.cons s2 r)).tailKind = (RBlock.cons s2 r).tailKind := by
  cases s <;> rfl

theorem asValue_seq (s s2 : RStmt) (r : RBlock) (c1 : List Instr) (pos : Nat) (lp : LoopCtx) (cs : List Const) :
    asValue (.cons s (.cons s2 r)) (c1 ++ (emitB (.cons s2 r) pos lp cs).1) =
      c1 ++ asValue (.cons s2 r) (emitB (.cons s2 r) pos lp cs).1 := by
  simp only [asValue, tailKind_cons_cons]
  cases hk : (RBlock.cons s2 r).tailKind with
  | value =>
    obtain ⟨c', hc'⟩ := emitB_value_tail (.cons s2 r) pos lp cs hk
    simp only [hc', ← List.append_assoc, List.dropLast_concat]
  | returns => simp
  | other => simp

theorem sizeBV_seq (s s2 : RStmt) (r : RBlock) : sizeBV (.cons s (.cons s2 r)) = sizeS s + sizeBV (.cons s2 r) := by
  simp only [sizeBV, valSize, tailKind_cons_cons]
  cases hk : (RBlock.cons s2 r).tailKind with
  | value =>
    obtain ⟨c', hc'⟩ := emitB_value_tail (.cons s2 r) 0 none [] hk
    have := emitB_size (.cons s2 r) 0 none []
    rw [hc'] at this
    simp [Instr.size] at this
    simp only [sizeB] at this ⊢
    omega
  | returns => simp only [sizeB]; omega
  | other => simp only [sizeB]; omega

theorem liftU_eq (r : Res Unit) (k : SState → Res SVal) :
    (match r with
      | .val () st1 => k st1
      | .brk s => .brk s | .cont s => .cont s | .ret v s => .ret v s
      | .err e s => .err e s | .unspec s => .unspec s | .fuel => .fuel) = liftU r k := rfl

theorem pbv_succ (f : Nat) (ih : PAll f) : PBV (f + 1) := by
  intro Γ ab b Γ2 hx hok st pos lp cs C s0 stk g l hcode hpool hrel hlast
  cases hx with
  | nil _ _ =>
    simp only [asValue] at hcode
    simp only [evalBV, GoalV]
    exact ⟨.null, rfl, g, l, 1, execN_one C _ _ (step_null hcode), hrel, hlast, rfl, rfl⟩
  | cons _ _ Γ1 _ s rest hs hrest =>
    cases rest with
    | nil =>
      cases hrest
      cases hs with
      | expr _ _ e he =>
        have hcode' : CodeAt C pos (emitE e pos lp cs).1 := by
          simpa [asValue, RBlock.tailKind, emitB, emitS] using hcode
        have hpool' : PoolOK s0.cvals (emitE e pos lp cs).2 := by simpa [emitB, emitS] using hpool
        have h := ih.e Γ ab e he hok st pos lp cs C s0 stk g l hcode' hpool' hrel hlast
        have hsz : sizeBV (.cons (.expr e) .nil) = sizeE e := by
          simp [sizeBV, valSize, RBlock.tailKind, sizeB, sizeS]
        rw [hsz]
        simp only [evalBV]
        exact h
      | block _ _ b' Γ3 hb' =>
        cases b' with
        | nil =>
          exact pbv_novalue f ih _ (.block _ _ _ _ hb') hok (by simp only [evalBV]; exact liftU_eq _ _)
            (by intro c; simp [asValue, RBlock.tailKind]) (by simp [sizeBV, valSize, RBlock.tailKind, sizeB])
            hcode hpool hrel hlast
        | cons s' b'' =>
          have hcode' : CodeAt C pos (asValue (.cons s' b'') (emitB (.cons s' b'') pos lp cs).1) := by
            have : (emitB (.cons (.block (.cons s' b'')) .nil) pos lp cs).1 = (emitB (.cons s' b'') pos lp cs).1 := by
              simp [emitB, emitS]
            rw [this] at hcode
            simpa [asValue, RBlock.tailKind] using hcode
          have hpool' : PoolOK s0.cvals (emitB (.cons s' b'') pos lp cs).2 := by
            have : (emitB (.cons (.block (.cons s' b'')) .nil) pos lp cs).2 = (emitB (.cons s' b'') pos lp cs).2 := by
              simp [emitB, emitS]
            rw [this] at hpool; exact hpool
          have h := ih.bv Γ ab _ Γ3 hb' hok st pos lp cs C s0 stk g l hcode' hpool' hrel hlast
          have hsz : sizeBV (.cons (.block (.cons s' b'')) .nil) = sizeBV (.cons s' b'') := by
            simp [sizeBV, valSize, RBlock.tailKind, sizeB, sizeS]
          rw [hsz]
          simp only [evalBV]
          exact h
      | letS _ _ bb k e hf he =>
        exact pbv_novalue f ih _ (.letS _ _ bb k e hf he) hok (by simp only [evalBV]; exact liftU_eq _ _)
          (by intro c; simp [asValue, RBlock.tailKind]) (by simp [sizeBV, valSize, RBlock.tailKind, sizeB])
          hcode hpool hrel hlast
      | brk _ =>
        exact pbv_novalue f ih _ (.brk _) hok (by simp only [evalBV]; exact liftU_eq _ _)
          (by intro c; simp [asValue, RBlock.tailKind]) (by simp [sizeBV, valSize, RBlock.tailKind, sizeB])
          hcode hpool hrel hlast
      | cont _ =>
        exact pbv_novalue f ih _ (.cont _) hok (by simp only [evalBV]; exact liftU_eq _ _)
          (by intro c; simp [asValue, RBlock.tailKind]) (by simp [sizeBV, valSize, RBlock.tailKind, sizeB])
          hcode hpool hrel hlast
    | cons s2 rest2 =>
      have e1 : (emitB (.cons s (.cons s2 rest2)) pos lp cs).1 =
          (emitS s pos lp cs).1 ++ (emitB (.cons s2 rest2) (pos + sizeS s) lp (emitS s pos lp cs).2).1 := by rw [emitB]
      have e2 : (emitB (.cons s (.cons s2 rest2)) pos lp cs).2 =
          (emitB (.cons s2 rest2) (pos + sizeS s) lp (emitS s pos lp cs).2).2 := by rw [emitB]
      have hcode' := hcode
      rw [e1, asValue_seq] at hcode'
      rw [e2] at hpool
      obtain ⟨hc1, hc2⟩ := hcode'.append
      rw [emitS_size] at hc2
      have hpool1 : PoolOK s0.cvals (emitS s pos lp cs).2 := hpool.mono (emitB_ext _ _ _ _)
      have h1 := ih.s Γ ab s Γ1 hs hok st pos lp cs C s0 stk g l hc1 hpool1 hrel hlast
      obtain ⟨hok1, d, hd⟩ := xs_scope hs hok
      have heval : evalBV (f + 1) (.cons s (.cons s2 rest2)) st = liftU (evalS f s st) (fun st1 => evalBV f (.cons s2 rest2) st1) := by
        cases s <;> (simp only [evalBV]; exact liftU_eq _ _)
      rw [heval, sizeBV_seq]
      cases hr : evalS f s st with
      | val u st1 =>
        rw [hr] at h1
        obtain ⟨g1, l1, n, hn, hrel1, hl1, ho1, hle1⟩ := h1
        have h2 := ih.bv Γ1 ab (.cons s2 rest2) Γ2 hrest hok1 st1 (pos + sizeS s) lp _ C s0 stk g1 l1 hc2
          hpool hrel1 hl1
        subst hd
        rw [← Nat.add_assoc]
        exact (h2.weaken d).prefix n hn ho1 hle1
      | err er st1 => rw [hr] at h1; exact h1
      | fuel => trivial
      | unspec _ => trivial
      | brk _ => rw [hr] at h1; exact h1
      | cont _ => rw [hr] at h1; exact h1
      | ret _ _ => rw [hr] at h1; exact h1

theorem pall : ∀ f, PAll f
  | 0 => ⟨by intro _ _ _ _ _ _ _ _ _ _ _ _ _ _ _ _ _ _; simp [evalE, GoalV],
          by intro _ _ _ _ _ _ _ _ _ _ _ _ _ _ _ _ _ _ _; simp [evalBV, GoalV],
          by intro _ _ _ _ _ _ _ _ _ _ _ _ _ _ _ _ _ _ _; simp [evalS, GoalU],
          by intro _ _ _ _ _ _ _ _ _ _ _ _ _ _ _ _ _ _ _; simp [evalB, GoalU],
          by intro _ _ _ _ _ _ _ _ _ _ _ _ _ _ _ _ _ _ _ _ _ _ _ _; simp [evalLoop, GoalV]⟩
  | f + 1 =>
    have ih := pall f
    ⟨pe_succ f ih, pbv_succ f ih, ps_succ f ih, pb_succ f ih, pl_succ f ih⟩

/-- END TO END, stage 3: a top-level program in the fragment (`XB [] false p Γ'`), compiled by the
    compiler model and run on a fresh machine -/
theorem ctl_program (p : RBlock) (Γ' : Gam) (hx : XB [] false p Γ') (bc : Bytecode) (hc : compileR p = .ok bc) (F : Nat) :
    match evalB F p {} with
    | .val () st' => ∃ mv n, toVal st'.last = some mv ∧ st'.out = [] ∧
        ∀ k, ∃ s', runSteps bc.code (n + k) (VM.start {} bc) = .value mv s'
    | .err er _ => ∃ n, ∀ k, ∃ s', runSteps bc.code (n + k) (VM.start {} bc) = .error er s'
    | .brk _ => False
    | .cont _ => False
    | .ret _ _ => False
    | _ => True := by
  obtain ⟨hcode, hconsts, hwf⟩ := compile_general p bc hc
  have hall : CodeAt bc.code 0 ((emitB p 0 none []).1 ++ [.halt]) := ⟨hwf, [], [], by simp [hcode], rfl⟩
  obtain ⟨h1, hhalt⟩ := hall.append
  have hpool : PoolOK (VM.start {} bc).cvals (emitB p 0 none []).2 := by
    rw [← hconsts]; exact start_pool bc {}
  have hstart : setv (VM.start {} bc) 0 #[] #[] .null = VM.start {} bc := by
    simp [setv, VM.start]
  have hsim := (pall F).b [] false p Γ' hx (by simp [GamOK]) {} 0 none [] bc.code (VM.start {} bc) #[] #[] .null h1 hpool
    (by intro b k hm; cases hm) (by simp [LastRel, toVal])
  cases hr : evalB F p {} with
  | val u st' =>
    rw [hr] at hsim
    obtain ⟨g', l', n, hn, _, hlast, hout, _⟩ := hsim
    rw [hstart] at hn
    simp only
    refine ⟨l', n + 1, hlast, by simpa using hout, ?_⟩
    simp only [emitB_size, Nat.zero_add] at hhalt hn
    have hs : step bc.code (setv (VM.start {} bc) (sizeB p) #[] g' l') = .halt l' (setv (VM.start {} bc) (sizeB p + 1) #[] g' l') := by
      rw [step_exec hhalt]; rfl
    intro k
    exact ⟨_, run_halt bc.code n _ _ l' _ hn hs k⟩
  | err er st' =>
    rw [hr] at hsim
    obtain ⟨n, s1, s2, hn, hs⟩ := hsim
    rw [hstart] at hn
    simp only
    exact ⟨n + 1, fun k => ⟨s2, run_error bc.code n _ s1 er s2 hn hs k⟩⟩
  | fuel => trivial
  | brk _ => rw [hr] at hsim; exact absurd hsim.1 (by simp)
  | cont _ => rw [hr] at hsim; exact absurd hsim.1 (by simp)
  | ret _ _ => rw [hr] at hsim; exact hsim
  | unspec _ => trivial

end Sim
end Nl
