/- Stage 8: expression lists, array literals, builtins, indexing, index assignment (stage 6's proofs over the stage-8 fragment, scopes threaded) -/
import Nlmodel.Proofs.Lemmas.Sim8Expr
namespace Nl
namespace Sim8
open Spec Sim Sim6 Sim7
open SimH (AMap isStrCell isArrCell Grow PoolH MemOK sameKind LitF)
open SimF (FT FnInfo FTInj paramScope paramScopeFrom bigScope)

section
variable {W : World} {Δ : Gam} {nl : Nat} {fn : Bool} {Γ Γx Λ Γ1 Λ1 Γ2 Λ2 Γ3 Λ3 : Gam} {ab : Bool} {lp : LoopCtx} {cs : List Const}
  {below : Array Value} {fr : List Frame} {c : Cfg}

theorem pes8_succ (f : Nat) (ih : PAll8 W f) : PEs8 W (f + 1) := by
  intro Δ nl fn Γ Γx Λ es Γ2 Λ2 hx c lp cs below fr hsc hinv hwt hcode hext hft
  cases hx with
  | nil =>
    simp only [evalEs, sizeEs]
    refine .inr ⟨[], c.μ, c.m, trivial, c.locs, c.g, c.l, c.out, 0, ?_, hinv.reip _ _, Keep.refl _ _ _ _ _⟩
    simp [execN, Cfg.vm]
  | cons _ _ e rest Γ1 Λ1 _ _ he hrest =>
    simp only [emitEs] at hcode hext
    obtain ⟨hc1, hc2⟩ := hcode.append
    rw [emitE_size] at hc2
    have hext1 : Ext (emitE e c.ip lp cs).2 W.CS := (emitEs_ext rest _ _ _).trans hext
    rw [evalEs_cons]
    simp only [sizeEs]
    refine GoalG.bind (ih.e nl fn Γ Γx Λ false e Γ1 Λ1 he c lp cs below fr hsc hinv hwt hc1 hext1 hft.cons.1) (.inl rfl) ?_
    rintro v st1 - ⟨mv, μ1, m1, hmv, locs1, g1, l1, out1, n1, hn1, hinv1, hk1⟩
    have hwt1 := wt_execN n1 _ _ hwt hn1
    have hx1 := z8e_ext e he
    have hsc1 := (sc7_ext hsc hx1).1
    refine GoalEs8.prefix (c1 := ⟨μ1, st1, c.ip + sizeE e, locs1, c.ops.push mv, g1, l1, m1, out1⟩) n1 hn1 hk1 ?_
    have ih2 := ih.es nl fn Γ1 Γx Λ1 rest Γ2 Λ2 hrest ⟨μ1, st1, c.ip + sizeE e, locs1, c.ops.push mv, g1, l1, m1, out1⟩ lp _ below fr
      hsc1 hinv1 hwt1 hc2 hext hft.cons.2
    refine GoalG.bind (GoalG.from_ext hsc hx1 ih2) (.inl rfl) ?_
    rintro vs st2 - ⟨ms, μ2, m2, hms, hre⟩
    have hmv2 : VR6 W μ2 st2 m2.heap v mv := by
      obtain ⟨_, _, _, _, _, _, _, hk2⟩ := hre
      exact hk2 v mv (fixedOf_push_mem below c.ops mv) hmv
    refine .inr ⟨mv :: ms, μ2, m2, ⟨hmv2, hms⟩, ?_⟩
    have := hre.rebase (base' := c.ops) (ops'' := c.ops ++ (mv :: ms).toArray) (fixedOf_push_sub below c.ops mv) (SimF.push_append_list _ _ _)
    simpa [Nat.add_assoc] using this

theorem pe8_arr (f : Nat) (ih : PAll8 W f) (vs : RExprs) (hvs : Z8Es Δ nl fn Γ Λ vs Γ1 Λ1) (hsc : Sc7 W Δ fn Γ Γx Λ)
    (hinv : Inv6 W (bigScope fn Γ Γx) Λ nl c) (hwt : TI.WT (c.vm W below fr))
    (hcode : CodeAt W.C c.ip (emitE (.arr vs) c.ip lp cs).1) (hext : Ext (emitE (.arr vs) c.ip lp cs).2 W.CS)
    (hft : FtE W.ft Δ (.arr vs) c.ip lp cs) :
    GoalV8 W (bigScope fn Γ Γx) Λ nl below fr (bigScope fn Γ1 Γx) Λ1 fn ab lp c (c.ip + sizeE (.arr vs)) c.ops (evalE (f + 1) (.arr vs) c.st) := by
  simp only [emitE] at hcode hext
  obtain ⟨hc1, hc2⟩ := hcode.append
  rw [emitEs_size] at hc2
  rw [evalE_arr]
  simp only [sizeE]
  refine GoalG.bind (ih.es nl fn Γ Γx Λ vs Γ1 Λ1 hvs c lp cs below fr hsc hinv hwt hc1 hext hft.arr) (.inl rfl) ?_
  rintro xs st1 hr ⟨ms, μ1, m1, hms, locs1, g1, l1, out1, n, hn, hinv1, hk1⟩
  have hlen : ms.length = vs.length := by rw [← hms.length, SimF.evalEs_length f vs c.st xs st1 hr]
  obtain ⟨hi2, hg2, hv2⟩ := hinv_alloc_arr hinv1.hi xs ms hms
  refine .inr ⟨_, _, _, hv2, locs1, g1, l1, out1, n + 1, ?_, hinv1.move _ _ hg2 (sameEnv_alloc _ _).1 hinv1.out hi2,
    hk1.trans (Keep.of_grow hg2 _)⟩
  rw [execN_step W.C n _ _ _ hn (step6_array hc2 hlen)]; congr 2

theorem pe8_builtin (f : Nat) (ih : PAll8 W f) (b : Builtin) (as : RExprs) (has : Z8Es Δ nl fn Γ Λ as Γ1 Λ1) (hsc : Sc7 W Δ fn Γ Γx Λ)
    (hinv : Inv6 W (bigScope fn Γ Γx) Λ nl c) (hwt : TI.WT (c.vm W below fr))
    (hcode : CodeAt W.C c.ip (emitE (.callBuiltin b as) c.ip lp cs).1) (hext : Ext (emitE (.callBuiltin b as) c.ip lp cs).2 W.CS)
    (hft : FtE W.ft Δ (.callBuiltin b as) c.ip lp cs) :
    GoalV8 W (bigScope fn Γ Γx) Λ nl below fr (bigScope fn Γ1 Γx) Λ1 fn ab lp c (c.ip + sizeE (.callBuiltin b as)) c.ops (evalE (f + 1) (.callBuiltin b as) c.st) := by
  simp only [emitE] at hcode hext
  obtain ⟨hc1, hc2⟩ := hcode.append
  rw [emitEs_size] at hc2
  rw [evalE_builtin]
  simp only [sizeE]
  refine GoalG.bind (ih.es nl fn Γ Γx Λ as Γ1 Λ1 has c lp cs below fr hsc hinv hwt hc1 hext hft.builtin) (.inl rfl) ?_
  rintro xs st1 hr ⟨ms, μ1, m1, hms, locs1, g1, l1, out1, n, hn, hinv1, hk1⟩
  have hlen : ms.length = as.length := by rw [← hms.length, SimF.evalEs_length f as c.st xs st1 hr]
  have hb := builtin_rel6 hinv1.hi b xs ms hms out1 hinv1.out
  obtain ⟨nb, nc, nr⟩ := specBuiltin_not_abrupt b xs st1
  cases hsb : SimH.specBuiltin b xs st1 with
  | val r st2 =>
    rw [hsb] at hb
    obtain ⟨μ2, mr, m2, out2, hcb, hi2, hg2, hv2, hse, hout⟩ := hb
    refine .inr ⟨mr, μ2, m2, hv2, locs1, g1, l1, out2, n + 1, ?_, hinv1.move _ _ hg2 hse hout hi2, hk1.trans (Keep.of_grow hg2 _)⟩
    rw [execN_step W.C n _ _ _ hn (step6_builtin_ok hc2 hlen hcb)]; congr 2
  | err e st2 =>
    rw [hsb] at hb
    obtain ⟨s2, hs2, ho2⟩ := step6_builtin_err (s0 := W.s0) (below := below) (locs := locs1) (ops := c.ops) (g := g1) (l := l1) (fr := fr)
      hc2 hlen hb
    exact .inr ⟨n, _, s2, hn, hs2, by rw [ho2, SimH.builtin_err_out b xs st1 e st2 hsb]; exact hinv1.out.symm⟩
  | fuel => exact .inr trivial
  | unspec _ => exact .inr trivial
  | brk s => exact absurd hsb (nb s)
  | cont s => exact absurd hsb (nc s)
  | ret v s => exact absurd hsb (nr v s)

theorem pe8_index (f : Nat) (ih : PE8 W f) (el ei : RExpr) (hl : Z8E Δ nl fn Γ Λ ab el Γ1 Λ1) (hi : Z8E Δ nl fn Γ1 Λ1 false ei Γ2 Λ2) (hsc : Sc7 W Δ fn Γ Γx Λ)
    (hinv : Inv6 W (bigScope fn Γ Γx) Λ nl c) (hwt : TI.WT (c.vm W below fr))
    (hcode : CodeAt W.C c.ip (emitE (.index el ei) c.ip lp cs).1) (hext : Ext (emitE (.index el ei) c.ip lp cs).2 W.CS)
    (hft : FtE W.ft Δ (.index el ei) c.ip lp cs) :
    GoalV8 W (bigScope fn Γ Γx) Λ nl below fr (bigScope fn Γ2 Γx) Λ2 fn ab lp c (c.ip + sizeE (.index el ei)) c.ops (evalE (f + 1) (.index el ei) c.st) := by
  simp only [emitE] at hcode hext
  obtain ⟨hc12, hc3⟩ := hcode.append
  obtain ⟨hc1, hc2⟩ := hc12.append
  rw [emitE_size] at hc2
  simp only [codeSize_append, emitE_size, ← Nat.add_assoc] at hc3
  have hext1 : Ext (emitE el c.ip lp cs).2 W.CS := (emitE_ext ei _ _ _).trans hext
  rw [evalE_index]
  simp only [sizeE]
  refine GoalG.bind (ih nl fn Γ Γx Λ ab el Γ1 Λ1 hl c lp cs below fr hsc hinv hwt hc1 hext1 hft.index.1) (.inr ⟨rfl, rfl⟩) ?_
  rintro a st1 - ⟨ma, μ1, m1, hma, locs1, g1, l1, out1, n1, hn1, hinv1, hk1⟩
  have hwt1 := wt_execN n1 _ _ hwt hn1
  have hx1 := z8e_ext el hl
  have hsc1 := (sc7_ext hsc hx1).1
  refine GoalV8.prefix (c1 := ⟨μ1, st1, c.ip + sizeE el, locs1, c.ops.push ma, g1, l1, m1, out1⟩) n1 hn1 hk1 ?_
  have ihr := ih nl fn Γ1 Γx Λ1 false ei Γ2 Λ2 hi ⟨μ1, st1, c.ip + sizeE el, locs1, c.ops.push ma, g1, l1, m1, out1⟩ lp (emitE el c.ip lp cs).2 below fr
    hsc1 hinv1 hwt1 hc2 hext hft.index.2
  refine GoalG.bind (GoalG.from_ext hsc hx1 ihr) (.inl rfl) ?_
  rintro b st2 - ⟨mb, μ2, m2, hmb, locs2, g2, l2, out2, n2, hn2, hinv2, hk2⟩
  have hma2 : VR6 W μ2 st2 m2.heap a ma := hk2 a ma (fixedOf_push_mem below c.ops ma) hma
  have hrel := indexGet_rel6 hinv2.hi a b ma mb hma2 hmb
  have hkeep : Keep W μ1 st1 m1.heap μ2 st2 m2.heap (fixedOf below c.ops) := hk2.mono (fixedOf_push_sub below c.ops ma)
  simp only [specIndexGet]
  cases hget : sIndexGet a b st2 with
  | error e =>
    rw [hget] at hrel
    obtain ⟨s2, hs2, ho2⟩ := step6_indexGet_err (s0 := W.s0) (below := below) (locs := locs2) (ops := c.ops) (g := g2) (l := l2) (fr := fr)
      (out := out2) hc3 hrel
    exact .inr ⟨n2, _, s2, hn2, hs2, by rw [ho2]; exact hinv2.out.symm⟩
  | ok q =>
    obtain ⟨r, st3⟩ := q
    rw [hget] at hrel
    obtain ⟨μ3, mr, m3, hig, hi3, hg3, hv3, hse, hso⟩ := hrel
    refine .inr ⟨mr, μ3, m3, hv3, locs2, g2, l2, out2, n2 + 1, ?_, hinv2.move _ _ hg3 hse (by rw [hso]; exact hinv2.out) hi3,
      hkeep.trans (Keep.of_grow hg3 _)⟩
    rw [execN_step W.C n2 _ _ _ hn2 (step6_indexGet_ok hc3 hig)]
    congr 2; simp only; omega

theorem pe8_assignIndex (f : Nat) (ih : PE8 W f) (el ei ev : RExpr) (hl : Z8E Δ nl fn Γ Λ ab el Γ1 Λ1) (hi : Z8E Δ nl fn Γ1 Λ1 false ei Γ2 Λ2)
    (hv : Z8E Δ nl fn Γ2 Λ2 false ev Γ3 Λ3) (hsc : Sc7 W Δ fn Γ Γx Λ)
    (hinv : Inv6 W (bigScope fn Γ Γx) Λ nl c) (hwt : TI.WT (c.vm W below fr))
    (hcode : CodeAt W.C c.ip (emitE (.assignIndex el ei ev) c.ip lp cs).1) (hext : Ext (emitE (.assignIndex el ei ev) c.ip lp cs).2 W.CS)
    (hft : FtE W.ft Δ (.assignIndex el ei ev) c.ip lp cs) :
    GoalV8 W (bigScope fn Γ Γx) Λ nl below fr (bigScope fn Γ3 Γx) Λ3 fn ab lp c (c.ip + sizeE (.assignIndex el ei ev)) c.ops
      (evalE (f + 1) (.assignIndex el ei ev) c.st) := by
  simp only [emitE] at hcode hext
  obtain ⟨hc123, hc4⟩ := hcode.append
  obtain ⟨hc12, hc3⟩ := hc123.append
  obtain ⟨hc1, hc2⟩ := hc12.append
  rw [emitE_size] at hc2
  simp only [codeSize_append, emitE_size, ← Nat.add_assoc] at hc3 hc4
  have hext2 : Ext (emitE ei (c.ip + sizeE el) lp (emitE el c.ip lp cs).2).2 W.CS := (emitE_ext ev _ _ _).trans hext
  have hext1 : Ext (emitE el c.ip lp cs).2 W.CS := (emitE_ext ei _ _ _).trans hext2
  rw [evalE_assignIndex]
  simp only [sizeE]
  refine GoalG.bind (ih nl fn Γ Γx Λ ab el Γ1 Λ1 hl c lp cs below fr hsc hinv hwt hc1 hext1 hft.assignIndex.1) (.inr ⟨rfl, rfl⟩) ?_
  rintro a st1 - ⟨ma, μ1, m1, hma, locs1, g1, l1, out1, n1, hn1, hinv1, hk1⟩
  have hwt1 := wt_execN n1 _ _ hwt hn1
  have hx1 := z8e_ext el hl
  have hsc1 := (sc7_ext hsc hx1).1
  have hx2 := z8e_ext ei hi
  have hsc2 := (sc7_ext hsc1 hx2).1
  refine GoalV8.prefix (c1 := ⟨μ1, st1, c.ip + sizeE el, locs1, c.ops.push ma, g1, l1, m1, out1⟩) n1 hn1 hk1 ?_
  have ihi := ih nl fn Γ1 Γx Λ1 false ei Γ2 Λ2 hi ⟨μ1, st1, c.ip + sizeE el, locs1, c.ops.push ma, g1, l1, m1, out1⟩ lp (emitE el c.ip lp cs).2 below fr
    hsc1 hinv1 hwt1 hc2 hext2 hft.assignIndex.2.1
  refine GoalG.bind (GoalG.from_ext hsc hx1 ihi) (.inl rfl) ?_
  rintro b st2 - ⟨mb, μ2, m2, hmb, locs2, g2, l2, out2, n2, hn2, hinv2, hk2⟩
  have hwt2 := wt_execN n2 _ _ hwt1 hn2
  have hkeep12 : Keep W μ1 st1 m1.heap μ2 st2 m2.heap (fixedOf below c.ops) := hk2.mono (fixedOf_push_sub below c.ops ma)
  refine GoalV8.prefix (c := ⟨μ1, st1, c.ip + sizeE el, locs1, c.ops.push ma, g1, l1, m1, out1⟩)
    (c1 := ⟨μ2, st2, c.ip + sizeE el + sizeE ei, locs2, (c.ops.push ma).push mb, g2, l2, m2, out2⟩) n2 hn2 hkeep12 ?_
  have ihv := ih nl fn Γ2 Γx Λ2 false ev Γ3 Λ3 hv ⟨μ2, st2, c.ip + sizeE el + sizeE ei, locs2, (c.ops.push ma).push mb, g2, l2, m2, out2⟩ lp _ below fr
    hsc2 hinv2 hwt2 hc3 hext hft.assignIndex.2.2
  refine GoalG.bind (GoalG.from_ext hsc (hx1.trans hx2) ihv) (.inl rfl) ?_
  rintro x st3 - ⟨mc, μ3, m3, hmc, locs3, g3, l3, out3, n3, hn3, hinv3, hk3⟩
  have hma2 : VR6 W μ2 st2 m2.heap a ma := hk2 a ma (fixedOf_push_mem below c.ops ma) hma
  have hma3 : VR6 W μ3 st3 m3.heap a ma := hk3 a ma (fixedOf_push_sub below (c.ops.push ma) mb _ (fixedOf_push_mem below c.ops ma)) hma2
  have hmb3 : VR6 W μ3 st3 m3.heap b mb := hk3 b mb (fixedOf_push_mem below (c.ops.push ma) mb) hmb
  have hrel := indexSet_rel6 hinv3.hi a b x ma mb mc hma3 hmb3 hmc
  have hkeep : Keep W μ2 st2 m2.heap μ3 st3 m3.heap (fixedOf below c.ops) :=
    hk3.mono (fun y hy => fixedOf_push_sub below (c.ops.push ma) mb y (fixedOf_push_sub below c.ops ma y hy))
  simp only [specIndexSet]
  cases hset : sIndexSet a b x st3 with
  | error e =>
    rw [hset] at hrel
    obtain ⟨s2, hs2, ho2⟩ := step6_indexSet_err (s0 := W.s0) (below := below) (locs := locs3) (ops := c.ops) (g := g3) (l := l3) (fr := fr)
      (out := out3) hc4 hrel
    exact .inr ⟨n3, _, s2, hn3, hs2, by rw [ho2]; exact hinv3.out.symm⟩
  | ok q =>
    obtain ⟨r, st4⟩ := q
    rw [hset] at hrel
    obtain ⟨mr, m4, his, hi4, hg4, hv4, hse, hso⟩ := hrel
    refine .inr ⟨mr, μ3, m4, hv4, locs3, g3, l3, out3, n3 + 1, ?_, hinv3.move _ _ hg4 hse (by rw [hso]; exact hinv3.out) hi4,
      hkeep.trans (Keep.of_grow hg4 _)⟩
    rw [execN_step W.C n3 _ _ _ hn3 (step6_indexSet_ok hc4 his)]
    congr 2; simp only; omega

end
end Sim8
end Nl
