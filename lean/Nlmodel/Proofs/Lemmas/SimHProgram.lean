/- Stage 5: constant pool facts, loading of constants, whole programs with heap values (C01, C06, C13, C14). -/
import Nlmodel.Proofs.Lemmas.SimHAll
import Nlmodel.Proofs.Lemmas.SimFnProgram
import Nlmodel.Proofs.Lemmas.GCFinish
namespace Nl
namespace SimH
open Spec Sim

/-! ## the constant pool of a stage-5 program: float constants are literals -/

def LitPool (cs : List Const) : Prop := ∀ (k : Nat) (y : UInt64), cs[k]? = some (Const.float y) → LitF y

theorem addConst_litpool (cs : List Const) (c : Const) (h : LitPool cs) (hc : ∀ y, c = .float y → LitF y) : LitPool (addConst cs c).1 := by
  unfold addConst
  split
  · exact h
  · intro k y hk
    by_cases hlt : k < cs.length
    · rw [List.getElem?_append_left hlt] at hk; exact h k y hk
    · rw [List.getElem?_append_right (by omega)] at hk
      cases hkk : k - cs.length with
      | zero => rw [hkk] at hk; simp at hk; exact hc y hk
      | succ j => rw [hkk] at hk; simp at hk

mutual
theorem lpE : (e : RExpr) → ∀ {Γ : Gam} {ab : Bool}, HE Γ ab e → ∀ (pos : Nat) (lp : LoopCtx) (cs : List Const), LitPool cs → LitPool (emitE e pos lp cs).2
  | .int v, _, _, _, _, _, cs, h => by simp only [emitE]; exact addConst_litpool cs _ h (fun y e => by cases e)
  | .float x, _, _, hy, _, _, cs, h => by
    cases hy with | float _ _ _ hx => simp only [emitE]; exact addConst_litpool cs _ h (fun y e => by injection e with e; rw [← e]; exact hx)
  | .str s, _, _, _, _, _, cs, h => by simp only [emitE]; exact addConst_litpool cs _ h (fun y e => by cases e)
  | .bool _, _, _, _, _, _, cs, h => by simp only [emitE]; exact h
  | .var _, _, _, _, _, _, cs, h => by simp only [emitE]; exact h
  | .not r, _, _, hy, pos, lp, cs, h => by cases hy with | not _ _ _ h1 => simp only [emitE]; exact lpE r h1 pos lp cs h
  | .neg r, _, _, hy, pos, lp, cs, h => by cases hy with | neg _ _ _ h1 => simp only [emitE]; exact lpE r h1 pos lp cs h
  | .assignVar _ e, _, _, hy, pos, lp, cs, h => by cases hy with | assign _ _ _ _ _ _ h1 => simp only [emitE]; exact lpE e h1 pos lp cs h
  | .infix l op r, _, _, hy, pos, lp, cs, h => by
    cases hy with
    | bin _ _ _ _ _ hl hr =>
      have hnf := he_not_fused l r op hl hr
      simp only [emitE, hnf]
      exact lpE r hr _ lp _ (lpE l hl pos lp cs h)
  | .ifE c t e, _, _, hy, pos, lp, cs, h => by
    cases hy with
    | ifE _ _ _ _ _ _ hc ht he => simp only [emitE]; exact lpO e he _ lp _ (lpB t ht _ lp _ (lpE c hc pos lp cs h))
  | .whileE c b, _, _, hy, pos, lp, cs, h => by
    cases hy with
    | whileE _ _ _ _ _ hc hb => simp only [emitE]; exact lpB b hb _ _ _ (lpE c hc _ _ cs h)
  | .arr vs, _, _, hy, pos, lp, cs, h => by cases hy with | arr _ _ _ hvs => simp only [emitE]; exact lpEs vs hvs pos lp cs h
  | .callBuiltin _ as, _, _, hy, pos, lp, cs, h => by cases hy with | builtin _ _ _ _ has => simp only [emitE]; exact lpEs as has pos lp cs h
  | .index l i, _, _, hy, pos, lp, cs, h => by
    cases hy with | index _ _ _ _ hl hi => simp only [emitE]; exact lpE i hi _ lp _ (lpE l hl pos lp cs h)
  | .assignIndex l i v, _, _, hy, pos, lp, cs, h => by
    cases hy with
    | assignIndex _ _ _ _ _ hl hi hv => simp only [emitE]; exact lpE v hv _ lp _ (lpE i hi _ lp _ (lpE l hl pos lp cs h))
  | .func _ _ _ _ _, _, _, hy, _, _, _, _ => by cases hy
  | .call _ _, _, _, hy, _, _, _, _ => by cases hy
theorem lpEs : (es : RExprs) → ∀ {Γ : Gam}, HEs Γ es → ∀ (pos : Nat) (lp : LoopCtx) (cs : List Const), LitPool cs → LitPool (emitEs es pos lp cs).2
  | .nil, _, _, _, _, cs, h => by simp only [emitEs]; exact h
  | .cons e es, _, hy, pos, lp, cs, h => by
    cases hy with | cons _ _ _ he hes => simp only [emitEs]; exact lpEs es hes _ lp _ (lpE e he pos lp cs h)
theorem lpO : (o : ROptBlock) → ∀ {Γ : Gam} {ab : Bool}, HO Γ ab o → ∀ (pos : Nat) (lp : LoopCtx) (cs : List Const), LitPool cs → LitPool (emitO o pos lp cs).2
  | .none, _, _, _, _, _, cs, h => by simp only [emitO]; exact h
  | .some b, _, _, hy, pos, lp, cs, h => by cases hy with | some _ _ _ _ hb => simp only [emitO]; exact lpB b hb pos lp cs h
theorem lpS : (s : RStmt) → ∀ {Γ Γ1 : Gam} {ab : Bool}, HS Γ ab s Γ1 → ∀ (pos : Nat) (lp : LoopCtx) (cs : List Const), LitPool cs → LitPool (emitS s pos lp cs).2
  | .expr e, _, _, _, hy, pos, lp, cs, h => by cases hy with | expr _ _ _ he => simp only [emitS]; exact lpE e he pos lp cs h
  | .letS _ e, _, _, _, hy, pos, lp, cs, h => by cases hy with | letS _ _ _ _ _ _ he => simp only [emitS]; exact lpE e he pos lp cs h
  | .block b, _, _, _, hy, pos, lp, cs, h => by cases hy with | block _ _ _ _ hb => simp only [emitS]; exact lpB b hb pos lp cs h
  | .brk, _, _, _, _, _, _, cs, h => by simp only [emitS]; exact h
  | .cont, _, _, _, _, _, _, cs, h => by simp only [emitS]; exact h
  | .ret _, _, _, _, hy, _, _, _, _ => by cases hy
theorem lpB : (b : RBlock) → ∀ {Γ Γ1 : Gam} {ab : Bool}, HB Γ ab b Γ1 → ∀ (pos : Nat) (lp : LoopCtx) (cs : List Const), LitPool cs → LitPool (emitB b pos lp cs).2
  | .nil, _, _, _, _, _, _, cs, h => by simp only [emitB]; exact h
  | .cons s b, _, _, _, hy, pos, lp, cs, h => by
    cases hy with | cons _ _ _ _ _ _ hs hb => simp only [emitB]; exact lpB b hb _ lp _ (lpS s hs pos lp cs h)
end

/-! ## loading the constants -/

/-- what `loadConsts` leaves: earlier cells untouched; every constant realised at its index -/
theorem loadConsts_spec : ∀ (cs : List Const) (m : Mem) (vs : Array Value),
    (∀ a, a < m.heap.cells.size → (loadConsts cs (m, vs)).1.heap.get a = m.heap.get a) ∧
    m.heap.cells.size ≤ (loadConsts cs (m, vs)).1.heap.cells.size ∧
    (∀ (k : Nat) (x : UInt64), cs[k]? = some (.float x) → ∃ a0, (loadConsts cs (m, vs)).2[vs.size + k]? = some (.float a0) ∧
      (loadConsts cs (m, vs)).1.heap.get a0 = .float x) ∧
    (∀ (k : Nat) (s : Text), cs[k]? = some (.str s) → ∃ a0, (loadConsts cs (m, vs)).2[vs.size + k]? = some (.str a0) ∧
      (loadConsts cs (m, vs)).1.heap.get a0 = .str s) := by
  intro cs
  induction cs with
  | nil => intro m vs; exact ⟨fun _ _ => rfl, Nat.le_refl _, fun k x h => by simp at h, fun k s h => by simp at h⟩
  | cons c cs ih =>
    intro m vs
    have step : ∀ (m1 : Mem) (v1 : Value), loadConsts (c :: cs) (m, vs) = loadConsts cs (m1, vs.push v1) →
        (∀ a, a < m.heap.cells.size → m1.heap.get a = m.heap.get a) → m.heap.cells.size ≤ m1.heap.cells.size →
        (∀ x, c = .float x → ∃ a0, v1 = .float a0 ∧ a0 < m1.heap.cells.size ∧ m1.heap.get a0 = .float x) →
        (∀ s, c = .str s → ∃ a0, v1 = .str a0 ∧ a0 < m1.heap.cells.size ∧ m1.heap.get a0 = .str s) →
        (∀ a, a < m.heap.cells.size → (loadConsts (c :: cs) (m, vs)).1.heap.get a = m.heap.get a) ∧
        m.heap.cells.size ≤ (loadConsts (c :: cs) (m, vs)).1.heap.cells.size ∧
        (∀ (k : Nat) (x : UInt64), (c :: cs)[k]? = some (.float x) → ∃ a0, (loadConsts (c :: cs) (m, vs)).2[vs.size + k]? = some (.float a0) ∧
          (loadConsts (c :: cs) (m, vs)).1.heap.get a0 = .float x) ∧
        (∀ (k : Nat) (s : Text), (c :: cs)[k]? = some (.str s) → ∃ a0, (loadConsts (c :: cs) (m, vs)).2[vs.size + k]? = some (.str a0) ∧
          (loadConsts (c :: cs) (m, vs)).1.heap.get a0 = .str s) := by
      intro m1 v1 he hold hsz hf hs
      rw [he]
      obtain ⟨i1, i2, i3, i4⟩ := ih m1 (vs.push v1)
      refine ⟨fun a ha => by rw [i1 a (by omega)]; exact hold a ha, by omega, ?_, ?_⟩
      · intro k x hk
        cases k with
        | zero =>
          simp only [List.getElem?_cons_zero, Option.some.injEq] at hk
          obtain ⟨a0, hv, hlt, hg⟩ := hf x hk
          refine ⟨a0, ?_, by rw [i1 a0 hlt]; exact hg⟩
          rw [Nat.add_zero, loadConsts_prefix _ _ _ vs.size (by simp)]
          simp [hv]
        | succ k =>
          simp only [List.getElem?_cons_succ] at hk
          obtain ⟨a0, h1, h2⟩ := i3 k x hk
          exact ⟨a0, by simpa [Nat.add_assoc, Nat.add_comm 1 k] using h1, h2⟩
      · intro k s hk
        cases k with
        | zero =>
          simp only [List.getElem?_cons_zero, Option.some.injEq] at hk
          obtain ⟨a0, hv, hlt, hg⟩ := hs s hk
          refine ⟨a0, ?_, by rw [i1 a0 hlt]; exact hg⟩
          rw [Nat.add_zero, loadConsts_prefix _ _ _ vs.size (by simp)]
          simp [hv]
        | succ k =>
          simp only [List.getElem?_cons_succ] at hk
          obtain ⟨a0, h1, h2⟩ := i4 k s hk
          exact ⟨a0, by simpa [Nat.add_assoc, Nat.add_comm 1 k] using h1, h2⟩
    cases c with
    | int i => exact step m (.int i) (by simp [loadConsts]) (fun _ _ => rfl) (Nat.le_refl _) (fun x e => by cases e) (fun s e => by cases e)
    | fn a b => exact step m (.fn a b) (by simp [loadConsts]) (fun _ _ => rfl) (Nat.le_refl _) (fun x e => by cases e) (fun s e => by cases e)
    | float x =>
      refine step (m.allocFloat x).1 (m.allocFloat x).2 (by simp [loadConsts]) (fun a ha => heap_push_get_old m.heap _ a ha) (by simp [Mem.allocFloat, Heap.alloc])
        (fun y e => ?_) (fun s e => by cases e)
      injection e with e; subst e
      exact ⟨m.heap.cells.size, rfl, by simp [Mem.allocFloat, Heap.alloc], heap_push_get_new m.heap _⟩
    | str t =>
      refine step (m.allocStr t).1 (m.allocStr t).2 (by simp [loadConsts]) (fun a ha => heap_push_get_old m.heap _ a ha) (by simp [Mem.allocStr, Heap.alloc])
        (fun y e => by cases e) (fun s e => ?_)
      injection e with e; subst e
      exact ⟨m.heap.cells.size, rfl, by simp [Mem.allocStr, Heap.alloc], heap_push_get_new m.heap _⟩

theorem start_poolH (bc : Bytecode) (hl : LitPool bc.consts) :
    PoolH (VM.start {} bc).cvals bc.consts (VM.start {} bc).mem.heap (fun _ => none) := by
  obtain ⟨_, _, h3, h4⟩ := loadConsts_spec bc.consts { heap := ({} : VM).mem.heap, managed := [] } #[]
  refine ⟨start_pool bc {}, ?_, ?_, hl⟩
  · intro k x hk
    obtain ⟨a0, h1, h2⟩ := h3 k x hk
    exact ⟨a0, by simpa [VM.start] using h1, by simpa [VM.start] using h2⟩
  · intro k s hk
    obtain ⟨a0, h1, h2⟩ := h4 k s hk
    exact ⟨a0, by simpa [VM.start] using h1, by simpa [VM.start] using h2, fun a e => by cases e⟩

/-! ## the managed list at the start, and what the hand-over at `Halt` needs -/

theorem loadConsts_mok (μ : AMap) : ∀ (cs : List Const) (m : Mem) (vs : Array Value), MemOK μ m → MemOK μ (loadConsts cs (m, vs)).1 := by
  intro cs
  induction cs with
  | nil => intro m vs h; exact h
  | cons c cs ih =>
    intro m vs h
    cases c with
    | int i => exact ih m _ h
    | fn ip nl => exact ih m _ h
    | float b => exact ih _ _ (mok_alloc h (.float b) (fun _ _ x => x) (fun mvs e => by cases e))
    | str t => exact ih _ _ (mok_alloc h (.str t) (fun _ _ x => x) (fun mvs e => by cases e))

theorem start_mok (bc : Bytecode) : MemOK (fun _ => none) (VM.start {} bc).mem := by
  have := loadConsts_mok (fun _ => none) bc.consts { heap := ({} : VM).mem.heap, managed := [] } #[]
    ⟨List.nodup_nil, fun a h => (by cases h), fun a mvs h => (by simp [Heap.get] at h)⟩
  simpa [VM.start] using this

/-- related machine values are kind-correct -/
theorem vrh_kindok {μ : AMap} {st : SState} {h : Heap} (hr : HR μ st h) (v : SVal) (mv : Value) (hv : VRh μ st h v mv) :
    GC.KindOK h mv := by
  cases mv with
  | float a' =>
    cases v <;> simp only [VRh] at hv
    simp [GC.KindOK, Heap.arrAt, hv]
  | str a' =>
    cases v <;> simp only [VRh] at hv
    rename_i a
    obtain ⟨h1, h2⟩ := hv
    cases hc : st.store[a]? with
    | none => simp [hc, isStrCell] at h2
    | some c =>
      cases c with
      | arr vs => simp [hc, isStrCell] at h2
      | str s => simp [GC.KindOK, Heap.arrAt, hr.str a a' s h1 hc]
  | _ => simp [GC.KindOK]

theorem vrl_kindok {μ : AMap} {st : SState} {h : Heap} (hr : HR μ st h) : ∀ (vs : List SVal) (ms : List Value), VRL μ st h vs ms →
    ∀ w, w ∈ ms → GC.KindOK h w
  | [], [], _, w, hw => by cases hw
  | v :: vs, m :: ms, hl, w, hw => by
    cases List.mem_cons.1 hw with
    | inl e => subst e; exact vrh_kindok hr v _ hl.1
    | inr e => exact vrl_kindok hr vs ms hl.2 w e
  | [], _ :: _, hl, _, _ => by simp [VRL] at hl
  | _ :: _, [], hl, _, _ => by simp [VRL] at hl

theorem heap_kind_ok {μ : AMap} {st : SState} {m : Mem} (hr : HR μ st m.heap) (hm : MemOK μ m) : GC.HeapKindOK m.heap := by
  intro a w hw
  cases hg : m.heap.get a with
  | arr mvs =>
    simp only [Heap.arrAt, hg] at hw
    obtain ⟨_, a0, hμ⟩ := hm.arrs a mvs hg
    have hlt := (hr.dom a0 a hμ).1
    cases hc : st.store[a0]? with
    | none => simp at hc; omega
    | some c =>
      cases c with
      | str s => have := hr.str a0 a s hμ hc; rw [hg] at this; cases this
      | arr vs =>
        obtain ⟨mvs', h1, h2⟩ := hr.arr a0 a vs hμ hc
        rw [hg] at h1; injection h1 with h1; subst h1
        exact vrl_kindok hr vs mvs h2 w hw
  | _ => simp [Heap.arrAt, hg] at hw

/-- the hand-over at `Halt` (`untrace`, then the collector is dropped) leaves the result's deep view intact -/
theorem finish_keeps_tree {μ : AMap} {st : SState} {m : Mem} (hr : HR μ st m.heap) (hm : MemOK μ m) (v : SVal) (mv : Value)
    (hv : VRh μ st m.heap v mv) (s : VM) (hs : s.mem = m) (f : Nat) (p : List Nat) :
    (finishValue mv s).mem.heap.tree f p mv = m.heap.tree f p mv := by
  subst hs
  simp only [finishValue]
  exact GC.finish_tree s.mem mv (heap_kind_ok hr hm) (vrh_kindok hr v mv hv) hm.nd
    (fun a ha => by
      cases hg : s.mem.heap.get a with
      | arr mvs => exact (hm.arrs a mvs hg).1
      | _ => simp [Heap.arrAt, hg] at ha) f p

/-- END TO END, stage 5: a top-level program with floats, strings, arrays, indexing, index assignment,
    all seven builtins (incl. `print`), global variables and control flow (`HB [] false p Γ'`), compiled
    by the compiler model and run on a fresh machine: the run halts with a value whose DEEP VIEW (what
    is observed: nested arrays, strings, floats, cycles) is the deep view of the semantics' result, and
    with the same printed output; an error is the same error after the same output -/
theorem heap_program (p : RBlock) (Γ' : Gam) (hx : HB [] false p Γ') (bc : Bytecode) (hc : compileR p = .ok bc) (F : Nat) :
    match evalB F p {} with
    | .val () st' => ∃ mv n s', (∀ k, runSteps bc.code (n + k) (VM.start {} bc) = .value mv s') ∧
        s'.mem.heap.tree treeDepth [] mv = st'.tree treeDepth [] st'.last ∧ s'.out = st'.out ∧
        (finishValue mv s').mem.heap.tree treeDepth [] mv = s'.mem.heap.tree treeDepth [] mv
    | .err er ste => ∃ n s', (∀ k, runSteps bc.code (n + k) (VM.start {} bc) = .error er s') ∧ s'.out = ste.out
    | .brk _ => False
    | .cont _ => False
    | .ret _ _ => False
    | _ => True := by
  obtain ⟨hcode, hconsts, hwf⟩ := compile_general p bc hc
  have hall : CodeAt bc.code 0 ((emitB p 0 none []).1 ++ [.halt]) := ⟨hwf, [], [], by simp [hcode], rfl⟩
  obtain ⟨h1, hhalt⟩ := hall.append
  have hlit : LitPool bc.consts := by rw [hconsts]; exact lpB p hx 0 none [] (by intro k y hk; simp at hk)
  have hpool := start_poolH bc hlit
  have hstart : setH (VM.start {} bc) 0 #[] #[] .null (VM.start {} bc).mem [] = VM.start {} bc := by
    simp [setH, VM.start]
  have hinv0 : Inv5 (VM.start {} bc) bc.consts [] (fun _ => none) {} #[] .null (VM.start {} bc).mem [] :=
    ⟨fun _ _ hm => (by cases hm), trivial,
     ⟨fun _ _ _ e => (by cases e), fun _ _ e => (by cases e), fun _ _ _ e => (by cases e), fun _ _ _ e => (by cases e)⟩, rfl, hpool, start_mok bc⟩
  have hsim := (pall5 (s0 := VM.start {} bc) (CS := bc.consts) (C := bc.code) F).b [] false p Γ' hx (by simp [GamOK])
    (fun _ => none) {} 0 none [] #[] #[] .null (VM.start {} bc).mem [] hinv0 h1 (by rw [hconsts]; exact Ext.refl _)
  cases hr : evalB F p {} with
  | val u st' =>
    rw [hr] at hsim
    obtain ⟨μ', m', g', l', out', n, hn, hinv, _⟩ := hsim
    rw [hstart] at hn
    simp only [emitB_size, Nat.zero_add] at hhalt hn
    have hs : step bc.code (setH (VM.start {} bc) (sizeB p) #[] g' l' m' out') = .halt l' (setH (VM.start {} bc) (sizeB p + 1) #[] g' l' m' out') := by
      rw [step_exec (C := bc.code) hhalt]; rfl
    refine ⟨l', n + 1, _, fun k => run_halt bc.code n _ _ l' _ hn hs k, ?_, ?_, ?_⟩
    · exact (tree_rel hinv.hr treeDepth [] [] st'.last l' trivial hinv.last).symm
    · exact hinv.out.symm
    · exact finish_keeps_tree hinv.hr hinv.mok st'.last l' hinv.last _ rfl treeDepth []
  | err er ste =>
    rw [hr] at hsim
    obtain ⟨n, s1, s2, hn, hs, ho⟩ := hsim
    rw [hstart] at hn
    exact ⟨n + 1, s2, fun k => run_error bc.code n _ s1 er s2 hn hs k, ho⟩
  | fuel => trivial
  | brk _ => rw [hr] at hsim; exact absurd hsim.1 (by simp)
  | cont _ => rw [hr] at hsim; exact absurd hsim.1 (by simp)
  | ret _ _ => rw [hr] at hsim; exact hsim
  | unspec _ => trivial

end SimH
end Nl
