/- C09, clause (c), for an ARBITRARY inner block, on the name side (`NameEval`, no resolver, no binder ids):
   (B1) `eval*_shape`: evaluation changes the NAMES of the scope stack only by declarations in the innermost scope;
   (B2) `block_names`: a block statement leaves exactly the names it found ("a variable ceases to exist at the end of its
        block");
   (B3) `block_declares_first`, `block_unassigned`: a name that the block declares first, or does not assign, has after the
        block the value it had ("an inner block may declare the same name without disturbing the outer variable").
   All are corollaries of `pall` (NameEvalBlockInd.lean): one induction on the fuel over the five evaluator functions.
   The theorems speak about EVERY result that carries a state (`stOf r = some ρ'`: value, `stop`, `volgende`, and also
   error / unspecified); `Completes` (value, `stop`, `volgende`) is the special case asked for. -/
import Nlmodel.Proofs.Lemmas.NameEvalBlockInd
namespace Nl
namespace NameEval
open Spec

/-- the evaluation completed (value / `stop` / `volgende`) in state `ρ'` -/
def Completes {α : Type} (r : NRes α) (ρ' : NState) : Prop := (∃ a, r = .val a ρ') ∨ r = .brk ρ' ∨ r = .cont ρ'

theorem Completes.stOf {α : Type} {r : NRes α} {ρ' : NState} (h : Completes r ρ') : stOf r = some ρ' := by
  rcases h with ⟨a, rfl⟩ | rfl | rfl <;> rfl

/-! ### (B1) shape preservation -/

/-- the scope stack of `ρ'` has the length of that of `ρ` (if `ρ` has a scope at all: on the empty stack `stel` creates the
    first scope), every outer scope has exactly the same names in the same order, and the innermost scope of `ρ'` is the
    innermost scope of `ρ` extended by newer declarations -/
def SameShape (ρ ρ' : NState) : Prop :=
  (ρ.scopes ≠ [] → ρ'.scopes.length = ρ.scopes.length) ∧
  ρ'.scopes.tail.map (·.map Prod.fst) = ρ.scopes.tail.map (·.map Prod.fst) ∧
  (ρ.scopes.headD []).map Prod.fst <:+ (ρ'.scopes.headD []).map Prod.fst

theorem Shape.sameShape {ρ ρ' : NState} (h : Shape ρ.scopes ρ'.scopes) : SameShape ρ ρ' := by
  refine ⟨fun hne => ?_, h.1, h.2.1⟩
  have h1 := congrArg List.length h.1
  have h2 := h.2.2 hne
  simp only [scNames, List.length_map, List.length_tail] at h1
  have a1 : ρ.scopes.length ≠ 0 := by simpa using hne
  have a2 : ρ'.scopes.length ≠ 0 := by simpa using h2
  omega

/-- with the stack of `ρ` spelled out -/
theorem SameShape.cons {ρ ρ' : NState} {sc : Scope} {scs : List Scope} (h : SameShape ρ ρ') (hρ : ρ.scopes = sc :: scs) :
    ∃ sc' scs', ρ'.scopes = sc' :: scs' ∧ scs'.map (·.map Prod.fst) = scs.map (·.map Prod.fst) ∧
      sc.map Prod.fst <:+ sc'.map Prod.fst := by
  obtain ⟨h1, h2, h3⟩ := h
  have hl := h1 (by simp [hρ])
  cases hs : ρ'.scopes with
  | nil => simp [hs, hρ] at hl
  | cons sc' scs' => exact ⟨sc', scs', rfl, by simpa [hs, hρ] using h2, by simpa [hs, hρ] using h3⟩

theorem evalE_shape (f : Nat) (e : Expr) (ρ ρ' : NState) (h : stOf (evalE f e ρ) = some ρ') : SameShape ρ ρ' :=
  ((pall [] f).1 e ρ ρ' False (fun a => a.elim) h).1.sameShape

theorem evalLoop_shape (f : Nat) (c : Expr) (b : Block) (acc : SVal) (ρ ρ' : NState)
    (h : stOf (evalLoop f c b acc ρ) = some ρ') : SameShape ρ ρ' :=
  ((pall [] f).2.1 c b acc ρ ρ' False (fun a => a.elim) (fun a => a.elim) h).1.sameShape

theorem evalS_shape (f : Nat) (s : Stmt) (ρ ρ' : NState) (h : stOf (evalS f s ρ) = some ρ') : SameShape ρ ρ' :=
  ((pall [] f).2.2.1 s ρ ρ' False (fun a => a.elim) h).1.sameShape

theorem evalSs_shape (f : Nat) (b : Block) (ρ ρ' : NState) (h : stOf (evalSs f b ρ) = some ρ') : SameShape ρ ρ' :=
  ((pall [] f).2.2.2.1 b ρ ρ' False (fun a => a.elim) h).1.sameShape

theorem evalBVs_shape (f : Nat) (b : Block) (ρ ρ' : NState) (h : stOf (evalBVs f b ρ) = some ρ') : SameShape ρ ρ' :=
  ((pall [] f).2.2.2.2 b ρ ρ' False (fun a => a.elim) h).1.sameShape

/-- (B1) as asked for: a completed evaluation of a statement list -/
theorem evalSs_shape_completes (f : Nat) (b : Block) (ρ ρ' : NState) (h : Completes (evalSs f b ρ) ρ') : SameShape ρ ρ' :=
  evalSs_shape f b ρ ρ' h.stOf

/-! ### (B2) block transparency -/

/-- the block statement is the statement list, evaluated in a pushed scope that is popped afterwards -/
theorem block_inv (f : Nat) (b : Block) (ρ ρ' : NState) (h : stOf (evalS f (.block b) ρ) = some ρ') :
    ∃ g σ, f = g + 1 ∧ stOf (evalSs g b ρ.push) = some σ ∧ ρ' = σ.pop := by
  cases f with
  | zero => simp [evalS, stOf] at h
  | succ g =>
    simp only [evalS, stOf_popRes] at h
    cases hs : stOf (evalSs g b ρ.push) with
    | none => simp [hs] at h
    | some σ =>
      simp only [hs, Option.map_some, Option.some.injEq] at h
      exact ⟨g, σ, rfl, hs, h.symm⟩

/-- (B2) "a variable ceases to exist at the end of its block": after a block statement the scope stack has EXACTLY the
    names it had before (all scopes, same order); the block's own declarations are gone -/
theorem block_names (f : Nat) (b : Block) (ρ ρ' : NState) (h : stOf (evalS f (.block b) ρ) = some ρ') :
    ρ'.scopes.map (·.map Prod.fst) = ρ.scopes.map (·.map Prod.fst) := by
  obtain ⟨g, σ, _, hs, rfl⟩ := block_inv f b ρ ρ' h
  exact ((pall [] g).2.2.2.1 b ρ.push σ False (fun a => a.elim) hs).1.1

theorem block_names_completes (f : Nat) (b : Block) (ρ ρ' : NState) (h : Completes (evalS f (.block b) ρ) ρ') :
    ρ'.scopes.map (·.map Prod.fst) = ρ.scopes.map (·.map Prod.fst) :=
  block_names f b ρ ρ' h.stOf

/-! ### (B3) outer values -/

/-- (B3, second half) a name that is not assigned anywhere in the block (it may be DECLARED there, any number of times, and
    those declarations may be given their values by `stel`) means after the block what it meant before: at every depth `k`
    of the stack, in particular (`k = 0`) for the whole stack -/
theorem block_unassigned_drop (f : Nat) (b : Block) (x : Text) (ρ ρ' : NState) (hx : x ∉ assignsB b)
    (h : stOf (evalS f (.block b) ρ) = some ρ') (k : Nat) :
    lookup (ρ'.scopes.drop k) x = lookup (ρ.scopes.drop k) x := by
  obtain ⟨g, σ, _, hs, rfl⟩ := block_inv f b ρ ρ' h
  have := ((pall x g).2.2.2.1 b ρ.push σ True (fun _ => hx) hs).2 (k + 1) (by omega) (Or.inl trivial)
  simpa [NState.pop, NState.push] using this

theorem block_unassigned (f : Nat) (b : Block) (x : Text) (ρ ρ' : NState) (hx : x ∉ assignsB b)
    (h : stOf (evalS f (.block b) ρ) = some ρ') : lookup ρ'.scopes x = lookup ρ.scopes x := by
  simpa using block_unassigned_drop f b x ρ ρ' hx h 0

theorem block_unassigned_completes (f : Nat) (b : Block) (x : Text) (ρ ρ' : NState) (hx : x ∉ assignsB b)
    (h : Completes (evalS f (.block b) ρ) ρ') : lookup ρ'.scopes x = lookup ρ.scopes x :=
  block_unassigned f b x ρ ρ' hx h.stOf

/-- `stel x = e`: whatever `e` does (it may assign `x`: the new `x` is already in scope), the enclosing scopes keep their `x`;
    and `x` is declared in the innermost scope afterwards -/
theorem letS_outer (f : Nat) (x : Text) (e : Expr) (ρ ρ1 : NState) (h : stOf (evalS f (.letS x e) ρ) = some ρ1) :
    lookup (ρ1.scopes.drop 1) x = lookup (ρ.scopes.drop 1) x ∧ Vis x 1 ρ1.scopes := by
  have hv : Vis x 1 (ρ.declare x).scopes := by
    unfold NState.declare Vis
    cases ρ.scopes <;> simp [scNames]
  have hd : (ρ.declare x).scopes.drop 1 = ρ.scopes.drop 1 := by
    unfold NState.declare
    cases ρ.scopes <;> simp
  have key : ∀ σ : NState, Keep x False (ρ.declare x).scopes σ.scopes →
      lookup (σ.scopes.drop 1) x = lookup (ρ.scopes.drop 1) x ∧ Vis x 1 σ.scopes := fun σ k =>
    ⟨by rw [k.2 1 (by omega) (Or.inr hv), hd], hv.shape k.1⟩
  cases f with
  | zero => simp [evalS, stOf] at h
  | succ g =>
    have ih := fun σ => (pall x g).1 e (ρ.declare x) σ False (fun a => a.elim)
    simp only [evalS] at h
    cases hx : evalE g e (ρ.declare x) with
    | val v st1 =>
      rw [hx] at ih; simp only [hx] at h
      have k1 := ih st1 rfl
      cases ha : st1.assign x v with
      | none => simp only [ha, stOf, Option.some.injEq] at h; subst h; exact key _ k1
      | some st2 =>
        simp only [ha, stOf, Option.some.injEq] at h; subst h
        exact key _ (k1.trans (Keep.of_update_head (assign_scopes ha) k1.1.declare_mem))
    | brk s => rw [hx] at ih; simp only [hx, stOf, Option.some.injEq] at h; subst h; exact key _ (ih _ rfl)
    | cont s => rw [hx] at ih; simp only [hx, stOf, Option.some.injEq] at h; subst h; exact key _ (ih _ rfl)
    | err e s => rw [hx] at ih; simp only [hx, stOf, Option.some.injEq] at h; subst h; exact key _ (ih _ rfl)
    | unspec s => rw [hx] at ih; simp only [hx, stOf, Option.some.injEq] at h; subst h; exact key _ (ih _ rfl)
    | fuel => simp [hx, stOf] at h

/-- (B3, first half) "an inner block may declare the same name without disturbing the outer variable": a block that begins
    with `stel x = e` may assign `x` as it likes (in `e`, in the rest, in nested blocks and loops): every such assignment
    goes to a binding of the block; the `x` of the enclosing scopes has after the block the value it had -/
theorem block_declares_first (f : Nat) (x : Text) (e : Expr) (rest : Block) (ρ ρ' : NState)
    (h : stOf (evalS f (.block (.cons (.letS x e) rest)) ρ) = some ρ') : lookup ρ'.scopes x = lookup ρ.scopes x := by
  obtain ⟨g, σ, _, hs, rfl⟩ := block_inv f _ ρ ρ' h
  show lookup σ.scopes.tail x = lookup ρ.scopes x
  rw [← List.drop_one]
  cases g with
  | zero => simp [evalSs, stOf] at hs
  | succ g =>
    simp only [evalSs] at hs
    have l1 := fun ρ1 => letS_outer g x e ρ.push ρ1
    cases hx : evalS g (.letS x e) ρ.push with
    | val u st1 =>
      cases u
      rw [hx] at l1; simp only [hx] at hs
      obtain ⟨e1, v1⟩ := l1 st1 rfl
      have k := (pall x g).2.2.2.1 rest st1 σ False (fun a => a.elim) hs
      rw [k.2 1 (by omega) (Or.inr v1), e1]; rfl
    | brk s => rw [hx] at l1; simp only [hx, stOf, Option.some.injEq] at hs; subst hs; exact (l1 _ rfl).1
    | cont s => rw [hx] at l1; simp only [hx, stOf, Option.some.injEq] at hs; subst hs; exact (l1 _ rfl).1
    | err e s => rw [hx] at l1; simp only [hx, stOf, Option.some.injEq] at hs; subst hs; exact (l1 _ rfl).1
    | unspec s => rw [hx] at l1; simp only [hx, stOf, Option.some.injEq] at hs; subst hs; exact (l1 _ rfl).1
    | fuel => simp [hx, stOf] at hs

theorem block_declares_first_completes (f : Nat) (x : Text) (e : Expr) (rest : Block) (ρ ρ' : NState)
    (h : Completes (evalS f (.block (.cons (.letS x e) rest)) ρ) ρ') : lookup ρ'.scopes x = lookup ρ.scopes x :=
  block_declares_first f x e rest ρ ρ' h.stOf

/-! ### TEST (non-vacuity) -/

/-- outer `x = 1`, `i = 0`; the block `{ stel x = 5; x = x + 1; i = 7; { stel i = 9; x = i } }` -/
def blkState : NState := { scopes := [[(ti, some (.int 0)), (tx, some (.int 1))]] }

def blk : Block :=
  .cons (.letS tx (.int 5))
  (.cons (.expr (.assign (.ident tx) (.infix (.ident tx) .add (.int 1))))
  (.cons (.expr (.assign (.ident ti) (.int 7)))
  (.cons (.block (.cons (.letS ti (.int 9)) (.cons (.expr (.assign (.ident tx) (.ident ti))) .nil))) .nil)))

def intOf : Option (Option SVal) → Option Int
  | some (some (.int i)) => some i
  | _ => none

/-- TEST: the block completes; afterwards the names are those before, the outer `x` is still 1 (B2, B3 first half), and the
    outer `i`, which the block does assign, is 7 (so the hypothesis of B3's second half cannot be dropped) -/
example : (match evalS 20 (.block blk) blkState with
    | .val () ρ' => (ρ'.scopes.map (·.map Prod.fst), intOf (lookup ρ'.scopes tx), intOf (lookup ρ'.scopes ti))
    | _ => ([], none, none)) = ([[ti, tx]], some 1, some 7) := by decide +kernel

/-- TEST: the hypotheses of the theorems hold of the example -/
example : ∃ ρ', Completes (evalS 20 (.block blk) blkState) ρ' := by
  have hv : (match evalS 20 (.block blk) blkState with | .val _ _ => true | _ => false) = true := by decide +kernel
  cases h : evalS 20 (.block blk) blkState with
  | val u ρ' => exact ⟨ρ', Or.inl ⟨u, rfl⟩⟩
  | _ => simp [h] at hv

/-- TEST: a block that declares `x` and `i` and assigns neither -/
example : tx ∉ assignsB (.cons (.letS tx (.int 5)) (.cons (.letS ti (.ident tx)) .nil)) := by decide

/-- TEST: on the empty scope stack (never reached from `evalProgram`, whose stack is `[[]]`) a `stel` creates the first scope:
    this is why `SameShape` states the length under `ρ.scopes ≠ []` -/
example : (match evalS 5 (.letS tx (.int 1)) { scopes := [] } with
    | .val () ρ' => ρ'.scopes.length
    | _ => 0) = 1 := by decide +kernel

end NameEval
end Nl
