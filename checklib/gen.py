"""Type-directed random program generator (DESIGN §5, G of C01).  Every choice comes from the Rng
passed in, so a case replays exactly from its seed.

The generator tracks the type of every name in scope, builds loops with explicit counters and
recursion on a decreasing argument (termination), and stays inside the specified fragment of the
language (DESIGN §4.3): no read of a name inside its own initialiser, named functions only refer
to their own names and to names of the outermost scope, no more arguments than parameters."""

INT, FLOAT, BOOL, STR, ARR, NULL = "int", "float", "bool", "str", "arr", "null"
SCALARS = [INT, FLOAT, BOOL, STR]


class Fn:
    def __init__(self, name, params, ret):
        self.name = name
        self.params = params  # list of types
        self.ret = ret


class Scope:
    def __init__(self, kind):
        self.kind = kind      # 'global' | 'block' | 'function'
        self.vars = {}        # name -> type or Fn


class Gen:
    NAMES = ["a", "b", "c", "x", "y", "z", "n", "m", "tel", "som", "lijst", "naam", "é", "ñu", "_t", "k2"]

    def __init__(self, rng, size=20, features=None):
        self.r = rng
        self.size = size
        self.scopes = [Scope("global")]
        self.in_loop = 0
        self.fn_depth = 0
        self.fresh = 0
        self.budget = size
        self.stats = {}
        self.features = features or {}
        self.cur_ret = None

    # ------------------------------------------------------------ helpers
    def stat(self, k):
        self.stats[k] = self.stats.get(k, 0) + 1

    def visible(self):
        """names visible here: innermost first; inside a function only the function's scopes and
        the outermost global scope"""
        out = {}
        chain = []
        for s in reversed(self.scopes):
            chain.append(s)
            if s.kind == "function":
                chain.append(self.scopes[0])
                break
        for s in chain:
            for n, t in s.vars.items():
                if n not in out:
                    out[n] = (t, s)
        return out

    def vars_of(self, ty, hidden=()):
        return [n for n, (t, _) in self.visible().items() if t == ty and n not in hidden]

    def fns(self, hidden=()):
        return [t for n, (t, _) in self.visible().items() if isinstance(t, Fn) and n not in hidden]

    def new_name(self, prefer_fresh=False):
        if prefer_fresh or self.r.chance(1, 3):
            self.fresh += 1
            return "v%d" % self.fresh
        return self.r.pick(self.NAMES)

    def declare(self, name, ty):
        self.scopes[-1].vars[name] = ty

    # ------------------------------------------------------------ literals
    def int_lit(self):
        c = self.r.below(10)
        if c < 6:
            return str(self.r.below(12))
        if c < 8:
            return str(self.r.below(1000))
        if c == 8:
            return str(self.r.pick([255, 256, 65535, 65536, 2 ** 31, 2 ** 32, 2 ** 59, 2 ** 60 - 1]))
        return str(self.r.below(10 ** 6))

    def float_lit(self):
        c = self.r.below(8)
        if c < 4:
            return "%d.%d" % (self.r.below(20), self.r.below(100))
        if c < 6:
            return "%d.%s" % (self.r.below(3), self.r.pick(["5", "25", "125", "75", "0", ""]))
        return "%d.%d" % (self.r.below(10 ** 6), self.r.below(10 ** 6))

    STR_ATOMS = ["a", "b", "hallo", " ", "é", "日", "😀", "{}", "x y", "1", "42", "3.5", "\\n", "\\t", "\\\"", "\\\\", ""]

    def str_lit(self):
        n = self.r.below(4)
        return '"' + "".join(self.r.pick(self.STR_ATOMS) for _ in range(n)) + '"'

    # ------------------------------------------------------------ expressions
    def expr(self, ty, depth=0, hidden=()):
        self.budget -= 1
        r = self.r
        if ty == NULL:
            return "als nee { 1 }"
        leaf = depth > 3 or self.budget <= 0 or r.chance(1, 3)
        vs = self.vars_of(ty, hidden)
        if leaf:
            rd = vs + (self.vars_of("counter", hidden) if ty == INT else [])
            if rd and r.chance(2, 3):
                self.stat("var")
                return r.pick(rd)
            return self.literal(ty, depth, hidden)
        c = r.below(12)
        if ty == INT:
            if c < 5:
                op = r.pick(["+", "-", "*", "+", "-", "/", "%"])
                self.stat("arith")
                return self.paren(self.expr(INT, depth + 1, hidden)) + " " + op + " " + self.paren(self.expr(INT, depth + 1, hidden))
            if c == 5:
                return "-" + self.paren(self.expr(INT, depth + 1, hidden))
            if c == 6:
                arrs = self.vars_of(ARR, hidden)
                if arrs:
                    self.stat("index")
                    return "%s[%s]" % (r.pick(arrs), r.pick(["0", "1", "-1", "2", self.expr(INT, depth + 1, hidden)]))
            if c == 7:
                self.stat("builtin")
                return r.pick(["int(%s)" % self.expr(FLOAT, depth + 1, hidden),
                               "int(%s)" % self.expr(BOOL, depth + 1, hidden),
                               "lengte(%s)" % self.expr(STR, depth + 1, hidden),
                               "lengte(%s)" % self.expr(ARR, depth + 1, hidden),
                               'int("%d")' % r.below(1000)])
            if c == 8:
                call = self.call_returning(INT, depth, hidden)
                if call:
                    return call
            if c == 9:
                self.stat("if-value")
                return "als %s { %s } anders { %s }" % (self.expr(BOOL, depth + 1, hidden), self.expr(INT, depth + 1, hidden), self.expr(INT, depth + 1, hidden))
            if c == 10 and vs:
                v = r.pick(vs)
                self.stat("assign-expr")
                return "(%s = %s)" % (v, self.expr(INT, depth + 1, hidden))
            return self.literal(ty, depth, hidden)
        if ty == FLOAT:
            if c < 5:
                op = r.pick(["+", "-", "*", "/", "%"])
                self.stat("farith")
                return self.paren(self.expr(FLOAT, depth + 1, hidden)) + " " + op + " " + self.paren(self.expr(FLOAT, depth + 1, hidden))
            if c == 5:
                return "-" + self.paren(self.expr(FLOAT, depth + 1, hidden))
            if c == 6:
                return "float(%s)" % self.expr(INT, depth + 1, hidden)
            if c == 7:
                call = self.call_returning(FLOAT, depth, hidden)
                if call:
                    return call
            return self.literal(ty, depth, hidden)
        if ty == BOOL:
            if c < 4:
                t = r.pick([INT, INT, FLOAT, STR])
                op = r.pick(["<", "<=", ">", ">=", "==", "!="])
                self.stat("cmp")
                return self.paren(self.expr(t, depth + 1, hidden)) + " " + op + " " + self.paren(self.expr(t, depth + 1, hidden))
            if c < 6:
                op = r.pick(["&&", "||"])
                self.stat("logic")
                return self.paren(self.expr(BOOL, depth + 1, hidden)) + " " + op + " " + self.paren(self.expr(BOOL, depth + 1, hidden))
            if c == 6:
                return "!" + self.paren(self.expr(BOOL, depth + 1, hidden))
            if c == 7:
                return "bool(%s)" % self.expr(r.pick([INT, STR, FLOAT, ARR]), depth + 1, hidden)
            if c == 8:
                call = self.call_returning(BOOL, depth, hidden)
                if call:
                    return call
            return self.literal(ty, depth, hidden)
        if ty == STR:
            if c < 3:
                return "string(%s)" % self.expr(r.pick([INT, BOOL, FLOAT, STR]), depth + 1, hidden)
            if c == 3:
                return "type(%s)" % self.expr(r.pick([INT, BOOL, FLOAT, STR, ARR]), depth + 1, hidden)
            if c == 4:
                ss = self.vars_of(STR, hidden)
                if ss:
                    return "%s[%s]" % (r.pick(ss), r.pick(["0", "-1", "1"]))
            if c == 5:
                call = self.call_returning(STR, depth, hidden)
                if call:
                    return call
            return self.literal(ty, depth, hidden)
        if ty == ARR:
            if c < 2:
                call = self.call_returning(ARR, depth, hidden)
                if call:
                    return call
            return self.literal(ty, depth, hidden)
        return self.literal(ty, depth, hidden)

    def paren(self, e):
        # operands are parenthesised unless atomic, so the generator's typing matches the parse
        if e.replace("_", "a").replace(".", "0").isalnum():
            return e
        return "(" + e + ")"

    def literal(self, ty, depth, hidden):
        r = self.r
        self.stat("lit-" + ty)
        if ty == INT:
            return self.int_lit()
        if ty == FLOAT:
            return self.float_lit()
        if ty == BOOL:
            return r.pick(["ja", "nee"])
        if ty == STR:
            return self.str_lit()
        if ty == ARR:
            n = r.below(4) if depth < 3 else 0
            elems = []
            for _ in range(n):
                t = r.pick([INT, INT, INT, STR, FLOAT, BOOL, ARR]) if depth < 2 else INT
                elems.append(self.expr(t, depth + 2, hidden))
            return "[" + ", ".join(elems) + "]"
        return "0"

    def call_returning(self, ty, depth, hidden):
        cands = [f for f in self.fns(hidden) if f.ret == ty]
        if not cands:
            return None
        f = self.r.pick(cands)
        self.stat("call")
        nargs = len(f.params)
        if f.params and self.r.chance(1, 12):
            nargs -= 1      # fewer arguments: the missing parameter is null
        args = [self.expr(t, depth + 1, hidden) for t in f.params[:nargs]]
        return "%s(%s)" % (f.name, ", ".join(args))

    # ------------------------------------------------------------ statements
    def block(self, kind, n, value_ty=None, indent="  ", pre=None):
        self.scopes.append(Scope(kind))
        if pre:
            pre()
        out = []
        for _ in range(n):
            out.append(self.stmt(indent))
        if value_ty is not None:
            out.append(indent + self.expr(value_ty, 1) + self.r.pick(["", ";"]))
        self.scopes.pop()
        return out

    def stmt(self, indent=""):
        t = self.stmt0(indent)
        return t if t.endswith(";") else t + ";"

    def stmt0(self, indent=""):
        r = self.r
        self.budget -= 1
        c = r.below(20)
        if self.budget <= 0:
            c = r.below(4)
        if c < 4:
            # declaration
            ty = r.pick([INT, INT, INT, FLOAT, BOOL, STR, ARR])
            name = self.new_name()
            e = self.expr(ty, 0, hidden=(name,))
            self.declare(name, ty)
            self.stat("let")
            return indent + "stel %s = %s" % (name, e)
        if c < 7:
            # assignment / op-assignment
            ty = r.pick([INT, INT, FLOAT, BOOL, STR])
            vs = self.vars_of(ty)
            if vs:
                v = r.pick(vs)
                if ty in (INT, FLOAT) and r.chance(1, 2):
                    self.stat("op-assign")
                    return indent + "%s %s= %s" % (v, r.pick(["+", "-", "*"]), self.expr(ty, 1))
                self.stat("assign")
                return indent + "%s = %s" % (v, self.expr(ty, 1))
        if c == 7:
            arrs = self.vars_of(ARR)
            if arrs:
                self.stat("index-set")
                return indent + "%s[%s] = %s" % (r.pick(arrs), r.pick(["0", "-1", "1"]), self.expr(r.pick([INT, STR, ARR]), 1))
            ss = self.vars_of(STR)
            if ss:
                self.stat("str-index-set")
                return indent + "%s[%s] = %s" % (r.pick(ss), r.pick(["0", "-1"]), self.str_lit())
        if c == 8:
            self.stat("print")
            k = r.below(3)
            args = [self.expr(r.pick([INT, STR, FLOAT, BOOL, ARR]), 1) for _ in range(k)]
            fmt = '"' + " ".join(["{}"] * r.below(k + 2)) + r.pick(["", "!", " é"]) + '"'
            return indent + "print(%s)" % ", ".join([fmt] + args)
        if c in (9, 10) and self.budget > 3:
            # if statement
            self.stat("if")
            cond = self.expr(BOOL, 1)
            lines = [indent + "als %s {" % cond]
            lines += self.block("block", r.below(3), indent=indent + "  ")
            if self.in_loop and r.chance(1, 3):
                lines.append(indent + "  " + r.pick(["stop", "volgende"]) + ";")
                self.stat("break-continue")
            elif self.cur_ret is not None and r.chance(1, 4):
                lines.append(indent + "  antwoord " + self.expr(self.cur_ret, 1) + ";")
                self.stat("early-return")
            if r.chance(1, 2):
                if r.chance(1, 3):
                    lines.append(indent + "} anders als %s {" % self.expr(BOOL, 1))
                    lines += self.block("block", r.below(2), indent=indent + "  ")
                lines.append(indent + "} anders {")
                lines += self.block("block", r.below(3), indent=indent + "  ")
            lines.append(indent + "}")
            return "\n".join(lines)
        if c in (11, 12) and self.budget > 4 and self.in_loop < 2:
            # counted loop; the counter is advanced first so `volgende` cannot spin
            self.stat("while")
            i = "i%d" % self.fresh
            self.fresh += 1
            n = r.pick([0, 1, 2, 3, 5])
            lines = [indent + "stel %s = 0;" % i, indent + "zolang %s < %d {" % (i, n), indent + "  %s += 1;" % i]
            self.in_loop += 1
            self.declare(i, "counter")
            lines += self.block("block", 1 + r.below(3), indent=indent + "  ")
            self.in_loop -= 1
            lines.append(indent + "}")
            return "\n".join(lines)
        if c in (13, 14) and self.budget > 5 and self.fn_depth == 0 and len(self.scopes) == 1:
            return self.function_def(indent)
        if c == 15 and len(self.scopes) < 4:
            self.stat("block")
            lines = [indent + "{"] + self.block("block", 1 + r.below(2), indent=indent + "  ") + [indent + "}"]
            return "\n".join(lines)
        # expression statement
        self.stat("expr-stmt")
        return indent + self.expr(r.pick([INT, INT, FLOAT, BOOL, STR, ARR]), 0)

    def function_def(self, indent):
        r = self.r
        self.stat("function")
        name = "f%d" % self.fresh
        self.fresh += 1
        params = [r.pick([INT, INT, FLOAT, BOOL, STR, ARR]) for _ in range(r.below(4))]
        ret = r.pick([INT, INT, FLOAT, BOOL, STR, ARR])
        recursive = r.chance(1, 3)
        if recursive:
            params = [INT] + params[:2]
        fn = Fn(name, params, ret)
        pnames = ["p%d" % i for i in range(len(params))]
        saved_loop, saved_ret = self.in_loop, self.cur_ret
        self.in_loop = 0
        self.cur_ret = ret
        self.fn_depth += 1

        def pre():
            for n, t in zip(pnames, params):
                self.declare(n, t)

        if r.chance(1, 2):
            # named form: visible inside its own body (global function) => recursion possible
            self.declare(name, "hidden-fn")
            head = indent + "functie %s(%s) {" % (name, ", ".join(pnames))
        else:
            self.declare(name, "hidden-fn")
            head = indent + "stel %s = functie(%s) {" % (name, ", ".join(pnames))
        lines = [head]
        if recursive:
            self.stat("recursion")
            self.scopes.append(Scope("function"))
            pre()
            lines.append(indent + "  als p0 <= 0 { antwoord %s };" % self.expr(ret, 2))
            for _ in range(r.below(2)):
                lines.append(self.stmt(indent + "  "))
            rec = "%s(%s)" % (name, ", ".join(["p0 - 1"] + [self.expr(t, 2) for t in params[1:]]))
            if ret == INT:
                lines.append(indent + "  " + r.pick(["%s + 1" % rec, "p0 + %s" % rec, "%s" % rec, "1 + %s * 2" % rec]))
            else:
                lines.append(indent + "  " + rec)
            self.scopes.pop()
        else:
            lines += self.block("function", r.below(4), value_ty=ret, indent=indent + "  ", pre=pre)
        lines.append(indent + "}")
        self.fn_depth -= 1
        self.in_loop, self.cur_ret = saved_loop, saved_ret
        self.declare(name, fn)
        # calls with a bounded first argument for recursive functions
        if recursive:
            fn.params = params
            fn.rec_bound = True
        return "\n".join(lines)

    def program(self):
        lines = []
        while self.budget > 0:
            lines.append(self.stmt())
        # make the result observable
        if self.r.chance(2, 3):
            vis = self.visible()
            names = [n for n, (t, _) in vis.items() if t in (INT, FLOAT, BOOL, STR, ARR)]
            if names:
                lines.append(self.r.pick(names))
        return "\n".join(lines) + "\n"


def random_program(rng, size=None):
    g = Gen(rng, size=size or rng.range(5, 60))
    # recursive calls take a small literal as first argument: patch call generation
    orig = g.call_returning

    def call_returning(ty, depth, hidden):
        cands = [f for f in g.fns(hidden) if f.ret == ty]
        if not cands:
            return None
        f = g.r.pick(cands)
        g.stat("call")
        if getattr(f, "rec_bound", False):
            args = [str(g.r.below(6))] + [g.expr(t, depth + 1, hidden) for t in f.params[1:]]
        else:
            n = len(f.params)
            if f.params and g.r.chance(1, 12):
                n -= 1
            args = [g.expr(t, depth + 1, hidden) for t in f.params[:n]]
        return "%s(%s)" % (f.name, ", ".join(args))

    g.call_returning = call_returning
    src = g.program()
    return src, g.stats
