"""C02 — execution never leaves the interpreter's own memory."""
from .. import core, diff, enum, gen
from ..core import hx
from . import C05

PROOF_MODULE = "Nlmodel.Proofs.C02"
PROOF_FILES = ["Nlmodel/Proofs/C02.lean", "Nlmodel/Proofs/Lemmas/VerifierInv.lean", "Nlmodel/Proofs/Lemmas/VerifierStep.lean", "Nlmodel/Proofs/Lemmas/VerifierSound.lean", "Nlmodel/Model/Verifier.lean", "Nlmodel/Model/VM.lean", "Nlmodel/Model/Bytecode.lean"]
THEOREM_FILE = PROOF_FILES[0]
LEVEL_TEXT = ("A verified bytecode checker. Model/Verifier.check validates, on the decoded BYTE stream, a certificate (owner function and a lower bound on the operand-stack height per instruction): every certified offset decodes to a valid opcode with its operands inside the code; every jump target, fall-through and function entry found in the constant pool is a certified instruction start of the same function; constant indices, builtin numbers and local slots are in range; Halt occurs only in top-level code and Return only in functions; pops never exceed the lower bound. Proofs/C02 proves SOUNDNESS over the machine model for all 45 opcodes: from a state satisfying the invariant (certificate entry at the instruction pointer; base pointer + locals + lower bound <= stack size; every suspended frame can take its pending result; every function value in stack, globals, constants and heap arrays is a checked entry with its locals count) a step of a checked program halts, returns an error value, or continues in such a state - it never faults - hence a checked program never reaches a fault in any number of steps (C02_check_sound, also for a retained machine); the certificate inference is untrusted. That the compiler MODEL emits only checkable bytecode is a theorem since session 6 (C02_compiler_verifiable, hence C02_eval_text_never_faults with no side condition); for the REAL compiler it is decided per program by running the verified checker on the real bytes. The check runs this checker on the REAL compiler's real bytes and constant pool for every generated source (all paths of that bytecode, not only the path taken), so it is independent of the compiler model; the machine model the theorems speak about is tied to vm.rs by step-count/stack-height/collection correspondence, and the fault probes in vm.rs (hook) turn any out-of-contract access of the real VM into a reported FAULT.")
LEVEL_NOTE = ("Trusted: Lean kernel; the certificate inference is untrusted (its output is checked); the harness's printing of bytes/constants; the probes cover pop, fetch, operand reads, builtin number, base pointer; get_local/set_local/constants use Rust's checked indexing (a panic, reported as such). 'Every accepted source compiles to checkable bytecode' IS a theorem about the compiler model for the whole language (C02_compiler_verifiable: explicit certificate built from the resolved tree; resolver well-formedness, per-instruction rules, function table, all by mutual induction over the tree), hence C02_accepted_program_never_faults and C02_eval_text_never_faults hold for every text and budget with no side condition; for the REAL compiler's bytes the verified checker is run per generated program (independent of the compiler model).")
TECHNIQUE = "Lean 4 proof (verified bytecode checker, sound for all opcodes; the compiler model's output always passes it: no accepted program ever faults) + the verified checker applied to the real compiler's bytecode + fault probes in the real VM"
RULE = ("every program of the C01 generators (bounded-exhaustive templates, type-directed random), token-level mutations of them and random "
        "token sequences, keeping those that compile; each compiled by the REAL compiler and its bytes checked by the verified checker, and "
        "run with fault probes; non-trivial = distinct source that compiled and whose bytecode was checked")


def run(res, tier, rng, table_diffs=()):
    srcs = []
    allp = list(enum.programs(2))
    stride = max(1, len(allp) // (1500 if tier == "quick" else 6175))
    srcs += [("enum", p) for p in allp[rng.below(stride)::stride]]
    n = 1500 if tier == "quick" else 30000
    base = []
    for _ in range(n):
        s, _ = gen.random_program(rng.fork())
        base.append(s)
        srcs.append(("random", s))
    for s in base[: (600 if tier == "quick" else 20000)]:
        srcs.append(("mutated", C05.mutate(rng, s)))
        srcs.append(("mutated", C05.mutate(rng, C05.mutate(rng, s))))
    for _ in range(3000 if tier == "quick" else 60000):
        srcs.append(("tokens", " ".join(rng.pick(C05.VOCAB) for _ in range(rng.range(1, 14)))))
    for d in C05.DIRECTED:
        if len(d) < 5000:
            srcs.append(("directed", d))
    from .. import gen2
    srcs += gen2.big_code_programs()
    srcs += gen2.width_boundary_programs()
    srcs += gen2.operand_height_programs()
    # every jump of a loop / branch at every byte offset (round 10): a placeholder value a real target can equal redirects it
    srcs += [("offset-sweep", p) for p, _ in gen2.offset_sweep_programs(1500)[::3]]
    srcs += [("iife", p) for p in gen2.iife_programs()]
    srcs += [("tail-shapes", p) for p in gen2.tail_shape_programs()]
    # TYPE CONFUSION: a function value is the one kind of value `Call` trusts (entry offset, locals count). Arithmetic, comparison,
    # indexing or a builtin applied to a function value must never produce another function value: every result is then CALLED
    for k in ["1", "65536", "262144", "1114112", "0 - 1", "0 - 65536", "3", "f", "g", "1.5", "ja", "\"s\"", "[1]"]:
        for op in ["+", "-", "*", "/", "%"]:
            srcs.append(("type-confusion", "stel f = functie() { 1 }; stel g = functie(a, b) { als ja { antwoord 2 }; 3 }; stel h = f %s %s; h()" % (op, k)))
            srcs.append(("type-confusion", "stel f = functie() { 1 }; stel g = functie(a, b) { 2 }; stel h = %s %s g; h(1, 2)" % (k, op)))
            srcs.append(("type-confusion", "functie f() { 1 }; functie w(x) { stel y = x %s 65536; y() }; functie v(x) { stel y = 65536 %s x; y() }; [w(f), v(f)]" % (op, op)))
        srcs.append(("type-confusion", "stel f = functie() { 1 }; f += %s; f()" % k))
    for e in ["[f][0]()", "[f, 1][1]()", "string(f)()", "bool(f)()", "int(f)()", "(f == f)()", "(-f)()", "(!f)()", "f[0]()", "type(f)()", "[[f]][0][0]()"]:
        srcs.append(("type-confusion", "stel f = functie() { 1 }; %s" % e))
    for _ in range(500 if tier == "quick" else 10000):
        srcs.append(("nested-fn", gen2.nested_fn_program(rng.fork())))
    for _ in range(200 if tier == "quick" else 4000):
        srcs.append(("fn-values", gen2.fnvalue_program(rng.fork())))
    comp = core.impl(["compile " + hx(s) for _, s in srcs])
    todo = [(lab, s, c) for (lab, s), c in zip(srcs, comp) if c.startswith("ok ")]
    res.coverage["sources_tried"] = len(srcs)
    res.coverage["sources_compiled"] = len(todo)
    ver = core.model(["verify " + c[3:] for _, _, c in todo])
    # LOCKSTEP TIE OF THE MACHINE MODEL TO vm.rs ON THE REAL BYTES: the real compiler's bytes are run by the real VM with the
    # trace hook (`runtrace`: outcome, steps, stack at Halt, collections, rolling hash of (ip, opcode, stack height, frames) per
    # instruction) and by Model/VM (`runbytes` on the same bytes and constants) — independent of the compiler model
    runs = core.impl(["runtrace 200000 " + hx(s) for _, s, _ in todo])
    mruns = core.model(["runbytes 200000 " + (r.split(" ## ", 1)[1] if " ## " in r else "x | ") for r in runs])
    reported = 0
    for (lab, s, c), v, r, m in zip(todo, ver, runs, mruns):
        res.seen(s, nontrivial=True)
        res.count(lab)
        res.count("verifier:" + v.split(" ")[0])
        r = r.split(" ## ", 1)[0]
        ro = diff.obs(r)
        fault = ro.startswith(("FAULT", "PANIC", "CRASH"))
        if fault and reported < 4:
            reported += 1
            res.violation("the machine performed an out-of-contract access (stack underflow, wild fetch/jump, bad operand) on an accepted program",
                          dict(kind="fault", input=s, impl=r, verifier=v, bytecode=c[:400], generator=lab))
            continue
        if not v.startswith("ok") and reported < 4:
            reported += 1
            # the verified checker cannot certify what the real compiler emitted: look for a concrete failing run nearby
            res.violation("the real compiler emitted bytecode that the verified checker does not certify",
                          dict(kind="uncertified", input=s, verifier=v, bytecode=c[:600], impl=r, generator=lab,
                               unchecked="check(bytecode, inferred certificate) for the real compiler's output (C02 soundness theorem does not apply)"),
                          no_input=True)
            continue
        mo = diff.obs(m)
        if mo.startswith(("TIMEOUT", "CRASH", "bad-request")):
            res.count("model-unavailable")
            continue
        if ro != "BUDGET" and mo != "BUDGET":
            ms, rs_ = diff.stats(m), diff.stats(r)
            res.count("lockstep-compared")
            bad = ro != mo or any(ms.get(k) != rs_.get(k) for k in ("steps", "halt", "gc", "hash"))
            if bad and reported < 6:
                reported += 1
                res.violation("machine model and vm.rs disagree on the real compiler's bytes (outcome, step count, stack height at Halt, collections or the per-instruction trace hash)",
                              dict(kind="model", input=s, impl=r, model=m, unchecked="lockstep correspondence Model/VM vs vm.rs on the real bytecode (the machine the theorems are about)"),
                              no_input=True)
    run_sessions(res, reported)


def run_sessions(res, reported):
    """the retained compiler: every line of a session is compiled by the REAL retained compiler; its bytes must pass the
    verified checker like any other top-level code, and running it must not fault"""
    from .. import gen2
    sessions = gen2.failure_then_declaration_sessions()
    ans = core.impl(["sessionbytes 100000 " + " ".join(hx(l) for l in s) for s in sessions])
    vreqs, vmeta = [], []
    for s, a in zip(sessions, ans):
        res.seen("S" + "\n".join(s), nontrivial=True)
        res.count("session")
        if a.startswith(("PANIC", "CRASH", "TIMEOUT")) or "FAULT" in a:
            if reported < 8:
                reported += 1
                res.violation("a line of a retained session made the machine perform an out-of-contract access (or crashed it)",
                              dict(kind="session-fault", input=s, impl=a[:600]))
            continue
        for k, part in enumerate(a.split(" ;; ")):
            if " ## " in part:
                vreqs.append("verify " + part.split(" ## ", 1)[1])
                vmeta.append((s, k, part))
    ver = core.model(vreqs)
    for (s, k, part), v in zip(vmeta, ver):
        res.count("session-line-verifier:" + v.split(" ")[0])
        if not v.startswith("ok") and reported < 8:
            reported += 1
            res.violation("the retained compiler emitted bytecode for a session line that the verified checker does not certify",
                          dict(kind="session-uncertified", input=s, line=k, verifier=v, impl=part[:600],
                               unchecked="check(bytecode, inferred certificate) for the retained compiler's output"), no_input=True)
    return reported


def replay(res, rp):
    if rp.get("kind", "").startswith("session"):
        s = rp["input"]
        a = core.impl(["sessionbytes 100000 " + " ".join(hx(l) for l in s)])[0]
        print(a[:800])
        bad = a.startswith(("PANIC", "CRASH", "TIMEOUT")) or "FAULT" in a
        for part in a.split(" ;; "):
            if " ## " in part:
                v = core.model(["verify " + part.split(" ## ", 1)[1]])[0]
                print("verify:", v)
                bad = bad or not v.startswith("ok")
        if bad:
            print("VIOLATION property=C02 replay=replay")
            return 1
        return 0
    s = rp["input"]
    c = core.impl(["compile " + hx(s)])[0]
    r = core.impl(["runtrace 200000 " + hx(s)])[0]
    v = core.model(["verify " + c[3:]])[0] if c.startswith("ok ") else "n/a"
    m = core.model(["runbytes 200000 " + r.split(" ## ", 1)[1]])[0] if " ## " in r else "n/a"
    r = r.split(" ## ", 1)[0]
    print("compile:", c[:200])
    print("verify :", v)
    print("run    :", r[:300])
    print("model  :", m[:300])
    bad = diff.obs(r).startswith(("FAULT", "PANIC", "CRASH")) or (c.startswith("ok ") and not v.startswith("ok"))
    if m != "n/a" and diff.obs(r) != "BUDGET" and diff.obs(m) != "BUDGET" and not diff.obs(m).startswith(("TIMEOUT", "CRASH")):
        ms, rs_ = diff.stats(m), diff.stats(r)
        bad = bad or diff.obs(r) != diff.obs(m) or any(ms.get(k) != rs_.get(k) for k in ("steps", "halt", "gc", "hash"))
    if bad:
        print("VIOLATION property=C02 replay=replay")
        return 1
    return 0
