/-
  C01 — Running a program yields exactly what its source text denotes.
  Property statements only; helper lemmas live in Proofs/Lemmas.
-/
import Nlmodel.Model.Pipeline
import Nlmodel.Proofs.Lemmas.SimProgram
import Nlmodel.Proofs.Lemmas.ResolveTop
import Nlmodel.Proofs.Lemmas.ResolveCtl
import Nlmodel.Proofs.Lemmas.SpecMono
import Nlmodel.Proofs.Lemmas.SimFnValidate
import Nlmodel.Proofs.Lemmas.SimHValidate
import Nlmodel.Proofs.Lemmas.ResolveHeap
import Nlmodel.Proofs.Lemmas.ResolveFn
import Nlmodel.Proofs.Lemmas.ParsedFloats
import Nlmodel.Proofs.Lemmas.Resolve6Top
import Nlmodel.Proofs.Lemmas.SyntacticOnly
import Nlmodel.Proofs.Lemmas.Resolve7Top
import Nlmodel.Proofs.Lemmas.Sim8Embed
import Nlmodel.Proofs.Lemmas.Sim8Example
import Nlmodel.Proofs.Lemmas.DivCtlExample
import Nlmodel.Proofs.Lemmas.Div6Example
import Nlmodel.Proofs.Lemmas.Div7Example
import Nlmodel.Proofs.Lemmas.Div8Example
import Nlmodel.Proofs.Lemmas.LimitExample
import Nlmodel.Proofs.Lemmas.LimitRun2
import Nlmodel.Proofs.Lemmas.DivTextLimit
namespace Nl
namespace C01

/-- More instruction budget never changes a finished run: if the machine model halts, fails or
    faults within `n` steps, it gives the same outcome with any larger budget.  (This is what makes
    "there is a budget for which the run ends in o" a well-defined outcome of a program.) -/
theorem C01_budget_mono (c : Code) (n k : Nat) (s : VM)
    (h : ∀ s', runSteps c n s ≠ .budget s') :
    runSteps c (n + k) s = runSteps c n s := by
  induction n generalizing s with
  | zero => exact absurd rfl (h s)
  | succ n ih =>
    have e : n + 1 + k = (n + k) + 1 := by omega
    rw [e]
    simp only [runSteps] at h ⊢
    cases hs : step c s with
    | next s' =>
      simp only [hs] at h ⊢
      exact ih s' h
    | halt v s' => rfl
    | error e s' => rfl
    | fault site => rfl

/-- The definitional semantics is well defined: once the evaluator finishes a block with some fuel
    (any result other than "out of fuel"), every larger fuel gives the same result.  Proved for the
    WHOLE language (all six mutually recursive evaluation functions, `Spec.mono`), so "the program
    denotes o" := "some fuel gives o" is a function of the program. -/
theorem C01_spec_fuel_mono (f k : Nat) (b : RBlock) (st : Spec.SState) (h : Spec.evalB f b st ≠ .fuel) :
    Spec.evalB (f + k) b st = Spec.evalB f b st :=
  Spec.evalB_fuel_mono f k b st h

/-- FORWARD SIMULATION, stage 1 (closed scalar expressions: integer and boolean literals, `!`, unary
    `-`, and all 13 binary operators, nested arbitrarily).  Wherever the bytes the compiler model
    emits for `e` sit in the code, with whatever the pool contains besides `e`'s constants, from ANY
    machine state at that position: if the definitional evaluator gives the value `v`, the machine
    reaches the end of that code with exactly `v` pushed and nothing else changed; if it gives an
    error, the machine reaches a step that fails with the same error kind. -/
theorem C01_scalar_expr_simulation (f : Nat) (e : RExpr) (st : Spec.SState) (h : Sim.Sc e) (pos : Nat) (lp : LoopCtx)
    (cs : List Const) (C : Code) (s : VM) (hcode : Sim.CodeAt C pos (emitE e pos lp cs).1)
    (hpool : Sim.PoolOK s.cvals (emitE e pos lp cs).2) (hip : s.ip = pos) :
    Sim.Goal C s pos (sizeE e) st (Spec.evalE f e st) :=
  Sim.sim_sc f e st h pos lp cs C s hcode hpool hip

/-- END TO END, stage 1: for a program consisting of one closed scalar expression, compiled by the
    compiler model and run on a fresh machine: the definitional value is the value the run halts
    with, and a definitional error is the error the run fails with, for every sufficiently large
    instruction budget (bytes, constant pool, `VM.start`, `Pop`, `Halt` included). -/
theorem C01_scalar_program (e : RExpr) (hsc : Sim.Sc e) (bc : Bytecode) (hc : compileR (.cons (.expr e) .nil) = .ok bc)
    (f : Nat) :
    match Spec.evalE f e {} with
    | .val v _ => ∃ mv n, Sim.toVal v = some mv ∧ ∀ k, ∃ s', runSteps bc.code (n + k) (VM.start {} bc) = .value mv s'
    | .err er _ => ∃ n, ∀ k, ∃ s', runSteps bc.code (n + k) (VM.start {} bc) = .error er s'
    | _ => True :=
  Sim.scalar_program e hsc bc hc f

/-- FORWARD SIMULATION, stage 2 (expressions over GLOBAL scalar variables, with assignment): in a scope
    `Γ` (binders with pairwise different slots), from any machine state whose globals hold the value
    of every bound binder of `Γ` in its slot: a definitional value `v` with new state `st'` is matched
    by the machine reaching the end of the code with `v` pushed and globals that again hold every
    bound binder of `Γ` (w.r.t. `st'`); errors are matched by errors of the same kind. -/
theorem C01_global_expr_simulation (Γ : Sim.Gam) (hok : Sim.GamOK Γ) (f : Nat) (e : RExpr) (st : Spec.SState)
    (h : Sim.WE Γ e) (pos : Nat) (lp : LoopCtx) (cs : List Const) (C : Code) (s : VM)
    (hcode : Sim.CodeAt C pos (emitE e pos lp cs).1) (hpool : Sim.PoolOK s.cvals (emitE e pos lp cs).2)
    (hip : s.ip = pos) (hrel : Sim.Rel Γ st s.globals) :
    Sim.GoalE Γ C s pos (sizeE e) st (Spec.evalE f e st) :=
  Sim.sim_we Γ hok f e st h pos lp cs C s hcode hpool hip hrel

/-- END TO END, stage 2: a program that is a sequence of expression statements and `stel`
    declarations over global scalar variables (well-scoped: `WB [] p Γ'`), compiled by the compiler
    model and run on a fresh machine, halts with the value of the definitional semantics' `last`
    register (fails with the same error kind), for every sufficiently large budget.  Declarations
    may shadow earlier ones; each gets its own slot. -/
theorem C01_global_program (p : RBlock) (Γ' : Sim.Gam) (hwb : Sim.WB [] p Γ') (bc : Bytecode)
    (hc : compileR p = .ok bc) (F : Nat) :
    match Spec.evalB F p {} with
    | .val () st' => ∃ mv n, Sim.toVal st'.last = some mv ∧ st'.out = [] ∧
        ∀ k, ∃ s', runSteps bc.code (n + k) (VM.start {} bc) = .value mv s'
    | .err er _ => ∃ n, ∀ k, ∃ s', runSteps bc.code (n + k) (VM.start {} bc) = .error er s'
    | _ => True :=
  Sim.global_program p Γ' hwb bc hc F

/-- END TO END from SOURCE TREES, stage 2: for every parsed program in the stage-2 source fragment
    (`Sim.AB`: expression statements and `stel` declarations over integers, booleans, identifiers,
    unary/binary operators and assignments to identifiers), whatever the real resolver + compiler
    model produce (`compileProgram`), running it agrees with the definitional semantics of the
    resolved tree.  The well-scopedness premise of `C01_global_program` is discharged by
    `Sim.resolve_wb` (property R1 of the resolver for this fragment). -/
theorem C01_source_program (ast : Block) (hab : Sim.AB ast) (r : RBlock) (bc : Bytecode)
    (hc : compileProgram ast = .ok (r, bc)) (F : Nat) :
    match Spec.evalB F r {} with
    | .val () st' => ∃ mv n, Sim.toVal st'.last = some mv ∧ st'.out = [] ∧
        ∀ k, ∃ s', runSteps bc.code (n + k) (VM.start {} bc) = .value mv s'
    | .err er _ => ∃ n, ∀ k, ∃ s', runSteps bc.code (n + k) (VM.start {} bc) = .error er s'
    | _ => True := by
  unfold compileProgram at hc
  cases hr : resolveProgram ast with
  | error e => simp [hr] at hc
  | ok r' =>
    simp only [hr] at hc
    cases hcr : compileR r' with
    | error e => simp [hcr] at hc
    | ok bc' =>
      simp only [hcr] at hc
      injection hc with hc; injection hc with h1 h2; subst h1; subst h2
      obtain ⟨Γ', hwb⟩ := Sim.resolve_wb ast hab r' hr
      exact Sim.global_program r' Γ' hwb bc' hcr F

/-- FORWARD SIMULATION, stage 3 (structured control flow over global scalar variables): `als`/`anders`
    in value position, `zolang` with its value, `stop`, `volgende`, nested blocks with their scopes
    and slot reuse, declarations inside loop bodies.  For every fuel `f` the five statements hold
    together: expressions (`PE`), blocks in value position (`PBV`), statements (`PS`), blocks in
    statement position (`PB`) and the loop from its head (`PL`).  Each says: from ANY machine
    configuration at the start of the emitted code whose globals hold the bound binders of the scope
    and whose `last` register holds the semantics' `last`: a definitional value is matched by the
    machine reaching the end of the code with that value pushed on the SAME stack (no residue,
    C11); `stop`/`volgende` are matched by the machine reaching the loop's exit / head with `null`
    pushed on the stack the construct started with; an error by a failing step of the same kind.
    The flag `ab` of the fragment forbids `stop`/`volgende` where an operand is pending
    (known finding K3: there the machine's value is WRONG, see `Sim.XE`). -/
theorem C01_control_flow_simulation (f : Nat) : Sim.PAll f := Sim.pall f

/-- END TO END from SOURCE TREES, stage 3: every parsed program of the stage-3 source fragment
    (`Sim.SB false`), resolved and compiled by the models of the real resolver and code generator,
    run on a fresh machine: a definitional result (value of the `last` register / error kind) is
    the result of the run for every sufficiently large budget; and the definitional semantics never
    ends such a program in a dangling `stop`/`volgende`/`antwoord`. -/
theorem C01_control_flow_program (ast : Block) (hs : Sim.SB false ast) (r : RBlock) (bc : Bytecode)
    (hc : compileProgram ast = .ok (r, bc)) (F : Nat) :
    match Spec.evalB F r {} with
    | .val () st' => ∃ mv n, Sim.toVal st'.last = some mv ∧ st'.out = [] ∧
        ∀ k, ∃ s', runSteps bc.code (n + k) (VM.start {} bc) = .value mv s'
    | .err er _ => ∃ n, ∀ k, ∃ s', runSteps bc.code (n + k) (VM.start {} bc) = .error er s'
    | .brk _ => False
    | .cont _ => False
    | .ret _ _ => False
    | _ => True := by
  unfold compileProgram at hc
  cases hr : resolveProgram ast with
  | error e => simp [hr] at hc
  | ok r' =>
    simp only [hr] at hc
    cases hcr : compileR r' with
    | error e => simp [hcr] at hc
    | ok bc' =>
      simp only [hcr] at hc
      injection hc with hc; injection hc with h1 h2; subst h1; subst h2
      obtain ⟨Γ', hxb⟩ := Sim.resolve_xb ast hs r' hr
      exact Sim.ctl_program r' Γ' hxb bc' hcr F

/-- FORWARD SIMULATION, stage 4 (functions): named and anonymous functions as first-class values,
    calls with too few / too many arguments, parameters and locals in frame slots (block scopes and
    slot reuse inside bodies), recursion, `antwoord` from any depth (also under pending operands and
    out of loops), fused local-constant instructions and their mirrored forms, control flow and
    global variables as in stage 3 — on the flat stack with vm.rs's base-pointer arithmetic.  For
    every fuel the seven statements hold together (`SimF.PAll`: expressions, argument lists, blocks
    in value position, statements, blocks, loops, FUNCTION BODIES).  The frame of the caller (`below`)
    is never touched (C12); every completion of a body is a return to the saved frame; the machine
    may instead stop at its stack/frame limit (`Ovf`), which the semantics does not have. -/
theorem C01_function_simulation (W : SimF.World) (hW : SimF.WOK W) (f : Nat) : SimF.PAll W f := SimF.pall hW f

/-- END TO END from resolved trees, stage 4: a top-level program that is a sequence of statements
    and function definitions (`SimF.YTop`) with pairwise distinct function ids, compiled by the
    compiler model and run on a fresh machine, ends with the value of the definitional semantics'
    `last` register (related by `SimF.VR`: same scalar, or the function value of the same
    definition), or with the same error kind — or at the machine's stack/frame limit. -/
theorem C01_function_program (p : RBlock) (Γ' : Sim.Gam) (D : List (Nat × SimF.FnInfo)) (hy : SimF.YTop [] p 0 [] Γ' D)
    (hnd : D.Pairwise (fun x y => x.1 ≠ y.1)) (bc : Bytecode) (hc : compileR p = .ok bc) (F : Nat) :
    HitsLimit bc ∨
    match Spec.evalB F p {} with
    | .val () st' => ∃ mv n, SimF.VR (SimF.lookupD D) Γ' st'.last mv ∧ st'.out = [] ∧
        ∀ k, ∃ s', runSteps bc.code (n + k) (VM.start {} bc) = .value mv s'
    | .err er _ => ∃ n, ∀ k, ∃ s', runSteps bc.code (n + k) (VM.start {} bc) = .error er s'
    | .brk _ => False
    | .cont _ => False
    | .ret _ _ => False
    | _ => True :=
  SimF.fn_program p Γ' D hy hnd bc hc F

/-- END TO END FROM SOURCE TREES, stage 4, by validation: for ANY parsed program, if the tree the
    resolver model produces passes the decidable fragment check `SimF.inFragment` (proved sound:
    `SimF.inFragment_sound`), then compiling and running it agrees with the definitional semantics
    of that tree, or stops at the machine's stack limit.  The check is what `nldriver fragment`
    evaluates on every generated program of the C01 correspondence (evidence: share of programs
    inside the proved fragment). -/
theorem C01_function_source_program (ast : Block) (r : RBlock) (bc : Bytecode) (hc : compileProgram ast = .ok (r, bc))
    (hin : SimF.inFragment r = true) (F : Nat) :
    HitsLimit bc ∨
    match Spec.evalB F r {} with
    | .val () st' => ∃ Γ' D mv n, SimF.VR (SimF.lookupD D) Γ' st'.last mv ∧ st'.out = [] ∧
        ∀ k, ∃ s', runSteps bc.code (n + k) (VM.start {} bc) = .value mv s'
    | .err er _ => ∃ n, ∀ k, ∃ s', runSteps bc.code (n + k) (VM.start {} bc) = .error er s'
    | .brk _ => False
    | .cont _ => False
    | .ret _ _ => False
    | _ => True :=
  SimF.fn_source_program ast r bc hc hin F

/-- FORWARD SIMULATION, stage 5 (HEAP VALUES at top level): floats (boxed on the machine, immediate in
    the semantics), strings and arrays (shared by reference on both sides, related by an injective
    address map that grows with every allocation), string constants copied on evaluation, indexing
    and index assignment with aliasing, all 13 operators on all value kinds with boxing of results,
    all seven builtins including `print` (deep view with cycles), global variables and structured
    control flow.  Six statements proved together for every fuel (`SimH.PAll5`).  The invariant
    (`SimH.Inv5`) relates the store of the semantics to the machine heap cell by cell and the printed
    output line by line; a failure is matched by a failure of the same kind AFTER THE SAME OUTPUT. -/
theorem C01_heap_simulation (s0 : VM) (CS : List Const) (C : Code) (f : Nat) : SimH.PAll5 s0 CS C f := SimH.pall5 f

/-- END TO END FROM SOURCE TREES, stage 5, by validation (`SimH.inFragmentH` is decidable and proved
    sound): the run halts with a value whose deep view — what `eval` hands back and what the checks
    compare — is the deep view of the definitional result, after exactly the definitional output; a
    definitional error is the machine's error, after exactly the same output. -/
theorem C01_heap_source_program (ast : Block) (r : RBlock) (bc : Bytecode) (hc : compileProgram ast = .ok (r, bc))
    (hin : SimH.inFragmentH r = true) (F : Nat) :
    match Spec.evalB F r {} with
    | .val () st' => ∃ mv n s', (∀ k, runSteps bc.code (n + k) (VM.start {} bc) = .value mv s') ∧
        s'.mem.heap.tree treeDepth [] mv = st'.tree treeDepth [] st'.last ∧ s'.out = st'.out ∧
        (finishValue mv s').mem.heap.tree treeDepth [] mv = s'.mem.heap.tree treeDepth [] mv
    | .err er ste => ∃ n s', (∀ k, runSteps bc.code (n + k) (VM.start {} bc) = .error er s') ∧ s'.out = ste.out
    | .brk _ => False
    | .cont _ => False
    | .ret _ _ => False
    | _ => True :=
  SimH.heap_source_program ast r bc hc hin F

/-- THE OBSERVATION ITSELF (what the correspondence check compares, `evalText` against `specText`), for
    every text whose resolved tree passes the stage-5 validation: whatever the definitional semantics
    answers with some fuel — a value (as its deep view) after its printed output, or an error after
    its printed output — `eval` on the machine answers the same for every large enough instruction
    budget.  This includes what happens when `run` returns: the hand-over of the result (`GC::untrace`)
    and the release of everything else by the run's collector (`Drop`), `GC.finish_tree`. -/
theorem C01_heap_eval_text (cc : CharClass) (src : Text) (ast : Block) (r : RBlock) (bc : Bytecode) (hp : parse cc src = .ok ast)
    (hc : compileProgram ast = .ok (r, bc)) (hin : SimH.inFragmentH r = true) (F : Nat) :
    match specText cc F src with
    | .value t out => ∃ n, ∀ k, evalText cc (n + k) src = .value t out
    | .error e out => ∃ n, ∀ k, evalText cc (n + k) src = .error e out
    | .fault _ => False
    | _ => True :=
  SimH.heap_eval_text cc src ast r bc hp hc hin F

/-- PROGRAMS WITH FUNCTIONS, NO VALIDATION (R1 of the resolver for stage 4, `SimF.resolve_ytop`): for EVERY source
    tree in the syntactic fragment `SimF.SrcTop` (decidable: `SimF.srcTop`) — top-level statements and function
    definitions `functie f(ps) { .. }` / `stel f = functie(ps) { .. }`; in bodies and statements integer and boolean
    literals, identifiers, prefix and the 13 binary operators, assignment to names, `als`/`anders`, `zolang`,
    blocks, `stel`, `stop`/`volgende` where no operand is pending, calls of any callee expression that is not a
    builtin name with any number of arguments, `antwoord` inside bodies — whatever the resolver (contexts,
    scopes, slot numbering with reuse, `max_size` as the locals count) and the code generator produce, running
    it on a fresh machine agrees with the definitional semantics of the resolved tree, or stops at the
    machine's stack/frame limit.  The per-program validation of `C01_function_source_program` is discharged
    by induction over the resolver; function ids are distinct because they are issued in increasing order. -/
theorem C01_function_program_no_validation (ast : Block) (r : RBlock) (bc : Bytecode) (hc : compileProgram ast = .ok (r, bc))
    (hin : SimF.SrcTop ast) (F : Nat) :
    HitsLimit bc ∨
    match Spec.evalB F r {} with
    | .val () st' => ∃ Γ' D mv n, SimF.VR (SimF.lookupD D) Γ' st'.last mv ∧ st'.out = [] ∧
        ∀ k, ∃ s', runSteps bc.code (n + k) (VM.start {} bc) = .value mv s'
    | .err er _ => ∃ n, ∀ k, ∃ s', runSteps bc.code (n + k) (VM.start {} bc) = .error er s'
    | .brk _ => False
    | .cont _ => False
    | .ret _ _ => False
    | _ => True :=
  SimF.fn_source_program_syntactic ast r bc hc hin F

/-- non-vacuity: the recursive factorial program is in the syntactic fragment -/
example : SimF.srcTop SimF.facSrc = true := by decide

/-- THE WHOLE FUNCTION-FREE LANGUAGE, NO VALIDATION (R1 of the resolver for stage 5, `SimH.resolve_hb`): for EVERY
    source tree without function literals, user-function calls and `antwoord` — integer, boolean, string and
    float literals, identifiers, prefix and the 13 binary operators, assignment to names and to indexed
    elements, list literals, indexing, all seven builtins, `als`/`anders`, `zolang`, blocks with their scopes,
    `stel`, `stop`/`volgende` where no operand is pending (`SimH.SHB false ast`, a SYNTACTIC condition on the
    source tree, decidable: `SimH.inSourceH`) — whatever the resolver and the code generator produce, the run
    on a fresh machine halts with the definitional value (deep view), after the definitional output, or fails
    with the definitional error after the definitional output.  The per-program validation of
    `C01_heap_source_program` is discharged once and for all by induction over the resolver. -/
theorem C01_function_free_source_program (ast : Block) (hs : SimH.SHB false ast) (r : RBlock) (bc : Bytecode)
    (hc : compileProgram ast = .ok (r, bc)) (F : Nat) :
    match Spec.evalB F r {} with
    | .val () st' => ∃ mv n s', (∀ k, runSteps bc.code (n + k) (VM.start {} bc) = .value mv s') ∧
        s'.mem.heap.tree treeDepth [] mv = st'.tree treeDepth [] st'.last ∧ s'.out = st'.out ∧
        (finishValue mv s').mem.heap.tree treeDepth [] mv = s'.mem.heap.tree treeDepth [] mv
    | .err er ste => ∃ n s', (∀ k, runSteps bc.code (n + k) (VM.start {} bc) = .error er s') ∧ s'.out = ste.out
    | .brk _ => False
    | .cont _ => False
    | .ret _ _ => False
    | _ => True :=
  SimH.heap_source_program_r1 ast hs r bc hc F

/-- the same at the level of the OBSERVATION (`evalText` against `specText`, what the correspondence compares):
    for every text that parses to a function-free tree, whatever the definitional semantics answers with some
    fuel is what `eval` answers for every large enough budget.  No hypothesis about the resolver's or the
    compiler's output remains. -/
theorem C01_function_free_eval_text (cc : CharClass) (src : Text) (ast : Block) (r : RBlock) (bc : Bytecode)
    (hp : parse cc src = .ok ast) (hs : SimH.SHB false ast) (hc : compileProgram ast = .ok (r, bc)) (F : Nat) :
    match specText cc F src with
    | .value t out => ∃ n, ∀ k, evalText cc (n + k) src = .value t out
    | .error e out => ∃ n, ∀ k, evalText cc (n + k) src = .error e out
    | .fault _ => False
    | _ => True :=
  SimH.heap_eval_text_r1 cc src ast r bc hp hs hc F

/-- non-vacuity: a source tree with an array of a float and a string, aliasing, `b[0] = a`, `print`/`lengte`,
    a `zolang` loop with `stop` and `volgende`, prefix operators and `a[1][0] + "y"` is in the fragment -/
example : SimH.inSourceH SimH.heapSrcEx = true := by decide

/-- FORWARD SIMULATION, stage 6: HEAP VALUES TOGETHER WITH FUNCTION CALLS — the garbage collections that `Return` and
    `ReturnValue` run are INSIDE the simulation.  The union of stages 4 and 5: top-level function definitions, calls of
    first-class function values with any number of arguments, parameters and locals in frame slots, recursion, `antwoord`,
    `als`/`zolang`/`stop`/`volgende`, globals, AND floats, strings, list literals, indexing, index assignment with aliasing, all
    13 operators on all value kinds, all seven builtins — inside function bodies as well as at top level; arrays holding
    function values; heap values passed as arguments, returned, stored in globals.  For every fuel the seven statements hold
    together (`Sim6.PAll6`).  The address map between the store of the semantics (which never frees) and the machine heap
    SHRINKS at every collection to the addresses whose image survived (`Sim6.restrict`); the GC lemma `Sim6.hinv_gc` re-
    establishes the cell-wise heap relation for it (a surviving array was marked, so its elements were); and what a caller
    still holds — its locals and pending operands sit, unchanged, in the part of the stack below the callee, which is a root
    of every collection in between — is related after the call to what it was related to before (`Sim6.Keep`). -/
theorem C01_heap_and_calls_simulation (W : Sim6.World) (hW : Sim6.WOK6 W) (f : Nat) : Sim6.PAll6 W f := Sim6.pall6 hW f

/-- the GC lemma itself: a collection with roots that include the constants keeps the simulation's heap invariant for the
    restricted address map, and a value that is a root (or has no address) stays related to what it was related to -/
theorem C01_collection_is_transparent {W : Sim6.World} {μ : SimH.AMap} {st : Spec.SState} {m : Mem} {roots : List Value}
    (hi : Sim6.HInv W μ st m) (hk : GC.HeapKindOK m.heap) (hkr : ∀ v ∈ roots, GC.KindOK m.heap v)
    (hcv : ∀ v, v ∈ W.s0.cvals.toList → v ∈ roots) :
    Sim6.HInv W (Sim6.restrict μ (GC.run m roots).heap) st (GC.run m roots) :=
  Sim6.hinv_gc hi hk hkr hcv

/-- END TO END, stage 6, by validation (`Sim6.inFragment6`, decidable, proved sound): the run halts with a value whose deep
    view (nested arrays, cycles, strings, floats, function values) is the definitional one, after exactly the definitional
    output, the result surviving the hand-over at `Halt`; a definitional error is the machine's error after the same
    output; or the machine stops at its stack/frame limit, which the semantics does not have. -/
theorem C01_heap_and_calls_program (ast : Block) (r : RBlock) (bc : Bytecode) (hc : compileProgram ast = .ok (r, bc))
    (hin : Sim6.inFragment6 r = true) (F : Nat) :
    HitsLimit bc ∨
    match Spec.evalB F r {} with
    | .val () st' => ∃ mv n s', (∀ k, runSteps bc.code (n + k) (VM.start {} bc) = .value mv s') ∧
        s'.mem.heap.tree treeDepth [] mv = st'.tree treeDepth [] st'.last ∧ s'.out = st'.out ∧
        (finishValue mv s').mem.heap.tree treeDepth [] mv = s'.mem.heap.tree treeDepth [] mv
    | .err er ste => ∃ n s', (∀ k, runSteps bc.code (n + k) (VM.start {} bc) = .error er s') ∧ s'.out = ste.out
    | .brk _ => False
    | .cont _ => False
    | .ret _ _ => False
    | _ => True :=
  Sim6.program6 ast r bc hc hin F

/-- THE OBSERVATION, stage 6, NO VALIDATION: for every text whose parsed tree is in the SYNTACTIC fragment `Sim6.S6Top`
    (decidable `Sim6.src6Top`: everything but nested function literals and `stop`/`volgende` under pending operands — R1 of the
    resolver by induction, `Sim6.resolve_ztop`), whatever the definitional semantics answers with some fuel is what `eval`
    answers for every large enough budget — unless the machine stops at its stack/frame limit. -/
theorem C01_heap_and_calls_eval_text (cc : CharClass) (src : Text) (ast : Block) (r : RBlock) (bc : Bytecode)
    (hp : parse cc src = .ok ast) (hs : Sim6.src6Top ast = true) (hc : compileProgram ast = .ok (r, bc)) (F : Nat) :
    TextHitsLimit cc src ∨
    match specText cc F src with
    | .value t out => ∃ n, ∀ k, evalText cc (n + k) src = .value t out
    | .error e out => ∃ n, ∀ k, evalText cc (n + k) src = .error e out
    | .fault _ => False
    | _ => True :=
  Sim6.eval_text6_checked cc src ast r bc hp hs hc F

/-- THE SAME WITH A PURELY SYNTACTIC HYPOTHESIS ON THE SHAPE OF THE PARSED TREE (`Sim6.src6TopNF`: `src6Top` without the test on
    float literals, which `C01_parsed_float_literals_are_plain` makes redundant for parsed programs): for every text that
    parses to a tree with no nested function literal, no `stop`/`volgende` under a pending operand or outside a loop, no
    `antwoord` outside a function — `eval` answers what the definitional semantics answers, or stops at the machine's
    stack/frame limit -/
theorem C01_heap_and_calls_eval_text_syntactic (cc : CharClass) (src : Text) (ast : Block) (r : RBlock) (bc : Bytecode)
    (hp : parse cc src = .ok ast) (hs : Sim6.src6TopNF ast = true) (hc : compileProgram ast = .ok (r, bc)) (F : Nat) :
    TextHitsLimit cc src ∨
    match specText cc F src with
    | .value t out => ∃ n, ∀ k, evalText cc (n + k) src = .value t out
    | .error e out => ∃ n, ∀ k, evalText cc (n + k) src = .error e out
    | .fault _ => False
    | _ => True :=
  Sim6.eval_text6_syntactic cc src ast r bc hp hs hc F

/-- non-vacuity: `functie f(n) { als n < 1 { antwoord [] }; stel a = f(n - 1); [n, a, "x", 1.5] }; print(f(3)); f(2)`
    (recursion, a returned array nested in a new one, a string, a float, `print`) is in the syntactic fragment -/
example : Sim6.src6Top Sim6.ex6Ast = true := by decide

/-- FORWARD SIMULATION, stage 7: NESTED FUNCTION LITERALS — function literals in every expression position (inside function
    bodies, as arguments, immediately called, as array elements, as `stel` initialisers, returned) and named function
    declarations as statements of any block, on top of everything of stage 6.  The function table holds EVERY literal of the
    tree (`Sim7.litsTop`, positions from the static sizes); the entry points are pairwise distinct (`Sim7.ipsTop`) and so are
    the function ids, for every resolver output (`Sim7.resolve_fids_distinct`).  A literal's body is checked against the
    PERSISTENT global scope `Δ` only: a literal inside a top-level block that uses a block-scoped global is outside (there
    the property is false: the slot is reused after the block while the function value may live on — unspecified behaviour
    U1). -/
theorem C01_nested_functions_simulation (W : Sim6.World) (hW : Sim7.WOK7 W) (f : Nat) : Sim7.PAll7 W f := Sim7.pall7 hW f

/-- END TO END, stage 7, by validation (`Sim7.inFragment7`: pure fragment membership, decidable, proved sound) -/
theorem C01_nested_functions_program (ast : Block) (r : RBlock) (bc : Bytecode) (hc : compileProgram ast = .ok (r, bc))
    (hin : Sim7.inFragment7 r = true) (F : Nat) :
    HitsLimit bc ∨
    match Spec.evalB F r {} with
    | .val () st' => ∃ mv n s', (∀ k, runSteps bc.code (n + k) (VM.start {} bc) = .value mv s') ∧
        s'.mem.heap.tree treeDepth [] mv = st'.tree treeDepth [] st'.last ∧ s'.out = st'.out ∧
        (finishValue mv s').mem.heap.tree treeDepth [] mv = s'.mem.heap.tree treeDepth [] mv
    | .err er ste => ∃ n s', (∀ k, runSteps bc.code (n + k) (VM.start {} bc) = .error er s') ∧ s'.out = ste.out
    | .brk _ => False
    | .cont _ => False
    | .ret _ _ => False
    | _ => True :=
  Sim7.program7 ast r bc hc hin F

/-- THE OBSERVATION, stage 7: by validation of the resolver's output ... -/
theorem C01_nested_functions_eval_text (cc : CharClass) (src : Text) (ast : Block) (r : RBlock) (bc : Bytecode)
    (hp : parse cc src = .ok ast) (hc : compileProgram ast = .ok (r, bc)) (hin : Sim7.inFragment7 r = true) (F : Nat) :
    TextHitsLimit cc src ∨
    match specText cc F src with
    | .value t out => ∃ n, ∀ k, evalText cc (n + k) src = .value t out
    | .error e out => ∃ n, ∀ k, evalText cc (n + k) src = .error e out
    | .fault _ => False
    | _ => True :=
  Sim7.eval_text7 cc src ast r bc hp hc hin F

/-- ... and with NO validation for the syntactic class `Sim7.S7Top` (decidable `Sim7.src7Top`: function literals at top level
    outside blocks and anywhere inside function bodies; R1 of the resolver for context stacks of any depth, `Sim7.resolve_ztop7`) -/
theorem C01_nested_functions_eval_text_no_validation (cc : CharClass) (src : Text) (ast : Block) (r : RBlock) (bc : Bytecode)
    (hp : parse cc src = .ok ast) (hs : Sim7.src7Top ast = true) (hc : compileProgram ast = .ok (r, bc)) (F : Nat) :
    TextHitsLimit cc src ∨
    match specText cc F src with
    | .value t out => ∃ n, ∀ k, evalText cc (n + k) src = .value t out
    | .error e out => ∃ n, ∀ k, evalText cc (n + k) src = .error e out
    | .fault _ => False
    | _ => True :=
  Sim7.eval_text7_checked cc src ast r bc hp hs hc F

/-- non-vacuity: a named function defined inside a function and returned is in the syntactic class -/
example : Sim7.src7Top Sim7.ex7Ast1 = true := by decide

/-- FORWARD SIMULATION, stage 8: NAMED function literals in every expression position (as a call argument, immediately called,
    as a `stel` initialiser, an array element, an operand, the right side of an assignment) — the expression judgments carry the
    scopes AFTER the expression (`Sim8.Z8E .. Γ' Λ'`), threaded left to right as the resolver does (arguments before the callee);
    a normal completion lands in the output scopes, an abrupt one in the input scopes.  Stage 7 embeds (`Sim8.emb_top`). -/
theorem C01_named_literals_simulation (W : Sim6.World) (hW : Sim8.WOK8 W) (f : Nat) : Sim8.PAll8 W f := Sim8.pall8 hW f

/-- THE OBSERVATION, stage 8, by validation (`Sim8.inFragment8`, decidable, proved sound): whatever the definitional semantics
    answers is what `eval` answers for every large enough budget, or the machine stops at its stack/frame limit.  With stage 8
    the fragment is the WHOLE language except: `stop`/`volgende` where an operand is pending or in a loop condition (K3: the
    property is false), a function literal whose body uses a block-scoped global of a top-level block or a local of an
    enclosing function... which the resolver rejects anyway (no closures) resp. U1 (false), and a named literal that refers
    to ITSELF from inside a larger expression. -/
theorem C01_named_literals_eval_text (cc : CharClass) (src : Text) (ast : Block) (r : RBlock) (bc : Bytecode)
    (hp : parse cc src = .ok ast) (hc : compileProgram ast = .ok (r, bc)) (hin : Sim8.inFragment8 r = true) (F : Nat) :
    TextHitsLimit cc src ∨
    match specText cc F src with
    | .value t out => ∃ n, ∀ k, evalText cc (n + k) src = .value t out
    | .error e out => ∃ n, ∀ k, evalText cc (n + k) src = .error e out
    | .fault _ => False
    | _ => True :=
  Sim8.eval_text8 cc src ast r bc hp hc hin F

/-- the side condition the fragments put on float literals (`SimH.LitF`: sign bit clear, not NaN) holds for EVERY
    literal of EVERY parsed program: a number token starts with a digit (`ParsedFloats.lex_tokens_ok`), the decimal
    reader then yields a correctly rounded magnitude at most infinity with the sign bit clear, and the parser
    copies it into the tree (induction over all seven parser functions) -/
theorem C01_parsed_float_literals_are_plain (cc : CharClass) (src : Text) (ast : Block) (h : parse cc src = .ok ast) :
    ast.AllLitF :=
  ParsedFloats.parse_allLitF cc src ast h

/-! ### consequence for C10: how the compiler implements an expression is unobservable -/

/-- TWO SPELLINGS WITH THE SAME MEANING BEHAVE THE SAME ON THE MACHINE: if two texts (for instance a
    program and one of its variants: a literal replaced by a variable, a comparison mirrored,
    statements prepended that shift and merge constant-pool entries) both pass the stage-5 validation
    and the definitional semantics gives them the same answer, then `eval` gives them the same answer
    for every large enough instruction budget — however differently the compiler implemented them
    (different constant pools, fused or unfused instructions, other slots).  Corollary of
    `C01_heap_eval_text`. -/
theorem C01_same_meaning_same_behaviour (cc : CharClass) (src1 src2 : Text) (a1 a2 : Block) (r1 r2 : RBlock) (b1 b2 : Bytecode)
    (hp1 : parse cc src1 = .ok a1) (hc1 : compileProgram a1 = .ok (r1, b1)) (hin1 : SimH.inFragmentH r1 = true)
    (hp2 : parse cc src2 = .ok a2) (hc2 : compileProgram a2 = .ok (r2, b2)) (hin2 : SimH.inFragmentH r2 = true)
    (F1 F2 : Nat) (t : Tree) (out : List Text)
    (h1 : specText cc F1 src1 = .value t out) (h2 : specText cc F2 src2 = .value t out) :
    ∃ n, ∀ k, evalText cc (n + k) src1 = evalText cc (n + k) src2 := by
  have e1 := SimH.heap_eval_text cc src1 a1 r1 b1 hp1 hc1 hin1 F1
  have e2 := SimH.heap_eval_text cc src2 a2 r2 b2 hp2 hc2 hin2 F2
  rw [h1] at e1; rw [h2] at e2
  obtain ⟨n1, e1⟩ := e1
  obtain ⟨n2, e2⟩ := e2
  refine ⟨n1 + n2, fun k => ?_⟩
  have a := e1 (n2 + k)
  have b := e2 (n1 + k)
  rw [← Nat.add_assoc] at a
  rw [← Nat.add_assoc, Nat.add_comm n2 n1] at b
  rw [a, b]

/-- the same for the stage-6 fragment (functions, calls, heap values; no validation, syntactic condition `Sim6.src6Top`):
    two texts to which the definitional semantics gives the same answer get the same answer from `eval` for every large
    enough budget — whatever the compiler made of them: variables at top level or in a function, literals or variables,
    mirrored operands, other constant pools — unless one of them stops at the machine's stack/frame limit -/
theorem C01_same_meaning_same_behaviour_with_functions (cc : CharClass) (src1 src2 : Text) (a1 a2 : Block) (r1 r2 : RBlock) (b1 b2 : Bytecode)
    (hp1 : parse cc src1 = .ok a1) (hc1 : compileProgram a1 = .ok (r1, b1)) (hs1 : Sim6.src6Top a1 = true)
    (hp2 : parse cc src2 = .ok a2) (hc2 : compileProgram a2 = .ok (r2, b2)) (hs2 : Sim6.src6Top a2 = true)
    (F1 F2 : Nat) (t : Tree) (out : List Text)
    (h1 : specText cc F1 src1 = .value t out) (h2 : specText cc F2 src2 = .value t out) :
    TextHitsLimit cc src1 ∨ TextHitsLimit cc src2 ∨
    ∃ n, ∀ k, evalText cc (n + k) src1 = evalText cc (n + k) src2 := by
  have e1 := Sim6.eval_text6_checked cc src1 a1 r1 b1 hp1 hs1 hc1 F1
  have e2 := Sim6.eval_text6_checked cc src2 a2 r2 b2 hp2 hs2 hc2 F2
  rcases e1 with e1 | e1
  · exact .inl e1
  rcases e2 with e2 | e2
  · exact .inr (.inl e2)
  rw [h1] at e1; rw [h2] at e2
  obtain ⟨n1, e1⟩ := e1
  obtain ⟨n2, e2⟩ := e2
  refine .inr (.inr ⟨n1 + n2, fun k => ?_⟩)
  have a := e1 (n2 + k)
  have b := e2 (n1 + k)
  rw [← Nat.add_assoc] at a
  rw [← Nat.add_assoc, Nat.add_comm n2 n1] at b
  rw [a, b]

/-- `stel a = [1.5, "x"]; stel b = a; b[0] = a; print(a, lengte(a)); zolang lengte(a) < 1 { stop }; a[1][0] + "y"` -/
def heapAst : Block :=
  .cons (.letS "a".toList (.arr (.cons (.float 0x3FF8000000000000) (.cons (.str "x".toList) .nil))))
  (.cons (.letS "b".toList (.ident "a".toList))
  (.cons (.expr (.assign (.index (.ident "b".toList) (.int 0)) (.ident "a".toList)))
  (.cons (.expr (.call (.ident "print".toList) (.cons (.ident "a".toList) (.cons (.call (.ident "lengte".toList) (.cons (.ident "a".toList) .nil)) .nil))))
  (.cons (.expr (.whileE (.infix (.call (.ident "lengte".toList) (.cons (.ident "a".toList) .nil)) .lt (.int 1)) (.cons .brk .nil)))
  (.cons (.expr (.infix (.index (.index (.ident "a".toList) (.int 1)) (.int 0)) .add (.str "y".toList))) .nil)))))

/-- non-vacuity: that program (a cyclic array, aliasing, print, a loop) passes the validation -/
example : (match compileProgram heapAst with | .ok (r, _) => SimH.inFragmentH r | .error _ => false) = true := by decide

/-- `functie fac(n) { als n < 2 { antwoord 1 }; n * fac(n - 1) }; fac(5)` -/
def facAst : Block :=
  .cons (.expr (.func "fac".toList ["n".toList]
    (.cons (.expr (.ifE (.infix (.ident "n".toList) .lt (.int 2)) (.cons (.ret (.int 1)) .nil) .none))
    (.cons (.expr (.infix (.ident "n".toList) .mul (.call (.ident "fac".toList) (.cons (.infix (.ident "n".toList) .sub (.int 1)) .nil)))) .nil))))
  (.cons (.expr (.call (.ident "fac".toList) (.cons (.int 5) .nil))) .nil)

/-- non-vacuity: the recursive factorial program passes the validation (kernel-evaluated) -/
example : (match compileProgram facAst with | .ok (r, _) => SimF.inFragment r | .error _ => false) = true := by decide

def exBody : RBlock := .cons (.expr (.var ⟨1, .loc 0⟩)) .nil
def exProg : RBlock :=
  .cons (.expr (.func 0 (some ⟨0, .global 0⟩) [1] 1 exBody))
    (.cons (.expr (.call (.var ⟨0, .global 0⟩) (.cons (.int 1) .nil))) .nil)

/-- non-vacuity: the resolved tree of `functie f(n) { n } f(1)` is a stage-4 program -/
example : ∃ Γ' D, SimF.YTop [] exProg 0 [] Γ' D ∧ D.Pairwise (fun x y => x.1 ≠ y.1) := by
  refine ⟨[(0, 0)], [(0, ⟨3, [1], 1, exBody, [], [(0, 0)]⟩)], ?_, ?_⟩
  · apply SimF.YTop.fdef [] _ _ _ 0 [] _ 0 0 0 [1] 1 exBody _ _ (SimF.FDef.named 0 0 0 [1] 1 exBody) (by intro p hp; cases hp)
    · exact SimF.YB.cons _ _ _ _ _ _ _ _ _ (SimF.YS.expr _ _ _ _ (SimF.YE.varL _ _ _ 1 0 (by simp [SimF.paramScope, SimF.paramScopeFrom]) (by omega))) (SimF.YB.nil _ _ _)
    · simp [Sim.GamOK, SimF.paramScope, SimF.paramScopeFrom]
    · intro p hp; simp [SimF.paramScope, SimF.paramScopeFrom] at hp; subst hp; simp
    · apply SimF.YTop.stmt _ _ _ _ _ _ _ _
        (SimF.YS.expr _ _ _ _ (SimF.YE.call _ _ _ _ _ (SimF.YEs.cons _ _ _ _ (SimF.YE.int _ _ _ 1) (SimF.YEs.nil _ _)) (SimF.YE.varG _ _ _ 0 0 (by simp))))
      exact SimF.YTop.nil _ _ _
  · simp

/-- non-vacuity: the source tree of
    `stel i = 0; stel s = 0; zolang i < 10 { i = i + 1; als i == 5 { volgende }; als i > 8 { stop }; stel d = i * 2; s = s + d }; s`
    is in the stage-3 fragment -/
example : Sim.SB false
    (.cons (.letS ['i'] (.int 0)) (.cons (.letS ['s'] (.int 0))
      (.cons (.expr (.whileE (.infix (.ident ['i']) .lt (.int 10))
        (.cons (.expr (.assign (.ident ['i']) (.infix (.ident ['i']) .add (.int 1))))
        (.cons (.expr (.ifE (.infix (.ident ['i']) .eq (.int 5)) (.cons .cont .nil) .none))
        (.cons (.expr (.ifE (.infix (.ident ['i']) .gt (.int 8)) (.cons .brk .nil) .none))
        (.cons (.letS ['d'] (.infix (.ident ['i']) .mul (.int 2)))
        (.cons (.expr (.assign (.ident ['s']) (.infix (.ident ['s']) .add (.ident ['d'])))) .nil)))))))
      (.cons (.expr (.ident ['s'])) .nil)))) :=
  .cons _ _ _ (.letS _ _ _ (.int _ _)) (.cons _ _ _ (.letS _ _ _ (.int _ _))
    (.cons _ _ _ (.expr _ _ (.whileE _ _ _ (.bin _ _ _ _ .lt rfl (.ident _ _) (.int _ _))
      (.cons _ _ _ (.expr _ _ (.assign _ _ _ (.bin _ _ _ _ .add rfl (.ident _ _) (.int _ _))))
      (.cons _ _ _ (.expr _ _ (.ifE _ _ _ _ (.bin _ _ _ _ .eq rfl (.ident _ _) (.int _ _)) (.cons _ _ _ .cont (.nil _)) (.none _)))
      (.cons _ _ _ (.expr _ _ (.ifE _ _ _ _ (.bin _ _ _ _ .gt rfl (.ident _ _) (.int _ _)) (.cons _ _ _ .brk (.nil _)) (.none _)))
      (.cons _ _ _ (.letS _ _ _ (.bin _ _ _ _ .mul rfl (.ident _ _) (.int _ _)))
      (.cons _ _ _ (.expr _ _ (.assign _ _ _ (.bin _ _ _ _ .add rfl (.ident _ _) (.ident _ _)))) (.nil _))))))))
    (.cons _ _ _ (.expr _ _ (.ident _ _)) (.nil _))))

/-! ### DIVERGENCE PRESERVATION (session 7)

The forward simulation theorems above speak about definitional evaluations that END (a value, or an error after some output).
A program whose definitional evaluation never ends — a loop that never stops, a recursion that never returns — must not end
on the machine either.  Fuel is decremented at every node of the evaluation derivation; for a fixed program only loop
iterations and calls can consume unboundedly much of it, and every iteration and every call executes at least one machine
instruction.  `Lemmas/DivCtl*`, `Div6*`, `Div7*` prove, by induction on the fuel in parallel with (and using) the forward
simulation for the sub-evaluations that complete: if the evaluation of a fragment answers "out of fuel" with fuel `f`, the machine
started in the related configuration performs at least `f - d` (stage 3; `d` the static depth) resp. `(f + K - d) / K` (stages
6, 7; `K` bounds the depth of every function body: a call pays one step for at most `K` levels of the derivation) further
steps without halting, failing or faulting — or stops at its 65535-slot/frame limit, which the semantics does not have and which
the machine reports as an index error.  Hence: -/

/-- stage 3 (integers, booleans, global variables, `als`, `zolang`, `stop`, `volgende`; no limit to hit): a text of the source
    fragment whose definitional evaluation runs out of EVERY fuel exhausts EVERY instruction budget on the machine -/
theorem C01_control_flow_divergence (cc : CharClass) (src : Text) (ast : Block) (r : RBlock) (bc : Bytecode)
    (hp : parse cc src = .ok ast) (hs : Sim.SB false ast) (hc : compileProgram ast = .ok (r, bc))
    (hdiv : ∀ F, specText cc F src = .budget) : ∀ b, evalText cc b src = .budget :=
  Sim.ctl_text_diverges cc src ast r bc hp hs hc hdiv

/-- quantitative form: out of fuel with fuel `F` ⇒ at least `F - depth` instructions on a fresh machine -/
theorem C01_control_flow_runs_at_least (p : RBlock) (Γ' : Sim.Gam) (hx : Sim.XB [] false p Γ') (bc : Bytecode) (hc : compileR p = .ok bc)
    (F : Nat) (hdiv : Spec.evalB F p {} = .fuel) : Sim.Runs bc.code (VM.start {} bc) (F - Sim.dB p) :=
  Sim.ctl_program_runs p Γ' hx bc hc F hdiv

/-- THE CONVERSE of the forward theorem, stage 3: whatever the machine answers within some budget IS the definitional answer
    for some fuel (the one exception is the unspecified behaviour U2, `stel x = x`: `C01_converse_needs_unspec`) -/
theorem C01_control_flow_machine_answer_is_definitional (cc : CharClass) (src : Text) (ast : Block) (r : RBlock) (bc : Bytecode)
    (hp : parse cc src = .ok ast) (hs : Sim.SB false ast) (hc : compileProgram ast = .ok (r, bc))
    (b : Nat) (hne : evalText cc b src ≠ .budget) :
    ∃ F, specText cc F src = evalText cc b src ∨ specText cc F src = .unspec :=
  Sim.ctl_text_converse cc src ast r bc hp hs hc b hne

/-- the `.unspec` alternative is needed: `stel x = x` is in the fragment, the semantics leaves it unspecified (U2), the machine
    answers null -/
theorem C01_converse_needs_unspec : ∃ b, evalText CharClass.ascii b Sim.selfSrc ≠ .budget ∧
    ∀ F, specText CharClass.ascii F Sim.selfSrc ≠ evalText CharClass.ascii b Sim.selfSrc :=
  Sim.converse_needs_unspec

/-- stage 6 (heap values together with calls, collections inside; syntactic source fragment `src6Top`): a text whose
    definitional evaluation diverges never ends on the machine with a value or an ordinary error: for every budget the answer
    is `budget`, or the machine has stopped for good at its stack/frame limit (reported as an index error) -/
theorem C01_heap_and_calls_divergence (cc : CharClass) (src : Text) (ast : Block) (r : RBlock) (bc : Bytecode) (hp : parse cc src = .ok ast)
    (hs : Sim6.src6Top ast = true) (hc : compileProgram ast = .ok (r, bc)) (hdiv : ∀ F, specText cc F src = .budget) (b : Nat) :
    evalText cc b src = .budget ∨ TextHitsLimit cc src :=
  Sim6.eval_text6_div cc src ast r bc hp hs hc hdiv b

/-- the converse, stage 6: a machine answer that is not `budget` and not the limit is the definitional answer for some fuel -/
theorem C01_heap_and_calls_machine_answer_is_definitional (cc : CharClass) (src : Text) (ast : Block) (r : RBlock) (bc : Bytecode)
    (hp : parse cc src = .ok ast) (hs : Sim6.src6Top ast = true) (hc : compileProgram ast = .ok (r, bc)) (b : Nat)
    (hne : evalText cc b src ≠ .budget) (hnl : ¬ TextHitsLimit cc src) :
    ∃ F, specText cc F src = evalText cc b src ∨ specText cc F src = .unspec :=
  Sim6.eval_text6_converse cc src ast r bc hp hs hc b hne hnl

/-- stage 7 (function literals in every expression position, named declarations in any block; syntactic fragment `src7Top`) -/
theorem C01_nested_functions_divergence (cc : CharClass) (src : Text) (ast : Block) (r : RBlock) (bc : Bytecode) (hp : parse cc src = .ok ast)
    (hs : Sim7.src7Top ast = true) (hc : compileProgram ast = .ok (r, bc)) (hdiv : ∀ F, specText cc F src = .budget) (b : Nat) :
    evalText cc b src = .budget ∨ TextHitsLimit cc src :=
  Sim7.eval_text7_div_checked cc src ast r bc hp hs hc hdiv b

theorem C01_nested_functions_machine_answer_is_definitional (cc : CharClass) (src : Text) (ast : Block) (r : RBlock) (bc : Bytecode)
    (hp : parse cc src = .ok ast) (hs : Sim7.src7Top ast = true) (hc : compileProgram ast = .ok (r, bc)) (b : Nat)
    (hne : evalText cc b src ≠ .budget) (hnl : ¬ TextHitsLimit cc src) :
    ∃ F, specText cc F src = evalText cc b src ∨ specText cc F src = .unspec :=
  Sim7.eval_text7_converse_checked cc src ast r bc hp hs hc b hne hnl

/-- stage 8 (named literals in every expression position; validated fragment, the hypotheses of `C01_named_literals_eval_text`) -/
theorem C01_named_literals_divergence (cc : CharClass) (src : Text) (ast : Block) (r : RBlock) (bc : Bytecode) (hp : parse cc src = .ok ast)
    (hc : compileProgram ast = .ok (r, bc)) (hin : Sim8.inFragment8 r = true) (hdiv : ∀ F, specText cc F src = .budget) (b : Nat) :
    evalText cc b src = .budget ∨ TextHitsLimit cc src :=
  Sim8.eval_text8_div cc src ast r bc hp hc hin hdiv b

theorem C01_named_literals_machine_answer_is_definitional (cc : CharClass) (src : Text) (ast : Block) (r : RBlock) (bc : Bytecode)
    (hp : parse cc src = .ok ast) (hc : compileProgram ast = .ok (r, bc)) (hin : Sim8.inFragment8 r = true) (b : Nat)
    (hne : evalText cc b src ≠ .budget) (hnl : ¬ TextHitsLimit cc src) :
    ∃ F, specText cc F src = evalText cc b src ∨ specText cc F src = .unspec :=
  Sim8.eval_text8_converse cc src ast r bc hp hc hin b hne hnl

/-- WHAT "THE MACHINE'S LIMIT" MEANS in the theorems of stages 4, 6, 7, 8 (`HitsLimit`, `TextHitsLimit`): after finitely many
    good steps the run stands at a `Call argc` instruction whose callee is a function value accepting `argc` arguments and
    whose limit check fails — the stack would grow beyond `STACK_LIMIT`, or the number of frames is at the limit
    (`AtLimit`).  No other index error counts.  What is observable of it is what the theorems said before: from some
    budget on `eval` answers an index error. -/
theorem C01_limit_is_observable (cc : CharClass) (src : Text) (h : TextHitsLimit cc src) :
    ∃ n out, ∀ k, evalText cc (n + k) src = .error .index out :=
  h.observable

/-- non-vacuity of the converse theorems with the precise limit: the text `[1][5]` is answered by an ORDINARY index error,
    it does not hit the machine's limit (no `Call` is executed), the converse theorem applies and says that the text
    denotes that index error -/
theorem C01_ordinary_index_error_is_definitional :
    evalText CharClass.ascii 10 Sim6.idxSrc = .error .index [] ∧ ¬ TextHitsLimit CharClass.ascii Sim6.idxSrc ∧
    ∃ F, specText CharClass.ascii F Sim6.idxSrc = .error .index [] ∨ specText CharClass.ascii F Sim6.idxSrc = .unspec := by
  refine ⟨Sim6.idx_eval, Sim6.idx_not_limit, ?_⟩
  have d : (match compileProgram Sim6.idxAst with | .ok _ => true | .error _ => false) = true := by decide +kernel
  cases hc : compileProgram Sim6.idxAst with
  | error e => rw [hc] at d; cases d
  | ok q =>
    obtain ⟨r, bc⟩ := q
    have hne : evalText CharClass.ascii 10 Sim6.idxSrc ≠ .budget := by rw [Sim6.idx_eval]; intro h; cases h
    have := C01_heap_and_calls_machine_answer_is_definitional CharClass.ascii Sim6.idxSrc Sim6.idxAst r bc Sim6.idx_parse
      Sim6.idx_src6Top hc 10 hne Sim6.idx_not_limit
    rw [Sim6.idx_eval] at this
    exact this

/-- TEXT-level instances of the divergence theorems (second audit, item d): the loop `zolang ja { }` exhausts every budget; the
    recursion `functie f() { f() }; f()` diverges in the semantics and on the machine REACHES THE LIMIT (proved with an invariant of the
    recursion, not by evaluating 65 534 frames), which is the second disjunct of `C01_heap_and_calls_divergence` -/
theorem C01_divergence_text_instances :
    (∀ b, evalText CharClass.ascii b Sim6.loopSrc = .budget) ∧
    (∀ F, specText CharClass.ascii F Sim6.recSrc = .budget) ∧ TextHitsLimit CharClass.ascii Sim6.recSrc :=
  ⟨Sim6.loop_text_diverges, Sim6.rec_specText, Sim6.rec_text_hitsLimit⟩

/-- the converse applies to an ordinary index error raised INSIDE A CALL as well (second audit, item c): `functie f() { [1][5] }; f()`
    answers an index error, never reaches the limit (decided on the run by the verified `endsNoLimit`), hence the definitional answer
    is the index error too -/
theorem C01_index_error_inside_a_call_is_definitional :
    evalText CharClass.ascii 20 Sim6.callIdxSrc = .error .index [] ∧ ¬ TextHitsLimit CharClass.ascii Sim6.callIdxSrc ∧
    ∃ F, specText CharClass.ascii F Sim6.callIdxSrc = .error .index [] ∨ specText CharClass.ascii F Sim6.callIdxSrc = .unspec :=
  ⟨Sim6.callIdx_eval, Sim6.callIdx_not_limit, Sim6.call_then_index_error_is_definitional⟩

/-- non-vacuity: programs that really diverge in the definitional semantics (proved for every fuel): a loop whose variable
    flips between 0 and 1, a function that calls itself forever, a returned nested literal that loops -/
theorem C01_divergent_programs_exist :
    (∀ F, specText CharClass.ascii F Sim.divSrc = .budget) ∧ (∀ F, Spec.evalB F Sim6.exRecR {} = .fuel) ∧ (∀ F, Spec.evalB F Sim7.ex7R {} = .fuel) :=
  ⟨Sim.div_spec_diverges, Sim6.exRec_diverges, Sim7.ex7_diverges⟩

/-- sanity of the semantics: the counting loop `stel i = 0; zolang ja { i = i + 1 }` does NOT diverge — it ends with the
    type error of leaving the 61-bit integer range (on the machine as well, by the forward theorem) -/
theorem C01_counting_loop_ends : ¬ ∀ F, specText CharClass.ascii F Sim.incSrc = .budget := Sim.inc_text_not_divergent

/-- non-vacuity: the source tree of `stel x = 1; x = x + 2; x` is in the fragment -/
example : Sim.AB (.cons (.letS ['x'] (.int 1)) (.cons (.expr (.assign (.ident ['x'])
    (.infix (.ident ['x']) .add (.int 2)))) (.cons (.expr (.ident ['x'])) .nil))) :=
  .cons _ _ (.letS _ _ (.int 1)) (.cons _ _ (.expr _ (.assign _ _ (.bin _ _ _ .add rfl (.ident _) (.int 2))))
    (.cons _ _ (.expr _ (.ident _)) .nil))

/-- non-vacuity: `stel x = 1; x = x + 2; x` (binder 0 in slot 0) is well-scoped -/
example : Sim.WB [] (.cons (.letS ⟨0, .global 0⟩ (.int 1)) (.cons (.expr (.assignVar ⟨0, .global 0⟩
    (.infix (.var ⟨0, .global 0⟩) .add (.int 2)))) (.cons (.expr (.var ⟨0, .global 0⟩)) .nil))) [(0, 0)] :=
  .cons _ _ _ _ _ (.letS _ 0 0 _ (by simp) (.int 1))
    (.cons _ _ _ _ _ (.expr _ _ (.assign 0 0 _ (by simp) (.bin _ _ _ (.var 0 0 (by simp)) (.int 2))))
      (.cons _ _ _ _ _ (.expr _ _ (.var 0 0 (by simp))) (.nil _)))

/-- non-vacuity: `(1 + 2) * 3 < 10 && !nee` is in the fragment -/
example : Sim.Sc (.infix (.infix (.infix (.infix (.int 1) .add (.int 2)) .mul (.int 3)) .lt (.int 10)) .and (.not (.bool false))) :=
  .bin _ _ _ (.bin _ _ _ (.bin _ _ _ (.bin _ _ _ (.int 1) (.int 2)) (.int 3)) (.int 10)) (.not _ (.bool false))

end C01
end Nl
