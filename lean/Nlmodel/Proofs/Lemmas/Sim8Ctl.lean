/- Stage 8: `als`, the loop lemma and the call expression (stage 6's proofs over the stage-8 fragment, scopes threaded) -/
import Nlmodel.Proofs.Lemmas.Sim8Expr3
namespace Nl
namespace Sim8
open Spec Sim Sim6 Sim7
open SimH (AMap isStrCell isArrCell Grow PoolH MemOK sameKind LitF)
open SimF (FT FnInfo FTInj paramScope paramScopeFrom bigScope)

section
variable {W : World} {Δ : Gam} {nl : Nat} {fn : Bool} {Γ Γx Λ Γ1 Λ1 Γ2 Λ2 : Gam} {ab : Bool} {lp : LoopCtx} {cs : List Const}
  {below : Array Value} {fr : List Frame} {c : Cfg}

theorem pe8_if (f : Nat) (ih : PAll8 W f) (cnd : RExpr) (t : RBlock) (e : ROptBlock) (Γt Λt : Gam)
    (hc : Z8E Δ nl fn Γ Λ ab cnd Γ1 Λ1) (ht : Z8B Δ nl fn Γ1 Λ1 ab t Γt Λt) (he : Z8O Δ nl fn Γ1 Λ1 ab e) (hsc : Sc7 W Δ fn Γ Γx Λ)
    (hinv : Inv6 W (bigScope fn Γ Γx) Λ nl c) (hwt : TI.WT (c.vm W below fr))
    (hcode : CodeAt W.C c.ip (emitE (.ifE cnd t e) c.ip lp cs).1) (hext : Ext (emitE (.ifE cnd t e) c.ip lp cs).2 W.CS)
    (hft : FtE W.ft Δ (.ifE cnd t e) c.ip lp cs) :
    GoalV8 W (bigScope fn Γ Γx) Λ nl below fr (bigScope fn Γ1 Γx) Λ1 fn ab lp c (c.ip + sizeE (.ifE cnd t e)) c.ops (evalE (f + 1) (.ifE cnd t e) c.st) := by
  simp only [emitE] at hcode hext
  obtain ⟨hc1234, hce⟩ := hcode.append
  obtain ⟨hc123, hcj⟩ := hc1234.append
  obtain ⟨hc12, hct⟩ := hc123.append
  obtain ⟨hcc, hcjif⟩ := hc12.append
  have hsz : sizeE (.ifE cnd t e) = sizeE cnd + 3 + sizeBV t + 3 + sizeO e := by simp only [sizeE]; rfl
  have hcjif := hcjif.cast (b := c.ip + sizeE cnd) (by simp [emitE_size])
  have hct := hct.cast (b := c.ip + sizeE cnd + 3) (by simp [emitE_size, Instr.size]; omega)
  have hcj := hcj.cast (b := c.ip + sizeE cnd + 3 + sizeBV t) (by simp [emitE_size, Instr.size, codeSize_asValue]; omega)
  have hce := hce.cast (b := c.ip + sizeE cnd + 3 + sizeBV t + 3) (by simp [emitE_size, Instr.size, codeSize_asValue]; omega)
  have hextt : Ext (emitB t (c.ip + sizeE cnd + 3) lp (emitE cnd c.ip lp cs).2).2 W.CS := (emitO_ext e _ _ _).trans hext
  have hextc : Ext (emitE cnd c.ip lp cs).2 W.CS := (emitB_ext t _ _ _).trans hextt
  rw [hsz, evalE_if]
  refine GoalG.bind (ih.e nl fn Γ Γx Λ ab cnd Γ1 Λ1 hc c lp cs below fr hsc hinv hwt hcc hextc hft.ifE.1) (.inr ⟨rfl, rfl⟩) ?_
  rintro v st1 - ⟨mv, μ1, m1, hmv, locs1, g1, l1, out1, n, hn, hinv1, hk1⟩
  have hx1 := z8e_ext cnd hc
  have hsc1 := (sc7_ext hsc hx1).1
  have herr : (∀ b, mv ≠ .bool b) → Fails6 W.C (c.vm W below fr) .type st1.out := by
    intro hnb
    obtain ⟨s2, hs2, ho2⟩ := step6_jif_err (s0 := W.s0) (below := below) (locs := locs1) (ops := c.ops) (g := g1) (l := l1) (fr := fr) (m := m1)
      (out := out1) hcjif hnb
    exact ⟨n, _, s2, hn, hs2, by rw [ho2]; exact hinv1.out.symm⟩
  cases v with
  | bool bb =>
    rw [VR6.bool_iff] at hmv; subst hmv
    have hj := execN_step W.C n _ _ _ hn (step6_jif hcjif)
    have hwt1 := wt_execN (n + 1) _ _ hwt hj
    cases bb with
    | true =>
      simp only [↓reduceIte] at hj hwt1
      have iht := ih.bv nl fn Γ1 Γx Λ1 ab t Γt Λt ht ⟨μ1, st1, c.ip + sizeE cnd + 3, locs1, c.ops, g1, l1, m1, out1⟩ lp _ below fr hsc1
        (hinv1.reip _ _) hwt1 hct hextt hft.ifE.2.1
      have iht2 := iht.then_val (e2 := c.ip + (sizeE cnd + 3 + sizeBV t + 3 + sizeO e)) (fun mv locs' g' l' m' out' => by
        rw [step6_jump hcj]; congr 2 <;> omega)
      exact GoalV8.prefix (c1 := ⟨μ1, st1, c.ip + sizeE cnd + 3, locs1, c.ops, g1, l1, m1, out1⟩) (n + 1) hj hk1 (GoalG.from_ext hsc hx1 iht2)
    | false =>
      simp only [Bool.false_eq_true, ↓reduceIte] at hj hwt1
      cases he with
      | none _ _ _ =>
        simp only [emitO] at hce
        refine .inr ⟨.null, μ1, m1, trivial, locs1, g1, l1, out1, n + 1 + 1, ?_, hinv1.reip _ _, hk1⟩
        have := execN_step W.C (n + 1) _ _ _ hj (step6_null hce)
        rw [this]; simp only [sizeO]; congr 2; omega
      | some _ _ _ b Γ2 Λ2 hb =>
        simp only [emitO] at hce hext
        have ihb := ih.bv nl fn Γ1 Γx Λ1 ab b Γ2 Λ2 hb ⟨μ1, st1, c.ip + sizeE cnd + 3 + sizeBV t + 3, locs1, c.ops, g1, l1, m1, out1⟩ lp _ below fr hsc1
          (hinv1.reip _ _) hwt1 hce hext hft.ifE.2.2.some
        have : c.ip + sizeE cnd + 3 + sizeBV t + 3 + sizeBV b = c.ip + (sizeE cnd + 3 + sizeBV t + 3 + sizeO (.some b)) := by
          simp only [sizeO]; unfold sizeBV; omega
        simp only at ihb
        rw [this] at ihb
        exact GoalV8.prefix (c1 := ⟨μ1, st1, c.ip + sizeE cnd + 3 + sizeBV t + 3, locs1, c.ops, g1, l1, m1, out1⟩) (n + 1) hj hk1 (GoalG.from_ext hsc hx1 ihb)
  | _ => exact .inr (herr (fun b e => by subst e; simp only [VR6] at hmv))

theorem pl8_succ (f : Nat) (ih : PAll8 W f) : PL8 W (f + 1) := by
  intro Δ nl fn Γ Γx Λ ab cnd b Γ1 Λ1 Γt Λt hc hb c pos lp cs below fr base acc accv hip hops hacc hsc hinv hwt hcode hext hft
  have hx1 := z8e_ext cnd hc
  obtain ⟨hsc1, ⟨d, hd⟩, ⟨e, he⟩⟩ := sc7_ext hsc hx1
  have hwk : ∀ c', Inv6 W (bigScope fn Γ1 Γx) Λ1 nl c' → Inv6 W (bigScope fn Γ Γx) Λ nl c' := fun c' h => by
    rw [hd, he] at h; exact h.weaken d e
  obtain ⟨μ, st, ip, locs, ops, g, l, m, out⟩ := c
  simp only at hip hops hacc
  subst hip; subst hops
  obtain ⟨_, hcc, hjif, hcb, hjmp, hsz⟩ := while_layout cnd b hcode
  have hext0 := hext
  simp only [emitE] at hext
  have hft0 := hft
  have hft := hft.whileE
  generalize hlp : (some (pos + 1, pos + 1 + sizeE cnd + 4 + sizeBV b + 3) : LoopCtx) = lp' at hcc hcb hext hft
  have hextc : Ext (emitE cnd (pos + 1) lp' cs).2 W.CS := (emitB_ext b _ _ _).trans hext
  have ihc := ih.e nl fn Γ Γx Λ false cnd Γ1 Λ1 hc ⟨μ, st, pos + 1, locs, base.push accv, g, l, m, out⟩ lp' cs below fr hsc hinv hwt hcc hextc hft.1
  rw [hsz]
  simp only [evalLoop]
  rcases ihc with ihc | ihc
  · exact .inl ihc
  cases hrc : evalE f cnd st with
  | val v st1 =>
    rw [hrc] at ihc
    obtain ⟨mv, μ1, m1, hmv, locs1, g1, l1, out1, n, hn, hinv1, hk1⟩ := ihc
    have hacc1 : VR6 W μ1 st1 m1.heap acc accv := hk1 acc accv (fixedOf_push_mem below base accv) hacc
    have hkb : Keep W μ st m.heap μ1 st1 m1.heap (fixedOf below base) := hk1.mono (fixedOf_push_sub below base accv)
    have herr : (∀ b, mv ≠ .bool b) → Fails6 W.C (mk6 W.s0 (pos + 1) below locs (base.push accv) g l fr m out) .type st1.out := by
      intro hnb
      obtain ⟨s2, hs2, ho2⟩ := step6_jif_err (s0 := W.s0) (below := below) (locs := locs1) (ops := base.push accv) (g := g1) (l := l1) (fr := fr)
        (m := m1) (out := out1) hjif hnb
      exact ⟨n, _, s2, hn, hs2, by rw [ho2]; exact hinv1.out.symm⟩
    cases v with
    | bool bb =>
      rw [VR6.bool_iff] at hmv; subst hmv
      have hj := execN_step W.C n _ _ _ hn (step6_jif hjif)
      cases bb with
      | false =>
        simp only [Bool.false_eq_true, ↓reduceIte] at hj
        refine .inr ⟨accv, μ1, m1, hacc1, locs1, g1, l1, out1, n + 1, ?_, hinv1.reip _ _, hkb⟩
        rw [hj]; congr 2; omega
      | true =>
        simp only [↓reduceIte] at hj
        have hp := execN_step W.C (n + 1) _ _ _ hj (step6_pop (by simpa [Instr.size] using hjif.tail))
        have hp : execN W.C (n + 1 + 1) (mk6 W.s0 (pos + 1) below locs (base.push accv) g l fr m out) =
            some (mk6 W.s0 (pos + 1 + sizeE cnd + 4) below locs1 base g1 accv fr m1 out1) := hp
        have hwt2 := wt_execN (n + 1 + 1) _ _ hwt hp
        have hst : ({ st1 with last := acc } : SState).store = st1.store := rfl
        have hgl : Grow μ1 st1 m1.heap μ1 { st1 with last := acc } m1.heap := SimH.grow_store_eq hst
        have hinv1' := inv6_setLast hinv1 acc accv hacc1 (pos + 1 + sizeE cnd + 4) base
        have hk2 : Keep W μ st m.heap μ1 { st1 with last := acc } m1.heap (fixedOf below base) := hkb.trans (Keep.of_grow hgl _)
        have ihb := ih.bv nl fn Γ1 Γx Λ1 true b Γt Λt hb ⟨μ1, { st1 with last := acc }, pos + 1 + sizeE cnd + 4, locs1, base, g1, accv, m1, out1⟩ lp' _
          below fr hsc1 hinv1' hwt2 hcb hext hft.2
        simp only
        rcases ihb with ihb | ihb
        · exact .inl (SimF.Ovf.after (n + 1 + 1) hp ihb)
        cases hrb : evalBV f b { st1 with last := acc } with
        | val w st2 =>
          rw [hrb] at ihb
          obtain ⟨mw, μ2, m2, hmw, locs2, g2, l2, out2, n2, hn2, hinv2, hk3⟩ := ihb
          have hjm := execN_step W.C n2 _ _ _ hn2 (step6_jump hjmp)
          have hwt3 := wt_execN (n2 + 1) _ _ hwt2 hjm
          have ihl := ih.l nl fn Γ Γx Λ ab cnd b Γ1 Λ1 Γt Λt hc hb ⟨μ2, st2, pos + 1, locs2, base.push mw, g2, l2, m2, out2⟩ pos lp cs below fr base
            w mw rfl rfl hmw hsc (hwk _ (hinv2.reip _ _)) hwt3 hcode hext0 hft0
          rw [hsz] at ihl
          exact GoalV8.prefix (c := ⟨μ, st, pos + 1, locs, base.push accv, g, l, m, out⟩)
            (c1 := ⟨μ1, { st1 with last := acc }, pos + 1 + sizeE cnd + 4, locs1, base, g1, accv, m1, out1⟩) (n + 1 + 1) hp hk2
            (GoalV8.prefix (c1 := ⟨μ2, st2, pos + 1, locs2, base.push mw, g2, l2, m2, out2⟩) (n2 + 1) hjm hk3 ihl)
        | brk st2 =>
          rw [hrb] at ihb
          obtain ⟨_, μ2, m2, locs2, g2, l2, out2, n2, hn2, hinv2, hk3⟩ := ihb
          refine .inr ⟨.null, μ2, m2, trivial, locs2, g2, l2, out2, n + 1 + 1 + n2, ?_, hinv2.reip _ _, hk2.trans hk3⟩
          refine (execN_add W.C _ _ _ _ _ hp hn2).trans ?_
          rw [← hlp]; simp only [brkT]; congr 2; omega
        | cont st2 =>
          rw [hrb] at ihb
          obtain ⟨_, μ2, m2, locs2, g2, l2, out2, n2, hn2, hinv2, hk3⟩ := ihb
          have hn2' : execN W.C n2 (mk6 W.s0 (pos + 1 + sizeE cnd + 4) below locs1 base g1 accv fr m1 out1) =
              some (mk6 W.s0 (pos + 1) below locs2 (base.push .null) g2 l2 fr m2 out2) := by
            refine hn2.trans ?_
            rw [← hlp]; rfl
          have hwt3 := wt_execN n2 _ _ hwt2 hn2'
          have ihl := ih.l nl fn Γ Γx Λ ab cnd b Γ1 Λ1 Γt Λt hc hb ⟨μ2, st2, pos + 1, locs2, base.push .null, g2, l2, m2, out2⟩ pos lp cs below fr base
            .null .null rfl rfl trivial hsc (hwk _ (hinv2.reip _ _)) hwt3 hcode hext0 hft0
          rw [hsz] at ihl
          exact GoalV8.prefix (c := ⟨μ, st, pos + 1, locs, base.push accv, g, l, m, out⟩)
            (c1 := ⟨μ1, { st1 with last := acc }, pos + 1 + sizeE cnd + 4, locs1, base, g1, accv, m1, out1⟩) (n + 1 + 1) hp hk2
            (GoalV8.prefix (c1 := ⟨μ2, st2, pos + 1, locs2, base.push .null, g2, l2, m2, out2⟩) n2 hn2' hk3 ihl)
        | err er st2 => rw [hrb] at ihb; exact .inr (SimH.Fails5.after (n + 1 + 1) hp ihb)
        | ret v st2 =>
          rw [hrb] at ihb
          have hret := ihb.2
          rw [hd] at hret
          exact .inr ⟨ihb.1, Returns6.prefix (c := ⟨μ, st, pos + 1, locs, base.push accv, g, l, m, out⟩)
            (c1 := ⟨μ1, { st1 with last := acc }, pos + 1 + sizeE cnd + 4, locs1, base, g1, accv, m1, out1⟩) (n + 1 + 1) hp hk2 (hret.weaken d)⟩
        | fuel => exact .inr trivial
        | unspec _ => exact .inr trivial
    | _ => exact .inr (herr (fun b e => by subst e; simp only [VR6] at hmv))
  | err er st1 => rw [hrc] at ihc; exact .inr ihc
  | fuel => exact .inr trivial
  | unspec _ => exact .inr trivial
  | brk _ => rw [hrc] at ihc; exact absurd ihc.1 (by simp)
  | cont _ => rw [hrc] at ihc; exact absurd ihc.1 (by simp)
  | ret v st1 =>
    rw [hrc] at ihc
    exact .inr ⟨ihc.1, fun fr0 rest hfr => by
      obtain ⟨mv, g', l', m', out', μ', k, hkk, h1, h2, h3, h4, h5, h6⟩ := ihc.2 fr0 rest hfr
      exact ⟨mv, g', l', m', out', μ', k, hkk, h1, h2, h3, h4, h5, h6⟩⟩

theorem pe8_call (hW : WOK8 W) (f : Nat) (ih : PAll8 W f) {nl : Nat} {fn : Bool} {Γ Γx Λ Γ1 Λ1 Γ2 Λ2 : Gam} {ab : Bool} {lp : LoopCtx} {cs : List Const}
    {below : Array Value} {fr : List Frame} {c : Cfg}
    (fe : RExpr) (as : RExprs) (has : Z8Es Δ nl fn Γ Λ as Γ1 Λ1) (hfe : Z8E Δ nl fn Γ1 Λ1 false fe Γ2 Λ2) (hsc : Sc7 W Δ fn Γ Γx Λ)
    (hinv : Inv6 W (bigScope fn Γ Γx) Λ nl c) (hwt : TI.WT (c.vm W below fr))
    (hcode : CodeAt W.C c.ip (emitE (.call fe as) c.ip lp cs).1) (hext : Ext (emitE (.call fe as) c.ip lp cs).2 W.CS)
    (hft : FtE W.ft Δ (.call fe as) c.ip lp cs) :
    GoalV8 W (bigScope fn Γ Γx) Λ nl below fr (bigScope fn Γ2 Γx) Λ2 fn ab lp c (c.ip + sizeE (.call fe as)) c.ops (evalE (f + 1) (.call fe as) c.st) := by
  simp only [emitE] at hcode hext
  obtain ⟨hc12, hc3⟩ := hcode.append
  obtain ⟨hc1, hc2⟩ := hc12.append
  rw [emitEs_size] at hc2
  have hc3 := hc3.cast (b := c.ip + sizeEs as + sizeE fe) (by simp [emitEs_size, emitE_size]; omega)
  have hext1 : Ext (emitEs as c.ip lp cs).2 W.CS := (emitE_ext fe _ _ _).trans hext
  rw [evalE_call]
  simp only [sizeE]
  have hx1 := z8es_ext as has
  have hsc1 := (sc7_ext hsc hx1).1
  have hx2 := z8e_ext fe hfe
  have hsc2 := (sc7_ext hsc1 hx2).1
  refine GoalG.bind (ih.es nl fn Γ Γx Λ as Γ1 Λ1 has c lp cs below fr hsc hinv hwt hc1 hext1 hft.call.1) (.inl rfl) ?_
  rintro xs st1 hr1 ⟨ms, μ1, m1, hms, locs1, g1, l1, out1, n1, hn1, hinv1, hk1⟩
  have hwt1 := wt_execN n1 _ _ hwt hn1
  have hlen : ms.length = as.length := by rw [← hms.length, SimF.evalEs_length f as c.st xs st1 hr1]
  have hxl : xs.length = as.length := SimF.evalEs_length f as c.st xs st1 hr1
  refine GoalV8.prefix (c1 := ⟨μ1, st1, c.ip + sizeEs as, locs1, c.ops ++ ms.toArray, g1, l1, m1, out1⟩) n1 hn1 hk1 ?_
  have ih2 := ih.e nl fn Γ1 Γx Λ1 false fe Γ2 Λ2 hfe ⟨μ1, st1, c.ip + sizeEs as, locs1, c.ops ++ ms.toArray, g1, l1, m1, out1⟩ lp _ below fr
    hsc1 hinv1 hwt1 hc2 hext hft.call.2
  refine GoalG.bind (GoalG.from_ext hsc hx1 ih2) (.inl rfl) ?_
  rintro fv st2 - ⟨mf, μ2, m2, hmf, locs2, g2, l2, out2, n2, hn2, hinv2, hk2⟩
  have hms2 : VRL6 W μ2 st2 m2.heap xs ms := hms.imp (fun v mv hm hv => hk2 v mv (by
    simp only [fixedOf, List.mem_append, Array.toList_append, List.toList_toArray]; exact .inr (.inr hm)) hv)
  have hk12 : Keep W μ1 st1 m1.heap μ2 st2 m2.heap (fixedOf below c.ops) := hk2.mono (fixedOf_append_sub below c.ops ms)
  have hnonfn : (∀ a b, mf ≠ .fn a b) → Fails6 W.C (mk6 W.s0 (c.ip + sizeEs as) below locs1 (c.ops ++ ms.toArray) g1 l1 fr m1 out1) .type st2.out := by
    intro hnf
    obtain ⟨s2, hs2, ho2⟩ := step6_call_nonfn (s0 := W.s0) (below := below) (locs := locs2) (ops := c.ops ++ ms.toArray) (g := g2) (l := l2) (fr := fr)
      (m := m2) (out := out2) hc3 hnf
    exact ⟨n2, _, s2, hn2, hs2, by rw [ho2]; exact hinv2.out.symm⟩
  cases fv with
  | fn fid ps nlc body =>
    cases mf <;> simp only [VR6] at hmf <;> try exact absurd hmf id
    rename_i fip nlc'
    obtain ⟨info, hft, hip, hps, hnl, hbody, hnl', hΓg⟩ := hmf
    subst hnl'
    obtain ⟨hstep_gt, hstep_le⟩ := step6_call (s0 := W.s0) (below := below) (locs := locs2) (ops := c.ops) (g := g2) (l := l2) (fr := fr)
      (m := m2) (out := out2) (fip := fip) (nlc := nlc') (ms := ms) hc3 hlen
    simp only [specCall]
    by_cases hgt : xs.length > nlc'
    · simp only [hgt, ↓reduceIte]
      obtain ⟨s2, hs2, ho2⟩ := hstep_gt (by omega)
      exact .inr ⟨n2, _, s2, hn2, hs2, by rw [ho2]; exact hinv2.out.symm⟩
    · simp only [hgt, ↓reduceIte]
      rcases hstep_le (by omega) with hlim | hnext
      · exact .inl ⟨n2, _, hn2, hlim⟩
      -- the callee's activation
      obtain ⟨hfcode, hfext, ⟨Γ1, Λ1, hyb⟩, hpok, hpsz, hfft⟩ := hW.fns fid info hft
      subst hip; subst hps; subst hnl; subst hbody
      have hn3 := execN_step W.C n2 _ _ _ hn2 hnext
      have hwtc := wt_execN (n2 + 1) _ _ hwt1 hn3
      have hscf : Sc7 W info.Γg true info.Γg (bigScope fn Γ2 Γx) (paramScope info.ps) :=
        ⟨hsc2.okb, hpok, fun p hp => hsc2.psub p (hΓg p hp), hsc2.psub, hΓg⟩
      have hinvf := call_enter hinv2 info xs ms as.length hms2 hlen (by omega) hpok hpsz info.ip
      have hbf := ih.bf info.nl info.Γg (bigScope fn Γ2 Γx) (paramScope info.ps) info.body Γ1 Λ1 hyb
        ⟨μ2, { st2 with lenv := bindParams info.ps xs }, info.ip, ms.toArray ++ Array.replicate (info.nl - as.length) Value.null, #[], g2, l2, m2, out2⟩
        info.cs (below ++ locs2 ++ c.ops) ({ ip := c.ip + sizeEs as + sizeE fe + 2, bp := below.size } :: fr) rfl hscf hinvf hwtc hfcode hfext hfft
      rcases hbf with hbf | hbf
      · exact .inl (SimF.Ovf.after (n2 + 1) hn3 hbf)
      -- both normal completion and `antwoord` come back to the caller
      have hback : ∀ v st3, Returns6 W (bigScope fn Γ2 Γx) (below ++ locs2 ++ c.ops) ({ ip := c.ip + sizeEs as + sizeE fe + 2, bp := below.size } :: fr)
            ⟨μ2, { st2 with lenv := bindParams info.ps xs }, info.ip, ms.toArray ++ Array.replicate (info.nl - as.length) Value.null, #[], g2, l2, m2, out2⟩
            v st3 →
          GoalV8 W (bigScope fn Γ Γx) Λ nl below fr (bigScope fn Γ2 Γx) Λ2 fn ab lp ⟨μ1, st1, c.ip + sizeEs as, locs1, c.ops ++ ms.toArray, g1, l1, m1, out1⟩
            (c.ip + (sizeEs as + sizeE fe + 2)) c.ops (.val v { st3 with lenv := st2.lenv }) := by
        intro v st3 hret
        obtain ⟨mv, g3, l3, m3, out3, μ3, n3, hn, hmv, hrel3, hl3, hout3, hi3, hk3⟩ := hret _ _ rfl
        have hinv3 := call_back (below := below) hinv2 c.ops (bindParams info.ps xs) hrel3 hl3 hout3 hi3 hk3
          (c.ip + (sizeEs as + sizeE fe + 2)) (c.ops.push mv)
        refine .inr ⟨mv, μ3, m3, (vr6_lenv _).1 hmv, locs2, g3, l3, out3, n2 + 1 + n3, ?_, hinv3, ?_⟩
        · rw [execN_add W.C _ _ _ _ _ hn3 hn]
          simp only [mk6, SimF.frame_push]
          congr 2 <;> omega
        · intro w mw hmem hw
          have h2 := hk12 w mw hmem hw
          exact (vr6_lenv _).1 (hk3 w mw (mem_frame_of_below below locs2 c.ops mw hmem) ((vr6_lenv _).1 h2))
      cases hr3 : evalBV f info.body { st2 with lenv := bindParams info.ps xs } with
      | val v st3 => rw [hr3] at hbf; exact hback v st3 hbf
      | ret v st3 => rw [hr3] at hbf; exact hback v st3 hbf.2
      | brk st3 => exact .inr trivial
      | cont st3 => exact .inr trivial
      | err er st3 => rw [hr3] at hbf; exact .inr (SimH.Fails5.after (n2 + 1) hn3 hbf)
      | unspec st3 => exact .inr trivial
      | fuel => exact .inr trivial
  | _ => exact .inr (hnonfn (fun a b e => by subst e; simp only [VR6] at hmf))

end
end Sim8
end Nl
