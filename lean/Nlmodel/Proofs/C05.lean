/-
  C05 — every failure is an error value: no input crashes or hangs the interpreter.
  What the model can carry: lexing and the machine are total functions whose only non-value results
  are the five documented error kinds (plus `fault`, which C02 excludes for compiled programs);
  the fuel the front end supplies is sufficient, i.e. termination is not an artefact of the fuel.
  Native stack exhaustion, allocator failure and wall-clock behaviour are runtime phenomena the
  model cannot exhibit: they are covered by the out-of-process oracle only (partial).
-/
import Nlmodel.Proofs.Lemmas.Lexer
import Nlmodel.Model.Pipeline
import Nlmodel.Proofs.Lemmas.VMErrors
namespace Nl
namespace C05

/-- every call of the tokenizer that yields a token consumes at least one character: the token
    stream of a text of n characters has at most n tokens and `lex` always terminates -/
theorem C05_lex_progress (cc : CharClass) (f : Nat) (cs : Text) (t : Token) (rest : Text)
    (h : nextToken cc f cs = some (t, rest)) : rest.length < cs.length :=
  nextToken_progress cc f cs t rest h

/-- the fuel `lex` supplies (`length + 1`) is sufficient: any larger fuel gives the same token
    stream, so the result is never truncated by the fuel -/
theorem C05_lex_total (cc : CharClass) (cs : Text) (n : Nat) (hn : cs.length < n) :
    lexF cc n cs = lex cc cs :=
  lexF_fuel cc n (cs.length + 1) cs hn (by omega)

/-- the token stream is never longer than the text -/
theorem C05_lex_length (cc : CharClass) (n : Nat) (cs : Text) : (lexF cc n cs).length ≤ cs.length := by
  induction n generalizing cs with
  | zero => simp [lexF]
  | succ n ih =>
    simp only [lexF]
    cases h : nextToken cc (n + 1) cs with
    | none => simp
    | some p =>
      obtain ⟨t, rest⟩ := p
      have h1 := nextToken_progress cc _ cs t rest h
      have h2 := ih rest
      simp only [List.length_cons]; omega

/-- the machine never gets stuck: one step is a total function with four disjoint kinds of result
    (this is the typing of `step`; stated so that the error kinds below have something to refer to) -/
theorem C05_step_cases (c : Code) (s : VM) :
    (∃ s', step c s = .next s') ∨ (∃ v s', step c s = .halt v s') ∨ (∃ e s', step c s = .error e s')
    ∨ (∃ site, step c s = .fault site) := by
  cases h : step c s with
  | next s' => exact Or.inl ⟨s', rfl⟩
  | halt v s' => exact Or.inr (Or.inl ⟨v, s', rfl⟩)
  | error e s' => exact Or.inr (Or.inr (Or.inl ⟨e, s', rfl⟩))
  | fault site => exact Or.inr (Or.inr (Or.inr ⟨site, rfl⟩))

/-- whatever the machine is executing, a step that fails fails with one of the documented run-time
    error kinds (type, index, argument); syntax and reference errors arise only in the front end -/
theorem C05_vm_error_kinds (c : Code) (s s' : VM) (e : Err) (h : step c s = .error e s') :
    e = .type ∨ e = .index ∨ e = .argument := by
  unfold step at h
  split at h
  · simp at h
  · exact exec_err _ _ _ _ _ h

/-- the same for a whole run, any budget -/
theorem C05_run_error_kinds (c : Code) (n : Nat) (s s' : VM) (e : Err) (h : runSteps c n s = .error e s') :
    e = .type ∨ e = .index ∨ e = .argument := by
  induction n generalizing s with
  | zero => simp [runSteps] at h
  | succ n ih =>
    simp only [runSteps] at h
    cases hs : step c s with
    | next s1 => rw [hs] at h; exact ih s1 h
    | halt v s1 => rw [hs] at h; simp at h
    | error e1 s1 => rw [hs] at h; simp only [Outcome.error.injEq] at h; obtain ⟨h1, _⟩ := h; subst h1; exact C05_vm_error_kinds c s s1 e1 hs
    | fault site => rw [hs] at h; simp at h

end C05
end Nl
