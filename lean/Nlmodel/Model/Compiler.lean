/-
  Model of the code generator of `src/compiler.rs` (after repairs F8–F12), as a pure function from
  the resolved tree to instructions.  Back-patching becomes "sizes first, then targets": the static
  size functions `sizeE/...` do not depend on positions, so every jump target is computed before
  the code it jumps over is emitted (`emit_size`, Proofs/Lemmas: the emitted code has the static
  size).  The `last_instruction`/remove-trailing-`Pop` peephole is the syntactic rule `tailKind`.
-/
import Nlmodel.Model.Resolve
import Nlmodel.Model.VM
namespace Nl

/-- `add_constant`'s notion of "already defined": same type and `==` (floats by IEEE equality) -/
def Const.same : Const → Const → Bool
  | .int a, .int b => a == b
  | .float a, .float b => F64.eq a b
  | .str a, .str b => a == b
  | .fn a b, .fn c d => a == c && b == d
  | _, _ => false

/-- `add_constant`: index of the first equal constant, else append -/
def addConst (cs : List Const) (c : Const) : List Const × Nat :=
  match cs.findIdx? (Const.same · c) with
  | some i => (cs, i)
  | none => (cs ++ [c], cs.length)

/-- what the last statement of a block leaves behind (`last_instruction` after compiling it) -/
inductive TailKind where
  | value      -- ends in `Pop` of an expression statement: the block has that value
  | returns    -- ends in `ReturnValue`
  | other
  deriving DecidableEq, Repr

def RBlock.tailKind : RBlock → TailKind
  | .nil => .other
  | .cons (.expr _) .nil => .value
  | .cons (.ret _) .nil => .returns
  | .cons (.block b) .nil => b.tailKind
  | .cons _ .nil => .other
  | .cons _ rest => rest.tailKind

def mirrorOp : BinOp → Option BinOp
  | .add => some .add | .mul => some .mul | .eq => some .eq | .neq => some .neq
  | .lt => some .gt | .lte => some .gte | .gt => some .lt | .gte => some .lte
  | _ => none

/-- the fused-instruction candidate for `l op r`, if any: (operator, local slot, constant) -/
def fusedCandidate (l : RExpr) (op : BinOp) (r : RExpr) : Option (BinOp × Nat × Int) :=
  match l, r with
  | .var ⟨_, .loc k⟩, .int v =>
    match fusedOpcode op with
    | some _ => some (op, k, v)
    | none => none
  | .int v, .var ⟨_, .loc k⟩ =>
    match mirrorOp op with
    | some op' => some (op', k, v)
    | none => none
  | _, _ => none

def getVar : Slot → Instr
  | .global k => .getGlobal k
  | .loc k => .getLocal k
def setVar : Slot → Instr
  | .global k => .setGlobal k
  | .loc k => .setLocal k

/-- size of a block in value position, given its size `n` in statement position -/
def valSize (b : RBlock) (n : Nat) : Nat :=
  match b with
  | .nil => 1
  | _ => match b.tailKind with
    | .value => n - 1
    | _ => n + 1

/-- size of a function body with its epilogue, given its size `n` in statement position -/
def fnSize (b : RBlock) (n : Nat) : Nat :=
  match b with
  | .nil => 2
  | _ => match b.tailKind with
    | .other => n + 1
    | _ => n

/-- value position: the statements with the final `Pop` removed, or followed by `Null` -/
def asValue (b : RBlock) (c : List Instr) : List Instr :=
  match b with
  | .nil => [.null]
  | _ => match b.tailKind with
    | .value => c.dropLast
    | _ => c ++ [.null]

/-- function body and epilogue -/
def asFnBody (b : RBlock) (c : List Instr) : List Instr :=
  match b with
  | .nil => [.null, .ret]
  | _ => match b.tailKind with
    | .value => c.dropLast ++ [.retv]
    | .returns => c
    | .other => c ++ [.ret]

/-! ### static sizes -/
mutual
def sizeE : RExpr → Nat
  | .int _ | .float _ | .str _ => 3
  | .bool _ => 1
  | .var _ => 3
  | .not r | .neg r => sizeE r + 1
  | .assignVar _ e => sizeE e + 6
  | .assignIndex l i v => sizeE l + sizeE i + sizeE v + 1
  | .infix l op r =>
    match fusedCandidate l op r with
    | some _ => 5
    | none => sizeE l + sizeE r + 1
  | .ifE c t e => sizeE c + 3 + valSize t (sizeB t) + 3 + sizeO e
  | .whileE c b => 1 + sizeE c + 3 + 1 + valSize b (sizeB b) + 3
  | .func _ self _ _ body => 3 + fnSize body (sizeB body) + 3 + (match self with | some _ => 6 | none => 0)
  | .call f as => sizeEs as + sizeE f + 2
  | .callBuiltin _ as => sizeEs as + 3
  | .arr vs => sizeEs vs + 3
  | .index l i => sizeE l + sizeE i + 1
def sizeEs : RExprs → Nat
  | .nil => 0
  | .cons e es => sizeE e + sizeEs es
def sizeS : RStmt → Nat
  | .expr e => sizeE e + 1
  | .letS _ e => sizeE e + 3
  | .ret e => sizeE e + 1
  | .block b => sizeB b
  | .brk | .cont => 4
/-- block in statement position (an empty one emits nothing) -/
def sizeB : RBlock → Nat
  | .nil => 0
  | .cons s b => sizeS s + sizeB b
def sizeO : ROptBlock → Nat
  | .none => 1
  | .some b => valSize b (sizeB b)
end

def sizeBV (b : RBlock) : Nat := valSize b (sizeB b)
def sizeBF (b : RBlock) : Nat := fnSize b (sizeB b)

/-- innermost loop: (position of the condition, position after the loop) -/
abbrev LoopCtx := Option (Nat × Nat)

/-! ### code generation -/
mutual
def emitE : RExpr → Nat → LoopCtx → List Const → List Instr × List Const
  | .int v, _, _, cs => let (cs', k) := addConst cs (.int v); ([.const k], cs')
  | .float x, _, _, cs => let (cs', k) := addConst cs (.float x); ([.const k], cs')
  | .str s, _, _, cs => let (cs', k) := addConst cs (.str s); ([.const k], cs')
  | .bool b, _, _, cs => ([if b then .true_ else .false_], cs)
  | .var r, _, _, cs => ([getVar r.slot], cs)
  | .not r, pos, lp, cs => let (c, cs') := emitE r pos lp cs; (c ++ [.not], cs')
  | .neg r, pos, lp, cs => let (c, cs') := emitE r pos lp cs; (c ++ [.negate], cs')
  | .assignVar r e, pos, lp, cs =>
    let (c, cs') := emitE e pos lp cs
    (c ++ [setVar r.slot, getVar r.slot], cs')
  | .assignIndex l i v, pos, lp, cs =>
    let (c1, cs1) := emitE l pos lp cs
    let (c2, cs2) := emitE i (pos + sizeE l) lp cs1
    let (c3, cs3) := emitE v (pos + sizeE l + sizeE i) lp cs2
    (c1 ++ c2 ++ c3 ++ [.indexSet], cs3)
  | .infix l op r, pos, lp, cs =>
    match fusedCandidate l op r with
    | some (op', k, v) =>
      let (cs', idx) := addConst cs (.int v)
      ([.fused op' k idx], cs')
    | none =>
      let (c1, cs1) := emitE l pos lp cs
      let (c2, cs2) := emitE r (pos + sizeE l) lp cs1
      (c1 ++ c2 ++ [.bin op], cs2)
  | .ifE c t e, pos, lp, cs =>
    let p1 := pos + sizeE c                 -- JumpIfFalse
    let p2 := p1 + 3 + sizeBV t             -- Jump
    let pend := p2 + 3 + sizeO e
    let (cc, cs1) := emitE c pos lp cs
    let (ct0, cs2) := emitB t (p1 + 3) lp cs1
    let ct := asValue t ct0
    let (ce, cs3) := emitO e (p2 + 3) lp cs2
    (cc ++ [.jumpIfFalse (p2 + 3)] ++ ct ++ [.jump pend] ++ ce, cs3)
  | .whileE c b, pos, _, cs =>
    let l0 := pos + 1                       -- loop condition
    let p1 := l0 + sizeE c                  -- JumpIfFalse
    let p2 := p1 + 4 + sizeBV b             -- Jump back
    let pend := p2 + 3
    let lp' : LoopCtx := some (l0, pend)
    let (cc, cs1) := emitE c l0 lp' cs
    let (cb0, cs2) := emitB b (p1 + 4) lp' cs1
    let cb := asValue b cb0
    ([.null] ++ cc ++ [.jumpIfFalse pend, .pop] ++ cb ++ [.jump l0], cs2)
  | .func _ self _ nl body, pos, _, cs =>
    let entry := pos + 3
    let after := entry + sizeBF body
    let (cb0, cs1) := emitB body entry none cs
    let cb := asFnBody body cb0
    let (cs2, k) := addConst cs1 (.fn entry nl)
    let tail := match self with
      | some r => [setVar r.slot, Instr.const k]
      | none => []
    ([.jump after] ++ cb ++ [.const k] ++ tail, cs2)
  | .call f as, pos, lp, cs =>
    let (ca, cs1) := emitEs as pos lp cs
    let (cf, cs2) := emitE f (pos + sizeEs as) lp cs1
    (ca ++ cf ++ [.call as.length], cs2)
  | .callBuiltin b as, pos, lp, cs =>
    let (ca, cs1) := emitEs as pos lp cs
    (ca ++ [.callBuiltin b.id as.length], cs1)
  | .arr vs, pos, lp, cs =>
    let (ca, cs1) := emitEs vs pos lp cs
    (ca ++ [.array vs.length], cs1)
  | .index l i, pos, lp, cs =>
    let (c1, cs1) := emitE l pos lp cs
    let (c2, cs2) := emitE i (pos + sizeE l) lp cs1
    (c1 ++ c2 ++ [.indexGet], cs2)

def emitEs : RExprs → Nat → LoopCtx → List Const → List Instr × List Const
  | .nil, _, _, cs => ([], cs)
  | .cons e es, pos, lp, cs =>
    let (c1, cs1) := emitE e pos lp cs
    let (c2, cs2) := emitEs es (pos + sizeE e) lp cs1
    (c1 ++ c2, cs2)

def emitS : RStmt → Nat → LoopCtx → List Const → List Instr × List Const
  | .expr e, pos, lp, cs => let (c, cs') := emitE e pos lp cs; (c ++ [.pop], cs')
  | .letS r e, pos, lp, cs => let (c, cs') := emitE e pos lp cs; (c ++ [setVar r.slot], cs')
  | .ret e, pos, lp, cs => let (c, cs') := emitE e pos lp cs; (c ++ [.retv], cs')
  | .block b, pos, lp, cs => emitB b pos lp cs
  | .brk, _, lp, cs => ([.null, .jump (match lp with | some (_, e) => e | none => 0)], cs)
  | .cont, _, lp, cs => ([.null, .jump (match lp with | some (s, _) => s | none => 0)], cs)

def emitB : RBlock → Nat → LoopCtx → List Const → List Instr × List Const
  | .nil, _, _, cs => ([], cs)
  | .cons s b, pos, lp, cs =>
    let (c1, cs1) := emitS s pos lp cs
    let (c2, cs2) := emitB b (pos + sizeS s) lp cs1
    (c1 ++ c2, cs2)

def emitO : ROptBlock → Nat → LoopCtx → List Const → List Instr × List Const
  | .none, _, _, cs => ([.null], cs)
  | .some b, pos, lp, cs => let (c, cs') := emitB b pos lp cs; (asValue b c, cs')
end

/-- limits of the operand widths (F24, `narrow`): an operand that does not fit is a SyntaxError -/
def Instr.fits : Instr → Bool
  | .const k | .jump k | .jumpIfFalse k | .array k
  | .getLocal k | .setLocal k | .getGlobal k | .setGlobal k => k ≤ 65535
  | .fused op l k => l ≤ 65535 && k ≤ 65535 && (fusedOpcode op).isSome
  | .callBuiltin b n => b ≤ 255 && n ≤ 255
  | .call n => n ≤ 255
  | _ => true

def Const.fits : Const → Bool
  | .fn ip nl => ip < 2 ^ 32 && nl ≤ 65535
  | _ => true

/-- `compile_ast` on a fresh compiler -/
def compileR (p : RBlock) : Except Err Bytecode :=
  let (c, cs) := emitB p 0 none []
  let is := c ++ [.halt]
  if is.all Instr.fits && cs.all Const.fits then .ok { code := (encodeAll is).toArray, consts := cs }
  else .error .syntax

def compileProgram (p : Block) : Except Err (RBlock × Bytecode) :=
  match resolveProgram p with
  | .ok r =>
    match compileR r with
    | .ok bc => .ok (r, bc)
    | .error e => .error e
  | .error e => .error e

end Nl
