#!/usr/bin/env python3
"""Generic mutation run: small syntactic changes to /repo/src (relational/arithmetic/boolean operator
swaps, off-by-one constants, deleted statements), each applied to /repo's working tree, built, run
against the repository's own test suite and — if the tests still pass — against the quick checks
that cover the mutated file.  A mutant that survives both is a blind spot (or an equivalent mutant)
to be looked at by hand.  /repo is restored (`git checkout -- .`) after every mutant.

Usage: tools/mutate.py --seed N --count K [--files lexer.rs,vm.rs] [--out mutation/run1.jsonl]
"""
import json
import os
import random
import re
import subprocess
import sys
import time

VERIF = os.path.dirname(os.path.dirname(os.path.abspath(__file__)))
REPO = "/repo"

CHECKS = {
    "lexer.rs": ["C08", "C07", "C05"],
    "parser.rs": ["C07", "C01", "C05"],
    "ast.rs": ["C07", "C01"],
    "compiler.rs": ["C01", "C10", "C11", "C09", "C12", "C17"],
    "symbols.rs": ["C09", "C01", "C02", "C17"],
    "vm.rs": ["C01", "C06", "C12", "C13", "C02", "C17"],
    "gc.rs": ["C03", "C04", "C01"],
    "builtins.rs": ["C14", "C01"],
    "object.rs": ["C15", "C06", "C13", "C14", "C01"],
    "lib.rs": ["C16", "C17", "C01"],
    "bytecode.rs": ["C02", "C01", "C10"],
}

OPS = [
    (r" < ", " <= "), (r" <= ", " < "), (r" > ", " >= "), (r" >= ", " > "), (r" == ", " != "), (r" != ", " == "),
    (r" && ", " || "), (r" \|\| ", " && "), (r" \+ 1\b", " + 2"), (r" - 1\b", " - 2"), (r" \+ 1\b", ""), (r" - 1\b", ""),
    (r" \+ ", " - "), (r" - ", " + "), (r"\btrue\b", "false"), (r"\bfalse\b", "true"), (r"\b0\b", "1"), (r"\b1\b", "0"),
    (r" \* ", " + "), (r" / ", " * "), (r" % ", " / "), (r"\.wrapping_add\(", ".wrapping_sub("), (r"\.min\(", ".max("), (r"\.max\(", ".min("),
    (r"\.is_empty\(\)", ".is_empty() == false"), (r"!self\.", "self."), (r"\bSome\(([a-z_]+)\) =>", r"Some(\1) if false =>"),
]


def sh(cmd, cwd=None, timeout=1800):
    e = dict(os.environ)
    e["CARGO_NET_OFFLINE"] = "true"
    p = subprocess.run(cmd, cwd=cwd, shell=isinstance(cmd, str), stdout=subprocess.PIPE, stderr=subprocess.STDOUT, text=True, timeout=timeout, env=e)
    return p.returncode, p.stdout


def candidates(files):
    out = []
    for f in files:
        path = os.path.join(REPO, "src", f)
        lines = open(path).read().split("\n")
        in_tests = False
        for i, l in enumerate(lines):
            if re.match(r"\s*(#\[cfg\(test\)\]|mod tests?\b)", l):
                in_tests = True
            if in_tests:
                continue
            s = l.strip()
            if not s or s.startswith("//") or s.startswith("#[") or "debug_assert" in s or "cfg(feature" in s or "verif" in s:
                continue
            code = l.split("//")[0]
            if '"' in code and code.count('"') >= 2:
                # do not mutate inside string literals: blank them for matching
                code_m = re.sub(r'"[^"]*"', lambda m: '"' + "_" * (len(m.group(0)) - 2) + '"', code)
            else:
                code_m = code
            for k, (pat, rep) in enumerate(OPS):
                for m in re.finditer(pat, code_m):
                    new = code[:m.start()] + re.sub(pat, rep, code[m.start():m.end()]) + code[m.end():] + l[len(code):]
                    if new != l:
                        out.append(dict(file=f, line=i + 1, op="%s -> %s" % (pat, rep), old=l, new=new))
            # statement deletion: a call statement on its own line
            if re.match(r"\s*(self\.[a-z_\.]+\(.*\);|[a-z_]+\.(push|pop|insert|remove|truncate|clear|set|extend)\w*\(.*\);)\s*$", code):
                out.append(dict(file=f, line=i + 1, op="delete statement", old=l, new=re.match(r"\s*", l).group(0) + "// (deleted)"))
    return out


def apply(m):
    path = os.path.join(REPO, "src", m["file"])
    lines = open(path).read().split("\n")
    assert lines[m["line"] - 1] == m["old"]
    lines[m["line"] - 1] = m["new"]
    open(path, "w").write("\n".join(lines))


def restore():
    sh(["git", "-C", REPO, "checkout", "--", "."])


def main():
    a = sys.argv
    seed = int(a[a.index("--seed") + 1]) if "--seed" in a else 1
    count = int(a[a.index("--count") + 1]) if "--count" in a else 20
    files = a[a.index("--files") + 1].split(",") if "--files" in a else sorted(CHECKS)
    out = a[a.index("--out") + 1] if "--out" in a else os.path.join(VERIF, "mutation", "run-%d.jsonl" % seed)
    os.makedirs(os.path.dirname(out), exist_ok=True)
    rc, st = sh(["git", "-C", REPO, "status", "--porcelain"])
    assert not st.strip(), "/repo is not clean"
    files = [f for f in files if os.path.exists(os.path.join(REPO, "src", f))]
    cands = candidates(files)
    rnd = random.Random(seed)
    rnd.shuffle(cands)
    # spread over files
    picked, per = [], {}
    for c in cands:
        if per.get(c["file"], 0) < max(2, count // max(1, len(files)) + 2):
            picked.append(c)
            per[c["file"]] = per.get(c["file"], 0) + 1
        if len(picked) >= count:
            break
    print("candidates: %d, picked %d" % (len(cands), len(picked)), flush=True)
    with open(out, "a") as fo:
        for m in picked:
            t0 = time.time()
            rec = dict(m)
            try:
                apply(m)
                rc, o = sh("cargo build --offline 2>&1 | tail -3", cwd=REPO)
                if "error" in o:
                    rec["status"] = "does-not-compile"
                else:
                    rc, o = sh("cargo test --offline 2>&1 | grep -E '^test result|FAILED|panicked' | head -5", cwd=REPO, timeout=900)
                    passed = sum(int(x) for x in re.findall(r"test result: ok\. (\d+) passed", o))
                    if "FAILED" in o or passed < 99:
                        rec["status"] = "killed-by-tests"
                    else:
                        caught = []
                        for c in CHECKS[m["file"]]:
                            try:
                                rc, o = sh(["./check", c, "--tier", "quick"], cwd=VERIF, timeout=1500)
                            except subprocess.TimeoutExpired:
                                rc, o = 124, "TIMEOUT"
                            if "VIOLATION" in o or rc != 0:
                                caught.append(c)
                                break       # one catching check is enough here
                        rec["status"] = "caught" if caught else "SURVIVED"
                        rec["caught_by"] = caught
            except Exception as e:      # noqa
                rec["status"] = "tool-error: %r" % e
            finally:
                restore()
                sh("git checkout -- evidence; rm -rf replays", cwd=VERIF)
            rec["wall_s"] = round(time.time() - t0, 1)
            fo.write(json.dumps(rec) + "\n")
            fo.flush()
            print("%-12s %s:%d %s | %s" % (rec["status"], m["file"], m["line"], m["op"], m["new"].strip()[:90]), flush=True)


if __name__ == "__main__":
    main()
