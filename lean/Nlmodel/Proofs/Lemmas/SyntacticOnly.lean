/- The end-to-end theorems of stages 5 and 6 with PURELY SYNTACTIC hypotheses.

   The source-level fragments carry `SimH.LitF x` (sign bit clear, not NaN) for every float literal, and their
   Boolean checkers (`SimH.inSourceH`, `Sim6.src6Top`) test it (`litFb`).  `ParsedFloats.parse_allLitF` proves that
   every tree the parser returns has only such literals, so for PARSED programs the test is redundant.  Here:

   * `Sim6.src6TopNF`, `SimH.inSourceHNF`: the same checkers WITHOUT the float-literal test (they look at the shape
     of the tree only, never at a number);
   * `src6TopNF ast = true → ast.AllLitF → src6Top ast = true` (and the same for `inSourceH`);
   * `Sim6.eval_text6_syntactic`, `SimH.heap_eval_text_syntactic`: the observation theorems with the shape check only;
   * what the shape check excludes / accepts, by kernel evaluation. -/
import Nlmodel.Proofs.Lemmas.Resolve6Top
import Nlmodel.Proofs.Lemmas.ResolveHeap
import Nlmodel.Proofs.Lemmas.ParsedFloats
namespace Nl

namespace SimH

theorem litFb_complete (x : UInt64) (h : LitF x) : litFb x = true := by
  simp only [litFb, Bool.and_eq_true, Bool.not_eq_true']
  exact h

/-! ## stage 5: the shape-only checker -/

mutual
def chkSENF (ab : Bool) : Expr → Bool
  | .int _ => true
  | .bool _ => true
  | .float _ => true
  | .str _ => true
  | .ident _ => true
  | .pre op e =>
    (match op with
     | .not => true
     | .sub => true
     | .negate => true
     | _ => false) && chkSENF ab e
  | .infix l op r => (opToBin op).isSome && chkSENF ab l && chkSENF false r
  | .assign l r =>
    match l with
    | .ident _ => chkSENF ab r
    | .index a i => chkSENF ab a && chkSENF false i && chkSENF false r
    | _ => false
  | .arr vs => chkSEsNF vs
  | .index l i => chkSENF ab l && chkSENF false i
  | .call f as =>
    (match f with
     | .ident n => (Builtin.resolve n).isSome
     | _ => false) && chkSEsNF as
  | .ifE c t e => chkSENF ab c && chkSBNF ab t && chkSONF ab e
  | .whileE c b => chkSENF false c && chkSBNF true b
  | .func _ _ _ => false
def chkSEsNF : Exprs → Bool
  | .nil => true
  | .cons e es => chkSENF false e && chkSEsNF es
def chkSONF (ab : Bool) : OptBlock → Bool
  | .none => true
  | .some b => chkSBNF ab b
def chkSSNF (ab : Bool) : Stmt → Bool
  | .expr e => chkSENF ab e
  | .letS _ e => chkSENF ab e
  | .block b => chkSBNF ab b
  | .brk => ab
  | .cont => ab
  | .ret _ => false
def chkSBNF (ab : Bool) : Block → Bool
  | .nil => true
  | .cons s b => chkSSNF ab s && chkSBNF ab b
end

mutual
theorem chkSENF_up : (e : Expr) → ∀ (ab : Bool), chkSENF ab e = true → e.AllLitF → chkSE ab e = true
  | .int _, _, _, _ => by simp only [chkSE]
  | .bool _, _, _, _ => by simp only [chkSE]
  | .float x, _, _, hl => by
    simp only [Expr.AllLitF] at hl
    simp only [chkSE]; exact litFb_complete x hl
  | .str _, _, _, _ => by simp only [chkSE]
  | .ident _, _, _, _ => by simp only [chkSE]
  | .pre op e, ab, h, hl => by
    simp only [Expr.AllLitF] at hl
    simp only [chkSENF, Bool.and_eq_true] at h
    simp only [chkSE, Bool.and_eq_true]
    exact ⟨h.1, chkSENF_up e ab h.2 hl⟩
  | .infix l op r, ab, h, hl => by
    simp only [Expr.AllLitF] at hl
    simp only [chkSENF, Bool.and_eq_true] at h
    simp only [chkSE, Bool.and_eq_true]
    exact ⟨⟨h.1.1, chkSENF_up l ab h.1.2 hl.1⟩, chkSENF_up r false h.2 hl.2⟩
  | .assign (.ident n) r, ab, h, hl => by
    simp only [Expr.AllLitF] at hl
    simp only [chkSENF] at h
    simp only [chkSE]
    exact chkSENF_up r ab h hl.2
  | .assign (.index a i) r, ab, h, hl => by
    simp only [Expr.AllLitF] at hl
    simp only [chkSENF, Bool.and_eq_true] at h
    simp only [chkSE, Bool.and_eq_true]
    exact ⟨⟨chkSENF_up a ab h.1.1 hl.1.1, chkSENF_up i false h.1.2 hl.1.2⟩, chkSENF_up r false h.2 hl.2⟩
  | .arr vs, ab, h, hl => by
    simp only [Expr.AllLitF] at hl
    simp only [chkSENF] at h
    simp only [chkSE]
    exact chkSEsNF_up vs h hl
  | .index l i, ab, h, hl => by
    simp only [Expr.AllLitF] at hl
    simp only [chkSENF, Bool.and_eq_true] at h
    simp only [chkSE, Bool.and_eq_true]
    exact ⟨chkSENF_up l ab h.1 hl.1, chkSENF_up i false h.2 hl.2⟩
  | .call f as, ab, h, hl => by
    simp only [Expr.AllLitF] at hl
    simp only [chkSENF, Bool.and_eq_true] at h
    simp only [chkSE, Bool.and_eq_true]
    exact ⟨h.1, chkSEsNF_up as h.2 hl.2⟩
  | .ifE c t e, ab, h, hl => by
    simp only [Expr.AllLitF] at hl
    simp only [chkSENF, Bool.and_eq_true] at h
    simp only [chkSE, Bool.and_eq_true]
    exact ⟨⟨chkSENF_up c ab h.1.1 hl.1, chkSBNF_up t ab h.1.2 hl.2.1⟩, chkSONF_up e ab h.2 hl.2.2⟩
  | .whileE c b, ab, h, hl => by
    simp only [Expr.AllLitF] at hl
    simp only [chkSENF, Bool.and_eq_true] at h
    simp only [chkSE, Bool.and_eq_true]
    exact ⟨chkSENF_up c false h.1 hl.1, chkSBNF_up b true h.2 hl.2⟩
  | .func _ _ _, _, h, _ => by simp [chkSENF] at h
  | .assign (.infix _ _ _) _, _, h, _ => by simp [chkSENF] at h
  | .assign (.pre _ _) _, _, h, _ => by simp [chkSENF] at h
  | .assign (.int _) _, _, h, _ => by simp [chkSENF] at h
  | .assign (.float _) _, _, h, _ => by simp [chkSENF] at h
  | .assign (.bool _) _, _, h, _ => by simp [chkSENF] at h
  | .assign (.ifE _ _ _) _, _, h, _ => by simp [chkSENF] at h
  | .assign (.func _ _ _) _, _, h, _ => by simp [chkSENF] at h
  | .assign (.call _ _) _, _, h, _ => by simp [chkSENF] at h
  | .assign (.assign _ _) _, _, h, _ => by simp [chkSENF] at h
  | .assign (.str _) _, _, h, _ => by simp [chkSENF] at h
  | .assign (.arr _) _, _, h, _ => by simp [chkSENF] at h
  | .assign (.whileE _ _) _, _, h, _ => by simp [chkSENF] at h
theorem chkSEsNF_up : (es : Exprs) → chkSEsNF es = true → es.AllLitF → chkSEs es = true
  | .nil, _, _ => by simp only [chkSEs]
  | .cons e es, h, hl => by
    simp only [Exprs.AllLitF] at hl
    simp only [chkSEsNF, Bool.and_eq_true] at h
    simp only [chkSEs, Bool.and_eq_true]
    exact ⟨chkSENF_up e false h.1 hl.1, chkSEsNF_up es h.2 hl.2⟩
theorem chkSONF_up : (o : OptBlock) → ∀ (ab : Bool), chkSONF ab o = true → o.AllLitF → chkSO ab o = true
  | .none, _, _, _ => by simp only [chkSO]
  | .some b, ab, h, hl => by
    simp only [OptBlock.AllLitF] at hl
    simp only [chkSONF] at h
    simp only [chkSO]
    exact chkSBNF_up b ab h hl
theorem chkSSNF_up : (s : Stmt) → ∀ (ab : Bool), chkSSNF ab s = true → s.AllLitF → chkSS ab s = true
  | .expr e, ab, h, hl => by
    simp only [Stmt.AllLitF] at hl
    simp only [chkSSNF] at h
    simp only [chkSS]
    exact chkSENF_up e ab h hl
  | .letS _ e, ab, h, hl => by
    simp only [Stmt.AllLitF] at hl
    simp only [chkSSNF] at h
    simp only [chkSS]
    exact chkSENF_up e ab h hl
  | .block b, ab, h, hl => by
    simp only [Stmt.AllLitF] at hl
    simp only [chkSSNF] at h
    simp only [chkSS]
    exact chkSBNF_up b ab h hl
  | .brk, ab, h, _ => by simp only [chkSSNF] at h; simp only [chkSS]; exact h
  | .cont, ab, h, _ => by simp only [chkSSNF] at h; simp only [chkSS]; exact h
  | .ret _, _, h, _ => by simp [chkSSNF] at h
theorem chkSBNF_up : (b : Block) → ∀ (ab : Bool), chkSBNF ab b = true → b.AllLitF → chkSB ab b = true
  | .nil, _, _, _ => by simp only [chkSB]
  | .cons s b, ab, h, hl => by
    simp only [Block.AllLitF] at hl
    simp only [chkSBNF, Bool.and_eq_true] at h
    simp only [chkSB, Bool.and_eq_true]
    exact ⟨chkSSNF_up s ab h.1 hl.1, chkSBNF_up b ab h.2 hl.2⟩
end

/-- the shape-only source check of stage 5: `inSourceH` without the test on float literals -/
def inSourceHNF (ast : Block) : Bool := chkSBNF false ast

/-- on a tree whose float literals are all non-negative non-NaN (every PARSED tree), the shape-only check implies the
    full check -/
theorem inSourceHNF_up (ast : Block) (h : inSourceHNF ast = true) (hl : ast.AllLitF) : inSourceH ast = true :=
  chkSBNF_up ast false h hl

/-- THE OBSERVATION ITSELF, stage 5, with PURELY SYNTACTIC hypotheses: the text parses, the tree has the right SHAPE
    (`inSourceHNF`: no look at any number), and it compiles -/
theorem heap_eval_text_syntactic (cc : CharClass) (src : Text) (ast : Block) (r : RBlock) (bc : Bytecode)
    (hp : parse cc src = .ok ast) (hs : inSourceHNF ast = true) (hc : compileProgram ast = .ok (r, bc)) (F : Nat) :
    match specText cc F src with
    | .value t out => ∃ n, ∀ k, evalText cc (n + k) src = .value t out
    | .error e out => ∃ n, ∀ k, evalText cc (n + k) src = .error e out
    | .fault _ => False
    | _ => True :=
  heap_eval_text_checked cc src ast r bc hp
    (inSourceHNF_up ast hs (ParsedFloats.parse_allLitF cc src ast hp)) hc F

end SimH

namespace Sim6
open SimH (LitF litFb litFb_sound litFb_complete)

/-! ## stage 6: the shape-only checker -/

mutual
def src6ENF (fn ab : Bool) : Expr → Bool
  | .int _ => true
  | .bool _ => true
  | .float _ => true
  | .str _ => true
  | .ident _ => true
  | .pre op e => SimF.preOk op && src6ENF fn ab e
  | .infix l op r => (opToBin op).isSome && src6ENF fn ab l && src6ENF fn false r
  | .assign (.ident _) e => src6ENF fn ab e
  | .assign (.index a i) e => src6ENF fn ab a && src6ENF fn false i && src6ENF fn false e
  | .assign _ _ => false
  | .arr vs => src6EsNF fn vs
  | .index l i => src6ENF fn ab l && src6ENF fn false i
  | .ifE c t e => src6ENF fn ab c && src6BNF fn ab t && src6ONF fn ab e
  | .whileE c b => src6ENF fn false c && src6BNF fn true b
  | .call f as => src6EsNF fn as && (builtinName f || src6ENF fn false f)
  | .func _ _ _ => false
def src6EsNF (fn : Bool) : Exprs → Bool
  | .nil => true
  | .cons e es => src6ENF fn false e && src6EsNF fn es
def src6ONF (fn ab : Bool) : OptBlock → Bool
  | .none => true
  | .some b => src6BNF fn ab b
def src6SNF (fn ab : Bool) : Stmt → Bool
  | .expr e => src6ENF fn ab e
  | .letS _ e => src6ENF fn ab e
  | .block b => src6BNF fn ab b
  | .brk => ab
  | .cont => ab
  | .ret e => fn && src6ENF fn ab e
def src6BNF (fn ab : Bool) : Block → Bool
  | .nil => true
  | .cons s b => src6SNF fn ab s && src6BNF fn ab b
end

mutual
theorem src6ENF_up (fn : Bool) : (e : Expr) → ∀ (ab : Bool), src6ENF fn ab e = true → e.AllLitF → src6E fn ab e = true
  | .int _, _, _, _ => by simp only [src6E]
  | .bool _, _, _, _ => by simp only [src6E]
  | .float x, _, _, hl => by
    simp only [Expr.AllLitF] at hl
    simp only [src6E]; exact litFb_complete x hl
  | .str _, _, _, _ => by simp only [src6E]
  | .ident _, _, _, _ => by simp only [src6E]
  | .pre op e, ab, h, hl => by
    simp only [Expr.AllLitF] at hl
    simp only [src6ENF, Bool.and_eq_true] at h
    simp only [src6E, Bool.and_eq_true]
    exact ⟨h.1, src6ENF_up fn e ab h.2 hl⟩
  | .infix l op r, ab, h, hl => by
    simp only [Expr.AllLitF] at hl
    simp only [src6ENF, Bool.and_eq_true] at h
    simp only [src6E, Bool.and_eq_true]
    exact ⟨⟨h.1.1, src6ENF_up fn l ab h.1.2 hl.1⟩, src6ENF_up fn r false h.2 hl.2⟩
  | .assign (.ident n) r, ab, h, hl => by
    simp only [Expr.AllLitF] at hl
    simp only [src6ENF] at h
    simp only [src6E]
    exact src6ENF_up fn r ab h hl.2
  | .assign (.index a i) r, ab, h, hl => by
    simp only [Expr.AllLitF] at hl
    simp only [src6ENF, Bool.and_eq_true] at h
    simp only [src6E, Bool.and_eq_true]
    exact ⟨⟨src6ENF_up fn a ab h.1.1 hl.1.1, src6ENF_up fn i false h.1.2 hl.1.2⟩, src6ENF_up fn r false h.2 hl.2⟩
  | .arr vs, ab, h, hl => by
    simp only [Expr.AllLitF] at hl
    simp only [src6ENF] at h
    simp only [src6E]
    exact src6EsNF_up fn vs h hl
  | .index l i, ab, h, hl => by
    simp only [Expr.AllLitF] at hl
    simp only [src6ENF, Bool.and_eq_true] at h
    simp only [src6E, Bool.and_eq_true]
    exact ⟨src6ENF_up fn l ab h.1 hl.1, src6ENF_up fn i false h.2 hl.2⟩
  | .call f as, ab, h, hl => by
    simp only [Expr.AllLitF] at hl
    simp only [src6ENF, Bool.and_eq_true, Bool.or_eq_true] at h
    simp only [src6E, Bool.and_eq_true, Bool.or_eq_true]
    refine ⟨src6EsNF_up fn as h.1 hl.2, ?_⟩
    rcases h.2 with h2 | h2
    · exact .inl h2
    · exact .inr (src6ENF_up fn f false h2 hl.1)
  | .ifE c t e, ab, h, hl => by
    simp only [Expr.AllLitF] at hl
    simp only [src6ENF, Bool.and_eq_true] at h
    simp only [src6E, Bool.and_eq_true]
    exact ⟨⟨src6ENF_up fn c ab h.1.1 hl.1, src6BNF_up fn t ab h.1.2 hl.2.1⟩, src6ONF_up fn e ab h.2 hl.2.2⟩
  | .whileE c b, ab, h, hl => by
    simp only [Expr.AllLitF] at hl
    simp only [src6ENF, Bool.and_eq_true] at h
    simp only [src6E, Bool.and_eq_true]
    exact ⟨src6ENF_up fn c false h.1 hl.1, src6BNF_up fn b true h.2 hl.2⟩
  | .func _ _ _, _, h, _ => by simp [src6ENF] at h
  | .assign (.infix _ _ _) _, _, h, _ => by simp [src6ENF] at h
  | .assign (.pre _ _) _, _, h, _ => by simp [src6ENF] at h
  | .assign (.int _) _, _, h, _ => by simp [src6ENF] at h
  | .assign (.float _) _, _, h, _ => by simp [src6ENF] at h
  | .assign (.bool _) _, _, h, _ => by simp [src6ENF] at h
  | .assign (.ifE _ _ _) _, _, h, _ => by simp [src6ENF] at h
  | .assign (.func _ _ _) _, _, h, _ => by simp [src6ENF] at h
  | .assign (.call _ _) _, _, h, _ => by simp [src6ENF] at h
  | .assign (.assign _ _) _, _, h, _ => by simp [src6ENF] at h
  | .assign (.str _) _, _, h, _ => by simp [src6ENF] at h
  | .assign (.arr _) _, _, h, _ => by simp [src6ENF] at h
  | .assign (.whileE _ _) _, _, h, _ => by simp [src6ENF] at h
theorem src6EsNF_up (fn : Bool) : (es : Exprs) → src6EsNF fn es = true → es.AllLitF → src6Es fn es = true
  | .nil, _, _ => by simp only [src6Es]
  | .cons e es, h, hl => by
    simp only [Exprs.AllLitF] at hl
    simp only [src6EsNF, Bool.and_eq_true] at h
    simp only [src6Es, Bool.and_eq_true]
    exact ⟨src6ENF_up fn e false h.1 hl.1, src6EsNF_up fn es h.2 hl.2⟩
theorem src6ONF_up (fn : Bool) : (o : OptBlock) → ∀ (ab : Bool), src6ONF fn ab o = true → o.AllLitF → src6O fn ab o = true
  | .none, _, _, _ => by simp only [src6O]
  | .some b, ab, h, hl => by
    simp only [OptBlock.AllLitF] at hl
    simp only [src6ONF] at h
    simp only [src6O]
    exact src6BNF_up fn b ab h hl
theorem src6SNF_up (fn : Bool) : (s : Stmt) → ∀ (ab : Bool), src6SNF fn ab s = true → s.AllLitF → src6S fn ab s = true
  | .expr e, ab, h, hl => by
    simp only [Stmt.AllLitF] at hl
    simp only [src6SNF] at h
    simp only [src6S]
    exact src6ENF_up fn e ab h hl
  | .letS _ e, ab, h, hl => by
    simp only [Stmt.AllLitF] at hl
    simp only [src6SNF] at h
    simp only [src6S]
    exact src6ENF_up fn e ab h hl
  | .block b, ab, h, hl => by
    simp only [Stmt.AllLitF] at hl
    simp only [src6SNF] at h
    simp only [src6S]
    exact src6BNF_up fn b ab h hl
  | .brk, ab, h, _ => by simp only [src6SNF] at h; simp only [src6S]; exact h
  | .cont, ab, h, _ => by simp only [src6SNF] at h; simp only [src6S]; exact h
  | .ret e, ab, h, hl => by
    simp only [Stmt.AllLitF] at hl
    simp only [src6SNF, Bool.and_eq_true] at h
    simp only [src6S, Bool.and_eq_true]
    exact ⟨h.1, src6ENF_up fn e ab h.2 hl⟩
theorem src6BNF_up (fn : Bool) : (b : Block) → ∀ (ab : Bool), src6BNF fn ab b = true → b.AllLitF → src6B fn ab b = true
  | .nil, _, _, _ => by simp only [src6B]
  | .cons s b, ab, h, hl => by
    simp only [Block.AllLitF] at hl
    simp only [src6BNF, Bool.and_eq_true] at h
    simp only [src6B, Bool.and_eq_true]
    exact ⟨src6SNF_up fn s ab h.1 hl.1, src6BNF_up fn b ab h.2 hl.2⟩
end

/-- the shape-only source check of stage 6: `src6Top` without the test on float literals -/
def src6TopNF : Block → Bool
  | .nil => true
  | .cons s rest =>
    (match SimF.srcFDef s with
     | some body => src6BNF true false body
     | none => src6SNF false false s) && src6TopNF rest

/-- the body of a top-level function definition inherits `AllLitF` from the statement -/
theorem srcFDef_allLitF (s : Stmt) (body : Block) (h : SimF.srcFDef s = some body) (hl : s.AllLitF) : body.AllLitF := by
  rcases SimF.srcFDef_sound s body h with ⟨name, ps, rfl, _⟩ | ⟨f, ps, rfl⟩
  · simpa only [Stmt.AllLitF, Expr.AllLitF] using hl
  · simpa only [Stmt.AllLitF, Expr.AllLitF] using hl

/-- on a tree whose float literals are all non-negative non-NaN (every PARSED tree), the shape-only check implies the
    full check -/
theorem src6TopNF_up : (b : Block) → src6TopNF b = true → b.AllLitF → src6Top b = true
  | .nil, _, _ => by simp only [src6Top]
  | .cons s rest, h, hl => by
    simp only [Block.AllLitF] at hl
    simp only [src6TopNF, Bool.and_eq_true] at h
    simp only [src6Top, Bool.and_eq_true]
    refine ⟨?_, src6TopNF_up rest h.2 hl.2⟩
    have h1 := h.1
    cases hf : SimF.srcFDef s with
    | none =>
      simp only [hf] at h1 ⊢
      exact src6SNF_up false s false h1 hl.1
    | some body =>
      simp only [hf] at h1 ⊢
      exact src6BNF_up true body false h1 (srcFDef_allLitF s body hf hl.1)

/-- THE OBSERVATION ITSELF, stage 6, with PURELY SYNTACTIC hypotheses: the text parses, the tree has the right SHAPE
    (`src6TopNF`: no look at any number), and it compiles.  Whatever the definitional semantics answers with some fuel
    is exactly what `eval` answers on the machine for every large enough instruction budget, unless the machine stops
    at its stack/frame limit. -/
theorem eval_text6_syntactic (cc : CharClass) (src : Text) (ast : Block) (r : RBlock) (bc : Bytecode)
    (hp : parse cc src = .ok ast) (hs : src6TopNF ast = true) (hc : compileProgram ast = .ok (r, bc)) (F : Nat) :
    TextHitsLimit cc src ∨
    match specText cc F src with
    | .value t out => ∃ n, ∀ k, evalText cc (n + k) src = .value t out
    | .error e out => ∃ n, ∀ k, evalText cc (n + k) src = .error e out
    | .fault _ => False
    | _ => True :=
  eval_text6_checked cc src ast r bc hp
    (src6TopNF_up ast hs (ParsedFloats.parse_allLitF cc src ast hp)) hc F

/-! ## what the shape check excludes, and what it accepts (kernel-evaluated) -/

/-- `functie f() { functie() {} }`: a function literal nested in a function body is rejected -/
example : src6TopNF (.cons (.expr (.func "f".toList [] (.cons (.expr (.func [] [] .nil)) .nil))) .nil) = false := by decide

/-- `stel a = [functie() {}]`: a function literal anywhere but directly as a top-level definition is rejected -/
example : src6TopNF (.cons (.letS "a".toList (.arr (.cons (.func [] [] .nil) .nil))) .nil) = false := by decide

/-- `zolang ja { 1 + als ja { stop } }`: `stop` under a pending operand (the `1` already on the stack) is rejected … -/
example : src6TopNF (.cons (.expr (.whileE (.bool true)
    (.cons (.expr (.infix (.int 1) .add (.ifE (.bool true) (.cons .brk .nil) .none))) .nil))) .nil) = false := by decide

/-- … while `zolang ja { als ja { stop } + 1 }` (nothing pending yet) and plain `zolang ja { als ja { stop } }` pass -/
example : src6TopNF (.cons (.expr (.whileE (.bool true)
    (.cons (.expr (.infix (.ifE (.bool true) (.cons .brk .nil) .none) .add (.int 1))) .nil))) .nil) = true := by decide

/-- `stop` / `volgende` outside a loop are rejected -/
example : src6TopNF (.cons .brk .nil) = false ∧ src6TopNF (.cons .cont .nil) = false := by decide

/-- `antwoord 1` at top level is rejected (inside a function body it is accepted, see below) -/
example : src6TopNF (.cons (.ret (.int 1)) .nil) = false := by decide

/-- `1 = 2`: an assignment whose target is neither a name nor an index expression is rejected (the compiler rejects
    it too) -/
example : src6TopNF (.cons (.expr (.assign (.int 1) (.int 2))) .nil) = false := by decide

/-- every other construct once:
    `functie f(x) { antwoord x + 1 }; stel g = functie(y) { als y < 0 { antwoord -y }; antwoord y };
     stel a = [1, 2.5, "s", ja]; a[0] = f(a[0]); stel i = 0;
     zolang i < 3 { i = i + 1; als i == 2 { volgende } anders { { print(g(i)) } }; als !(i < 3) { stop } }; lengte(a)` -/
def synEx : Block :=
  .cons (.expr (.func "f".toList ["x".toList] (.cons (.ret (.infix (.ident "x".toList) .add (.int 1))) .nil)))
  (.cons (.letS "g".toList (.func [] ["y".toList]
      (.cons (.expr (.ifE (.infix (.ident "y".toList) .lt (.int 0)) (.cons (.ret (.pre .sub (.ident "y".toList))) .nil) .none))
      (.cons (.ret (.ident "y".toList)) .nil))))
  (.cons (.letS "a".toList (.arr (.cons (.int 1) (.cons (.float 0x4004000000000000) (.cons (.str "s".toList) (.cons (.bool true) .nil))))))
  (.cons (.expr (.assign (.index (.ident "a".toList) (.int 0)) (.call (.ident "f".toList) (.cons (.index (.ident "a".toList) (.int 0)) .nil))))
  (.cons (.letS "i".toList (.int 0))
  (.cons (.expr (.whileE (.infix (.ident "i".toList) .lt (.int 3))
    (.cons (.expr (.assign (.ident "i".toList) (.infix (.ident "i".toList) .add (.int 1))))
    (.cons (.expr (.ifE (.infix (.ident "i".toList) .eq (.int 2)) (.cons .cont .nil)
        (.some (.cons (.block (.cons (.expr (.call (.ident "print".toList)
          (.cons (.call (.ident "g".toList) (.cons (.ident "i".toList) .nil)) .nil))) .nil)) .nil))))
    (.cons (.expr (.ifE (.pre .not (.infix (.ident "i".toList) .lt (.int 3))) (.cons .brk .nil) .none)) .nil)))))
  (.cons (.expr (.call (.ident "lengte".toList) (.cons (.ident "a".toList) .nil))) .nil))))))

example : src6TopNF synEx = true := by decide

/-- it also compiles, so `eval_text6_syntactic` is not vacuous on trees of this shape (evaluated by the kernel's own
    reduction, `decide +kernel`: no compiler, no extra axiom; the elaborator's `whnf` is too slow on this size) -/
example : (match compileProgram synEx with | .ok _ => true | .error _ => false) = true := by decide +kernel

/-- the ONLY difference to `src6Top`: a tree with a negative-zero or NaN "literal" (no text parses to one) passes the
    shape check and fails the full one -/
example : src6TopNF (.cons (.expr (.float 0x8000000000000000)) .nil) = true
    ∧ src6Top (.cons (.expr (.float 0x8000000000000000)) .nil) = false
    ∧ src6TopNF (.cons (.expr (.float 0x7FF8000000000000)) .nil) = true
    ∧ src6Top (.cons (.expr (.float 0x7FF8000000000000)) .nil) = false := by decide

end Sim6

namespace SimH

/-- stage 5 (no user functions at all): the example program of `ResolveHeap` passes the shape check; `stop` outside a
    loop, `stop` under a pending operand, a function literal, `antwoord`, and a call of a non-builtin are rejected -/
example : inSourceHNF heapSrcEx = true := by decide

example : inSourceHNF (.cons .brk .nil) = false
    ∧ inSourceHNF (.cons (.expr (.whileE (.bool true) (.cons (.expr (.infix (.int 1) .add (.ifE (.bool true) (.cons .brk .nil) .none))) .nil))) .nil) = false
    ∧ inSourceHNF (.cons (.expr (.func [] [] .nil)) .nil) = false
    ∧ inSourceHNF (.cons (.ret (.int 1)) .nil) = false
    ∧ inSourceHNF (.cons (.expr (.call (.ident "f".toList) .nil)) .nil) = false := by decide

end SimH
end Nl
