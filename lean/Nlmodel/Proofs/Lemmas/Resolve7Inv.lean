/- Stage 7, property R1 of the resolver: the invariant on the resolver state for contexts nested to any depth
   (`[current, enclosing functions.., global]`; the resolver looks at the current and at the global one only). -/
import Nlmodel.Proofs.Lemmas.Sim7Check
import Nlmodel.Proofs.Lemmas.Resolve6Top
namespace Nl
namespace Sim7
open Spec Sim Sim6
open SimF (FT FnInfo paramScope paramScopeFrom LEq Scs lim gamOf lamOf msOf RefOK nonBuiltin fnEnter fnExit)

/-- the resolver state at top level (`fn = false`: one global context with scopes `scs`) and inside a function body
    (`fn = true`: a local context with scopes `scs`, on top of the contexts `mid` of the enclosing functions — which the
    resolver never looks at —, on top of the global context with scopes `gscs`) -/
structure RInv7 (mid : List Ctx) (fn : Bool) (st : RState) (scs gscs : Scs) : Prop where
  shapeF : fn = false → ∃ ms, st.ctxs = [{ isGlobal := true, maxSize := ms, scopes := scs }]
  shapeT : fn = true → ∃ ms gms, st.ctxs = { isGlobal := false, maxSize := ms, scopes := scs } ::
        (mid ++ [{ isGlobal := true, maxSize := gms, scopes := gscs }]) ∧
      scs.flatten.length ≤ ms ∧ ∀ p ∈ gscs.flatten, p.2 < st.nextId
  fresh : ∀ p ∈ scs.flatten, p.2 < st.nextId
  /-- the binders of the enclosing functions are older than the next one -/
  midf : fn = true → ∀ c ∈ mid, ∀ p ∈ c.scopes.flatten, p.2 < st.nextId

section
variable {mid : List Ctx}

theorem z7e_var {Δ nl fn Γ Λ ab} (r : Ref) (h : RefOK nl Γ Λ r) : Z7E Δ nl fn Γ Λ ab (.var r) := by
  obtain ⟨b, s⟩ := r
  cases s with
  | global k => exact .varG _ _ _ b k h
  | loc k => exact .varL _ _ _ b k h.1 h.2

theorem z7e_assign {Δ nl fn Γ Λ ab} (r : Ref) (e : RExpr) (h : RefOK nl Γ Λ r) (he : Z7E Δ nl fn Γ Λ ab e) : Z7E Δ nl fn Γ Λ ab (.assignVar r e) := by
  obtain ⟨b, s⟩ := r
  cases s with
  | global k => exact .assignG _ _ _ b k e h he
  | loc k => exact .assignL _ _ _ b k e h.1 h.2 he

theorem getLast_mid (mid : List Ctx) (g : Ctx) : (mid ++ [g]).getLast? = some g := by simp

theorem rinv7_resolve (fn : Bool) (st : RState) (scs gscs : Scs) (h : RInv7 mid fn st scs gscs) (n : Text) (r : Ref)
    (hr : st.resolve n = some r) (nl : Nat) (hnl : lim fn st ≤ nl) : RefOK nl (gamOf fn gscs scs) (lamOf fn scs) r := by
  cases fn with
  | false =>
    obtain ⟨ms, hs⟩ := h.shapeF rfl
    unfold RState.resolve at hr
    rw [hs] at hr
    simp only [Ctx.resolve, Ctx.flat] at hr
    cases hl : lookupFlat scs.flatten n with
    | none => simp [hl, List.getLast?] at hr
    | some p =>
      obtain ⟨idx, bid⟩ := p
      simp only [hl, ↓reduceIte, Option.some.injEq] at hr
      subst hr
      exact lookupFlat_slots _ n idx bid hl
  | true =>
    obtain ⟨ms, gms, hs, hle, _⟩ := h.shapeT rfl
    have hlim : ms ≤ nl := by simpa [lim, msOf, hs] using hnl
    unfold RState.resolve at hr
    rw [hs] at hr
    simp only [Ctx.resolve, Ctx.flat] at hr
    cases hl : lookupFlat scs.flatten n with
    | some p =>
      obtain ⟨idx, bid⟩ := p
      simp only [hl, Bool.false_eq_true, ↓reduceIte, Option.some.injEq] at hr
      subst hr
      have hm := lookupFlat_slots _ n idx bid hl
      have hb := (slotsOf_bounds _ _ hm).1
      exact ⟨hm, by simp only at hb; omega⟩
    | none =>
      simp only [hl, getLast_mid] at hr
      cases hg : lookupFlat gscs.flatten n with
      | none => simp [hg] at hr
      | some p =>
        obtain ⟨idx, bid⟩ := p
        simp only [hg, Option.some.injEq] at hr
        subst hr
        exact lookupFlat_slots _ n idx bid hg

theorem rinv7_enter (fn : Bool) (st : RState) (scs gscs : Scs) (h : RInv7 mid fn st scs gscs) :
    RInv7 mid fn st.enterScope ([] :: scs) gscs ∧ lim fn st.enterScope = lim fn st := by
  cases fn with
  | false =>
    obtain ⟨ms, hs⟩ := h.shapeF rfl
    have hn : st.enterScope.nextId = st.nextId := by simp [RState.enterScope, hs]
    refine ⟨⟨fun _ => ⟨ms, by simp [RState.enterScope, hs]⟩, (fun hc => by cases hc), ?_, (fun hc => by cases hc)⟩, rfl⟩
    intro p hp
    rw [hn]
    exact h.fresh p (by simpa using hp)
  | true =>
    obtain ⟨ms, gms, hs, hle, hg⟩ := h.shapeT rfl
    have hn : st.enterScope.nextId = st.nextId := by simp [RState.enterScope, hs]
    refine ⟨⟨(fun hc => by cases hc), fun _ => ⟨ms, gms, (by simp [RState.enterScope, hs]), (by simpa using hle), (by rw [hn]; exact hg)⟩, ?_,
      by rw [hn]; exact h.midf⟩, by simp [lim, msOf, RState.enterScope, hs]⟩
    intro p hp
    rw [hn]
    exact h.fresh p (by simpa using hp)

theorem rinv7_leave (fn : Bool) (st : RState) (sc : List (Text × Nat)) (scs gscs : Scs) (h : RInv7 mid fn st (sc :: scs) gscs) :
    RInv7 mid fn st.leaveScope scs gscs ∧ lim fn st.leaveScope = lim fn st := by
  cases fn with
  | false =>
    obtain ⟨ms, hs⟩ := h.shapeF rfl
    have hn : st.leaveScope.nextId = st.nextId := by simp [RState.leaveScope, hs]
    refine ⟨⟨fun _ => ⟨ms, by simp [RState.leaveScope, hs]⟩, (fun hc => by cases hc), ?_, (fun hc => by cases hc)⟩, rfl⟩
    intro p hp
    rw [hn]
    exact h.fresh p (by simp; exact Or.inr (by simpa using hp))
  | true =>
    obtain ⟨ms, gms, hs, hle, hg⟩ := h.shapeT rfl
    have hn : st.leaveScope.nextId = st.nextId := by simp [RState.leaveScope, hs]
    refine ⟨⟨(fun hc => by cases hc), fun _ => ⟨ms, gms, (by simp [RState.leaveScope, hs]), ?_, (by rw [hn]; exact hg)⟩, ?_,
      by rw [hn]; exact h.midf⟩, by simp [lim, msOf, RState.leaveScope, hs]⟩
    · simp only [List.flatten_cons, List.length_append] at hle; omega
    · intro p hp
      rw [hn]
      exact h.fresh p (by simp; exact Or.inr (by simpa using hp))

theorem rinv7_loop (fn : Bool) (st : RState) (scs gscs : Scs) (d : Nat) (h : RInv7 mid fn st scs gscs) :
    RInv7 mid fn { st with loopDepth := d } scs gscs :=
  ⟨h.shapeF, h.shapeT, h.fresh, h.midf⟩

theorem rinv7_define_refF (st : RState) (sc : List (Text × Nat)) (scs gscs : Scs) (h : RInv7 mid false st (sc :: scs) gscs) (n : Text) :
    (st.define n).2 = ⟨st.nextId, .global (sc :: scs).flatten.length⟩ := by
  obtain ⟨ms, hs⟩ := h.shapeF rfl
  unfold RState.define
  rw [hs]
  simp only [Ctx.define, Ctx.totalLen, Ctx.flat, ↓reduceIte]

theorem rinv7_define_refT (st : RState) (sc : List (Text × Nat)) (scs gscs : Scs) (h : RInv7 mid true st (sc :: scs) gscs) (n : Text) :
    (st.define n).2 = ⟨st.nextId, .loc (sc :: scs).flatten.length⟩ ∧ (st.define n).1.nextId = st.nextId + 1 := by
  obtain ⟨ms, gms, hs, _, _⟩ := h.shapeT rfl
  unfold RState.define
  rw [hs]
  simp only [Ctx.define, Ctx.totalLen, Ctx.flat, Bool.false_eq_true, ↓reduceIte, and_self]

/-- the slot and the binder a definition hands out are new -/
theorem rinv7_fresh_slot (fn : Bool) (st : RState) (sc : List (Text × Nat)) (scs gscs : Scs) (h : RInv7 mid fn st (sc :: scs) gscs) :
    ∀ p ∈ G (sc :: scs), p.1 ≠ st.nextId ∧ p.2 ≠ (sc :: scs).flatten.length := by
  intro p hp
  obtain ⟨h1, m, h2⟩ := slotsOf_bounds _ p hp
  have := h.fresh (m, p.1) h2
  simp only at this
  exact ⟨by omega, by omega⟩

/-- a definition: the state afterwards -/
theorem rinv7_define (fn : Bool) (st : RState) (sc : List (Text × Nat)) (scs gscs : Scs) (h : RInv7 mid fn st (sc :: scs) gscs) (n : Text) :
    RInv7 mid fn (st.define n).1 (((n, st.nextId) :: sc) :: scs) gscs := by
  have hfresh' : ∀ p ∈ (((n, st.nextId) :: sc) :: scs).flatten, p.2 < st.nextId + 1 := by
    intro p hp
    simp only [List.flatten_cons, List.cons_append, List.mem_cons] at hp
    rcases hp with rfl | hp
    · simp
    · have := h.fresh p (by simpa using hp); omega
  have hmid' : fn = true → ∀ c ∈ mid, ∀ p ∈ c.scopes.flatten, p.2 < st.nextId + 1 := fun hfn c hc p hp => by have := h.midf hfn c hc p hp; omega
  cases fn with
  | false =>
    obtain ⟨ms, hs⟩ := h.shapeF rfl
    have hd : st.define n = ({ st with ctxs := [{ isGlobal := true, maxSize := ms + 1, scopes := ((n, st.nextId) :: sc) :: scs }], nextId := st.nextId + 1 },
        ⟨st.nextId, .global (sc :: scs).flatten.length⟩) := by
      unfold RState.define
      rw [hs]
      simp only [Ctx.define, Ctx.totalLen, Ctx.flat, ↓reduceIte]
    rw [hd]
    exact ⟨fun _ => ⟨ms + 1, rfl⟩, (fun hc => by cases hc), hfresh', hmid'⟩
  | true =>
    obtain ⟨ms, gms, hs, hle, hg⟩ := h.shapeT rfl
    have hd : st.define n = ({ st with ctxs := { isGlobal := false, maxSize := ms + 1, scopes := ((n, st.nextId) :: sc) :: scs } ::
          (mid ++ [{ isGlobal := true, maxSize := gms, scopes := gscs }]), nextId := st.nextId + 1 },
        ⟨st.nextId, .loc (sc :: scs).flatten.length⟩) := by
      unfold RState.define
      rw [hs]
      simp only [Ctx.define, Ctx.totalLen, Ctx.flat, Bool.false_eq_true, ↓reduceIte]
    rw [hd]
    refine ⟨(fun hc => by cases hc), fun _ => ⟨ms + 1, gms, rfl, ?_, ?_⟩, hfresh', hmid'⟩
    · simp only [List.flatten_cons, List.cons_append, List.length_cons, List.length_append] at hle ⊢; omega
    · intro p hp; have := hg p hp; simp only; omega

/-- a `stel` in the fragment -/
theorem rinv7_define_rule (fn : Bool) (st : RState) (sc : List (Text × Nat)) (scs gscs : Scs) (h : RInv7 mid fn st (sc :: scs) gscs) (n : Text) (Δ : Gam) :
    ∀ (nl : Nat) (ab : Bool) (e : RExpr), lim fn (st.define n).1 ≤ nl →
      Z7E Δ nl fn (gamOf fn gscs (((n, st.nextId) :: sc) :: scs)) (lamOf fn (((n, st.nextId) :: sc) :: scs)) ab e →
      Z7S Δ nl fn (gamOf fn gscs (sc :: scs)) (lamOf fn (sc :: scs)) ab (.letS (st.define n).2 e)
        (gamOf fn gscs (((n, st.nextId) :: sc) :: scs)) (lamOf fn (((n, st.nextId) :: sc) :: scs)) := by
  have hfs := rinv7_fresh_slot fn st sc scs gscs h
  cases fn with
  | false =>
    rw [rinv7_define_refF st sc scs gscs h n]
    intro nl ab e _ he
    have he' : Z7E Δ nl false ((st.nextId, (sc :: scs).flatten.length) :: G (sc :: scs)) [] ab e := by
      simpa [gamOf, lamOf, G, slotsOf] using he
    have := Z7S.letG (Δ := Δ) (G (sc :: scs)) [] ab st.nextId (sc :: scs).flatten.length e rfl hfs he'
    simpa [gamOf, lamOf, G, slotsOf] using this
  | true =>
    obtain ⟨ms, gms, hs, hle, hg⟩ := h.shapeT rfl
    have hms : msOf (st.define n).1 = ms + 1 := by
      unfold RState.define
      rw [hs]
      simp only [Ctx.define, msOf]
    rw [(rinv7_define_refT st sc scs gscs h n).1]
    intro nl ab e hnl he
    have hk : (sc :: scs).flatten.length < nl := by
      simp only [lim, hms] at hnl
      simp only [List.flatten_cons, List.length_append] at hle ⊢; omega
    have he' : Z7E Δ nl true (G gscs) ((st.nextId, (sc :: scs).flatten.length) :: G (sc :: scs)) ab e := by
      simpa [gamOf, lamOf, G, slotsOf] using he
    have := Z7S.letL (Δ := Δ) (G gscs) (G (sc :: scs)) ab st.nextId (sc :: scs).flatten.length e rfl hfs hk he'
    simpa [gamOf, lamOf, G, slotsOf] using this

/-- defining the parameters: slots `len..len+n-1` of the (single) scope of the fresh local context, fresh binders -/
theorem rinv7_params : ∀ (ps : List Text) (st : RState) (sc : List (Text × Nat)) (gscs : Scs), RInv7 mid true st [sc] gscs →
    ∃ sc', RInv7 mid true (defineParams st ps).1 [sc'] gscs ∧
      LEq (G [sc']) (paramScopeFrom sc.length (defineParams st ps).2 ++ G [sc]) ∧
      sc'.length = sc.length + ps.length ∧
      GamOK (paramScopeFrom sc.length (defineParams st ps).2) ∧
      ∀ p ∈ paramScopeFrom sc.length (defineParams st ps).2, sc.length ≤ p.2 ∧ p.2 < sc.length + ps.length ∧ st.nextId ≤ p.1
  | [], st, sc, gscs, h => by
    refine ⟨sc, h, ?_, rfl, ?_, ?_⟩
    · simp only [defineParams, paramScopeFrom, List.nil_append]; exact LEq.refl _
    · simp [defineParams, paramScopeFrom, GamOK]
    · intro p hp; simp [defineParams, paramScopeFrom] at hp
  | p :: ps, st, sc, gscs, h => by
    have h1 := rinv7_define true st sc [] gscs h p
    obtain ⟨href, hnid⟩ := rinv7_define_refT st sc [] gscs h p
    obtain ⟨sc', h2, hleq, hlen, hok, hbd⟩ := rinv7_params ps (st.define p).1 ((p, st.nextId) :: sc) gscs h1
    have hpids : (defineParams st (p :: ps)).2 = st.nextId :: (defineParams (st.define p).1 ps).2 := by
      simp only [defineParams, href]
    have hst : (defineParams st (p :: ps)).1 = (defineParams (st.define p).1 ps).1 := by
      simp only [defineParams]
    rw [hpids, hst]
    simp only [List.length_cons] at hleq hlen hok hbd
    refine ⟨sc', h2, ?_, by simp only [List.length_cons]; omega, ?_, ?_⟩
    · intro q
      rw [hleq q]
      simp only [paramScopeFrom, G, List.flatten_cons, List.flatten_nil, List.append_nil, slotsOf, List.mem_append, List.mem_cons]
      constructor
      · rintro (h' | h' | h')
        · exact .inl (.inr h')
        · exact .inl (.inl h')
        · exact .inr h'
      · rintro ((h' | h') | h')
        · exact .inr (.inl h')
        · exact .inl h'
        · exact .inr (.inr h')
    · simp only [paramScopeFrom]
      refine gamOK_cons hok _ _ ?_
      intro q hq
      have := hbd q hq
      omega
    · intro q hq
      simp only [paramScopeFrom, List.mem_cons] at hq
      rcases hq with rfl | hq
      · simp only [List.length_cons]; omega
      · have := hbd q hq
        simp only [List.length_cons]; omega

end
end Sim7
end Nl
