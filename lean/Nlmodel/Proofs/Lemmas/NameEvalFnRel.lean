/- NameEvalFn vs Spec.eval on the resolver's output (C09, stage-4 fragment): the relations.
   Values: a name-side function value corresponds to the resolver's output for the same literal.
   Environments: named scopes vs the resolver's scopes (name ↦ binder id) + `genv` / `lenv`. -/
import Nlmodel.Spec.NameEvalFn
import Nlmodel.Proofs.Lemmas.NameEvalBase
import Nlmodel.Proofs.Lemmas.NameEvalFnCount
namespace Nl
namespace NameEvalFn
open Spec SimF
open NameEval (All2 findBid bids)

/-- the top-level scope of the resolver's global context = the last scope -/
def topOf : Scs → List (Text × Nat)
  | [] => []
  | [g] => g
  | _ :: gs => topOf gs

/-- values: scalars are equal; a function value of the name side (id, number of visible top-level names, parameter names,
    body SOURCE) corresponds to the resolver's output for that literal read at top level in the scope `sc1`, where
    `sc1` is (still) the oldest part of the top-level scope `G` -/
inductive VRel (G : List (Text × Nat)) : NVal → SVal → Prop where
  | null : VRel G .null .null
  | bool (b : Bool) : VRel G (.bool b) (.bool b)
  | int (i : Int) : VRel G (.int i) (.int i)
  | float (x : UInt64) : VRel G (.float x) (.float x)
  | fn (st1 : RState) (sc1 : List (Text × Nat)) (F : Nat) (ps : List Text) (body : Block) (rb : RBlock) (st4 : RState) :
      RInv false st1 [sc1] [] F → SrcB true false body →
      resolveB body (defineParams (fnEnter st1) ps).1 = .ok (rb, st4) → sc1 <:+ G →
      VRel G (.fn F sc1.length ps body) (.fn F (defineParams (fnEnter st1) ps).2 (msOf st4) rb)

/-- optional values: `none` = declared, no value yet -/
def ORel (G : List (Text × Nat)) : Option SVal → Option NVal → Prop
  | none, none => True
  | some w, some v => VRel G v w
  | _, _ => False

/-- a named binding and the resolver's entry at the same position: same name, and the binder's value in `env` corresponds -/
def RBv (G : List (Text × Nat)) (env : List (Nat × SVal)) (p : Text × Option NVal) (q : Text × Nat) : Prop :=
  p.1 = q.1 ∧ ORel G (envGet env q.2) p.2

abbrev RelSc (G : List (Text × Nat)) (env : List (Nat × SVal)) (sc : Scope) (sc' : List (Text × Nat)) : Prop :=
  All2 (RBv G env) sc sc'
abbrev RelS (G : List (Text × Nat)) (env : List (Nat × SVal)) (ρs : List Scope) (scs : Scs) : Prop :=
  All2 (RelSc G env) ρs scs

/-- the global part of the state relation; `T` = the resolver's scopes of the GLOBAL context at this point of the run -/
structure RGl (T : Scs) (ρ : FState) (σ : SState) (N : Nat) : Prop where
  glob : RelS (topOf T) σ.genv ρ.globals T
  ndT : (bids T).Nodup
  neT : T ≠ []
  last : VRel (topOf T) ρ.last σ.last
  out : ρ.out = σ.out
  nfun : ρ.nfun = N

/-- the activation part: at top level there is none; in a body the activation's scopes correspond to the resolver's
    scopes `scs` of the function's context through `lenv`, and the body sees the part `gsc` of the top-level scope -/
def RLoc (fn : Bool) (T : Scs) (ρ : FState) (scs gscs : Scs) (σ : SState) : Prop :=
  match fn with
  | false => ρ.vis = none ∧ ρ.locals = []
  | true => ∃ gsc, gscs = [gsc] ∧ ρ.vis = some gsc.length ∧ RelS (topOf T) σ.lenv ρ.locals scs ∧ gsc <:+ topOf T ∧
      (bids scs).Nodup

/-- the global context's scopes: at top level they are the current scopes, in a body they are fixed (`Tb`) -/
def TT (fn : Bool) (scs Tb : Scs) : Scs :=
  match fn with
  | false => scs
  | true => Tb

structure R (fn : Bool) (ρ : FState) (scs gscs Tb : Scs) (σ : SState) (N : Nat) : Prop where
  g : RGl (TT fn scs Tb) ρ σ N
  l : RLoc fn (TT fn scs Tb) ρ scs gscs σ

/-- same kind of result, corresponding values, states related (`P` after normal completion, `Q` after `stop`/`volgende`,
    `Rt` after `antwoord`), same output after an error; `.fuel` iff `.fuel`, `.unspec` iff `.unspec` -/
inductive RelG {α β : Type} (V : α → β → Prop) (VR : NVal → SVal → Prop) (P Q Rt : FState → SState → Prop) : FRes α → Res β → Prop where
  | val (a : α) (b : β) (ρ : FState) (σ : SState) : V a b → P ρ σ → RelG V VR P Q Rt (.val a ρ) (.val b σ)
  | brk (ρ : FState) (σ : SState) : Q ρ σ → RelG V VR P Q Rt (.brk ρ) (.brk σ)
  | cont (ρ : FState) (σ : SState) : Q ρ σ → RelG V VR P Q Rt (.cont ρ) (.cont σ)
  | ret (v : NVal) (w : SVal) (ρ : FState) (σ : SState) : VR v w → Rt ρ σ → RelG V VR P Q Rt (.ret v ρ) (.ret w σ)
  | err (e : Err) (ρ : FState) (σ : SState) : ρ.out = σ.out → RelG V VR P Q Rt (.err e ρ) (.err e σ)
  | unspec (ρ : FState) (σ : SState) : RelG V VR P Q Rt (.unspec ρ) (.unspec σ)
  | fuel : RelG V VR P Q Rt .fuel .fuel

end NameEvalFn
end Nl
