/- The function constants of the pool have pairwise different entries. -/
import Nlmodel.Proofs.Lemmas.PoolFn
namespace Nl
namespace CV
open Verifier Sim

/-- one locals count per entry -/
def Fun (cs : List Const) : Prop := ∀ ip n1 n2, Const.fn ip n1 ∈ cs → Const.fn ip n2 ∈ cs → n1 = n2
/-- all entries lie before `p` -/
def Below (cs : List Const) (p : Nat) : Prop := ∀ ip nl, Const.fn ip nl ∈ cs → ip < p

theorem Below.mono {cs : List Const} {p q : Nat} (h : Below cs p) (hle : p ≤ q) : Below cs q :=
  fun ip nl hm => Nat.lt_of_lt_of_le (h ip nl hm) hle

theorem belowE (e : RExpr) (pos lp cs) (h : Below cs pos) : Below (emitE e pos lp cs).2 (pos + sizeE e) := by
  intro ip nl hm
  rcases poolE e pos lp cs ip nl hm with h1 | h1
  · have := h ip nl h1; omega
  · have := h1.2.1; omega
theorem belowEs (e : RExprs) (pos lp cs) (h : Below cs pos) : Below (emitEs e pos lp cs).2 (pos + sizeEs e) := by
  intro ip nl hm
  rcases poolEs e pos lp cs ip nl hm with h1 | h1
  · have := h ip nl h1; omega
  · have := h1.2.1; omega
theorem belowS (e : RStmt) (pos lp cs) (h : Below cs pos) : Below (emitS e pos lp cs).2 (pos + sizeS e) := by
  intro ip nl hm
  rcases poolS e pos lp cs ip nl hm with h1 | h1
  · have := h ip nl h1; omega
  · have := h1.2.1; omega
theorem belowB (e : RBlock) (pos lp cs) (h : Below cs pos) : Below (emitB e pos lp cs).2 (pos + sizeB e) := by
  intro ip nl hm
  rcases poolB e pos lp cs ip nl hm with h1 | h1
  · have := h ip nl h1; omega
  · have := h1.2.1; omega

theorem fun_addConst (cs : List Const) (y : Const) (hf : Fun cs) (hy : ∀ ip nl, y ≠ .fn ip nl) : Fun (addConst cs y).1 := by
  intro ip n1 n2 h1 h2
  rcases addConst_mem _ _ _ h1 with h1 | h1
  · rcases addConst_mem _ _ _ h2 with h2 | h2
    · exact hf ip n1 n2 h1 h2
    · exact absurd h2.symm (hy _ _)
  · exact absurd h1.symm (hy _ _)

mutual
theorem funE : (e : RExpr) → ∀ (pos : Nat) (lp : LoopCtx) (cs : List Const), Fun cs → Below cs pos →
    Fun (emitE e pos lp cs).2
  | .int v, pos, lp, cs, hf, hb => by simp only [emitE]; exact fun_addConst _ _ hf (by intro _ _ h; cases h)
  | .float v, pos, lp, cs, hf, hb => by simp only [emitE]; exact fun_addConst _ _ hf (by intro _ _ h; cases h)
  | .str v, pos, lp, cs, hf, hb => by simp only [emitE]; exact fun_addConst _ _ hf (by intro _ _ h; cases h)
  | .bool b, pos, lp, cs, hf, hb => by simp only [emitE]; exact hf
  | .var r, pos, lp, cs, hf, hb => by simp only [emitE]; exact hf
  | .not r, pos, lp, cs, hf, hb => by simp only [emitE]; exact funE r pos lp cs hf hb
  | .neg r, pos, lp, cs, hf, hb => by simp only [emitE]; exact funE r pos lp cs hf hb
  | .assignVar r e, pos, lp, cs, hf, hb => by simp only [emitE]; exact funE e pos lp cs hf hb
  | .assignIndex l i v, pos, lp, cs, hf, hb => by
    simp only [emitE]
    have f1 := funE l pos lp cs hf hb
    have b1 := belowE l pos lp cs hb
    have f2 := funE i _ lp _ f1 b1
    have b2 := belowE i _ lp _ b1
    exact funE v _ lp _ f2 b2
  | .infix l op r, pos, lp, cs, hf, hb => by
    simp only [emitE]
    cases hfc : fusedCandidate l op r with
    | some p => obtain ⟨op', k, v⟩ := p; exact fun_addConst _ _ hf (by intro _ _ h; cases h)
    | none =>
      have f1 := funE l pos lp cs hf hb
      have b1 := belowE l pos lp cs hb
      exact funE r _ lp _ f1 b1
  | .index l i, pos, lp, cs, hf, hb => by
    simp only [emitE]
    have f1 := funE l pos lp cs hf hb
    have b1 := belowE l pos lp cs hb
    exact funE i _ lp _ f1 b1
  | .call f as, pos, lp, cs, hf, hb => by
    simp only [emitE]
    have f1 := funEs as pos lp cs hf hb
    have b1 := belowEs as pos lp cs hb
    exact funE f _ lp _ f1 b1
  | .callBuiltin b as, pos, lp, cs, hf, hb => by simp only [emitE]; exact funEs as pos lp cs hf hb
  | .arr vs, pos, lp, cs, hf, hb => by simp only [emitE]; exact funEs vs pos lp cs hf hb
  | .ifE cnd t e, pos, lp, cs, hf, hb => by
    simp only [emitE]
    have hle := sizeB_le_BV t
    have f1 := funE cnd pos lp cs hf hb
    have b1 := (belowE cnd pos lp cs hb).mono (Nat.le_add_right _ 3)
    have f2 := funB t _ lp _ f1 b1
    have b2 := belowB t _ lp _ b1
    exact funO e _ lp _ f2 (b2.mono (by omega))
  | .whileE cnd b, pos, lp, cs, hf, hb => by
    simp only [emitE]
    have hb' := hb.mono (Nat.le_add_right pos 1)
    have f1 := funE cnd _ (some (pos + 1, pos + 1 + sizeE cnd + 4 + sizeBV b + 3)) cs hf hb'
    have b1 := (belowE cnd _ (some (pos + 1, pos + 1 + sizeE cnd + 4 + sizeBV b + 3)) cs hb').mono (Nat.le_add_right _ 4)
    exact funB b _ _ _ f1 b1
  | .func fid self ps nlf body, pos, lp, cs, hf, hb => by
    simp only [emitE]
    have hb' := hb.mono (Nat.le_add_right pos 3)
    have f1 := funB body _ none cs hf hb'
    have key : ∀ n, Const.fn (pos + 3) n ∈ (emitB body (pos + 3) none cs).2 → False := by
      intro n hm
      rcases poolB body _ none cs _ n hm with h | h
      · have := hb _ _ h; omega
      · have := h.1; omega
    intro ip n1 n2 h1 h2
    rcases addConst_mem _ _ _ h1 with a1 | a1
    · rcases addConst_mem _ _ _ h2 with a2 | a2
      · exact f1 ip n1 n2 a1 a2
      · simp only [Const.fn.injEq] at a2
        obtain ⟨e1, e2⟩ := a2
        subst e1
        exact (key _ a1).elim
    · simp only [Const.fn.injEq] at a1
      obtain ⟨e1, e2⟩ := a1
      subst e1
      rcases addConst_mem _ _ _ h2 with a2 | a2
      · exact (key _ a2).elim
      · simp only [Const.fn.injEq] at a2
        omega
theorem funEs : (es : RExprs) → ∀ (pos : Nat) (lp : LoopCtx) (cs : List Const), Fun cs → Below cs pos →
    Fun (emitEs es pos lp cs).2
  | .nil, pos, lp, cs, hf, hb => by simp only [emitEs]; exact hf
  | .cons e es, pos, lp, cs, hf, hb => by
    simp only [emitEs]
    exact funEs es _ lp _ (funE e pos lp cs hf hb) (belowE e pos lp cs hb)
theorem funS : (s : RStmt) → ∀ (pos : Nat) (lp : LoopCtx) (cs : List Const), Fun cs → Below cs pos →
    Fun (emitS s pos lp cs).2
  | .expr e, pos, lp, cs, hf, hb => by simp only [emitS]; exact funE e pos lp cs hf hb
  | .letS r e, pos, lp, cs, hf, hb => by simp only [emitS]; exact funE e pos lp cs hf hb
  | .ret e, pos, lp, cs, hf, hb => by simp only [emitS]; exact funE e pos lp cs hf hb
  | .block b, pos, lp, cs, hf, hb => by simp only [emitS]; exact funB b pos lp cs hf hb
  | .brk, pos, lp, cs, hf, hb => by simp only [emitS]; exact hf
  | .cont, pos, lp, cs, hf, hb => by simp only [emitS]; exact hf
theorem funB : (b : RBlock) → ∀ (pos : Nat) (lp : LoopCtx) (cs : List Const), Fun cs → Below cs pos →
    Fun (emitB b pos lp cs).2
  | .nil, pos, lp, cs, hf, hb => by simp only [emitB]; exact hf
  | .cons s b, pos, lp, cs, hf, hb => by
    simp only [emitB]
    exact funB b _ lp _ (funS s pos lp cs hf hb) (belowS s pos lp cs hb)
theorem funO : (x : ROptBlock) → ∀ (pos : Nat) (lp : LoopCtx) (cs : List Const), Fun cs → Below cs pos →
    Fun (emitO x pos lp cs).2
  | .none, pos, lp, cs, hf, hb => by simp only [emitO]; exact hf
  | .some b, pos, lp, cs, hf, hb => by simp only [emitO]; exact funB b pos lp cs hf hb
end

/-- `nlocals` finds the locals count of every function constant -/
theorem fnTab_of_fun (F : List Const) (hf : Fun F) : FnTab F := by
  intro ip nl hm
  unfold nlocals
  have hmem : (ip, nl) ∈ fnTable F := by
    unfold fnTable
    rw [List.mem_filterMap]
    exact ⟨.fn ip nl, hm, rfl⟩
  cases hfind : (fnTable F).find? (fun p => p.1 == ip) with
  | none =>
    have := List.find?_eq_none.mp hfind (ip, nl) hmem
    simp at this
  | some p =>
    have hp := List.find?_some hfind
    have hpm := List.mem_of_find?_eq_some hfind
    simp only [beq_iff_eq] at hp
    unfold fnTable at hpm
    rw [List.mem_filterMap] at hpm
    obtain ⟨x, hx, hxe⟩ := hpm
    cases x with
    | fn a b =>
      simp only [Option.some.injEq] at hxe
      subst hxe
      simp only at hp
      subst hp
      exact hf _ _ _ hx hm
    | int _ => simp at hxe
    | float _ => simp at hxe
    | str _ => simp at hxe

end CV
end Nl
