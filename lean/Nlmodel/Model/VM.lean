/-
  Model of `src/vm.rs` (after the repairs): one `step` per executed instruction, on a flat operand
  stack with the base-pointer arithmetic of the code.  Results are disjoint:
    `next`  – the machine continues,
    `halt`  – `Halt` reached, the value of `final_result`,
    `error` – a language-level error value (one of the five kinds),
    `fault` – an access the Rust code performs unchecked or by panicking (what C02 excludes).
-/
import Nlmodel.Model.Bytecode
import Nlmodel.Model.GC
namespace Nl

/-- compile-time constants (`Bytecode::constants`) -/
inductive Const where
  | int (i : Int) | float (bits : UInt64) | str (s : Text) | fn (ip : Nat) (nl : Nat)
  deriving Repr, Inhabited, DecidableEq

structure Bytecode where
  code : Code
  consts : List Const
  deriving Inhabited

structure Frame where
  ip : Nat
  bp : Nat
  deriving Repr, Inhabited, DecidableEq

structure VM where
  stack : Array Value := #[]
  globals : Array Value := #[]
  /-- suspended callers, most recent first (`frames` of vm.rs without its last element) -/
  frames : List Frame := []
  /-- number of suspended callers, `frames.length` (kept beside the list so that the frame-limit test of `Call`
      costs O(1); `Proofs/C12: C12_depth_is_frames`) -/
  depth : Nat := 0
  ip : Nat := 0
  bp : Nat := 0
  mem : Mem := {}
  /-- `final_result` -/
  last : Value := .null
  out : List Text := []
  /-- the constants as values (heap constants are boxes traced by the run's collector) -/
  cvals : Array Value := #[]
  deriving Inhabited

inductive Step where
  | next (s : VM)
  | halt (v : Value) (s : VM)
  | error (e : Err) (s : VM)
  | fault (site : String)
  deriving Inhabited

def STACK_LIMIT : Nat := 65535

def indexGet (left index : Value) (m : Mem) : Except Err (Value × Mem) :=
  match index with
  | .int i =>
    match left with
    | .arr a =>
      let vs := m.heap.arrAt a
      match normIndex vs.length i with
      | some k => .ok (vs.getD k .null, m)
      | none => .error .index
    | .str a =>
      let s := m.heap.strAt a
      match normIndex s.length i with
      | some k =>
        let (m', v) := m.allocStr [s.getD k ' ']
        .ok (v, m')
      | none => .error .index
    | _ => .error .type
  | _ => .error .type

def indexSet (left index value : Value) (m : Mem) : Except Err (Value × Mem) :=
  match index with
  | .int i =>
    match left with
    | .arr a =>
      let vs := m.heap.arrAt a
      match normIndex vs.length i with
      | some k => .ok (value, { m with heap := m.heap.set a (.arr (vs.set k value)) })
      | none => .error .index
    | .str a =>
      let s := m.heap.strAt a
      match normIndex s.length i with
      | some k =>
        match value with
        | .str b =>
          let r := m.heap.strAt b
          .ok (value, { m with heap := m.heap.set a (.str (s.take k ++ r ++ s.drop (k + 1))) })
        | _ => .error .type
      | none => .error .index
    | _ => .error .type
  | _ => .error .type

/-- the roots passed to `gc.run` at a return -/
def VM.roots (s : VM) (extra : List Value) : List Value :=
  s.stack.toList ++ s.cvals.toList ++ s.globals.toList ++ extra

/-- `popframe` followed by the collection and the push of the result -/
def doReturn (s : VM) (result : Value) (extra : List Value) : Step :=
  match s.frames with
  | [] => .fault "popframe"
  | fr :: rest =>
    if s.stack.size < s.bp then .fault "popframe-truncate" else
    let s1 : VM := { s with stack := s.stack.extract 0 s.bp, frames := rest, depth := s.depth - 1, ip := fr.ip, bp := fr.bp }
    -- `GC::run` returns at once when it manages nothing; the roots are only collected otherwise
    let m := if s1.mem.managed.isEmpty then s1.mem else GC.run s1.mem (s1.roots extra)
    .next { s1 with mem := m, stack := s1.stack.push result }

def pop1 (st : Array Value) : Option (Value × Array Value) :=
  match st.back? with
  | some v => some (v, st.pop)
  | none => none

/-- pop `n` values; result in stack order (deepest first), as `args.reverse()` leaves them -/
def popN (st : Array Value) (n : Nat) : Option (List Value × Array Value) :=
  if n ≤ st.size then some ((st.extract (st.size - n) st.size).toList, st.extract 0 (st.size - n))
  else none

/-- execute the decoded instruction `i`; `ip'` is the offset of the next instruction -/
def exec (i : Instr) (ip' : Nat) (s : VM) : Step :=
  let s : VM := { s with ip := ip' }
  match i with
  | .const k =>
    match s.cvals[k]? with
    | none => .fault "const-index"
    | some (.str a) =>
      -- F26: a string literal evaluates to a fresh string
      let (m, v) := s.mem.allocStr (s.mem.heap.strAt a)
      .next { s with mem := m, stack := s.stack.push v }
    | some v => .next { s with stack := s.stack.push v }
  | .setGlobal k =>
    match pop1 s.stack with
    | none => .fault "pop"
    | some (v, st) =>
      let g := if s.globals.size ≤ k then s.globals ++ Array.replicate (k + 1 - s.globals.size) .null else s.globals
      .next { s with stack := st, globals := g.setIfInBounds k v }
  | .getGlobal k => .next { s with stack := s.stack.push (s.globals.getD k .null) }
  | .setLocal k =>
    match pop1 s.stack with
    | none => .fault "pop"
    | some (v, st) =>
      if s.bp + k < st.size then .next { s with stack := st.setIfInBounds (s.bp + k) v }
      else .fault "set-local"
  | .getLocal k =>
    match s.stack[s.bp + k]? with
    | some v => .next { s with stack := s.stack.push v }
    | none => .fault "get-local"
  | .jump t => .next { s with ip := t }
  | .jumpIfFalse t =>
    match pop1 s.stack with
    | none => .fault "pop"
    | some (.bool b, st) => .next { s with stack := st, ip := if b then ip' else t }
    | some (_, st) => .error .type { s with stack := st }
  | .pop =>
    match pop1 s.stack with
    | none => .fault "pop"
    | some (v, st) => .next { s with stack := st, last := v }
  | .null => .next { s with stack := s.stack.push .null }
  | .true_ => .next { s with stack := s.stack.push (.bool true) }
  | .false_ => .next { s with stack := s.stack.push (.bool false) }
  | .bin op =>
    match pop1 s.stack with
    | none => .fault "pop"
    | some (r, st1) =>
      match pop1 st1 with
      | none => .fault "pop"
      | some (l, st2) =>
        match binop op l r s.mem with
        | .ok (v, m) => .next { s with stack := st2.push v, mem := m }
        | .error e => .error e { s with stack := st2 }
  | .fused op loc k =>
    match s.stack[s.bp + loc]? with
    | none => .fault "get-local"
    | some l =>
      match s.cvals[k]? with
      | none => .fault "const-index"
      | some r =>
        match binop op l r s.mem with
        | .ok (v, m) => .next { s with stack := s.stack.push v, mem := m }
        | .error e => .error e s
  | .not =>
    match pop1 s.stack with
    | none => .fault "pop"
    | some (.bool b, st) => .next { s with stack := st.push (.bool (!b)) }
    | some (_, st) => .error .type { s with stack := st }
  | .negate =>
    match pop1 s.stack with
    | none => .fault "pop"
    | some (.int i, st) =>
      if inRange (-i) then .next { s with stack := st.push (.int (-i)) }
      else .error .type { s with stack := st }
    | some (.float a, st) =>
      let (m, v) := s.mem.allocFloat (F64.neg (s.mem.heap.floatAt a))
      .next { s with stack := st.push v, mem := m }
    | some (_, st) => .error .type { s with stack := st }
  | .call argc =>
    match pop1 s.stack with
    | none => .fault "pop"
    | some (.fn fip nl, st) =>
      if argc > nl then .error .argument { s with stack := st }
      else if st.size + nl > STACK_LIMIT || s.depth + 1 ≥ STACK_LIMIT then
        .error .index { s with stack := st }
      else if st.size < argc then .fault "call-base-pointer"
      else
        .next { s with stack := st ++ Array.replicate (nl - argc) .null,
                       frames := { ip := ip', bp := s.bp } :: s.frames, depth := s.depth + 1,
                       ip := fip, bp := st.size - argc }
    | some (_, st) => .error .type { s with stack := st }
  | .callBuiltin b argc =>
    match popN s.stack argc with
    | none => .fault "pop"
    | some (args, st) =>
      match Builtin.ofId b with
      | none => .fault "builtin-id"
      | some bi =>
        match callBuiltin bi args s.mem s.out with
        | .ok (v, m, out) => .next { s with stack := st.push v, mem := m, out := out }
        | .error e => .error e { s with stack := st }
  | .retv =>
    match pop1 s.stack with
    | none => .fault "pop"
    | some (v, st) => doReturn { s with stack := st } v [s.last, v]
  | .ret => doReturn s .null [s.last]
  | .array n =>
    match popN s.stack n with
    | none => .fault "pop"
    | some (vs, st) =>
      let (m, v) := s.mem.allocArr vs
      .next { s with stack := st.push v, mem := m }
  | .indexGet =>
    match pop1 s.stack with
    | none => .fault "pop"
    | some (idx, st1) =>
      match pop1 st1 with
      | none => .fault "pop"
      | some (l, st2) =>
        match indexGet l idx s.mem with
        | .ok (v, m) => .next { s with stack := st2.push v, mem := m }
        | .error e => .error e { s with stack := st2 }
  | .indexSet =>
    match pop1 s.stack with
    | none => .fault "pop"
    | some (v, st1) =>
      match pop1 st1 with
      | none => .fault "pop"
      | some (idx, st2) =>
        match pop1 st2 with
        | none => .fault "pop"
        | some (l, st3) =>
          match indexSet l idx v s.mem with
          | .ok (r, m) => .next { s with stack := st3.push r, mem := m }
          | .error e => .error e { s with stack := st3 }
  | .halt => .halt s.last s

/-- one instruction: fetch/decode at `ip`, then execute -/
def step (c : Code) (s : VM) : Step :=
  match decodeAt c s.ip with
  | none => .fault "fetch"
  | some i => exec i (s.ip + i.size) s

/-- outcome of a bounded run -/
inductive Outcome where
  | value (v : Value) (s : VM)
  | error (e : Err) (s : VM)
  | fault (site : String)
  | budget (s : VM)
  deriving Inhabited

def runSteps (c : Code) : Nat → VM → Outcome
  | 0, s => .budget s
  | n + 1, s =>
    match step c s with
    | .next s' => runSteps c n s'
    | .halt v s' => .value v s'
    | .error e s' => .error e s'
    | .fault site => .fault site

/-- materialise the constant pool: heap constants become boxes traced by the run's collector
    (`gc.maybe_trace(c)` at the start of `VM::run`) -/
def loadConsts : List Const → Mem × Array Value → Mem × Array Value
  | [], acc => acc
  | c :: cs, (m0, vs) =>
    match c with
    | .int i => loadConsts cs (m0, vs.push (.int i))
    | .fn ip nl => loadConsts cs (m0, vs.push (.fn ip nl))
    | .float b => let (m1, v) := m0.allocFloat b; loadConsts cs (m1, vs.push v)
    | .str t => let (m1, v) := m0.allocStr t; loadConsts cs (m1, vs.push v)

/-- state at the start of `VM::run(code)` on a machine whose `globals` were retained (F22: stack and
    frames are reset) -/
def VM.start (prev : VM) (bc : Bytecode) : VM :=
  let (m, cv) := loadConsts bc.consts ({ heap := prev.mem.heap, managed := [] }, #[])
  { stack := #[], globals := prev.globals, frames := [], depth := 0, ip := 0, bp := 0, mem := m,
    last := .null, out := [], cvals := cv }

/-- what happens when `run` returns: on `Halt` the result graph is handed over (`untrace`), then
    the run's collector is dropped and releases everything it still manages -/
def finishValue (v : Value) (s : VM) : VM :=
  let man := GC.untrace s.mem.heap (s.mem.managed.length + 1) s.mem.managed v
  { s with mem := GC.destroy { s.mem with managed := man } }

def finishError (s : VM) : VM := { s with mem := GC.destroy s.mem }

/-- `VM::run(code)` with an instruction budget -/
def VM.run (prev : VM) (bc : Bytecode) (budget : Nat) : Outcome :=
  match runSteps bc.code budget (prev.start bc) with
  | .value v s => .value v (finishValue v s)
  | .error e s => .error e (finishError s)
  | .budget s => .budget (finishError s)
  | .fault site => .fault site

end Nl
