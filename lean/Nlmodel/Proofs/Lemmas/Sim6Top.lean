/- Stage 6: top-level programs (statements and function definitions in sequence): layout, the constant pool
   (float constants are literals), the function table, function definition statements, the induction over
   the top-level sequence. -/
import Nlmodel.Proofs.Lemmas.Sim6Body
namespace Nl
namespace Sim6
open Spec Sim
open SimH (AMap isStrCell isArrCell Grow PoolH MemOK sameKind LitF LitPool addConst_litpool)
open SimF (FT FnInfo FTInj paramScope bigScope FDef selfTail func_layout lookupD)

/-- a top-level program laid out from position `pos` with pool `cs`; `D` collects the functions it defines -/
inductive ZTop : Gam → RBlock → Nat → List Const → Gam → List (Nat × FnInfo) → Prop where
  | nil (Γ pos cs) : ZTop Γ .nil pos cs Γ []
  | stmt (Γ Γ1 Γ2 : Gam) (s : RStmt) (rest : RBlock) (pos : Nat) (cs : List Const) (D : List (Nat × FnInfo)) :
      ZS 0 false Γ [] false s Γ1 [] → ZTop Γ1 rest (pos + sizeS s) (emitS s pos none cs).2 Γ2 D →
      ZTop Γ (.cons s rest) pos cs Γ2 D
  | fdef (Γ Γ2 : Gam) (s : RStmt) (rest : RBlock) (pos : Nat) (cs : List Const) (D : List (Nat × FnInfo))
      (fid b k : Nat) (ps : List Nat) (nlf : Nat) (body : RBlock) (Γb Λb : Gam) :
      FDef s fid b k ps nlf body → (∀ p ∈ Γ, p.1 ≠ b ∧ p.2 ≠ k) →
      ZB nlf true ((b, k) :: Γ) (paramScope ps) false body Γb Λb → GamOK (paramScope ps) → (∀ p ∈ paramScope ps, p.2 < nlf) →
      ZTop ((b, k) :: Γ) rest (pos + sizeS s) (emitS s pos none cs).2 Γ2 D →
      ZTop Γ (.cons s rest) pos cs Γ2 ((fid, ⟨pos + 3, ps, nlf, body, cs, (b, k) :: Γ⟩) :: D)

/-! ### float constants of the pool are literals -/

mutual
theorem lpE6 : (e : RExpr) → ∀ {nl : Nat} {fn : Bool} {Γ Λ : Gam} {ab : Bool}, ZE nl fn Γ Λ ab e → ∀ (pos : Nat) (lp : LoopCtx) (cs : List Const),
    LitPool cs → LitPool (emitE e pos lp cs).2
  | .int v, _, _, _, _, _, _, _, _, cs, h => by simp only [emitE]; exact addConst_litpool cs _ h (fun y e => by cases e)
  | .float x, _, _, _, _, _, hy, _, _, cs, h => by
    cases hy with | float _ _ _ _ hx => simp only [emitE]; exact addConst_litpool cs _ h (fun y e => by injection e with e; rw [← e]; exact hx)
  | .str s, _, _, _, _, _, _, _, _, cs, h => by simp only [emitE]; exact addConst_litpool cs _ h (fun y e => by cases e)
  | .bool _, _, _, _, _, _, _, _, _, cs, h => by simp only [emitE]; exact h
  | .var _, _, _, _, _, _, _, _, _, cs, h => by simp only [emitE]; exact h
  | .not r, _, _, _, _, _, hy, pos, lp, cs, h => by cases hy with | not _ _ _ _ h1 => simp only [emitE]; exact lpE6 r h1 pos lp cs h
  | .neg r, _, _, _, _, _, hy, pos, lp, cs, h => by cases hy with | neg _ _ _ _ h1 => simp only [emitE]; exact lpE6 r h1 pos lp cs h
  | .assignVar _ e, _, _, _, _, _, hy, pos, lp, cs, h => by
    cases hy with
    | assignG _ _ _ _ _ _ _ h1 => simp only [emitE]; exact lpE6 e h1 pos lp cs h
    | assignL _ _ _ _ _ _ _ _ h1 => simp only [emitE]; exact lpE6 e h1 pos lp cs h
  | .infix l op r, _, _, _, _, _, hy, pos, lp, cs, h => by
    cases hy with
    | bin _ _ _ _ _ _ hnf hl hr =>
      simp only [emitE, hnf]
      exact lpE6 r hr _ lp _ (lpE6 l hl pos lp cs h)
    | fusedL _ _ _ b k _ v _ _ hfc =>
      simp only [emitE, hfc]; exact addConst_litpool cs _ h (fun y e => by cases e)
    | fusedR _ _ _ b k _ op' v _ _ hmir =>
      have hfc : fusedCandidate (.int v) op (.var ⟨b, .loc k⟩) = some (op', k, v) := by simp [fusedCandidate, hmir]
      simp only [emitE, hfc]; exact addConst_litpool cs _ h (fun y e => by cases e)
  | .ifE c t e, _, _, _, _, _, hy, pos, lp, cs, h => by
    cases hy with
    | ifE _ _ _ _ _ _ _ _ hc ht he => simp only [emitE]; exact lpO6 e he _ lp _ (lpB6 t ht _ lp _ (lpE6 c hc pos lp cs h))
  | .whileE c b, _, _, _, _, _, hy, pos, lp, cs, h => by
    cases hy with
    | whileE _ _ _ _ _ _ _ hc hb => simp only [emitE]; exact lpB6 b hb _ _ _ (lpE6 c hc _ _ cs h)
  | .arr vs, _, _, _, _, _, hy, pos, lp, cs, h => by cases hy with | arr _ _ _ _ hvs => simp only [emitE]; exact lpEs6 vs hvs pos lp cs h
  | .callBuiltin _ as, _, _, _, _, _, hy, pos, lp, cs, h => by
    cases hy with | builtin _ _ _ _ _ has => simp only [emitE]; exact lpEs6 as has pos lp cs h
  | .index l i, _, _, _, _, _, hy, pos, lp, cs, h => by
    cases hy with | index _ _ _ _ _ hl hi => simp only [emitE]; exact lpE6 i hi _ lp _ (lpE6 l hl pos lp cs h)
  | .assignIndex l i v, _, _, _, _, _, hy, pos, lp, cs, h => by
    cases hy with
    | assignIndex _ _ _ _ _ _ hl hi hv => simp only [emitE]; exact lpE6 v hv _ lp _ (lpE6 i hi _ lp _ (lpE6 l hl pos lp cs h))
  | .call f as, _, _, _, _, _, hy, pos, lp, cs, h => by
    cases hy with
    | call _ _ _ _ _ has hf => simp only [emitE]; exact lpE6 f hf _ lp _ (lpEs6 as has pos lp cs h)
  | .func _ _ _ _ _, _, _, _, _, _, hy, _, _, _, _ => by cases hy
theorem lpEs6 : (es : RExprs) → ∀ {nl : Nat} {fn : Bool} {Γ Λ : Gam}, ZEs nl fn Γ Λ es → ∀ (pos : Nat) (lp : LoopCtx) (cs : List Const),
    LitPool cs → LitPool (emitEs es pos lp cs).2
  | .nil, _, _, _, _, _, _, _, cs, h => by simp only [emitEs]; exact h
  | .cons e es, _, _, _, _, hy, pos, lp, cs, h => by
    cases hy with | cons _ _ _ _ he hes => simp only [emitEs]; exact lpEs6 es hes _ lp _ (lpE6 e he pos lp cs h)
theorem lpO6 : (o : ROptBlock) → ∀ {nl : Nat} {fn : Bool} {Γ Λ : Gam} {ab : Bool}, ZO nl fn Γ Λ ab o → ∀ (pos : Nat) (lp : LoopCtx) (cs : List Const),
    LitPool cs → LitPool (emitO o pos lp cs).2
  | .none, _, _, _, _, _, _, _, _, cs, h => by simp only [emitO]; exact h
  | .some b, _, _, _, _, _, hy, pos, lp, cs, h => by cases hy with | some _ _ _ _ _ _ hb => simp only [emitO]; exact lpB6 b hb pos lp cs h
theorem lpS6 : (s : RStmt) → ∀ {nl : Nat} {fn : Bool} {Γ Λ Γ1 Λ1 : Gam} {ab : Bool}, ZS nl fn Γ Λ ab s Γ1 Λ1 → ∀ (pos : Nat) (lp : LoopCtx)
    (cs : List Const), LitPool cs → LitPool (emitS s pos lp cs).2
  | .expr e, _, _, _, _, _, _, _, hy, pos, lp, cs, h => by cases hy with | expr _ _ _ _ he => simp only [emitS]; exact lpE6 e he pos lp cs h
  | .letS _ e, _, _, _, _, _, _, _, hy, pos, lp, cs, h => by
    cases hy with
    | letG _ _ _ _ _ _ _ _ he => simp only [emitS]; exact lpE6 e he pos lp cs h
    | letL _ _ _ _ _ _ _ _ _ he => simp only [emitS]; exact lpE6 e he pos lp cs h
  | .ret e, _, _, _, _, _, _, _, hy, pos, lp, cs, h => by cases hy with | ret _ _ _ _ _ he => simp only [emitS]; exact lpE6 e he pos lp cs h
  | .block b, _, _, _, _, _, _, _, hy, pos, lp, cs, h => by cases hy with | block _ _ _ _ _ _ hb => simp only [emitS]; exact lpB6 b hb pos lp cs h
  | .brk, _, _, _, _, _, _, _, _, _, _, cs, h => by simp only [emitS]; exact h
  | .cont, _, _, _, _, _, _, _, _, _, _, cs, h => by simp only [emitS]; exact h
theorem lpB6 : (b : RBlock) → ∀ {nl : Nat} {fn : Bool} {Γ Λ Γ1 Λ1 : Gam} {ab : Bool}, ZB nl fn Γ Λ ab b Γ1 Λ1 → ∀ (pos : Nat) (lp : LoopCtx)
    (cs : List Const), LitPool cs → LitPool (emitB b pos lp cs).2
  | .nil, _, _, _, _, _, _, _, _, _, _, cs, h => by simp only [emitB]; exact h
  | .cons s b, _, _, _, _, _, _, _, hy, pos, lp, cs, h => by
    cases hy with | cons _ _ _ _ _ _ _ _ _ hs hb => simp only [emitB]; exact lpB6 b hb _ lp _ (lpS6 s hs pos lp cs h)
end

theorem fdef_emit_litpool {s : RStmt} {fid b k : Nat} {ps : List Nat} {nlf : Nat} {body : RBlock} (hd : FDef s fid b k ps nlf body)
    {Γb Λb Γ : Gam} (hyb : ZB nlf true Γ (paramScope ps) false body Γb Λb) (pos : Nat) (cs : List Const) (h : LitPool cs) :
    LitPool (emitS s pos none cs).2 := by
  cases hd with
  | named => simp only [emitS, emitE]; exact addConst_litpool _ _ (lpB6 body hyb _ _ _ h) (fun y e => by cases e)
  | letS => simp only [emitS, emitE]; exact addConst_litpool _ _ (lpB6 body hyb _ _ _ h) (fun y e => by cases e)

theorem ztop_litpool {Γ : Gam} {b : RBlock} {pos : Nat} {cs : List Const} {Γ' : Gam} {D : List (Nat × FnInfo)}
    (hy : ZTop Γ b pos cs Γ' D) : LitPool cs → LitPool (emitB b pos none cs).2 := by
  induction hy with
  | nil => intro h; simp only [emitB]; exact h
  | stmt Γ Γ1 Γ2 s rest pos cs D hs _ ih => intro h; simp only [emitB]; exact ih (lpS6 s hs pos none cs h)
  | fdef Γ Γ2 s rest pos cs D fid b k ps nlf body Γb Λb hd hf hyb _ _ _ ih =>
    intro h; simp only [emitB]; exact ih (fdef_emit_litpool hd hyb pos cs h)

/-! ### the function table of a program -/

/-- the entry points of the functions a program defines lie inside its code, in increasing order -/
theorem ztop_ips {Γ : Gam} {b : RBlock} {pos : Nat} {cs : List Const} {Γ' : Gam} {D : List (Nat × FnInfo)}
    (hy : ZTop Γ b pos cs Γ' D) : (∀ q ∈ D, pos + 3 ≤ q.2.ip) ∧ D.Pairwise (fun x y => x.2.ip ≠ y.2.ip) := by
  induction hy with
  | nil => exact ⟨fun q hq => (by cases hq), List.Pairwise.nil⟩
  | stmt Γ Γ1 Γ2 s rest pos cs D hs _ ih =>
    exact ⟨fun q hq => by have := ih.1 q hq; omega, ih.2⟩
  | fdef Γ Γ2 s rest pos cs D fid b k ps nlf body Γb Λb hd hf hyb _ _ _ ih =>
    have hsz := SimF.fdef_size hd
    refine ⟨?_, List.Pairwise.cons ?_ ih.2⟩
    · intro q hq
      rcases List.mem_cons.mp hq with rfl | hq
      · simp
      · have := ih.1 q hq; omega
    · intro q hq
      have := ih.1 q hq
      simp only; omega

/-- every function the program defines has its body where the table says, well formed -/
theorem ztop_fnok {W : World} {Γ : Gam} {b : RBlock} {pos : Nat} {cs : List Const} {Γ' : Gam} {D : List (Nat × FnInfo)}
    (hy : ZTop Γ b pos cs Γ' D) : Ext (emitB b pos none cs).2 W.CS →
    CodeAt W.C pos (emitB b pos none cs).1 → ∀ q ∈ D, FnOK6 W q.2 := by
  induction hy with
  | nil => intro _ _ q hq; cases hq
  | stmt Γ Γ1 Γ2 s rest pos cs D hs _ ih =>
    intro hext hcode q hq
    simp only [emitB] at hcode hext
    obtain ⟨_, hc2⟩ := hcode.append
    rw [emitS_size] at hc2
    exact ih hext hc2 q hq
  | fdef Γ Γ2 s rest pos cs D fid b k ps nlf body Γb Λb hd hf hyb hpok hpsz _ ih =>
    intro hext hcode q hq
    simp only [emitB] at hcode hext
    obtain ⟨hc1, hc2⟩ := hcode.append
    rw [emitS_size] at hc2
    rcases List.mem_cons.mp hq with rfl | hq
    · have hextS : Ext (emitS s pos none cs).2 W.CS := (emitB_ext rest _ _ _).trans hext
      have hbody : CodeAt W.C (pos + 3) (asFnBody body (emitB body (pos + 3) none cs).1) ∧ Ext (emitB body (pos + 3) none cs).2 (emitS s pos none cs).2 := by
        cases hd with
        | named =>
          simp only [emitS] at hc1 ⊢
          obtain ⟨hce, _⟩ := hc1.append
          obtain ⟨_, h2, _, hpl, _⟩ := func_layout fid (some ⟨b, .global k⟩) ps nlf body hce
          exact ⟨h2, by rw [hpl]; exact addConst_ext _ _⟩
        | letS =>
          simp only [emitS] at hc1 ⊢
          obtain ⟨hce, _⟩ := hc1.append
          obtain ⟨_, h2, _, hpl, _⟩ := func_layout fid none ps nlf body hce
          exact ⟨h2, by rw [hpl]; exact addConst_ext _ _⟩
      exact ⟨hbody.1, hbody.2.trans hextS, ⟨Γb, Λb, hyb⟩, hpok, hpsz⟩
    · exact ih hext hc2 q hq

/-! ### the persistent scope grows along the top-level sequence -/

theorem HInv.mono {W : World} {Γ' : Gam} (hsub : ∀ p ∈ W.Γp, p ∈ Γ') {μ : AMap} {st : SState} {m : Mem} (h : HInv W μ st m) :
    HInv (W.at Γ') μ st m := ⟨h.hr.mono hsub, h.pool, h.mok⟩

theorem Inv6.grow {W : World} {Γ' Γb Λ : Gam} {nl : Nat} {c : Cfg} (hsub : ∀ p ∈ W.Γp, p ∈ Γ') (h : Inv6 W Γb Λ nl c) :
    Inv6 (W.at Γ') Γb Λ nl c :=
  ⟨fun b k hm v hv => by obtain ⟨mv, h1, h2⟩ := h.relG b k hm v hv; exact ⟨mv, h1.mono hsub, h2⟩,
   fun b k hm v hv => by obtain ⟨mv, h1, h2⟩ := h.relL b k hm v hv; exact ⟨mv, h1.mono hsub, h2⟩,
   h.last.mono hsub, h.size, h.out, h.hi.mono hsub⟩

theorem WOK6.at {W : World} (h : WOK6 W) (Γ : Gam) : WOK6 (W.at Γ) := ⟨h.inj, h.fns, h.cfn⟩

/-- the goal at top level: empty frame, no callers -/
def GoalTop6 (W : World) (Γ' : Gam) (c : Cfg) (endIp : Nat) (r : Res Unit) : Prop :=
  Ovf W.C (c.vm W #[] []) ∨
  match r with
  | .val () st' => ∃ μ' g' l' m' out' n, execN W.C n (c.vm W #[] []) = some (mk6 W.s0 endIp #[] #[] #[] g' l' [] m' out') ∧
      Inv6 (W.at Γ') Γ' [] 0 ⟨μ', st', endIp, #[], #[], g', l', m', out'⟩
  | .err er ste => Fails6 W.C (c.vm W #[] []) er ste.out
  | .brk _ => False
  | .cont _ => False
  | .ret _ _ => False
  | .fuel => True
  | .unspec _ => True

theorem GoalTop6.prefix {W : World} {Γ' : Gam} {c c1 : Cfg} {endIp : Nat} {r : Res Unit} (n : Nat)
    (hpre : execN W.C n (c.vm W #[] []) = some (c1.vm W #[] [])) (h : GoalTop6 W Γ' c1 endIp r) : GoalTop6 W Γ' c endIp r := by
  rcases h with h | h
  · exact .inl (SimF.Ovf.after n hpre h)
  refine .inr ?_
  cases r with
  | val u st' =>
    obtain ⟨μ', g', l', m', out', k, hk, hinv⟩ := h
    exact ⟨μ', g', l', m', out', n + k, execN_add W.C n k _ _ _ hpre hk, hinv⟩
  | err er st' => exact SimH.Fails5.after n hpre h
  | brk _ => exact h
  | cont _ => exact h
  | ret _ _ => exact h
  | fuel => trivial
  | unspec _ => trivial

/-- a function definition statement at top level: the function value lands in its global slot -/
theorem fdef_step6 {W : World} (hW : WOK6 W) {Γ : Gam} {s : RStmt} {fid b k : Nat} {ps : List Nat} {nlf : Nat} {body : RBlock}
    (hd : FDef s fid b k ps nlf body) (hf : ∀ p ∈ Γ, p.1 ≠ b ∧ p.2 ≠ k) (hok : GamOK Γ)
    {pos : Nat} {cs : List Const} (hft : W.ft fid = some ⟨pos + 3, ps, nlf, body, cs, (b, k) :: Γ⟩)
    {μ : AMap} {st : SState} {g : Array Value} {l : Value} {m : Mem} {out : List Text}
    (hinv : Inv6 (W.at Γ) Γ [] 0 ⟨μ, st, pos, #[], #[], g, l, m, out⟩)
    (hcode : CodeAt W.C pos (emitS s pos none cs).1) (hext : Ext (emitS s pos none cs).2 W.CS) (F : Nat) :
    match evalS F s st with
    | .val () st' => ∃ g' l' n, execN W.C n (mk6 W.s0 pos #[] #[] #[] g l [] m out) = some (mk6 W.s0 (pos + sizeS s) #[] #[] #[] g' l' [] m out) ∧
        Inv6 (W.at ((b, k) :: Γ)) ((b, k) :: Γ) [] 0 ⟨μ, st', pos + sizeS s, #[], #[], g', l', m, out⟩
    | .fuel => True
    | _ => False := by
  have hsub : ∀ p ∈ (W.at Γ).Γp, p ∈ (b, k) :: Γ := fun p hp => List.mem_cons_of_mem _ hp
  have hok' := gamOK_cons hok b k hf
  have hvr : ∀ (μ' : AMap) (st' : SState) (h' : Heap), VR6 (W.at ((b, k) :: Γ)) μ' st' h' (.fn fid ps nlf body) (.fn (pos + 3) nlf) :=
    fun _ _ _ => ⟨_, hft, rfl, rfl, rfl, rfl, rfl, fun p hp => hp⟩
  have hinv' : Inv6 (W.at ((b, k) :: Γ)) Γ [] 0 ⟨μ, st, pos, #[], #[], g, l, m, out⟩ := Inv6.grow (W := W.at Γ) hsub hinv
  cases hd with
  | named =>
    cases F with
    | zero => simp [evalS]
    | succ F =>
      cases F with
      | zero => simp [evalS, evalE]
      | succ F =>
        simp only [emitS] at hcode hext
        obtain ⟨hce, hpop⟩ := hcode.append
        obtain ⟨hj, _, hc3, hpl, hsz⟩ := func_layout fid (some ⟨b, .global k⟩) ps nlf body hce
        rw [emitE_size, hsz] at hpop
        rw [hpl] at hext
        have hk := hW.cfn _ _ _ (hext.get _ _ (SimF.addConst_fn_index (emitB body (pos + 3) none cs).2 (pos + 3) nlf))
        simp only [selfTail, setVar, List.length_cons, List.length_nil] at hc3 hpop
        simp only [evalS, evalE, sizeS, hsz, selfTail, List.length_cons, List.length_nil]
        have s1 := execN_one W.C _ _ (step6_jump (s0 := W.s0) (below := #[]) (locs := #[]) (ops := #[]) (g := g) (l := l) (fr := []) (m := m)
          (out := out) hj)
        have s2 := execN_step W.C 1 _ _ _ s1 (step6_const hc3 hk (by simp))
        have s3 := execN_step W.C 2 _ _ _ s2 (step6_setGlobal (by simpa [Instr.size] using hc3.tail))
        have s4 := execN_step W.C 3 _ _ _ s3 (step6_const (by simpa [Instr.size] using hc3.tail.tail) hk (by simp))
        have s5 := execN_step W.C 4 _ _ _ s4 (step6_pop (hpop.cast (by omega)))
        refine ⟨setGlobalArr g k (.fn (pos + 3) nlf), .fn (pos + 3) nlf, 5, ?_, ?_⟩
        · rw [s5]; congr 2; omega
        · have h0 := inv6_unbindG b k hf hinv' pos #[]
          have h1 := inv6_bindG hok' h0 b k List.mem_cons_self (.fn fid ps nlf body) (.fn (pos + 3) nlf) (hvr _ _ _) pos #[]
          simp only [SimF.bind_unbind] at h1
          exact inv6_setLast h1 (.fn fid ps nlf body) (.fn (pos + 3) nlf) (hvr _ _ _) _ _
  | letS =>
    cases F with
    | zero => simp [evalS]
    | succ F =>
      cases F with
      | zero => simp [evalS, evalE]
      | succ F =>
        simp only [emitS, setVar] at hcode hext
        obtain ⟨hce, hset⟩ := hcode.append
        obtain ⟨hj, _, hc3, hpl, hsz⟩ := func_layout fid none ps nlf body hce
        rw [emitE_size, hsz] at hset
        rw [hpl] at hext
        have hk := hW.cfn _ _ _ (hext.get _ _ (SimF.addConst_fn_index (emitB body (pos + 3) none cs).2 (pos + 3) nlf))
        simp only [selfTail, List.length_nil, List.append_nil] at hc3 hset
        simp only [evalS, evalE, sizeS, hsz, selfTail, List.length_nil]
        have s1 := execN_one W.C _ _ (step6_jump (s0 := W.s0) (below := #[]) (locs := #[]) (ops := #[]) (g := g) (l := l) (fr := []) (m := m)
          (out := out) hj)
        have s2 := execN_step W.C 1 _ _ _ s1 (step6_const hc3 hk (by simp))
        have s3 := execN_step W.C 2 _ _ _ s2 (step6_setGlobal (hset.cast (by omega)))
        refine ⟨setGlobalArr g k (.fn (pos + 3) nlf), l, 3, ?_, ?_⟩
        · rw [s3]; congr 2; omega
        · have h0 := inv6_unbindG b k hf hinv' pos #[]
          exact inv6_bindG hok' h0 b k List.mem_cons_self (.fn fid ps nlf body) (.fn (pos + 3) nlf) (hvr _ _ _) _ _

theorem ptop6 {W : World} (hW : WOK6 W) {Γ : Gam} {b : RBlock} {pos : Nat} {cs : List Const} {Γ' : Gam} {D : List (Nat × FnInfo)}
    (hy : ZTop Γ b pos cs Γ' D) : (∀ q ∈ D, W.ft q.1 = some q.2) → GamOK Γ →
    ∀ (F : Nat) (μ : AMap) (st : SState) (g : Array Value) (l : Value) (m : Mem) (out : List Text),
    Inv6 (W.at Γ) Γ [] 0 ⟨μ, st, pos, #[], #[], g, l, m, out⟩ → TI.WT (mk6 W.s0 pos #[] #[] #[] g l [] m out) →
    CodeAt W.C pos (emitB b pos none cs).1 → Ext (emitB b pos none cs).2 W.CS →
    GoalTop6 W Γ' ⟨μ, st, pos, #[], #[], g, l, m, out⟩ (pos + sizeB b) (evalB F b st) := by
  induction hy with
  | nil Γ pos cs =>
    intro _ _ F μ st g l m out hinv _ _ _
    cases F with
    | zero => simp only [evalB]; exact .inr trivial
    | succ F =>
      simp only [evalB, sizeB, Nat.add_zero]
      exact .inr ⟨μ, g, l, m, out, 0, rfl, hinv⟩
  | stmt Γ Γ1 Γ2 s rest pos cs D hs _ ih =>
    intro hD hok F μ st g l m out hinv hwt hcode hext
    cases F with
    | zero => simp only [evalB]; exact .inr trivial
    | succ F =>
      simp only [emitB] at hcode hext
      obtain ⟨hc1, hc2⟩ := hcode.append
      rw [emitS_size] at hc2
      have hext1 : Ext (emitS s pos none cs).2 W.CS := (emitB_ext rest _ _ _).trans hext
      have hsc : Sc6 (W.at Γ) false Γ [] [] :=
        ⟨by simpa [bigScope] using hok, by simp [GamOK], by simp [bigScope], by intro p hp; simpa [bigScope, World.at] using hp⟩
      have h1 := (pall6 (hW.at Γ) F).s 0 false Γ [] [] false s Γ1 [] hs ⟨μ, st, pos, #[], #[], g, l, m, out⟩ none cs #[] [] hsc
        (by simpa [bigScope] using hinv) hwt hc1 hext1
      obtain ⟨hok1, _, ⟨d, hd⟩, _⟩ := zs_scope hs hok (by simp [GamOK])
      simp only [evalB, sizeB]
      rcases h1 with h1 | h1
      · exact .inl h1
      cases hr : evalS F s st with
      | val u st1 =>
        rw [hr] at h1
        obtain ⟨μ1, m1, locs1, g1, l1, out1, n, hn, hinv1, _⟩ := h1
        have hl0 : locs1 = #[] := by
          have := hinv1.size; exact Array.eq_empty_of_size_eq_zero this
        subst hl0
        simp only [bigScope, Bool.false_eq_true, ↓reduceIte] at hinv1
        have hinv1' : Inv6 (W.at Γ1) Γ1 [] 0 ⟨μ1, st1, pos + sizeS s, #[], #[], g1, l1, m1, out1⟩ :=
          Inv6.grow (W := W.at Γ) (by intro p hp; rw [hd]; exact List.mem_append_right _ hp) hinv1
        have hwt1 := wt_execN n _ _ hwt hn
        have h2 := ih hD hok1 F μ1 st1 g1 l1 m1 out1 hinv1' hwt1 hc2 hext
        rw [← Nat.add_assoc]
        exact GoalTop6.prefix (c := ⟨μ, st, pos, #[], #[], g, l, m, out⟩) (c1 := ⟨μ1, st1, pos + sizeS s, #[], #[], g1, l1, m1, out1⟩) n hn h2
      | err er st1 => rw [hr] at h1; exact .inr h1
      | fuel => exact .inr trivial
      | unspec _ => exact .inr trivial
      | brk _ => rw [hr] at h1; exact absurd h1.1 (by simp)
      | cont _ => rw [hr] at h1; exact absurd h1.1 (by simp)
      | ret _ _ => rw [hr] at h1; exact absurd h1.1 (by simp)
  | fdef Γ Γ2 s rest pos cs D fid b k ps nlf body Γb Λb hd hf _ _ _ _ ih =>
    intro hD hok F μ st g l m out hinv hwt hcode hext
    cases F with
    | zero => simp only [evalB]; exact .inr trivial
    | succ F =>
      simp only [emitB] at hcode hext
      obtain ⟨hc1, hc2⟩ := hcode.append
      rw [emitS_size] at hc2
      have hext1 : Ext (emitS s pos none cs).2 W.CS := (emitB_ext rest _ _ _).trans hext
      have hft := hD _ List.mem_cons_self
      have h1 := fdef_step6 hW hd hf hok hft hinv hc1 hext1 F
      simp only [evalB, sizeB]
      cases hr : evalS F s st with
      | val u st1 =>
        rw [hr] at h1
        obtain ⟨g1, l1, n, hn, hinv1⟩ := h1
        have hwt1 := wt_execN n _ _ hwt hn
        have h2 := ih (fun q hq => hD q (List.mem_cons_of_mem _ hq)) (gamOK_cons hok b k hf) F μ st1 g1 l1 m out hinv1 hwt1 hc2 hext
        rw [← Nat.add_assoc]
        exact GoalTop6.prefix (c := ⟨μ, st, pos, #[], #[], g, l, m, out⟩) (c1 := ⟨μ, st1, pos + sizeS s, #[], #[], g1, l1, m, out⟩) n hn h2
      | fuel => exact .inr trivial
      | err er st1 => rw [hr] at h1; exact h1.elim
      | unspec _ => rw [hr] at h1; exact h1.elim
      | brk _ => rw [hr] at h1; exact h1.elim
      | cont _ => rw [hr] at h1; exact h1.elim
      | ret _ _ => rw [hr] at h1; exact h1.elim

end Sim6
end Nl
