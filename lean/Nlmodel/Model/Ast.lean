/-
  Model of `src/ast.rs`.  Mutual inductives with hand-rolled lists (`Block`, `Exprs`) so that every
  function over the tree is structurally recursive and every proof is a plain mutual induction.
-/
import Nlmodel.Model.Lexer
namespace Nl

/-- `ast::Operator` (same order as the Rust enum) -/
inductive Op where
  | add | sub | mul | div | gt | gte | lt | lte | eq | neq | not | negate | and | or | mod | assign
  deriving DecidableEq, Repr, Inhabited

mutual
inductive Expr where
  | infix (l : Expr) (op : Op) (r : Expr)
  | pre (op : Op) (r : Expr)
  | int (v : Int)
  | float (bits : UInt64)
  | bool (b : Bool)
  | ifE (c : Expr) (t : Block) (e : OptBlock)
  | ident (n : Text)
  | func (name : Text) (params : List Text) (body : Block)
  | call (f : Expr) (args : Exprs)
  | assign (l : Expr) (r : Expr)
  | str (s : Text)
  | arr (vs : Exprs)
  | index (l : Expr) (i : Expr)
  | whileE (c : Expr) (body : Block)
inductive Stmt where
  | letS (n : Text) (e : Expr)
  | ret (e : Expr)
  | expr (e : Expr)
  | block (b : Block)
  | brk
  | cont
inductive Block where
  | nil
  | cons (s : Stmt) (b : Block)
inductive Exprs where
  | nil
  | cons (e : Expr) (es : Exprs)
inductive OptBlock where
  | none
  | some (b : Block)
end

instance : Inhabited Expr := ⟨.bool false⟩
instance : Inhabited Stmt := ⟨.brk⟩
instance : Inhabited Block := ⟨.nil⟩
instance : Inhabited Exprs := ⟨.nil⟩

def Block.length : Block → Nat
  | .nil => 0
  | .cons _ b => b.length + 1

def Exprs.length : Exprs → Nat
  | .nil => 0
  | .cons _ es => es.length + 1

def Block.append : Block → Block → Block
  | .nil, c => c
  | .cons s b, c => .cons s (b.append c)

def Block.snoc (b : Block) (s : Stmt) : Block := b.append (.cons s .nil)

def Exprs.snoc : Exprs → Expr → Exprs
  | .nil, e => .cons e .nil
  | .cons x xs, e => .cons x (xs.snoc e)

def Block.toList : Block → List Stmt
  | .nil => []
  | .cons s b => s :: b.toList

def Block.ofList : List Stmt → Block
  | [] => .nil
  | s :: ss => .cons s (Block.ofList ss)

def Exprs.toList : Exprs → List Expr
  | .nil => []
  | .cons e es => e :: es.toList

def Exprs.ofList : List Expr → Exprs
  | [] => .nil
  | e :: es => .cons e (Exprs.ofList es)

def Block.isEmpty : Block → Bool
  | .nil => true
  | _ => false

/-! ### canonical s-expression (the format both sides print for the tree correspondence) -/

def Op.name : Op → String
  | .add => "Add" | .sub => "Subtract" | .mul => "Multiply" | .div => "Divide"
  | .gt => "Gt" | .gte => "Gte" | .lt => "Lt" | .lte => "Lte" | .eq => "Eq" | .neq => "Neq"
  | .not => "Not" | .negate => "Negate" | .and => "And" | .or => "Or" | .mod => "Modulo"
  | .assign => "Assign"

def hexDigit (n : Nat) : Char :=
  if n < 10 then Char.ofNat (48 + n) else Char.ofNat (87 + n)

def hexByte (b : UInt8) : String :=
  String.ofList [hexDigit (b.toNat / 16), hexDigit (b.toNat % 16)]

/-- hex of the UTF-8 bytes of a text -/
def hexText (t : Text) : String :=
  (String.ofList t).toUTF8.foldl (fun acc b => acc ++ hexByte b) "x"

def hex64 (w : UInt64) : String :=
  String.ofList ((List.range 16).map fun i => hexDigit ((w.toNat >>> (4 * (15 - i))) % 16))

mutual
def Expr.sexp : Expr → String
  | .infix l op r => "(infix " ++ op.name ++ " " ++ l.sexp ++ " " ++ r.sexp ++ ")"
  | .pre op r => "(prefix " ++ op.name ++ " " ++ r.sexp ++ ")"
  | .int v => "(int " ++ toString v ++ ")"
  | .float b => "(float " ++ hex64 b ++ ")"
  | .bool b => if b then "(bool ja)" else "(bool nee)"
  | .ifE c t e => "(if " ++ c.sexp ++ " " ++ t.sexp ++ " " ++ e.sexp ++ ")"
  | .ident n => "(id " ++ hexText n ++ ")"
  | .func n ps b =>
      "(fn " ++ hexText n ++ " [" ++ " ".intercalate (ps.map fun p => hexText p) ++ "] " ++ b.sexp ++ ")"
  | .call f as => "(call " ++ f.sexp ++ " [" ++ as.sexp ++ "])"
  | .assign l r => "(assign " ++ l.sexp ++ " " ++ r.sexp ++ ")"
  | .str s => "(str " ++ hexText s ++ ")"
  | .arr vs => "(arr [" ++ vs.sexp ++ "])"
  | .index l i => "(index " ++ l.sexp ++ " " ++ i.sexp ++ ")"
  | .whileE c b => "(while " ++ c.sexp ++ " " ++ b.sexp ++ ")"
def Stmt.sexp : Stmt → String
  | .letS n e => "(let " ++ hexText n ++ " " ++ e.sexp ++ ")"
  | .ret e => "(return " ++ e.sexp ++ ")"
  | .expr e => "(expr " ++ e.sexp ++ ")"
  | .block b => "(block " ++ b.sexp ++ ")"
  | .brk => "(break)"
  | .cont => "(continue)"
def Block.sexp : Block → String
  | .nil => "{}"
  | .cons s b => "{" ++ s.sexp ++ b.sexpTail ++ "}"
def Block.sexpTail : Block → String
  | .nil => ""
  | .cons s b => " " ++ s.sexp ++ b.sexpTail
def Exprs.sexp : Exprs → String
  | .nil => ""
  | .cons e .nil => e.sexp
  | .cons e es => e.sexp ++ " " ++ es.sexp
def OptBlock.sexp : OptBlock → String
  | .none => "none"
  | .some b => b.sexp
end

end Nl
