/- The constant pool only grows: code emitted earlier keeps referring to the same constants. -/
import Nlmodel.Model.Compiler
namespace Nl
namespace Sim

/-- `b` extends `a` (same entries at the same indices, possibly more at the end) -/
def Ext (a b : List Const) : Prop := ∃ e, b = a ++ e

theorem Ext.refl (a : List Const) : Ext a a := ⟨[], by simp⟩
theorem Ext.trans {a b c : List Const} (h1 : Ext a b) (h2 : Ext b c) : Ext a c := by
  obtain ⟨e1, rfl⟩ := h1; obtain ⟨e2, rfl⟩ := h2; exact ⟨e1 ++ e2, by simp⟩
theorem Ext.get {a b : List Const} (h : Ext a b) (k : Nat) (c : Const) (hk : a[k]? = some c) : b[k]? = some c := by
  obtain ⟨e, rfl⟩ := h
  have : k < a.length := by
    rcases List.getElem?_eq_some_iff.mp hk with ⟨hlt, _⟩; exact hlt
  rw [List.getElem?_append_left this]; exact hk

theorem addConst_ext (cs : List Const) (c : Const) : Ext cs (addConst cs c).1 := by
  unfold addConst
  split
  · exact Ext.refl _
  · exact ⟨[c], rfl⟩

mutual
theorem emitE_ext : (e : RExpr) → ∀ pos lp cs, Ext cs (emitE e pos lp cs).2
  | .int _, _, _, cs => by simp only [emitE]; exact addConst_ext _ _
  | .float _, _, _, cs => by simp only [emitE]; exact addConst_ext _ _
  | .str _, _, _, cs => by simp only [emitE]; exact addConst_ext _ _
  | .bool _, _, _, cs => by simp only [emitE]; exact Ext.refl _
  | .var _, _, _, cs => by simp only [emitE]; exact Ext.refl _
  | .not r, pos, lp, cs => by simp only [emitE]; exact emitE_ext r pos lp cs
  | .neg r, pos, lp, cs => by simp only [emitE]; exact emitE_ext r pos lp cs
  | .assignVar _ e, pos, lp, cs => by simp only [emitE]; exact emitE_ext e pos lp cs
  | .assignIndex l i v, pos, lp, cs => by
    simp only [emitE]
    exact (emitE_ext l _ _ _).trans ((emitE_ext i _ _ _).trans (emitE_ext v _ _ _))
  | .infix l op r, pos, lp, cs => by
    simp only [emitE]
    split
    · exact addConst_ext _ _
    · exact (emitE_ext l _ _ _).trans (emitE_ext r _ _ _)
  | .ifE c t e, pos, lp, cs => by
    simp only [emitE]
    exact (emitE_ext c _ _ _).trans ((emitB_ext t _ _ _).trans (emitO_ext e _ _ _))
  | .whileE c b, pos, lp, cs => by
    simp only [emitE]
    exact (emitE_ext c _ _ _).trans (emitB_ext b _ _ _)
  | .func _ self _ _ body, pos, lp, cs => by
    simp only [emitE]
    exact (emitB_ext body _ _ _).trans (addConst_ext _ _)
  | .call f as, pos, lp, cs => by
    simp only [emitE]; exact (emitEs_ext as _ _ _).trans (emitE_ext f _ _ _)
  | .callBuiltin _ as, pos, lp, cs => by simp only [emitE]; exact emitEs_ext as _ _ _
  | .arr vs, pos, lp, cs => by simp only [emitE]; exact emitEs_ext vs _ _ _
  | .index l i, pos, lp, cs => by
    simp only [emitE]; exact (emitE_ext l _ _ _).trans (emitE_ext i _ _ _)
theorem emitEs_ext : (es : RExprs) → ∀ pos lp cs, Ext cs (emitEs es pos lp cs).2
  | .nil, _, _, cs => by simp only [emitEs]; exact Ext.refl _
  | .cons e es, pos, lp, cs => by
    simp only [emitEs]; exact (emitE_ext e _ _ _).trans (emitEs_ext es _ _ _)
theorem emitS_ext : (s : RStmt) → ∀ pos lp cs, Ext cs (emitS s pos lp cs).2
  | .expr e, pos, lp, cs => by simp only [emitS]; exact emitE_ext e _ _ _
  | .letS _ e, pos, lp, cs => by simp only [emitS]; exact emitE_ext e _ _ _
  | .ret e, pos, lp, cs => by simp only [emitS]; exact emitE_ext e _ _ _
  | .block b, pos, lp, cs => by simp only [emitS]; exact emitB_ext b _ _ _
  | .brk, _, _, cs => by simp only [emitS]; exact Ext.refl _
  | .cont, _, _, cs => by simp only [emitS]; exact Ext.refl _
theorem emitB_ext : (b : RBlock) → ∀ pos lp cs, Ext cs (emitB b pos lp cs).2
  | .nil, _, _, cs => by simp only [emitB]; exact Ext.refl _
  | .cons s b, pos, lp, cs => by
    simp only [emitB]; exact (emitS_ext s _ _ _).trans (emitB_ext b _ _ _)
theorem emitO_ext : (o : ROptBlock) → ∀ pos lp cs, Ext cs (emitO o pos lp cs).2
  | .none, _, _, cs => by simp only [emitO]; exact Ext.refl _
  | .some b, pos, lp, cs => by simp only [emitO]; exact emitB_ext b _ _ _
end

end Sim
end Nl
