/-
  Alpha-equivalence under the weak hypothesis, part 3: the bytecode is unchanged by a renaming that
  is injective (and respects builtins and emptiness) merely ON THE IDENTIFIERS OF THE PROGRAM.
-/
import Nlmodel.Model.Pipeline
import Nlmodel.Proofs.Lemmas.AlphaOnResolve
namespace Nl
namespace Alpha

/-- (A1, weak form, program level; the general statement for every syntactic class and every state
    is `bE bEs bS bB bSs bO` in `AlphaOnResolve`) -/
theorem alpha_resolveProgram_on {f : Text → Text} {S : Text → Prop} (hf : RenamingOn f S) (ast : Block)
    (hn : ∀ n ∈ namesB ast, S n) : resolveProgram (renB f ast) = resolveProgram ast := by
  unfold resolveProgram
  have h := (bSs hf ast {} hn (allIn_empty S)).1
  rw [mapSt_empty] at h
  rw [h]
  cases resolveSs ast {} with
  | error e => rfl
  | ok p => obtain ⟨r, st⟩ := p; rfl

/-- (A2, weak form) `S` any set of names containing the identifiers of the program -/
theorem alpha_compile_on {f : Text → Text} {S : Text → Prop} (hf : RenamingOn f S) (ast : Block)
    (hn : ∀ n ∈ namesB ast, S n) : compileProgram (renB f ast) = compileProgram ast := by
  unfold compileProgram
  rw [alpha_resolveProgram_on hf ast hn]

/-- (A2, weakest form) the renaming is injective on the identifiers occurring in the program, maps
    none of them from builtin to non-builtin or back, and none of them from empty (the name of an
    anonymous function literal) to non-empty or back; nothing is assumed about other texts -/
theorem alpha_compile_names (f : Text → Text) (ast : Block)
    (hinj : ∀ a ∈ namesB ast, ∀ b ∈ namesB ast, f a = f b → a = b)
    (hbuiltin : ∀ n ∈ namesB ast, Builtin.resolve (f n) = Builtin.resolve n)
    (hempty : ∀ n ∈ namesB ast, (f n).isEmpty = n.isEmpty) :
    compileProgram (renB f ast) = compileProgram ast :=
  alpha_compile_on (S := fun n => n ∈ namesB ast)
    ⟨fun a b ha hb => hinj a ha b hb, hbuiltin, hempty⟩ ast (fun _ h => h)

theorem alpha_bytecode_names (f : Text → Text) (ast : Block)
    (hinj : ∀ a ∈ namesB ast, ∀ b ∈ namesB ast, f a = f b → a = b)
    (hbuiltin : ∀ n ∈ namesB ast, Builtin.resolve (f n) = Builtin.resolve n)
    (hempty : ∀ n ∈ namesB ast, (f n).isEmpty = n.isEmpty) :
    (compileProgram (renB f ast)).map (·.2) = (compileProgram ast).map (·.2) := by
  rw [alpha_compile_names f ast hinj hbuiltin hempty]

/-- (A2, the form of the task description) injective on the names occurring in the program plus the
    builtin names plus the empty name; builtin names and the empty name are fixed -/
theorem alpha_bytecode_fixes (f : Text → Text) (ast : Block)
    (hinj : ∀ a ∈ namesB ast ++ builtinNames ++ [[]], ∀ b ∈ namesB ast ++ builtinNames ++ [[]], f a = f b → a = b)
    (hfix : ∀ n ∈ builtinNames, f n = n) (hempty : f [] = []) :
    (compileProgram (renB f ast)).map (·.2) = (compileProgram ast).map (·.2) := by
  have hm : ∀ a, (a ∈ namesB ast ∨ a ∈ builtinNames ∨ a = []) → a ∈ namesB ast ++ builtinNames ++ [[]] := by
    intro a h
    simp only [List.mem_append, List.mem_singleton]
    rcases h with h | h | h
    · exact Or.inl (Or.inl h)
    · exact Or.inl (Or.inr h)
    · exact Or.inr h
  have hf : RenamingOn f (fun n => n ∈ namesB ast) :=
    RenamingOn.of_fixes f _ (fun a b ha hb => hinj a (hm a ha) b (hm b hb)) hfix hempty
  rw [alpha_compile_on hf ast (fun _ h => h)]

/-- (A3, weak form) machine run and definitional evaluation -/
theorem alpha_run_on {f : Text → Text} {S : Text → Prop} (hf : RenamingOn f S) (ast : Block)
    (hn : ∀ n ∈ namesB ast, S n) (budget : Nat) :
    (compileProgram (renB f ast)).map (fun p => VM.run {} p.2 budget) =
      (compileProgram ast).map (fun p => VM.run {} p.2 budget) := by
  rw [alpha_compile_on hf ast hn]

theorem alpha_spec_on {f : Text → Text} {S : Text → Prop} (hf : RenamingOn f S) (ast : Block)
    (hn : ∀ n ∈ namesB ast, S n) (F : Nat) :
    (resolveProgram (renB f ast)).map (Spec.evalProgram F) =
      (resolveProgram ast).map (Spec.evalProgram F) := by
  rw [alpha_resolveProgram_on hf ast hn]

/-! ### non-vacuity of the weak form: a renaming that is NOT injective, used on a program whose
    names it keeps apart -/

private def t (s : String) : Text := s.toList

/-- `x ↦ a`, `y ↦ x`, everything else fixed: `x` and `a` collide, so it is not injective -/
def shift (n : Text) : Text := if n = t "x" then t "a" else if n = t "y" then t "x" else n

example : ¬ (∀ a b, shift a = shift b → a = b) := fun h =>
  absurd (h (t "x") (t "a") (by decide)) (by decide)

/-- `stel x = 1; stel y = functie(x) { x + 1 }; print(y(x))` -/
def shiftProg : Block :=
  .cons (.letS (t "x") (.int 1)) <|
  .cons (.letS (t "y") (.func [] [t "x"] (.cons (.expr (.infix (.ident (t "x")) .add (.int 1))) .nil))) <|
  .cons (.expr (.call (.ident (t "print"))
      (.cons (.call (.ident (t "y")) (.cons (.ident (t "x")) .nil)) .nil))) .nil

/-- the weak theorem applies (the three side conditions are finite checks over the six identifier
    occurrences of the program: TEST by evaluation) -/
example : compileProgram (renB shift shiftProg) = compileProgram shiftProg :=
  alpha_compile_names shift shiftProg (by decide +kernel) (by decide +kernel) (by decide +kernel)

end Alpha
end Nl
