/- Stage 4: function table, the relation between values of the semantics and machine values (functions included). -/
import Nlmodel.Proofs.Lemmas.SimFnBase
namespace Nl
namespace SimF
open Spec Sim

/-! ## function table, value relation -/

structure FnInfo where
  ip : Nat
  ps : List Nat
  nl : Nat
  body : RBlock
  cs : List Const
  Γg : Gam

abbrev FT := Nat → Option FnInfo

/-- a value of the semantics and the machine value that represents it; `Γp` = the persistent global scope -/
def VR (ft : FT) (Γp : Gam) : SVal → Value → Prop
  | .null, .null => True
  | .bool a, .bool b => a = b
  | .int a, .int b => a = b
  | .fn fid ps nl body, .fn ip nl' =>
    ∃ info, ft fid = some info ∧ info.ip = ip ∧ info.ps = ps ∧ info.nl = nl ∧ info.body = body ∧ nl' = nl ∧
      ∀ p ∈ info.Γg, p ∈ Γp
  | _, _ => False

def FTInj (ft : FT) : Prop := ∀ f1 f2 i1 i2, ft f1 = some i1 → ft f2 = some i2 → i1.ip = i2.ip → f1 = f2

theorem VR.mono {ft : FT} {Γp Γp' : Gam} (h : ∀ p ∈ Γp, p ∈ Γp') {v : SVal} {mv : Value} (hv : VR ft Γp v mv) : VR ft Γp' v mv := by
  cases v <;> cases mv <;> simp only [VR] at hv ⊢ <;> try exact hv
  obtain ⟨info, h1, h2, h3, h4, h5, h6, h7⟩ := hv
  exact ⟨info, h1, h2, h3, h4, h5, h6, fun p hp => h p (h7 p hp)⟩

theorem VR.null_iff {ft : FT} {Γp : Gam} {mv : Value} : VR ft Γp .null mv ↔ mv = .null := by
  cases mv <;> simp [VR]
theorem VR.bool_iff {ft : FT} {Γp : Gam} {b : Bool} {mv : Value} : VR ft Γp (.bool b) mv ↔ mv = .bool b := by
  cases mv <;> simp [VR]; exact eq_comm
theorem VR.int_iff {ft : FT} {Γp : Gam} {i : Int} {mv : Value} : VR ft Γp (.int i) mv ↔ mv = .int i := by
  cases mv <;> simp [VR]; exact eq_comm

/-- machine values representing values of the fragment: no heap boxes -/
theorem VR.not_heap {ft : FT} {Γp : Gam} {v : SVal} {mv : Value} (h : VR ft Γp v mv) :
    (∀ a, mv ≠ .str a) ∧ (∀ a, mv ≠ .float a) ∧ (∀ a, mv ≠ .arr a) := by
  cases v <;> cases mv <;> simp [VR] at h ⊢

/-- operators see the same thing on both sides -/
theorem view_rel {ft : FT} (hinj : FTInj ft) {Γp : Gam} (h : Heap) (st : SState) (op : BinOp) {a b : SVal} {ma mb : Value}
    (ha : VR ft Γp a ma) (hb : VR ft Γp b mb) :
    binopCore op (h.view ma) (h.view mb) = binopCore op (st.view a) (st.view b) := by
  cases a <;> cases ma <;> simp only [VR] at ha <;> try exact absurd ha id
  all_goals (cases b <;> cases mb <;> simp only [VR] at hb <;> try exact absurd hb id)
  all_goals try (subst ha)
  all_goals try (subst hb)
  all_goals try rfl
  all_goals try (cases op <;> rfl)
  -- function against function
  rename_i fid1 ps1 nl1 body1 ip1 nl1' fid2 ps2 nl2 body2 ip2 nl2'
  obtain ⟨i1, h11, h12, _, h14, _, h16, _⟩ := ha
  obtain ⟨i2, h21, h22, _, h24, _, h26, _⟩ := hb
  have key : ((ip1, nl1') == (ip2, nl2')) = ((fid1, 0) == (fid2, 0)) := by
    by_cases hf : fid1 = fid2
    · subst hf
      rw [h11] at h21; injection h21 with h21; subst h21
      subst h12; subst h22; subst h16; subst h26; subst h14; subst h24
      rw [beq_self_eq_true, beq_self_eq_true]
    · have hip : ip1 ≠ ip2 := by
        intro e; apply hf; exact hinj fid1 fid2 i1 i2 h11 h21 (by rw [h12, h22, e])
      rw [Bool.eq_iff_iff, beq_iff_eq, beq_iff_eq]; simp [hf, hip]
  cases op <;> simp [Heap.view, SState.view, binopCore, View.ty, BinOp.isArith, BinOp.isOrder, key]

end SimF
end Nl
