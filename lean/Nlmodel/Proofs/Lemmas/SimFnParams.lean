/- Stage 4: parameters are bound by position (C12). -/
import Nlmodel.Proofs.Lemmas.SimFnCall
namespace Nl
namespace SimF
open Spec Sim

theorem paramScopeFrom_mem (ps : List Nat) (off : Nat) (b j : Nat) (h : (b, j) ∈ paramScopeFrom off ps) : off ≤ j ∧ j < off + ps.length := by
  induction ps generalizing off with
  | nil => simp [paramScopeFrom] at h
  | cons p ps ih =>
    simp only [paramScopeFrom, List.mem_cons] at h
    rcases h with h | h
    · injection h with h1 h2; subst h2; simp
    · have := ih (off + 1) h; simp only [List.length_cons]; omega

theorem VRs_length {W : World} : ∀ (xs : List SVal) (ms : List Value), VRs W xs ms → xs.length = ms.length
  | [], [], _ => rfl
  | _ :: xs, _ :: ms, h => by simp [VRs_length xs ms h.2]
  | [], _ :: _, h => by simp [VRs] at h
  | _ :: _, [], h => by simp [VRs] at h

/-- parameters are bound by position: parameter `i` is argument `i`, missing ones are null -/
theorem params_rel {W : World} : ∀ (ps : List Nat) (off : Nat) (xs : List SVal) (ms : List Value), VRs W xs ms →
    GamOK (paramScopeFrom off ps) → ∀ b j, (b, j) ∈ paramScopeFrom off ps → ∀ v, envGet (bindParams ps xs) b = some v →
    VR W.ft W.Γp v (ms.getD (j - off) .null)
  | [], _, _, _, _, _, b, j, hm, _, _ => by simp [paramScopeFrom] at hm
  | p :: ps, off, xs, ms, hvr, hok, b, j, hm, v, hv => by
    have hok' : GamOK (paramScopeFrom (off + 1) ps) := by
      unfold GamOK at hok ⊢; simp only [paramScopeFrom, List.pairwise_cons] at hok; exact hok.2
    by_cases hb : p = b
    · subst hb
      have hj : j = off := by
        have h0 : (p, off) ∈ paramScopeFrom off (p :: ps) := by simp [paramScopeFrom]
        exact ((gam_unique hok hm h0).1 rfl)
      subst hj
      cases xs with
      | nil =>
        cases ms with
        | nil =>
          simp only [bindParams, envGet, List.find?_cons, beq_self_eq_true, Option.some.injEq] at hv
          subst hv; simp [VR]
        | cons m ms => simp [VRs] at hvr
      | cons x xs =>
        cases ms with
        | nil => simp [VRs] at hvr
        | cons m ms =>
          simp only [bindParams, envGet, List.find?_cons, beq_self_eq_true, Option.some.injEq] at hv
          subst hv; simpa using hvr.1
    · have hm' : (b, j) ∈ paramScopeFrom (off + 1) ps := by
        simp only [paramScopeFrom, List.mem_cons] at hm
        rcases hm with h | h
        · injection h with h1 _; exact absurd h1.symm hb
        · exact h
      have hj := (paramScopeFrom_mem ps (off + 1) b j hm').1
      have hne : (p == b) = false := by simpa using hb
      cases xs with
      | nil =>
        cases ms with
        | nil =>
          have hv' : envGet (bindParams ps []) b = some v := by
            simpa [bindParams, envGet, List.find?_cons, hne] using hv
          have := params_rel (W := W) ps (off + 1) [] [] trivial hok' b j hm' v hv'
          simpa using this
        | cons m ms => simp [VRs] at hvr
      | cons x xs =>
        cases ms with
        | nil => simp [VRs] at hvr
        | cons m ms =>
          have hv' : envGet (bindParams ps xs) b = some v := by
            simpa [bindParams, envGet, List.find?_cons, hne] using hv
          have := params_rel ps (off + 1) xs ms hvr.2 hok' b j hm' v hv'
          have e : j - off = (j - (off + 1)) + 1 := by omega
          rw [e]; simpa using this

theorem args_locals (ms : List Value) (n j : Nat) (hj : j < ms.length + n) :
    (ms.toArray ++ Array.replicate n Value.null)[j]? = some (ms.getD j .null) := by
  by_cases h : j < ms.length
  · rw [Array.getElem?_append_left (by simpa using h)]
    simp [List.getD, h]
  · rw [Array.getElem?_append_right (by simp; omega)]
    have : ms[j]? = none := by simp; omega
    simp only [List.getD, this, Option.getD_none, List.size_toArray, Array.getElem?_replicate]
    have : j - ms.length < n := by omega
    simp [this]

end SimF
end Nl
