/- Driver-side instrumented run of the machine model: same `step`, plus counters that the model
   itself does not carry (steps, collections, stack height at Halt, ledger after the run). -/
import Nlmodel.Model.Pipeline
namespace Nl

structure RunStats where
  steps : Nat := 0
  haltStack : Nat := 0
  gcs : Array (Nat × Nat) := #[]
  /-- the run ended at one of the machine's limits (stack / frame count at a `Call`) -/
  limit : Bool := false
  /-- rolling hash of (ip, opcode byte, stack height, frame count = `depth`, proved equal to the length of the frame list: C12_depth_is_frames) over the executed instructions; the hook
      `verif::on_step` of the real VM computes the same number (lockstep comparison of the two machines) -/
  hash : UInt64 := 0

partial def runInstr (c : Code) (budget : Nat) (s : VM) (st : RunStats) : Outcome × RunStats :=
  if budget = 0 then (.budget s, st) else
  let isRet := match decodeAt c s.ip with
    | some .ret | some .retv => true
    | _ => false
  let isHalt := match decodeAt c s.ip with
    | some .halt => true
    | _ => false
  let opc : Nat := (c[s.ip]?).getD 255
  let hash := st.hash * 1099511628211 + (UInt64.ofNat s.ip) * 31 + (UInt64.ofNat opc) * 131 +
    (UInt64.ofNat s.stack.size) * 65537 + (UInt64.ofNat (s.depth + 1)) * 16777259 + 1
  let st := { st with steps := st.steps + 1, haltStack := if isHalt then s.stack.size else st.haltStack, hash := hash }
  match step c s with
  | .next s' =>
    let st := if isRet && !s.mem.managed.isEmpty then
        { st with gcs := st.gcs.push (s'.mem.managed.length, s.mem.managed.length - s'.mem.managed.length) }
      else st
    runInstr c (budget - 1) s' st
  | .halt v s' => (.value v s', st)
  | .error e s' =>
    let atCall := match decodeAt c s.ip with
      | some (.call _) => true
      | _ => false
    (.error e s', { st with limit := atCall && e == .index })
  | .fault site => (.fault site, st)

def liveCells (h : Heap) : Nat := h.cells.foldl (fun n c => match c with | .freed => n | _ => n + 1) 0

def evalTextX (cc : CharClass) (budget : Nat) (src : Text) : String :=
  match parse cc src with
  | .error e => (Obs.error e []).show ++ " # steps=0 halt=0 gc=0: live=0"
  | .ok ast =>
    match compileProgram ast with
    | .error e =>
      -- names resolve but an operand does not fit its width (DESIGN 4.3 U7: size limits): flagged like the machine's limits
      let lim := match resolveProgram ast with | .ok _ => " limit=1" | .error _ => ""
      (Obs.error e []).show ++ " # steps=0 halt=0 gc=0: live=0" ++ lim
    | .ok (_, bc) =>
      let (o, st) := runInstr bc.code budget (VM.start {} bc) {}
      let gcs := ",".intercalate (st.gcs.toList.map fun p => toString p.1 ++ "/" ++ toString p.2)
      let tail (live : Nat) := " # steps=" ++ toString st.steps ++ " halt=" ++ toString st.haltStack ++
        " gc=" ++ toString st.gcs.size ++ ":" ++ gcs ++ " live=" ++ toString live ++ " hash=" ++ toString st.hash.toNat ++ (if st.limit then " limit=1" else "")
      match o with
      | .value v s =>
        let s' := finishValue v s
        let resultCells := (GC.reachable s'.mem.heap (s'.mem.heap.cells.size + 1) [] v).length
        (Obs.value (s'.mem.heap.tree treeDepth [] v) s'.out).show ++ tail (liveCells s'.mem.heap - resultCells)
      | .error e s =>
        let s' := finishError s
        (Obs.error e s'.out).show ++ tail (liveCells s'.mem.heap)
      | .fault site => "FAULT " ++ site
      | .budget s =>
        let s' := finishError s
        "BUDGET" ++ tail (liveCells s'.mem.heap)

/-- run the machine MODEL on given bytecode (the REAL compiler's bytes and constants): outcome, steps, lockstep hash -/
def runBytesX (budget : Nat) (bc : Bytecode) : String :=
  let (o, st) := runInstr bc.code budget (VM.start {} bc) {}
  let gcs := ",".intercalate (st.gcs.toList.map fun p => toString p.1 ++ "/" ++ toString p.2)
  let tail := " # steps=" ++ toString st.steps ++ " halt=" ++ toString st.haltStack ++
    " gc=" ++ toString st.gcs.size ++ ":" ++ gcs ++ " hash=" ++ toString st.hash.toNat
  match o with
  | .value v s =>
    let s' := finishValue v s
    (Obs.value (s'.mem.heap.tree treeDepth [] v) s'.out).show ++ tail
  | .error e s => (Obs.error e (finishError s).out).show ++ tail
  | .fault site => "FAULT " ++ site
  | .budget _ => "BUDGET" ++ tail

end Nl
