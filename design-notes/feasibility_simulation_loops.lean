-- DESIGN NOTE, NOT PART OF THE MACHINERY.
-- Second feasibility prototype for C01/C11 (DESIGN.md section 2.4): forward simulation for a language with
-- `zolang` loops, `stop` and `volgende` from any block depth, if-expressions, value blocks and the `last`
-- register, compiled to absolute jump targets. Points that carry over to the real proof:
--  * static size functions (sizeE/sizeS/sizeBV) break the circularity of back-patched jump targets;
--  * value-position blocks are compiled by a syntactic rule (compBV); the Rust "delete trailing Pop" peephole is
--    related to it by a separate lemma;
--  * results are `val v | brk | cont`, and `after`/`afterS` say where the machine is for each (loop exit / loop
--    head with Null pushed on the entry stack): this is the statement shape for abrupt completion;
--  * PL is the loop invariant (entered at the head with the previous value on the stack);
--  * the Pop that discards the previous iteration value writes the `last` register, so the specification does too;
--  * stop/volgende under a pending operand or inside a loop condition leave residue (finding K3) and are outside
--    the fragment (the evaluator answers `none` there).
-- Lean 4.33.0 core only; axioms of Loop.sim: [propext, Quot.sound].

namespace Loop

mutual
inductive Expr where
  | int (n : Int)
  | add (a b : Expr)
  | getg (k : Nat)
  | ife (c : Expr) (t : Block) (e : Block)
  | whileE (c : Expr) (b : Block)
inductive Stmt where
  | expr (e : Expr)
  | setg (k : Nat) (e : Expr)
  | brk
  | cont
inductive Block where
  | nil
  | cons (s : Stmt) (b : Block)
end

inductive Instr where
  | const (n : Int) | add | pop | null | getg (k : Nat) | setg (k : Nat)
  | jump (t : Nat) | jif (t : Nat)
  deriving Repr, DecidableEq

def Instr.size : Instr → Nat
  | .const _ | .getg _ | .setg _ | .jump _ | .jif _ => 3
  | _ => 1

def csize : List Instr → Nat
  | [] => 0
  | i :: is => i.size + csize is

theorem csize_append (a b : List Instr) : csize (a ++ b) = csize a + csize b := by
  induction a with
  | nil => simp [csize]
  | cons i is ih => simp [csize, ih]; omega

-- static sizes, independent of position and loop context (jump operands have fixed width)
mutual
def sizeE : Expr → Nat
  | .int _ => 3
  | .add a b => sizeE a + sizeE b + 1
  | .getg _ => 3
  | .ife c t e => sizeE c + 3 + sizeBV t + 3 + sizeBV e
  | .whileE c b => 1 + sizeE c + 3 + 1 + sizeBV b + 3
def sizeS : Stmt → Nat
  | .expr e => sizeE e + 1
  | .setg _ e => sizeE e + 3
  | .brk => 4
  | .cont => 4
def sizeB : Block → Nat
  | .nil => 0
  | .cons s b => sizeS s + sizeB b
/-- size of a block compiled in value position (trailing pop removed, or null appended) -/
def sizeBV : Block → Nat
  | .nil => 1
  | .cons (.expr e) .nil => sizeE e
  | .cons s .nil => sizeS s + 1
  | .cons s b => sizeS s + sizeBV b
end

/-- loop context: (address of the loop head, address after the loop) -/
abbrev Ctx := Nat × Nat

mutual
def compE (pos : Nat) (ctx : Ctx) : Expr → List Instr
  | .int n => [.const n]
  | .add a b => compE pos ctx a ++ compE (pos + sizeE a) ctx b ++ [.add]
  | .getg k => [.getg k]
  | .ife c t e =>
    let p1 := pos + sizeE c + 3
    let p2 := p1 + sizeBV t + 3
    compE pos ctx c ++ [.jif p2] ++ compBV p1 ctx t ++ [.jump (p2 + sizeBV e)] ++ compBV p2 ctx e
  | .whileE c b =>
    let head := pos + 1
    let pbody := head + sizeE c + 3 + 1
    let exit := pbody + sizeBV b + 3
    [.null] ++ compE head (head, exit) c ++ [.jif exit, .pop] ++ compBV pbody (head, exit) b ++ [.jump head]
def compS (pos : Nat) (ctx : Ctx) : Stmt → List Instr
  | .expr e => compE pos ctx e ++ [.pop]
  | .setg k e => compE pos ctx e ++ [.setg k]
  | .brk => [.null, .jump ctx.2]
  | .cont => [.null, .jump ctx.1]
/-- block in value position: the Rust compiler deletes the trailing Pop or appends Null; here that is decided
on the syntax, and `compBV_eq_peephole` (not needed for the simulation) relates the two -/
def compBV (pos : Nat) (ctx : Ctx) : Block → List Instr
  | .nil => [.null]
  | .cons (.expr e) .nil => compE pos ctx e
  | .cons s .nil => compS pos ctx s ++ [.null]
  | .cons s b => compS pos ctx s ++ compBV (pos + sizeS s) ctx b
end

inductive Val where | int (n : Int) | null
  deriving Repr, DecidableEq

structure St where
  pc : Nat
  stk : List Val
  g : List Val
  last : Val

def instrAt : List Instr → Nat → Option Instr
  | [], _ => none
  | i :: is, pc => if pc = 0 then some i else if pc < i.size then none else instrAt is (pc - i.size)

def truthy : Val → Bool
  | .int n => n != 0
  | .null => false

def step (C : List Instr) (s : St) : Option St :=
  match instrAt C s.pc with
  | none => none
  | some i =>
    match i, s.stk with
    | .const n, stk => some { s with pc := s.pc + 3, stk := .int n :: stk }
    | .null, stk => some { s with pc := s.pc + 1, stk := .null :: stk }
    | .add, .int b :: .int a :: stk => some { s with pc := s.pc + 1, stk := .int (a + b) :: stk }
    | .pop, v :: stk => some { s with pc := s.pc + 1, stk := stk, last := v }
    | .getg k, stk => some { s with pc := s.pc + 3, stk := (s.g.getD k .null) :: stk }
    | .setg k, v :: stk => some { s with pc := s.pc + 3, stk := stk, g := s.g.set k v }
    | .jump t, stk => some { s with pc := t, stk := stk }
    | .jif t, v :: stk => some { s with pc := if truthy v then s.pc + 3 else t, stk := stk }
    | _, _ => none

inductive Steps (C : List Instr) : St → St → Prop where
  | refl (s) : Steps C s s
  | cons {s s' s''} : step C s = some s' → Steps C s' s'' → Steps C s s''

theorem Steps.trans {C s1 s2 s3} (h1 : Steps C s1 s2) (h2 : Steps C s2 s3) : Steps C s1 s3 := by
  induction h1 with
  | refl => exact h2
  | cons h _ ih => exact .cons h (ih h2)

theorem Steps.one {C s s'} (h : step C s = some s') : Steps C s s' := .cons h (.refl _)

def codeAt (C : List Instr) (pos : Nat) (is : List Instr) : Prop :=
  ∃ pre post, C = pre ++ is ++ post ∧ csize pre = pos

theorem instrAt_app (pre : List Instr) (i : Instr) (post : List Instr) :
    instrAt (pre ++ i :: post) (csize pre) = some i := by
  induction pre with
  | nil => simp [instrAt, csize]
  | cons j js ih =>
    have : 0 < j.size := by cases j <;> simp [Instr.size]
    simp only [List.cons_append, instrAt, csize]
    rw [if_neg (by omega), if_neg (by omega)]
    have : j.size + csize js - j.size = csize js := by omega
    rw [this]; exact ih

theorem codeAt_head {C pos i is} (h : codeAt C pos (i :: is)) : instrAt C pos = some i := by
  obtain ⟨pre, post, rfl, rfl⟩ := h
  simp only [List.append_assoc, List.cons_append]
  exact instrAt_app _ _ _

theorem codeAt_tail {C pos i is} (h : codeAt C pos (i :: is)) : codeAt C (pos + i.size) is := by
  obtain ⟨pre, post, rfl, rfl⟩ := h
  exact ⟨pre ++ [i], post, by simp, by simp [csize_append, csize]⟩

theorem codeAt_app_left {C pos a b} (h : codeAt C pos (a ++ b)) : codeAt C pos a := by
  obtain ⟨pre, post, rfl, rfl⟩ := h
  exact ⟨pre, b ++ post, by simp, rfl⟩

theorem codeAt_app_right {C pos a b} (h : codeAt C pos (a ++ b)) : codeAt C (pos + csize a) b := by
  obtain ⟨pre, post, rfl, rfl⟩ := h
  exact ⟨pre ++ a, post, by simp, by simp [csize_append]⟩


mutual
theorem sizeE_ok : ∀ e pos ctx, csize (compE pos ctx e) = sizeE e
  | .int _, _, _ => by simp [compE, sizeE, csize, Instr.size]
  | .getg _, _, _ => by simp [compE, sizeE, csize, Instr.size]
  | .add a b, pos, ctx => by
    simp [compE, sizeE, csize_append, csize, Instr.size, sizeE_ok a, sizeE_ok b]; omega
  | .ife c t e, pos, ctx => by
    simp [compE, sizeE, csize_append, csize, Instr.size, sizeE_ok c, sizeBV_ok t, sizeBV_ok e]; omega
  | .whileE c b, pos, ctx => by
    simp [compE, sizeE, csize_append, csize, Instr.size, sizeE_ok c, sizeBV_ok b]; omega
theorem sizeS_ok : ∀ s pos ctx, csize (compS pos ctx s) = sizeS s
  | .expr e, _, _ => by simp [compS, sizeS, csize_append, csize, Instr.size, sizeE_ok e]
  | .setg _ e, _, _ => by simp [compS, sizeS, csize_append, csize, Instr.size, sizeE_ok e]
  | .brk, _, _ => by simp [compS, sizeS, csize, Instr.size]
  | .cont, _, _ => by simp [compS, sizeS, csize, Instr.size]
theorem sizeBV_ok : ∀ b pos ctx, csize (compBV pos ctx b) = sizeBV b
  | .nil, _, _ => by simp [compBV, sizeBV, csize, Instr.size]
  | .cons s .nil, pos, ctx => by
    cases s with
    | expr e => simp [compBV, sizeBV, sizeE_ok e]
    | setg k e => simp [compBV, sizeBV, csize_append, csize, Instr.size, sizeS_ok (.setg k e)]
    | brk => simp [compBV, sizeBV, csize_append, csize, Instr.size, sizeS_ok .brk]
    | cont => simp [compBV, sizeBV, csize_append, csize, Instr.size, sizeS_ok .cont]
  | .cons s (.cons s2 b2), pos, ctx => by
    simp [compBV, sizeBV, csize_append, sizeS_ok s, sizeBV_ok (.cons s2 b2)]
end

inductive Res where | val (v : Val) | brk | cont
inductive SRes where | normal | brk | cont

mutual
def evalE : Nat → Expr → List Val → Val → Option (Res × List Val × Val)
  | 0, _, _, _ => none
  | _+1, .int k, g, l => some (.val (.int k), g, l)
  | _+1, .getg k, g, l => some (.val (g.getD k .null), g, l)
  | n+1, .add a b, g, l =>
    match evalE n a g l with
    | some (.val (.int x), g1, l1) =>
      match evalE n b g1 l1 with
      | some (.val (.int y), g2, l2) => some (.val (.int (x + y)), g2, l2)
      | _ => none  -- type error, or stop/volgende under a pending operand (outside the fragment)
    | some (.brk, g1, l1) => some (.brk, g1, l1)
    | some (.cont, g1, l1) => some (.cont, g1, l1)
    | _ => none
  | n+1, .ife c t e, g, l =>
    match evalE n c g l with
    | some (.val v, g1, l1) => if truthy v then evalBV n t g1 l1 else evalBV n e g1 l1
    | some (.brk, g1, l1) => some (.brk, g1, l1)
    | some (.cont, g1, l1) => some (.cont, g1, l1)
    | none => none
  | n+1, .whileE c b, g, l => evalLoop n c b .null g l
-- one run of the loop from its head, `vl` being the value of the previous iteration
def evalLoop : Nat → Expr → Block → Val → List Val → Val → Option (Res × List Val × Val)
  | 0, _, _, _, _, _ => none
  | n+1, c, b, vl, g, l =>
    match evalE n c g l with
    | some (.val v, g1, l1) =>
      if truthy v then
        -- the machine discards the previous iteration's value here, which lands in `last`
        match evalBV n b g1 vl with
        | some (.val v', g2, l2) => evalLoop n c b v' g2 l2
        | some (.brk, g2, l2) => some (.val .null, g2, l2)
        | some (.cont, g2, l2) => evalLoop n c b .null g2 l2
        | none => none
      else some (.val vl, g1, l1)
    | _ => none  -- stop/volgende inside the loop condition: residue (finding K3), outside the fragment
def evalBV : Nat → Block → List Val → Val → Option (Res × List Val × Val)
  | 0, _, _, _ => none
  | _+1, .nil, g, l => some (.val .null, g, l)
  | n+1, .cons (.expr e) .nil, g, l => evalE n e g l
  | n+1, .cons s .nil, g, l =>
    match evalS n s g l with
    | some (.normal, g1, l1) => some (.val .null, g1, l1)
    | some (.brk, g1, l1) => some (.brk, g1, l1)
    | some (.cont, g1, l1) => some (.cont, g1, l1)
    | none => none
  | n+1, .cons s b, g, l =>
    match evalS n s g l with
    | some (.normal, g1, l1) => evalBV n b g1 l1
    | some (.brk, g1, l1) => some (.brk, g1, l1)
    | some (.cont, g1, l1) => some (.cont, g1, l1)
    | none => none
def evalS : Nat → Stmt → List Val → Val → Option (SRes × List Val × Val)
  | 0, _, _, _ => none
  | n+1, .expr e, g, l =>
    match evalE n e g l with
    | some (.val v, g1, _) => some (.normal, g1, v)
    | some (.brk, g1, l1) => some (.brk, g1, l1)
    | some (.cont, g1, l1) => some (.cont, g1, l1)
    | none => none
  | n+1, .setg k e, g, l =>
    match evalE n e g l with
    | some (.val v, g1, l1) => some (.normal, g1.set k v, l1)
    | some (.brk, g1, l1) => some (.brk, g1, l1)
    | some (.cont, g1, l1) => some (.cont, g1, l1)
    | none => none
  | _+1, .brk, g, l => some (.brk, g, l)
  | _+1, .cont, g, l => some (.cont, g, l)
end

/-- where the machine is after an expression-like piece of code of size `sz` started at `pos` with stack `stk` -/
def after (C : List Instr) (pos sz : Nat) (ctx : Ctx) (stk g : List Val) (l : Val)
    (r : Res) (g' : List Val) (l' : Val) : Prop :=
  match r with
  | .val v => Steps C ⟨pos, stk, g, l⟩ ⟨pos + sz, v :: stk, g', l'⟩
  | .brk => Steps C ⟨pos, stk, g, l⟩ ⟨ctx.2, .null :: stk, g', l'⟩
  | .cont => Steps C ⟨pos, stk, g, l⟩ ⟨ctx.1, .null :: stk, g', l'⟩

def afterS (C : List Instr) (pos sz : Nat) (ctx : Ctx) (stk g : List Val) (l : Val)
    (r : SRes) (g' : List Val) (l' : Val) : Prop :=
  match r with
  | .normal => Steps C ⟨pos, stk, g, l⟩ ⟨pos + sz, stk, g', l'⟩
  | .brk => Steps C ⟨pos, stk, g, l⟩ ⟨ctx.2, .null :: stk, g', l'⟩
  | .cont => Steps C ⟨pos, stk, g, l⟩ ⟨ctx.1, .null :: stk, g', l'⟩

def PE (n : Nat) : Prop := ∀ e g l r g' l' C pos ctx stk,
  evalE n e g l = some (r, g', l') → codeAt C pos (compE pos ctx e) →
  after C pos (sizeE e) ctx stk g l r g' l'
def PS (n : Nat) : Prop := ∀ s g l r g' l' C pos ctx stk,
  evalS n s g l = some (r, g', l') → codeAt C pos (compS pos ctx s) →
  afterS C pos (sizeS s) ctx stk g l r g' l'
def PB (n : Nat) : Prop := ∀ b g l r g' l' C pos ctx stk,
  evalBV n b g l = some (r, g', l') → codeAt C pos (compBV pos ctx b) →
  after C pos (sizeBV b) ctx stk g l r g' l'
/-- the loop, entered at its head with the previous value on the stack, leaves through `exit` with its value -/
def PL (n : Nat) : Prop := ∀ c b vl g l r g' l' C pos ctx stk,
  evalLoop n c b vl g l = some (r, g', l') → codeAt C pos (compE pos ctx (.whileE c b)) →
  ∃ v, r = .val v ∧
    Steps C ⟨pos + 1, vl :: stk, g, l⟩ ⟨pos + sizeE (.whileE c b), v :: stk, g', l'⟩


theorem sim : ∀ n, PE n ∧ PS n ∧ PB n ∧ PL n := by
  intro n
  induction n with
  | zero =>
    refine ⟨?_, ?_, ?_, ?_⟩
    · intro e g l r g' l' C pos ctx stk h; simp [evalE] at h
    · intro s g l r g' l' C pos ctx stk h; simp [evalS] at h
    · intro b g l r g' l' C pos ctx stk h; simp [evalBV] at h
    · intro c b vl g l r g' l' C pos ctx stk h; simp [evalLoop] at h
  | succ n ih =>
    obtain ⟨ihE, ihS, ihB, ihL⟩ := ih
    refine ⟨?_, ?_, ?_, ?_⟩
    -- expressions
    · intro e g l r g' l' C pos ctx stk h hc
      cases e with
      | int k =>
        simp only [evalE, Option.some.injEq, Prod.mk.injEq] at h
        obtain ⟨rfl, rfl, rfl⟩ := h
        simp only [compE] at hc
        simp only [after, sizeE]
        apply Steps.one; simp [step, codeAt_head hc]
      | getg k =>
        simp only [evalE, Option.some.injEq, Prod.mk.injEq] at h
        obtain ⟨rfl, rfl, rfl⟩ := h
        simp only [compE] at hc
        simp only [after, sizeE]
        apply Steps.one; simp [step, codeAt_head hc]
      | add a b =>
        simp only [evalE] at h
        simp only [compE] at hc
        have hca := codeAt_app_left (codeAt_app_left hc)
        have hcb := codeAt_app_right (codeAt_app_left hc)
        have hcadd := codeAt_app_right hc
        simp only [csize_append, sizeE_ok, ← Nat.add_assoc] at hcb hcadd
        cases ha : evalE n a g l with
        | none => simp [ha] at h
        | some ra =>
          obtain ⟨r1, g1, l1⟩ := ra
          have sa := ihE a g l r1 g1 l1 C pos ctx stk ha hca
          cases r1 with
          | brk =>
            simp only [ha, Option.some.injEq, Prod.mk.injEq] at h; obtain ⟨rfl, rfl, rfl⟩ := h
            exact sa
          | cont =>
            simp only [ha, Option.some.injEq, Prod.mk.injEq] at h; obtain ⟨rfl, rfl, rfl⟩ := h
            exact sa
          | val va =>
            cases va with
            | null => simp [ha] at h
            | int x =>
              simp only [ha] at h
              cases hb : evalE n b g1 l1 with
              | none => simp [hb] at h
              | some rb =>
                obtain ⟨r2, g2, l2⟩ := rb
                cases r2 with
                | brk => simp [hb] at h
                | cont => simp [hb] at h
                | val vb =>
                  cases vb with
                  | null => simp [hb] at h
                  | int y =>
                    simp only [hb, Option.some.injEq, Prod.mk.injEq] at h; obtain ⟨rfl, rfl, rfl⟩ := h
                    have sb := ihE b g1 l1 _ g2 l2 C _ ctx (.int x :: stk) hb hcb
                    simp only [after] at sa sb ⊢
                    refine (sa.trans sb).trans ?_
                    apply Steps.one
                    simp [step, codeAt_head hcadd, sizeE, ← Nat.add_assoc]
      | ife c t e =>
        simp only [evalE] at h
        simp only [compE] at hc
        -- layout
        have h1 : codeAt C pos (compE pos ctx c) := by
          have := hc; simp only [List.append_assoc] at this; exact codeAt_app_left this
        have h2 := hc
        simp only [List.append_assoc, List.singleton_append] at h2
        have h2 := codeAt_app_right h2
        simp only [sizeE_ok] at h2
        have h3 := codeAt_tail h2
        simp only [Instr.size] at h3
        have h4 := codeAt_app_left h3
        have h5 := codeAt_app_right h3
        simp only [sizeBV_ok] at h5
        have h6 := codeAt_tail h5
        simp only [Instr.size] at h6
        cases hcnd : evalE n c g l with
        | none => simp [hcnd] at h
        | some rc =>
          obtain ⟨r1, g1, l1⟩ := rc
          have sc := ihE c g l r1 g1 l1 C pos ctx stk hcnd h1
          cases r1 with
          | brk =>
            simp only [hcnd, Option.some.injEq, Prod.mk.injEq] at h; obtain ⟨rfl, rfl, rfl⟩ := h
            exact sc
          | cont =>
            simp only [hcnd, Option.some.injEq, Prod.mk.injEq] at h; obtain ⟨rfl, rfl, rfl⟩ := h
            exact sc
          | val v0 =>
            simp only [hcnd] at h
            simp only [after] at sc
            by_cases htr : truthy v0
            · simp only [htr, if_true] at h
              have sb := ihB t g1 l1 r g' l' C _ ctx stk h h4
              have sj : Steps C ⟨pos + sizeE c, v0 :: stk, g1, l1⟩ ⟨pos + sizeE c + 3, stk, g1, l1⟩ := by
                apply Steps.one; simp [step, codeAt_head h2, htr]
              cases r with
              | val v =>
                simp only [after] at sb ⊢
                refine ((sc.trans sj).trans sb).trans ?_
                apply Steps.one
                simp [step, codeAt_head h5, sizeE]; omega
              | brk => simp only [after] at sb ⊢; exact (sc.trans sj).trans sb
              | cont => simp only [after] at sb ⊢; exact (sc.trans sj).trans sb
            · simp only [htr, Bool.false_eq_true, if_false] at h
              have sb := ihB e g1 l1 r g' l' C _ ctx stk h h6
              have sj : Steps C ⟨pos + sizeE c, v0 :: stk, g1, l1⟩ ⟨pos + sizeE c + 3 + sizeBV t + 3, stk, g1, l1⟩ := by
                apply Steps.one; simp [step, codeAt_head h2, htr]
              cases r with
              | val v =>
                simp only [after] at sb ⊢
                have : pos + sizeE (.ife c t e) = pos + sizeE c + 3 + sizeBV t + 3 + sizeBV e := by
                  simp [sizeE]; omega
                rw [this]
                exact (sc.trans sj).trans sb
              | brk => simp only [after] at sb ⊢; exact (sc.trans sj).trans sb
              | cont => simp only [after] at sb ⊢; exact (sc.trans sj).trans sb
      | whileE c b =>
        simp only [evalE] at h
        obtain ⟨v, rfl, hs⟩ := ihL c b .null g l r g' l' C pos ctx stk h hc
        simp only [after]
        refine Steps.cons ?_ hs
        simp only [compE, List.append_assoc, List.singleton_append, List.cons_append] at hc
        simp [step, codeAt_head hc]
    -- statements
    · intro s g l r g' l' C pos ctx stk h hc
      cases s with
      | expr e =>
        simp only [evalS] at h
        simp only [compS] at hc
        have hce := codeAt_app_left hc
        have hcp := codeAt_app_right hc
        simp only [sizeE_ok] at hcp
        cases he : evalE n e g l with
        | none => simp [he] at h
        | some re =>
          obtain ⟨r1, g1, l1⟩ := re
          have se := ihE e g l r1 g1 l1 C pos ctx stk he hce
          simp only [he] at h
          cases r1 with
          | brk =>
            simp only [Option.some.injEq, Prod.mk.injEq] at h; obtain ⟨rfl, rfl, rfl⟩ := h; exact se
          | cont =>
            simp only [Option.some.injEq, Prod.mk.injEq] at h; obtain ⟨rfl, rfl, rfl⟩ := h; exact se
          | val v =>
            simp only [Option.some.injEq, Prod.mk.injEq] at h; obtain ⟨rfl, rfl, rfl⟩ := h
            simp only [after] at se
            simp only [afterS]
            refine se.trans ?_
            apply Steps.one
            simp [step, codeAt_head hcp, sizeS, ← Nat.add_assoc]
      | setg k e =>
        simp only [evalS] at h
        simp only [compS] at hc
        have hce := codeAt_app_left hc
        have hcp := codeAt_app_right hc
        simp only [sizeE_ok] at hcp
        cases he : evalE n e g l with
        | none => simp [he] at h
        | some re =>
          obtain ⟨r1, g1, l1⟩ := re
          have se := ihE e g l r1 g1 l1 C pos ctx stk he hce
          simp only [he] at h
          cases r1 with
          | brk =>
            simp only [Option.some.injEq, Prod.mk.injEq] at h; obtain ⟨rfl, rfl, rfl⟩ := h; exact se
          | cont =>
            simp only [Option.some.injEq, Prod.mk.injEq] at h; obtain ⟨rfl, rfl, rfl⟩ := h; exact se
          | val v =>
            simp only [Option.some.injEq, Prod.mk.injEq] at h; obtain ⟨rfl, rfl, rfl⟩ := h
            simp only [after] at se
            simp only [afterS]
            refine se.trans ?_
            apply Steps.one
            simp [step, codeAt_head hcp, sizeS, ← Nat.add_assoc]
      | brk =>
        simp only [evalS, Option.some.injEq, Prod.mk.injEq] at h; obtain ⟨rfl, rfl, rfl⟩ := h
        simp only [compS] at hc
        simp only [afterS]
        have hc2 := codeAt_tail hc
        simp only [Instr.size] at hc2
        refine Steps.cons (s' := ⟨pos + 1, .null :: stk, g, l⟩) ?_ (Steps.one ?_)
        · simp [step, codeAt_head hc]
        · simp [step, codeAt_head hc2]
      | cont =>
        simp only [evalS, Option.some.injEq, Prod.mk.injEq] at h; obtain ⟨rfl, rfl, rfl⟩ := h
        simp only [compS] at hc
        simp only [afterS]
        have hc2 := codeAt_tail hc
        simp only [Instr.size] at hc2
        refine Steps.cons (s' := ⟨pos + 1, .null :: stk, g, l⟩) ?_ (Steps.one ?_)
        · simp [step, codeAt_head hc]
        · simp [step, codeAt_head hc2]
    -- blocks in value position
    · intro b g l r g' l' C pos ctx stk h hc
      -- a statement followed by more code: shared by the two non-trivial shapes
      have seq : ∀ (s : Stmt) (rest : List Instr) (k : Res × List Val × Val → Prop),
          codeAt C pos (compS pos ctx s ++ rest) →
          ∀ r1 g1 l1, evalS n s g l = some (r1, g1, l1) →
          afterS C pos (sizeS s) ctx stk g l r1 g1 l1 ∧ codeAt C (pos + sizeS s) rest := by
        intro s rest _ hcs r1 g1 l1 hs
        have := codeAt_app_right hcs
        simp only [sizeS_ok] at this
        exact ⟨ihS s g l r1 g1 l1 C pos ctx stk hs (codeAt_app_left hcs), this⟩
      cases b with
      | nil =>
        simp only [evalBV, Option.some.injEq, Prod.mk.injEq] at h; obtain ⟨rfl, rfl, rfl⟩ := h
        simp only [compBV] at hc
        simp only [after, sizeBV]
        apply Steps.one; simp [step, codeAt_head hc]
      | cons s b =>
        cases b with
        | nil =>
          have tail : ∀ s, (∀ e, s ≠ .expr e) →
              evalBV (n+1) (.cons s .nil) g l = some (r, g', l') →
              codeAt C pos (compS pos ctx s ++ [.null]) → sizeBV (.cons s .nil) = sizeS s + 1 →
              after C pos (sizeBV (.cons s .nil)) ctx stk g l r g' l' := by
            intro s hne hev hcs hsz
            rw [hsz]
            have hev' : (match evalS n s g l with
                | some (.normal, g1, l1) => some (Res.val .null, g1, l1)
                | some (.brk, g1, l1) => some (Res.brk, g1, l1)
                | some (.cont, g1, l1) => some (Res.cont, g1, l1)
                | none => none) = some (r, g', l') := by
              cases s with
              | expr e => exact absurd rfl (hne e)
              | setg k e => simpa only [evalBV] using hev
              | brk => simpa only [evalBV] using hev
              | cont => simpa only [evalBV] using hev
            cases hs : evalS n s g l with
            | none => simp [hs] at hev'
            | some rs =>
              obtain ⟨r1, g1, l1⟩ := rs
              obtain ⟨ss, hcn⟩ := seq s [.null] (fun _ => True) hcs r1 g1 l1 hs
              simp only [hs] at hev'
              cases r1 with
              | normal =>
                simp only [Option.some.injEq, Prod.mk.injEq] at hev'; obtain ⟨rfl, rfl, rfl⟩ := hev'
                simp only [afterS] at ss
                simp only [after]
                refine ss.trans ?_
                apply Steps.one; simp [step, codeAt_head hcn, ← Nat.add_assoc]
              | brk =>
                simp only [Option.some.injEq, Prod.mk.injEq] at hev'; obtain ⟨rfl, rfl, rfl⟩ := hev'
                exact ss
              | cont =>
                simp only [Option.some.injEq, Prod.mk.injEq] at hev'; obtain ⟨rfl, rfl, rfl⟩ := hev'
                exact ss
          cases s with
          | expr e =>
            simp only [evalBV] at h
            simp only [compBV] at hc
            simp only [sizeBV]
            exact ihE e g l r g' l' C pos ctx stk h hc
          | setg k e => exact tail _ (fun _ hh => by cases hh) h (by simpa only [compBV] using hc) (by simp [sizeBV])
          | brk => exact tail _ (fun _ hh => by cases hh) h (by simpa only [compBV] using hc) (by simp [sizeBV])
          | cont => exact tail _ (fun _ hh => by cases hh) h (by simpa only [compBV] using hc) (by simp [sizeBV])
        | cons s2 b2 =>
          have hev : (match evalS n s g l with
              | some (.normal, g1, l1) => evalBV n (.cons s2 b2) g1 l1
              | some (.brk, g1, l1) => some (Res.brk, g1, l1)
              | some (.cont, g1, l1) => some (Res.cont, g1, l1)
              | none => none) = some (r, g', l') := by
            cases s <;> simpa only [evalBV] using h
          have hcs : codeAt C pos (compS pos ctx s ++ compBV (pos + sizeS s) ctx (.cons s2 b2)) := by
            cases s <;> simpa only [compBV] using hc
          have hsz : sizeBV (.cons s (.cons s2 b2)) = sizeS s + sizeBV (.cons s2 b2) := by
            cases s <;> simp [sizeBV]
          rw [hsz]
          cases hs : evalS n s g l with
          | none => simp [hs] at hev
          | some rs =>
            obtain ⟨r1, g1, l1⟩ := rs
            obtain ⟨ss, hcn⟩ := seq s _ (fun _ => True) hcs r1 g1 l1 hs
            simp only [hs] at hev
            cases r1 with
            | normal =>
              have sb := ihB (.cons s2 b2) g1 l1 r g' l' C _ ctx stk hev hcn
              simp only [afterS] at ss
              cases r with
              | val v => simp only [after] at sb ⊢; simpa only [Nat.add_assoc] using ss.trans sb
              | brk => simp only [after] at sb ⊢; exact ss.trans sb
              | cont => simp only [after] at sb ⊢; exact ss.trans sb
            | brk =>
              simp only [Option.some.injEq, Prod.mk.injEq] at hev; obtain ⟨rfl, rfl, rfl⟩ := hev
              exact ss
            | cont =>
              simp only [Option.some.injEq, Prod.mk.injEq] at hev; obtain ⟨rfl, rfl, rfl⟩ := hev
              exact ss
    -- loops
    · intro c b vl g l r g' l' C pos ctx stk h hc
      simp only [evalLoop] at h
      have hc0 := hc
      simp only [compE] at hc
      -- layout of the loop
      have hA := hc
      simp only [List.append_assoc, List.singleton_append, List.cons_append, List.nil_append] at hA
      have hB := codeAt_tail hA            -- after the seed Null: condition ...
      simp only [Instr.size] at hB
      have hcond := codeAt_app_left hB
      have hC := codeAt_app_right hB       -- jif exit :: pop :: body ++ [jump head]
      simp only [sizeE_ok] at hC
      have hD := codeAt_tail hC            -- pop :: body ++ [jump head]
      simp only [Instr.size] at hD
      have hE := codeAt_tail hD            -- body ++ [jump head]
      simp only [Instr.size] at hE
      have hbody := codeAt_app_left hE
      have hJ := codeAt_app_right hE       -- [jump head]
      simp only [sizeBV_ok] at hJ
      have hexit : pos + sizeE (.whileE c b) = pos + 1 + sizeE c + 3 + 1 + sizeBV b + 3 := by
        simp [sizeE]; omega
      cases hcnd : evalE n c g l with
      | none => simp [hcnd] at h
      | some rc =>
        obtain ⟨r1, g1, l1⟩ := rc
        simp only [hcnd] at h
        cases r1 with
        | brk => simp at h
        | cont => simp at h
        | val v =>
          have sc := ihE c g l _ g1 l1 C (pos + 1) (pos + 1, pos + 1 + sizeE c + 3 + 1 + sizeBV b + 3)
            (vl :: stk) hcnd hcond
          simp only [after] at sc
          by_cases htr : truthy v
          · simp only [htr, if_true] at h
            -- condition true: fall through the jif, discard the previous value, run the body
            have sj : Steps C ⟨pos + 1 + sizeE c, v :: vl :: stk, g1, l1⟩
                ⟨pos + 1 + sizeE c + 3 + 1, stk, g1, vl⟩ := by
              refine Steps.cons (s' := ⟨pos + 1 + sizeE c + 3, vl :: stk, g1, l1⟩) ?_ (Steps.one ?_)
              · simp [step, codeAt_head hC, htr]
              · simp [step, codeAt_head hD]
            cases hb : evalBV n b g1 vl with
            | none => simp [hb] at h
            | some rb =>
              obtain ⟨r2, g2, l2⟩ := rb
              have sb := ihB b g1 vl r2 g2 l2 C _ (pos + 1, pos + 1 + sizeE c + 3 + 1 + sizeBV b + 3)
                stk hb hbody
              simp only [hb] at h
              cases r2 with
              | val v' =>
                simp only [after] at sb
                obtain ⟨w, rfl, hs⟩ := ihL c b v' g2 l2 r g' l' C pos ctx stk h hc0
                refine ⟨w, rfl, ?_⟩
                refine (((sc.trans sj).trans sb).trans (Steps.one ?_)).trans hs
                simp [step, codeAt_head hJ]
              | brk =>
                simp only [Option.some.injEq, Prod.mk.injEq] at h; obtain ⟨rfl, rfl, rfl⟩ := h
                simp only [after] at sb
                refine ⟨.null, rfl, ?_⟩
                rw [hexit]
                exact (sc.trans sj).trans sb
              | cont =>
                simp only [after] at sb
                obtain ⟨w, rfl, hs⟩ := ihL c b .null g2 l2 r g' l' C pos ctx stk h hc0
                exact ⟨w, rfl, ((sc.trans sj).trans sb).trans hs⟩
          · simp only [htr, Bool.false_eq_true, if_false, Option.some.injEq, Prod.mk.injEq] at h
            obtain ⟨rfl, rfl, rfl⟩ := h
            refine ⟨vl, rfl, ?_⟩
            rw [hexit]
            refine sc.trans (Steps.one ?_)
            simp [step, codeAt_head hC, htr]

#print axioms Loop.sim
end Loop
