import Nlmodel.Proofs.Lemmas.SimStmtG
namespace Nl
namespace Sim

/-- source expressions of stage 2 -/
inductive AE : Expr → Prop where
  | int (v : Int) : AE (.int v)
  | bool (b : Bool) : AE (.bool b)
  | ident (n : Text) : AE (.ident n)
  | not (e : Expr) : AE e → AE (.pre .not e)
  | neg (e : Expr) : AE e → AE (.pre .sub e)
  | bin (l : Expr) (op : Op) (r : Expr) (bop : BinOp) : opToBin op = some bop → AE l → AE r → AE (.infix l op r)
  | assign (n : Text) (e : Expr) : AE e → AE (.assign (.ident n) e)

inductive AS : Stmt → Prop where
  | expr (e : Expr) : AE e → AS (.expr e)
  | letS (n : Text) (e : Expr) : AE e → AS (.letS n e)

inductive AB : Block → Prop where
  | nil : AB .nil
  | cons (s : Stmt) (b : Block) : AS s → AB b → AB (.cons s b)

/-- slots of a single global scope (newest first): position from the end -/
def slotsOf : List (Text × Nat) → Gam
  | [] => []
  | (_, b) :: rest => (b, rest.length) :: slotsOf rest

theorem slotsOf_bounds (sc : List (Text × Nat)) : ∀ p ∈ slotsOf sc, p.2 < sc.length ∧ ∃ n, (n, p.1) ∈ sc := by
  induction sc with
  | nil => intro p hp; cases hp
  | cons x rest ih =>
    obtain ⟨n, b⟩ := x
    intro p hp
    simp only [slotsOf, List.mem_cons] at hp
    rcases hp with rfl | hp
    · exact ⟨by simp, n, by simp⟩
    · obtain ⟨h1, m, h2⟩ := ih p hp
      exact ⟨by simp; omega, m, by simp [h2]⟩

theorem lookupFlat_slots (sc : List (Text × Nat)) (n : Text) (idx bid : Nat) (h : lookupFlat sc n = some (idx, bid)) :
    (bid, idx) ∈ slotsOf sc := by
  induction sc with
  | nil => simp [lookupFlat] at h
  | cons x rest ih =>
    obtain ⟨m, b⟩ := x
    simp only [lookupFlat] at h
    split at h
    · simp only [Option.some.injEq, Prod.mk.injEq] at h
      obtain ⟨h1, h2⟩ := h
      subst h1; subst h2
      simp [slotsOf]
    · simp only [slotsOf, List.mem_cons]
      exact Or.inr (ih h)

/-- the resolver state while compiling top-level code with one global scope -/
structure TopInv (st : RState) (sc : List (Text × Nat)) : Prop where
  shape : ∃ ms, st.ctxs = [{ isGlobal := true, maxSize := ms, scopes := [sc] }]
  fresh : ∀ p ∈ sc, p.2 < st.nextId

theorem top_resolve (st : RState) (sc : List (Text × Nat)) (h : TopInv st sc) (n : Text) (r : Ref)
    (hr : st.resolve n = some r) : ∃ k, r = ⟨r.bid, .global k⟩ ∧ (r.bid, k) ∈ slotsOf sc := by
  obtain ⟨ms, hs⟩ := h.shape
  unfold RState.resolve at hr
  rw [hs] at hr
  simp only [Ctx.resolve, Ctx.flat, List.flatten_cons, List.flatten_nil, List.append_nil] at hr
  cases hl : lookupFlat sc n with
  | none => simp [hl, List.getLast?] at hr
  | some p =>
    obtain ⟨idx, bid⟩ := p
    simp only [hl, ↓reduceIte, Option.some.injEq] at hr
    subst hr
    exact ⟨idx, rfl, lookupFlat_slots sc n idx bid hl⟩

/-- resolving a stage-2 expression leaves the resolver state alone and yields a well-scoped tree -/
theorem resolveE_we (sc : List (Text × Nat)) : ∀ (e : Expr), AE e → ∀ (st : RState), TopInv st sc →
    ∀ e' st', resolveE e st = .ok (e', st') → st' = st ∧ WE (slotsOf sc) e' := by
  intro e hae
  induction hae with
  | int v => intro st _ e' st' h; simp only [resolveE] at h; injection h with h; injection h with h1 h2; subst h1; subst h2; exact ⟨rfl, .int v⟩
  | bool b => intro st _ e' st' h; simp only [resolveE] at h; injection h with h; injection h with h1 h2; subst h1; subst h2; exact ⟨rfl, .bool b⟩
  | ident n =>
    intro st hinv e' st' h
    simp only [resolveE] at h
    cases hr : st.resolve n with
    | none => simp [hr] at h
    | some r =>
      simp only [hr] at h
      injection h with h; injection h with h1 h2; subst h1; subst h2
      obtain ⟨k, hk, hm⟩ := top_resolve st sc hinv n r hr
      rw [hk]
      exact ⟨rfl, .var r.bid k hm⟩
  | not e _ ih =>
    intro st hinv e' st' h
    simp only [resolveE] at h
    cases hr : resolveE e st with
    | error er => simp [hr] at h
    | ok p =>
      obtain ⟨e1, st1⟩ := p
      simp only [hr] at h
      injection h with h; injection h with h1 h2; subst h1; subst h2
      obtain ⟨hs, hw⟩ := ih st hinv e1 st1 hr
      exact ⟨hs, .not e1 hw⟩
  | neg e _ ih =>
    intro st hinv e' st' h
    simp only [resolveE] at h
    cases hr : resolveE e st with
    | error er => simp [hr] at h
    | ok p =>
      obtain ⟨e1, st1⟩ := p
      simp only [hr] at h
      injection h with h; injection h with h1 h2; subst h1; subst h2
      obtain ⟨hs, hw⟩ := ih st hinv e1 st1 hr
      exact ⟨hs, .neg e1 hw⟩
  | bin l op r bop hop _ _ ihl ihr =>
    intro st hinv e' st' h
    simp only [resolveE] at h
    cases hl : resolveE l st with
    | error er => simp [hl] at h
    | ok p =>
      obtain ⟨l1, st1⟩ := p
      obtain ⟨hs1, hw1⟩ := ihl st hinv l1 st1 hl
      subst hs1
      simp only [hl] at h
      cases hr : resolveE r st1 with
      | error er => simp [hr] at h
      | ok q =>
        obtain ⟨r1, st2⟩ := q
        obtain ⟨hs2, hw2⟩ := ihr st1 hinv r1 st2 hr
        subst hs2
        simp only [hr, hop] at h
        injection h with h; injection h with h1 h2; subst h1; subst h2
        exact ⟨rfl, .bin l1 bop r1 hw1 hw2⟩
  | assign n e _ ih =>
    intro st hinv e' st' h
    simp only [resolveE] at h
    cases hr : st.resolve n with
    | none => simp [hr] at h
    | some r =>
      simp only [hr] at h
      cases he : resolveE e st with
      | error er => simp [he] at h
      | ok p =>
        obtain ⟨e1, st1⟩ := p
        simp only [he] at h
        injection h with h; injection h with h1 h2; subst h1; subst h2
        obtain ⟨hs, hw⟩ := ih st hinv e1 st1 he
        obtain ⟨k, hk, hm⟩ := top_resolve st sc hinv n r hr
        rw [hk]
        exact ⟨hs, .assign r.bid k e1 hm hw⟩

theorem top_define (st : RState) (sc : List (Text × Nat)) (h : TopInv st sc) (n : Text) :
    (st.define n).2 = ⟨st.nextId, .global sc.length⟩ ∧ TopInv (st.define n).1 ((n, st.nextId) :: sc) := by
  obtain ⟨ms, hs⟩ := h.shape
  unfold RState.define
  rw [hs]
  simp only [Ctx.define, Ctx.totalLen, Ctx.flat, List.flatten_cons, List.flatten_nil, List.append_nil, ↓reduceIte]
  refine ⟨by first | rfl | trivial, ⟨⟨ms + 1, by first | rfl | trivial⟩, ?_⟩⟩
  intro p hp
  simp only [List.mem_cons] at hp
  rcases hp with rfl | hp
  · simp
  · have := h.fresh p hp; simp only; omega

theorem resolveS_ws (sc : List (Text × Nat)) (s : Stmt) (hs : AS s) (st : RState) (hinv : TopInv st sc)
    (s' : RStmt) (st' : RState) (h : resolveS s st = .ok (s', st')) :
    ∃ sc', TopInv st' sc' ∧ WS (slotsOf sc) s' (slotsOf sc') := by
  cases hs with
  | expr e hae =>
    simp only [resolveS] at h
    cases hr : resolveE e st with
    | error er => simp [hr] at h
    | ok p =>
      obtain ⟨e1, st1⟩ := p
      simp only [hr] at h
      injection h with h; injection h with h1 h2; subst h1; subst h2
      obtain ⟨hst, hw⟩ := resolveE_we sc e hae st hinv e1 st1 hr
      subst hst
      exact ⟨sc, hinv, .expr _ e1 hw⟩
  | letS n e hae =>
    simp only [resolveS] at h
    obtain ⟨hr, hinv1⟩ := top_define st sc hinv n
    cases he : resolveE e (st.define n).1 with
    | error er => simp [he] at h
    | ok p =>
      obtain ⟨e1, st1⟩ := p
      simp only [he] at h
      injection h with h; injection h with h1 h2; subst h1; subst h2
      obtain ⟨hst, hw⟩ := resolveE_we _ e hae _ hinv1 e1 st1 he
      subst hst
      rw [hr]
      refine ⟨(n, st.nextId) :: sc, hinv1, ?_⟩
      have hfresh : ∀ p ∈ slotsOf sc, p.1 ≠ st.nextId ∧ p.2 ≠ sc.length := by
        intro p hp
        obtain ⟨h1, m, h2⟩ := slotsOf_bounds sc p hp
        have := hinv.fresh (m, p.1) h2
        simp only at this
        exact ⟨by omega, by omega⟩
      exact .letS (slotsOf sc) st.nextId sc.length e1 hfresh (by simpa [slotsOf] using hw)

theorem resolveSs_wb : ∀ (b : Block), AB b → ∀ (sc : List (Text × Nat)) (st : RState), TopInv st sc →
    ∀ b' st', resolveSs b st = .ok (b', st') → ∃ sc', TopInv st' sc' ∧ WB (slotsOf sc) b' (slotsOf sc')
  | .nil, _, sc, st, hinv, b', st', h => by
    simp only [resolveSs] at h
    injection h with h; injection h with h1 h2; subst h1; subst h2
    exact ⟨sc, hinv, .nil _⟩
  | .cons s rest, hab, sc, st, hinv, b', st', h => by
    cases hab with
    | cons _ _ hs hrest =>
      simp only [resolveSs] at h
      cases hr : resolveS s st with
      | error er => simp [hr] at h
      | ok p =>
        obtain ⟨s1, st1⟩ := p
        simp only [hr] at h
        obtain ⟨sc1, hinv1, hws⟩ := resolveS_ws sc s hs st hinv s1 st1 hr
        cases hr2 : resolveSs rest st1 with
        | error er => simp [hr2] at h
        | ok q =>
          obtain ⟨b1, st2⟩ := q
          simp only [hr2] at h
          injection h with h; injection h with h1 h2; subst h1; subst h2
          obtain ⟨sc2, hinv2, hwb⟩ := resolveSs_wb rest hrest sc1 st1 hinv1 b1 st2 hr2
          exact ⟨sc2, hinv2, .cons _ _ _ _ _ hws hwb⟩

/-- R1 for stage 2: the resolver turns every stage-2 source program into a well-scoped tree -/
theorem resolve_wb (ast : Block) (hab : AB ast) (p : RBlock) (h : resolveProgram ast = .ok p) :
    ∃ Γ', WB [] p Γ' := by
  unfold resolveProgram at h
  cases hr : resolveSs ast {} with
  | error er => simp [hr] at h
  | ok q =>
    obtain ⟨b, st'⟩ := q
    simp only [hr] at h
    injection h with h; subst h
    have hinv : TopInv ({} : RState) [] := ⟨⟨0, rfl⟩, by intro p hp; cases hp⟩
    obtain ⟨sc', _, hwb⟩ := resolveSs_wb ast hab [] {} hinv b st' hr
    exact ⟨slotsOf sc', by simpa [slotsOf] using hwb⟩

end Sim
end Nl
