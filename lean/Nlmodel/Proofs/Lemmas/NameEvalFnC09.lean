/- C09 with functions, stated purely on the name side (no resolver, no binder ids): "a function body sees its own parameters
   and locals and the globals but not the locals of whoever calls it". -/
import Nlmodel.Spec.NameEvalFn
namespace Nl
namespace NameEvalFn

/-! ### dynamic: a call never changes the caller's activation -/

/-- the end of a call puts the caller's activation back -/
theorem finishCall_restores (saved : FState) (r : FRes NVal) (v : NVal) (st' : FState)
    (h : finishCall saved r = .val v st') : st'.locals = saved.locals ∧ st'.vis = saved.vis := by
  cases r <;> simp only [finishCall, FRes.val.injEq, reduceCtorEq] at h
  · obtain ⟨_, rfl⟩ := h; exact ⟨rfl, rfl⟩
  · obtain ⟨_, rfl⟩ := h; exact ⟨rfl, rfl⟩

/-- the callee starts in a FRESH activation: one scope with exactly the parameters; nothing of the caller's activation
    is in it -/
theorem enterCall_fresh (st : FState) (vis : Nat) (ps : List Text) (xs : List NVal) :
    (enterCall st vis ps xs).locals = [bindN [] ps xs] ∧ (enterCall st vis ps xs).vis = some vis ∧
    (enterCall st vis ps xs).globals = st.globals := ⟨rfl, rfl, rfl⟩

/-- C09 (c), dynamic half: after a call that returns, the caller's activation scope stack (and its view of the globals)
    is exactly what it was when the callee was entered (`st2` = the state after the arguments and the callee expression
    have been evaluated); only `globals`, `last`, `out`, `nfun` may differ -/
theorem call_keeps_caller_activation (f : Nat) (fe : Expr) (as : Exprs) (st st1 st2 st' : FState) (xs : List NVal)
    (fv v : NVal) (h1 : evalEs f as st = .val xs st1) (h2 : evalE f fe st1 = .val fv st2)
    (h : evalE (f + 1) (.call fe as) st = .val v st') : st'.locals = st2.locals ∧ st'.vis = st2.vis := by
  simp only [evalE] at h
  split at h
  · cases h
  · simp only [h1, h2] at h
    cases fv with
    | fn id vis ps body =>
      simp only at h
      split at h
      · cases h
      · exact finishCall_restores _ _ _ _ h
    | _ => cases h

/-- inside a body a name means: the activation's scopes first, then the globals visible at the literal; the caller's
    activation is not consulted (it is not even reachable: `enterCall` replaced it) -/
theorem lookup_in_body (s : FState) (k : Nat) (hv : s.vis = some k) (n : Text) :
    s.lookup n = match lookup s.locals n with
      | some v => some v
      | none => lookupScope (visPart k (topScope s.globals)) n := by
  simp only [FState.lookup, hv]
  cases NameEvalFn.lookup s.locals n <;> rfl

/-- `stel` inside a body declares in the activation's innermost scope; the globals are untouched -/
theorem declare_in_body (s : FState) (k : Nat) (hv : s.vis = some k) (sc : Scope) (scs : List Scope) (hl : s.locals = sc :: scs)
    (n : Text) : (s.declare n).locals = ((n, none) :: sc) :: scs ∧ (s.declare n).globals = s.globals := by
  simp [FState.declare, FState.cur, FState.setCur, hv, hl]

/-! ### static: the rule for a body consults the body's scopes and the globals visible at the literal, nothing else -/

theorem declE_ident_body (gs : List Text) (sc : List (List Text)) (x : Text) :
    declE (some gs) sc (.ident x) = (visible sc x || gs.contains x) := by
  simp only [declE, visibleFn]

/-- C09 (c), static half: a function literal (at top level, where the top-level names are `top`) whose body mentions a
    name `x` that is neither a parameter, nor declared before in the body, nor a top-level name visible at the literal
    (nor the literal's own name) is NOT declared - whatever any caller declares: callers do not occur in the rule -/
theorem body_use_of_foreign_name_undeclared (top : List Text) (name : Text) (ps : List Text) (x : Text) (rest : Block)
    (htop : x ∉ top) (hname : x ≠ name) (hps : x ∉ ps) :
    declE none [top] (.func name ps (.cons (.expr (.ident x)) rest)) = false := by
  by_cases hn : name.isEmpty
  · simp [declE, declSs, declS, visibleFn, visible, hn, htop, hps]
  · simp [declE, declSs, declS, visibleFn, visible, hn, htop, hps, hname]

/-- ... in particular when `x` is a local of another function that calls this one:
    `functie f() { x ... }  functie g(..) { stel x = ..; f() ... }` is rejected -/
theorem callers_local_undeclared (f g x : Text) (psg : List Text) (e : Expr) (restf restg rest : Block)
    (hfx : x ≠ f) :
    declaredFn (.cons (.expr (.func f [] (.cons (.expr (.ident x)) restf)))
      (.cons (.expr (.func g psg (.cons (.letS x e) (.cons (.expr (.call (.ident f) .nil)) restg)))) rest)) = false := by
  have h := body_use_of_foreign_name_undeclared [] f [] x restf (by simp) hfx (by simp)
  simp only [declaredFn, declSs, declS, h, Bool.false_and]

/-- the body's own parameters and earlier declarations ARE visible -/
theorem param_visible (gs : List Text) (ps : List Text) (x : Text) (h : x ∈ ps) :
    declE (some gs) [[], ps.reverse] (.ident x) = true := by
  simp [declE, visibleFn, visible, h]

/-- a global visible at the literal is visible in the body -/
theorem global_visible_in_body (gs : List Text) (sc : List (List Text)) (x : Text) (h : x ∈ gs) :
    declE (some gs) sc (.ident x) = true := by
  simp [declE, visibleFn, h]

end NameEvalFn
end Nl
