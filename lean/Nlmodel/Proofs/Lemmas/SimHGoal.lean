/- Stage 5: the fragment with heap values, the invariant and the goals. -/
import Nlmodel.Proofs.Lemmas.SimHTree
namespace Nl
namespace SimH
open Spec Sim

/-! ## the fragment of stage 5 -/

/-- float literals are finite and non-negative (the lexer has no sign and no NaN/∞ spelling) -/
def LitF (x : UInt64) : Prop := F64.isNeg x = false ∧ F64.isNaN x = false

mutual
inductive HE : Gam → Bool → RExpr → Prop where
  | int (Γ ab) (v : Int) : HE Γ ab (.int v)
  | bool (Γ ab) (b : Bool) : HE Γ ab (.bool b)
  | float (Γ ab) (x : UInt64) : LitF x → HE Γ ab (.float x)
  | str (Γ ab) (s : Text) : HE Γ ab (.str s)
  | not (Γ ab) (e : RExpr) : HE Γ ab e → HE Γ ab (.not e)
  | neg (Γ ab) (e : RExpr) : HE Γ ab e → HE Γ ab (.neg e)
  | bin (Γ ab) (l : RExpr) (op : BinOp) (r : RExpr) : HE Γ ab l → HE Γ false r → HE Γ ab (.infix l op r)
  | var (Γ ab) (b k : Nat) : (b, k) ∈ Γ → HE Γ ab (.var ⟨b, .global k⟩)
  | assign (Γ ab) (b k : Nat) (e : RExpr) : (b, k) ∈ Γ → HE Γ ab e → HE Γ ab (.assignVar ⟨b, .global k⟩ e)
  | arr (Γ ab) (vs : RExprs) : HEs Γ vs → HE Γ ab (.arr vs)
  | index (Γ ab) (l i : RExpr) : HE Γ ab l → HE Γ false i → HE Γ ab (.index l i)
  | assignIndex (Γ ab) (l i v : RExpr) : HE Γ ab l → HE Γ false i → HE Γ false v → HE Γ ab (.assignIndex l i v)
  | builtin (Γ ab) (b : Builtin) (as : RExprs) : HEs Γ as → HE Γ ab (.callBuiltin b as)
  | ifE (Γ ab) (c : RExpr) (t : RBlock) (e : ROptBlock) (Γ1 : Gam) : HE Γ ab c → HB Γ ab t Γ1 → HO Γ ab e → HE Γ ab (.ifE c t e)
  | whileE (Γ ab) (c : RExpr) (b : RBlock) (Γ1 : Gam) : HE Γ false c → HB Γ true b Γ1 → HE Γ ab (.whileE c b)
inductive HEs : Gam → RExprs → Prop where
  | nil (Γ) : HEs Γ .nil
  | cons (Γ) (e : RExpr) (es : RExprs) : HE Γ false e → HEs Γ es → HEs Γ (.cons e es)
inductive HO : Gam → Bool → ROptBlock → Prop where
  | none (Γ ab) : HO Γ ab .none
  | some (Γ ab) (b : RBlock) (Γ1 : Gam) : HB Γ ab b Γ1 → HO Γ ab (.some b)
inductive HS : Gam → Bool → RStmt → Gam → Prop where
  | expr (Γ ab) (e : RExpr) : HE Γ ab e → HS Γ ab (.expr e) Γ
  | letS (Γ ab) (b k : Nat) (e : RExpr) : (∀ p ∈ Γ, p.1 ≠ b ∧ p.2 ≠ k) → HE ((b, k) :: Γ) ab e →
      HS Γ ab (.letS ⟨b, .global k⟩ e) ((b, k) :: Γ)
  | block (Γ ab) (b : RBlock) (Γ1 : Gam) : HB Γ ab b Γ1 → HS Γ ab (.block b) Γ
  | brk (Γ) : HS Γ true .brk Γ
  | cont (Γ) : HS Γ true .cont Γ
inductive HB : Gam → Bool → RBlock → Gam → Prop where
  | nil (Γ ab) : HB Γ ab .nil Γ
  | cons (Γ ab) (Γ1 Γ2 : Gam) (s : RStmt) (b : RBlock) : HS Γ ab s Γ1 → HB Γ1 ab b Γ2 → HB Γ ab (.cons s b) Γ2
end

theorem he_not_fused {Γ Γ' : Gam} {ab ab' : Bool} (l r : RExpr) (op : BinOp) (hl : HE Γ ab l) (hr : HE Γ' ab' r) :
    fusedCandidate l op r = none := by
  cases hl <;> cases hr <;> rfl

theorem hs_scope {Γ Γ1 : Gam} {ab : Bool} {s : RStmt} (h : HS Γ ab s Γ1) (hok : GamOK Γ) :
    GamOK Γ1 ∧ ∃ d, Γ1 = d ++ Γ := by
  cases h with
  | expr => exact ⟨hok, [], rfl⟩
  | letS _ _ b k e hf _ => exact ⟨gamOK_cons hok b k hf, [(b, k)], rfl⟩
  | block => exact ⟨hok, [], rfl⟩
  | brk => exact ⟨hok, [], rfl⟩
  | cont => exact ⟨hok, [], rfl⟩

theorem hb_scope : ∀ (b : RBlock) {Γ Γ1 : Gam} {ab : Bool}, HB Γ ab b Γ1 → GamOK Γ → GamOK Γ1 ∧ ∃ d, Γ1 = d ++ Γ
  | .nil, _, _, _, h, hok => by cases h; exact ⟨hok, [], rfl⟩
  | .cons s rest, _, _, _, h, hok => by
    cases h with
    | cons _ _ Γ1 _ _ _ hs hb =>
      obtain ⟨hok1, d1, e1⟩ := hs_scope hs hok
      obtain ⟨hok2, d2, e2⟩ := hb_scope rest hb hok1
      exact ⟨hok2, d2 ++ d1, by rw [e2, e1, List.append_assoc]⟩

/-! ## invariants and goals -/

/-- the machine's constants realise the pool: integers immediately, floats and strings as boxes that the
    program never reaches through the address map (a string constant is copied when it is evaluated) -/
structure PoolH (cvals : Array Value) (cs : List Const) (h : Heap) (μ : AMap) : Prop where
  ints : ∀ (k : Nat) (i : Int), cs[k]? = some (Const.int i) → cvals[k]? = some (Value.int i)
  floats : ∀ (k : Nat) (x : UInt64), cs[k]? = some (Const.float x) → ∃ a0, cvals[k]? = some (Value.float a0) ∧ h.get a0 = .float x
  strs : ∀ (k : Nat) (s : Text), cs[k]? = some (Const.str s) → ∃ a0, cvals[k]? = some (Value.str a0) ∧ h.get a0 = .str s ∧ ∀ a, μ a ≠ some a0
  lits : ∀ (k : Nat) (y : UInt64), cs[k]? = some (Const.float y) → LitF y

/-- the run's collector manages every cell allocated so far exactly once; every machine array is the
    image of an array of the semantics -/
structure MemOK (μ : AMap) (m : Mem) : Prop where
  nd : m.managed.Nodup
  lt : ∀ a, a ∈ m.managed → a < m.heap.cells.size
  arrs : ∀ a mvs, m.heap.get a = .arr mvs → a ∈ m.managed ∧ ∃ a0, μ a0 = some a

structure Inv5 (s0 : VM) (CS : List Const) (Γ : Gam) (μ : AMap) (st : SState) (g : Array Value) (l : Value) (m : Mem) (out : List Text) : Prop where
  relG : ∀ b k, (b, k) ∈ Γ → ∀ v, envGet st.genv b = some v → ∃ mv, VRh μ st m.heap v mv ∧ g.getD k .null = mv
  last : VRh μ st m.heap st.last l
  hr : HR μ st m.heap
  out : st.out = out
  pool : PoolH s0.cvals CS m.heap μ
  mok : MemOK μ m

theorem Inv5.weaken {s0 : VM} {CS : List Const} {Γ : Gam} (d : Gam) {μ : AMap} {st : SState} {g : Array Value} {l : Value} {m : Mem} {out : List Text}
    (h : Inv5 s0 CS (d ++ Γ) μ st g l m out) : Inv5 s0 CS Γ μ st g l m out :=
  ⟨fun b k hm v hv => h.relG b k (List.mem_append_right _ hm) v hv, h.last, h.hr, h.out, h.pool, h.mok⟩

/-- the machine reaches a failing step of kind `er`, having printed exactly `o` -/
def Fails5 (C : Code) (s : VM) (er : Err) (o : List Text) : Prop :=
  ∃ n s1 s2, execN C n s = some s1 ∧ step C s1 = .error er s2 ∧ s2.out = o

theorem Fails5.after {C : Code} {s s1 : VM} {er : Err} {o : List Text} (n : Nat) (h1 : execN C n s = some s1) (h2 : Fails5 C s1 er o) :
    Fails5 C s er o := by
  obtain ⟨k, a, b, ha, hb, ho⟩ := h2
  exact ⟨n + k, a, b, execN_add C n k s s1 a h1 ha, hb, ho⟩

section goals
variable (s0 : VM) (CS : List Const) (C : Code)

/-- from one configuration to another, with the invariant re-established for a grown state -/
def Reach5 (Γ : Gam) (μ : AMap) (st : SState) (ip : Nat) (stk g : Array Value) (l : Value) (m : Mem) (out : List Text)
    (ip' : Nat) (stk' : Array Value) (μ' : AMap) (st' : SState) (m' : Mem) : Prop :=
  ∃ g' l' out' n, execN C n (setH s0 ip stk g l m out) = some (setH s0 ip' stk' g' l' m' out') ∧
    Inv5 s0 CS Γ μ' st' g' l' m' out' ∧ Grow μ st m.heap μ' st' m'.heap

def GoalV5 (Γ : Gam) (ab : Bool) (lp : LoopCtx) (μ : AMap) (pos : Nat) (stk g : Array Value) (l : Value) (m : Mem) (out : List Text)
    (endIp : Nat) (base : Array Value) (st : SState) (r : Res SVal) : Prop :=
  match r with
  | .val v st' => ∃ mv μ' m', VRh μ' st' m'.heap v mv ∧ Reach5 s0 CS C Γ μ st pos stk g l m out endIp (base.push mv) μ' st' m'
  | .brk st' => ab = true ∧ ∃ μ' m', Reach5 s0 CS C Γ μ st pos stk g l m out (brkT lp) (base.push .null) μ' st' m'
  | .cont st' => ab = true ∧ ∃ μ' m', Reach5 s0 CS C Γ μ st pos stk g l m out (contT lp) (base.push .null) μ' st' m'
  | .err er ste => Fails5 C (setH s0 pos stk g l m out) er ste.out
  | .ret _ _ => False
  | .fuel => True
  | .unspec _ => True

def GoalU5 (Γ Γ' : Gam) (ab : Bool) (lp : LoopCtx) (μ : AMap) (pos : Nat) (stk g : Array Value) (l : Value) (m : Mem) (out : List Text)
    (endIp : Nat) (st : SState) (r : Res Unit) : Prop :=
  match r with
  | .val () st' => ∃ μ' m', Reach5 s0 CS C Γ' μ st pos stk g l m out endIp stk μ' st' m'
  | .brk st' => ab = true ∧ ∃ μ' m', Reach5 s0 CS C Γ μ st pos stk g l m out (brkT lp) (stk.push .null) μ' st' m'
  | .cont st' => ab = true ∧ ∃ μ' m', Reach5 s0 CS C Γ μ st pos stk g l m out (contT lp) (stk.push .null) μ' st' m'
  | .err er ste => Fails5 C (setH s0 pos stk g l m out) er ste.out
  | .ret _ _ => False
  | .fuel => True
  | .unspec _ => True

def GoalEs5 (Γ : Gam) (μ : AMap) (pos : Nat) (stk g : Array Value) (l : Value) (m : Mem) (out : List Text)
    (endIp : Nat) (st : SState) (r : Res (List SVal)) : Prop :=
  match r with
  | .val vs st' => ∃ ms μ' m', VRL μ' st' m'.heap vs ms ∧ Reach5 s0 CS C Γ μ st pos stk g l m out endIp (stk ++ ms.toArray) μ' st' m'
  | .brk _ => False
  | .cont _ => False
  | .err er ste => Fails5 C (setH s0 pos stk g l m out) er ste.out
  | .ret _ _ => False
  | .fuel => True
  | .unspec _ => True
end goals

end SimH
end Nl
