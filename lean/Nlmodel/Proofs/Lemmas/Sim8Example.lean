/- Stage 8: non-vacuity — programs with NAMED function literals inside larger expressions pass the validation
   (kernel-evaluated), so the end-to-end theorems `program8` / `eval_text8` apply to them; stage-7 programs still pass; and
   the boundary of the fragment. -/
import Nlmodel.Proofs.Lemmas.Sim8Check
import Nlmodel.Proofs.Lemmas.Sim7Example
namespace Nl
namespace Sim8
open Sim7

/-- `print(functie groet(n) { n }("hoi"))`: a named literal immediately called, inside an argument list -/
def ex8Ast1 : Block :=
  .cons (.expr (.call (.ident "print".toList)
    (.cons (.call (.func "groet".toList ["n".toList] (.cons (.expr (.ident "n".toList)) .nil)) (.cons (.str "hoi".toList) .nil)) .nil))) .nil

example : (match compileProgram ex8Ast1 with | .ok (r, _) => inFragment8 r | .error _ => false) = true := by decide +kernel

/-- `stel a = functie f(n) { als n < 1 { antwoord 0 }; f(n - 1) }; a(3) + f(2)`: a named literal as a `stel` initialiser,
    recursive through its own name, later used through both names -/
def ex8Ast2 : Block :=
  .cons (.letS "a".toList (.func "f".toList ["n".toList]
    (.cons (.expr (.ifE (.infix (.ident "n".toList) .lt (.int 1)) (.cons (.ret (.int 0)) .nil) .none))
    (.cons (.expr (.call (.ident "f".toList) (.cons (.infix (.ident "n".toList) .sub (.int 1)) .nil))) .nil))))
  (.cons (.expr (.infix (.call (.ident "a".toList) (.cons (.int 3) .nil)) .add (.call (.ident "f".toList) (.cons (.int 2) .nil)))) .nil)

example : (match compileProgram ex8Ast2 with | .ok (r, _) => inFragment8 r | .error _ => false) = true := by decide +kernel

/-- `[functie een() { 1 }(), functie twee() { 2 }()]`: two named literals as (called) array elements: the second is checked
    in the scope the first extended -/
def ex8Ast3 : Block :=
  .cons (.expr (.arr
    (.cons (.call (.func "een".toList [] (.cons (.expr (.int 1)) .nil)) .nil)
    (.cons (.call (.func "twee".toList [] (.cons (.expr (.int 2)) .nil)) .nil) .nil)))) .nil

example : (match compileProgram ex8Ast3 with | .ok (r, _) => inFragment8 r | .error _ => false) = true := by decide +kernel

/-- `functie f() { functie g(y) { y + 1 }(4) }()`: a named literal immediately called, whose body immediately calls another
    named literal (a local of `f`) -/
def ex8Ast4 : Block :=
  .cons (.expr (.call (.func "f".toList []
    (.cons (.expr (.call (.func "g".toList ["y".toList] (.cons (.expr (.infix (.ident "y".toList) .add (.int 1))) .nil)) (.cons (.int 4) .nil))) .nil)) .nil)) .nil

example : (match compileProgram ex8Ast4 with | .ok (r, _) => inFragment8 r | .error _ => false) = true := by decide +kernel

/-- `functie app(g, v) { g(v) }; app(functie dbl(y) { y * 2 }, 21) + dbl(1)`: a named literal as a call argument; the name it
    declares is used by the REST of the same expression (and would be by later statements) -/
def ex8Ast5 : Block :=
  .cons (.expr (.func "app".toList ["g".toList, "v".toList]
    (.cons (.expr (.call (.ident "g".toList) (.cons (.ident "v".toList) .nil))) .nil)))
  (.cons (.expr (.infix
    (.call (.ident "app".toList)
      (.cons (.func "dbl".toList ["y".toList] (.cons (.expr (.infix (.ident "y".toList) .mul (.int 2))) .nil)) (.cons (.int 21) .nil)))
    .add (.call (.ident "dbl".toList) (.cons (.int 1) .nil)))) .nil)

example : (match compileProgram ex8Ast5 with | .ok (r, _) => inFragment8 r | .error _ => false) = true := by decide +kernel

/-- `stel h = 0; h = functie k(z) { z }; functie w(n) { stel r = 1 + functie one() { 1 }(); zolang n > 0 { n = n - functie een() { 1 }() }; r }; w(2) + k(1)`:
    a named literal on the right of an assignment, as an operand, inside a loop body inside a function (a local, declared again
    at every iteration) -/
def ex8Ast6 : Block :=
  .cons (.letS "h".toList (.int 0))
  (.cons (.expr (.assign (.ident "h".toList) (.func "k".toList ["z".toList] (.cons (.expr (.ident "z".toList)) .nil))))
  (.cons (.expr (.func "w".toList ["n".toList]
    (.cons (.letS "r".toList (.infix (.int 1) .add (.call (.func "one".toList [] (.cons (.expr (.int 1)) .nil)) .nil)))
    (.cons (.expr (.whileE (.infix (.ident "n".toList) .gt (.int 0))
      (.cons (.expr (.assign (.ident "n".toList) (.infix (.ident "n".toList) .sub (.call (.func "een".toList [] (.cons (.expr (.int 1)) .nil)) .nil)))) .nil)))
    (.cons (.expr (.ident "r".toList)) .nil)))))
  (.cons (.expr (.infix (.call (.ident "w".toList) (.cons (.int 2) .nil)) .add (.call (.ident "k".toList) (.cons (.int 1) .nil)))) .nil)))

example : (match compileProgram ex8Ast6 with | .ok (r, _) => inFragment8 r | .error _ => false) = true := by decide +kernel

/-- every stage-7 example still passes -/
example : (match compileProgram ex7Ast1 with | .ok (r, _) => inFragment8 r | .error _ => false) = true := by decide +kernel
example : (match compileProgram ex7Ast1b with | .ok (r, _) => inFragment8 r | .error _ => false) = true := by decide +kernel
example : (match compileProgram ex7Ast2 with | .ok (r, _) => inFragment8 r | .error _ => false) = true := by decide +kernel
example : (match compileProgram ex7Ast3 with | .ok (r, _) => inFragment8 r | .error _ => false) = true := by decide +kernel
example : (match compileProgram ex7Ast4 with | .ok (r, _) => inFragment8 r | .error _ => false) = true := by decide +kernel
example : (match compileProgram ex7Ast5 with | .ok (r, _) => inFragment8 r | .error _ => false) = true := by decide +kernel
example : (match compileProgram ex7Ast6 with | .ok (r, _) => inFragment8 r | .error _ => false) = false := by decide +kernel

/-- the boundary: `print(functie fac(n) { als n < 2 { antwoord 1 }; n * fac(n - 1) }(5))` — a named literal INSIDE a larger
    expression whose body uses its own name: the body is checked against the persistent scope of the enclosing top-level
    statement, which the name joins only afterwards: rejected (accepted: the same literal as a statement or as the
    initialiser of a top-level `stel`, `ex8Ast2`) -/
def ex8Ast7 : Block :=
  .cons (.expr (.call (.ident "print".toList)
    (.cons (.call (.func "fac".toList ["n".toList]
      (.cons (.expr (.ifE (.infix (.ident "n".toList) .lt (.int 2)) (.cons (.ret (.int 1)) .nil) .none))
      (.cons (.expr (.infix (.ident "n".toList) .mul (.call (.ident "fac".toList) (.cons (.infix (.ident "n".toList) .sub (.int 1)) .nil)))) .nil)))
      (.cons (.int 5) .nil)) .nil))) .nil

example : (match compileProgram ex8Ast7 with | .ok (r, _) => inFragment8 r | .error _ => false) = false := by decide +kernel

end Sim8
end Nl
