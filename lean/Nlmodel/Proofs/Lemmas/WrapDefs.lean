/- C10 "top level or inside a function is unobservable", definitional side: definitions.
   `TE/TO/TS/TB δ`: two resolved trees of the stage-3 fragment have the same shape, and every global
   reference `⟨b, .global k⟩` of the left tree is the local reference `⟨b + δ, .loc k'⟩` in the right one.
   `Phi δ G`: the definitional state of the right program (inside the function) as a function of the state
   of the left program: the top-level bindings, with shifted binder ids, are the activation's bindings. -/
import Nlmodel.Spec.Eval
namespace Nl
namespace Wrap
open Spec

mutual
inductive TE (δ : Nat) : RExpr → RExpr → Prop where
  | int (v : Int) : TE δ (.int v) (.int v)
  | bool (b : Bool) : TE δ (.bool b) (.bool b)
  | not (e e' : RExpr) : TE δ e e' → TE δ (.not e) (.not e')
  | neg (e e' : RExpr) : TE δ e e' → TE δ (.neg e) (.neg e')
  | bin (l l' : RExpr) (op : BinOp) (r r' : RExpr) : TE δ l l' → TE δ r r' → TE δ (.infix l op r) (.infix l' op r')
  | var (b k k' : Nat) : TE δ (.var ⟨b, .global k⟩) (.var ⟨b + δ, .loc k'⟩)
  | assign (b k k' : Nat) (e e' : RExpr) : TE δ e e' →
      TE δ (.assignVar ⟨b, .global k⟩ e) (.assignVar ⟨b + δ, .loc k'⟩ e')
  | ifE (c c' : RExpr) (t t' : RBlock) (o o' : ROptBlock) : TE δ c c' → TB δ t t' → TO δ o o' →
      TE δ (.ifE c t o) (.ifE c' t' o')
  | whileE (c c' : RExpr) (b b' : RBlock) : TE δ c c' → TB δ b b' → TE δ (.whileE c b) (.whileE c' b')
inductive TO (δ : Nat) : ROptBlock → ROptBlock → Prop where
  | none : TO δ .none .none
  | some (b b' : RBlock) : TB δ b b' → TO δ (.some b) (.some b')
inductive TS (δ : Nat) : RStmt → RStmt → Prop where
  | expr (e e' : RExpr) : TE δ e e' → TS δ (.expr e) (.expr e')
  | letS (b k k' : Nat) (e e' : RExpr) : TE δ e e' → TS δ (.letS ⟨b, .global k⟩ e) (.letS ⟨b + δ, .loc k'⟩ e')
  | block (b b' : RBlock) : TB δ b b' → TS δ (.block b) (.block b')
  | brk : TS δ .brk .brk
  | cont : TS δ .cont .cont
inductive TB (δ : Nat) : RBlock → RBlock → Prop where
  | nil : TB δ .nil .nil
  | cons (s s' : RStmt) (b b' : RBlock) : TS δ s s' → TB δ b b' → TB δ (.cons s b) (.cons s' b')
end

/-! ### environments with shifted keys -/

def shiftEnv (δ : Nat) (env : List (Nat × SVal)) : List (Nat × SVal) := env.map (fun p => (p.1 + δ, p.2))

theorem envGet_shift (δ : Nat) (env : List (Nat × SVal)) (k : Nat) :
    envGet (shiftEnv δ env) (k + δ) = envGet env k := by
  induction env with
  | nil => rfl
  | cons p t ih =>
    simp only [envGet, shiftEnv, List.map_cons, List.find?_cons] at ih ⊢
    by_cases h : p.1 = k
    · simp [h]
    · have e1 : (p.1 + δ == k + δ) = false := by simp; omega
      have e2 : (p.1 == k) = false := by simp [h]
      simp only [e1, e2]
      exact ih

theorem envDel_shift (δ : Nat) (env : List (Nat × SVal)) (k : Nat) :
    envDel (shiftEnv δ env) (k + δ) = shiftEnv δ (envDel env k) := by
  induction env with
  | nil => rfl
  | cons p t ih =>
    simp only [envDel, shiftEnv, List.map_cons, List.filter_cons] at ih ⊢
    by_cases h : p.1 = k
    · simp [h, ih]
    · simp [h, ih]

theorem envSet_shift (δ : Nat) (env : List (Nat × SVal)) (k : Nat) (v : SVal) :
    envSet (shiftEnv δ env) (k + δ) v = shiftEnv δ (envSet env k v) := by
  have := envDel_shift δ env k
  simp only [envDel] at this
  simp only [envSet, this]
  rfl

/-! ### the state inside the function -/

/-- the state of the wrapped program while the body runs: `G` are its top-level bindings (the function's
    own name), the activation holds the top-level bindings of the original program under shifted ids -/
def Phi (δ : Nat) (G : List (Nat × SVal)) (s : SState) : SState :=
  { s with genv := G, lenv := shiftEnv δ s.genv }

def mapRes {α : Type} (δ : Nat) (G : List (Nat × SVal)) : Res α → Res α
  | .val a s => .val a (Phi δ G s)
  | .brk s => .brk (Phi δ G s)
  | .cont s => .cont (Phi δ G s)
  | .ret v s => .ret v (Phi δ G s)
  | .err e s => .err e (Phi δ G s)
  | .unspec s => .unspec (Phi δ G s)
  | .fuel => .fuel

section
variable (δ : Nat) (G : List (Nat × SVal))

theorem phi_lookup (s : SState) (b k k' : Nat) :
    (Phi δ G s).lookup ⟨b + δ, .loc k'⟩ = s.lookup ⟨b, .global k⟩ := by
  simp [SState.lookup, isGlobalSlot, Phi, envGet_shift]

theorem phi_bind (s : SState) (b k k' : Nat) (v : SVal) :
    (Phi δ G s).bind ⟨b + δ, .loc k'⟩ v = Phi δ G (s.bind ⟨b, .global k⟩ v) := by
  simp [SState.bind, isGlobalSlot, Phi, envSet_shift]

theorem phi_unbind (s : SState) (b k k' : Nat) :
    (Phi δ G s).unbind ⟨b + δ, .loc k'⟩ = Phi δ G (s.unbind ⟨b, .global k⟩) := by
  simp [SState.unbind, isGlobalSlot, Phi, envDel_shift]

theorem phi_last (s : SState) (v : SVal) : { Phi δ G s with last := v } = Phi δ G { s with last := v } := rfl

theorem phi_view (s : SState) (v : SVal) : (Phi δ G s).view v = s.view v := by
  cases v <;> rfl

theorem phi_box (s : SState) (a : SVal) (p : PRes) :
    (Phi δ G s).box a p = ((s.box a p).1, Phi δ G (s.box a p).2) := by
  cases p <;> rfl

end

/-- the value tree of a result depends on the store only -/
theorem tree_store (s s' : SState) (h : s.store = s'.store) :
    ∀ (n : Nat) (path : List Nat) (v : SVal), s.tree n path v = s'.tree n path v
  | 0, _, _ => rfl
  | n + 1, path, v => by
    cases v with
    | str a => simp only [SState.tree, SState.strAt, h]
    | arr a =>
      simp only [SState.tree, SState.arrAt, h]
      cases path.idxOf? a with
      | some k => rfl
      | none =>
        simp only
        congr 1
        apply List.map_congr_left
        intro x _
        exact tree_store s s' h n (a :: path) x
    | _ => rfl

end Wrap
end Nl
