/- C09 with heap values, stated for the resolver-independent evaluator `NameEvalH` (function-free stage-5 fragment): the two
   whole-program theorems in the form the property file uses, and a worked example (aliasing of one list through two names,
   shadowing, a string modified in place, `print`, `lengte`) on which both evaluators are computed and the correspondence theorem
   is instantiated. -/
import Nlmodel.Proofs.Lemmas.NameEvalHSimS
import Nlmodel.Proofs.Lemmas.NameEvalHStatic
namespace Nl
namespace NameEvalH
open Spec

/-- (H3a) for every program of the fragment: the resolver fails with the reference error iff the static rule rejects the
    program, it succeeds iff the static rule accepts it, and it gives no other error -/
theorem resolver_agrees_with_declared (ast : Block) (hs : SimH.SHB false ast) :
    (resolveProgram ast = .error .reference ↔ declared [[]] ast = false) ∧
    ((∃ r, resolveProgram ast = .ok r) ↔ declared [[]] ast = true) ∧
    (∀ e, resolveProgram ast = .error e → e = .reference) := by
  obtain ⟨h1, h2⟩ := resolve_ok_iff_declared ast hs
  refine ⟨⟨fun h => (resolve_error_iff_undeclared ast hs).1 ⟨_, h⟩, h2⟩, ⟨?_, h1⟩, resolve_error_is_reference ast hs⟩
  rintro ⟨r, hr⟩
  cases hd : declared [[]] ast with
  | true => rfl
  | false => rw [h2 hd] at hr; cases hr

/-- (H3b) `nameEval_eq_spec`, with the resolver's success derived from the static rule: a program of the fragment whose names
    are all declared has a resolved tree, and for every fuel the name-based evaluator on the SOURCE tree agrees with the
    definitional evaluator on that resolved tree -/
theorem declared_nameEval_eq_spec (ast : Block) (hs : SimH.SHB false ast) (hd : declared [[]] ast = true) :
    ∃ r, resolveProgram ast = .ok r ∧ ∀ F, NameEvalH.evalProgram F ast = Spec.evalProgram F r := by
  obtain ⟨r, hr⟩ := (resolve_ok_iff_declared ast hs).1 hd
  exact ⟨r, hr, fun F => nameEval_eq_spec ast hs r hr F⟩

/-! ### TEST (non-vacuity): aliasing, shadowing, a string modified in place, `print`, `lengte`

    stel a = [1, 2]
    stel b = a                          -- a second name for the SAME list
    b[0] = 10                           -- ... so this is visible through `a`
    stel s = "hoi"
    s[0] = "H"                          -- the string is modified in place
    { stel a = "x"; print(a) }          -- the inner `a` shadows the list; prints x
    print("{} {} {}", a, s, lengte(a))  -- the outer `a` again: prints [10, 2] Hoi 2
    a[0] + lengte(b) + lengte(s)        -- 10 + 2 + 3 = 15
-/

def ta : Text := ['a']
def tb : Text := ['b']
def ts : Text := ['s']

def demo : Block :=
  .cons (.letS ta (.arr (.cons (.int 1) (.cons (.int 2) .nil))))
  (.cons (.letS tb (.ident ta))
  (.cons (.expr (.assign (.index (.ident tb) (.int 0)) (.int 10)))
  (.cons (.letS ts (.str "hoi".toList))
  (.cons (.expr (.assign (.index (.ident ts) (.int 0)) (.str "H".toList)))
  (.cons (.block (.cons (.letS ta (.str "x".toList))
      (.cons (.expr (.call (.ident "print".toList) (.cons (.ident ta) .nil))) .nil)))
  (.cons (.expr (.call (.ident "print".toList) (.cons (.str "{} {} {}".toList) (.cons (.ident ta) (.cons (.ident ts)
      (.cons (.call (.ident "lengte".toList) (.cons (.ident ta) .nil)) .nil))))))
  (.cons (.expr (.infix (.infix (.index (.ident ta) (.int 0)) .add (.call (.ident "lengte".toList) (.cons (.ident tb) .nil))) .add
      (.call (.ident "lengte".toList) (.cons (.ident ts) .nil)))) .nil)))))))

/-- the observable part of an integer outcome -/
def obsInt : Spec.Outcome → Option (Int × List Text)
  | .value (.int i) out => some (i, out)
  | _ => none

theorem demo_fragment : SimH.SHB false demo := SimH.inSourceH_sound _ (by decide)

/-- TEST: the static rule accepts the program (the builtin names `print`, `lengte` are not variables) -/
theorem demo_declared : declared [[]] demo = true := by decide

/-- TEST: the name-based evaluator on the source tree: value 15, output `x` then `[10, 2] Hoi 2` -/
theorem demo_name_value :
    obsInt (NameEvalH.evalProgram 40 demo) = some (15, ["x".toList, "[10, 2] Hoi 2".toList]) := by decide +kernel

/-- TEST: the definitional evaluator on the resolver's output computes the same -/
theorem demo_spec_value : (match resolveProgram demo with
    | .ok r => obsInt (Spec.evalProgram 40 r)
    | .error _ => none) = some (15, ["x".toList, "[10, 2] Hoi 2".toList]) := by decide +kernel

/-- TEST: too little fuel is `.fuel` -/
example : (match NameEvalH.evalProgram 5 demo with | .fuel => true | _ => false) = true := by decide +kernel

/-- TEST: a variable named like a builtin does not capture the call `lengte(x)`; a use of the list after the block that
    declared it is rejected; so is a call of a user function (outside the fragment) -/
example : declared [[]] (.cons (.letS "lengte".toList (.int 1))
      (.cons (.expr (.call (.ident "lengte".toList) (.cons (.ident "lengte".toList) .nil))) .nil)) = true
    ∧ declared [[]] (.cons (.block (.cons (.letS ta (.arr .nil)) .nil)) (.cons (.expr (.index (.ident ta) (.int 0))) .nil)) = false
    ∧ declared [[]] (.cons (.letS ta (.int 1)) (.cons (.expr (.call (.ident ta) .nil)) .nil)) = false := by decide

/-- TEST: an index error is the same error on the name side (with the output so far) -/
example : (match NameEvalH.evalProgram 40 (.cons (.expr (.call (.ident "print".toList) (.cons (.str "p".toList) .nil)))
      (.cons (.expr (.index (.arr (.cons (.int 1) .nil)) (.int 5))) .nil)) with
    | .error .index out => out == ["p".toList]
    | _ => false) = true := by decide +kernel

/-- the correspondence theorem instantiated on the example: for EVERY fuel the two evaluators agree -/
theorem demo_agree : ∃ r, resolveProgram demo = .ok r ∧ ∀ F, NameEvalH.evalProgram F demo = Spec.evalProgram F r :=
  declared_nameEval_eq_spec demo demo_fragment demo_declared

/-- ... in particular the definitional evaluator's outcome with fuel 40 is the one computed on the name side -/
theorem demo_spec_value' : ∃ r, resolveProgram demo = .ok r ∧
    obsInt (Spec.evalProgram 40 r) = some (15, ["x".toList, "[10, 2] Hoi 2".toList]) := by
  obtain ⟨r, hr, h⟩ := demo_agree
  exact ⟨r, hr, by rw [← h 40]; exact demo_name_value⟩

end NameEvalH
end Nl
