/- Stage 5: the statements of the simulation with heap values; literals and variables. -/
import Nlmodel.Proofs.Lemmas.SimHInv
namespace Nl
namespace SimH
open Spec Sim

theorem litF_eq (x y : UInt64) (hx : LitF x) (hy : LitF y) (he : F64.eq y x = true) : y = x := by
  unfold F64.eq at he
  simp only [hx.2, hy.2, Bool.or_self, Bool.false_eq_true, ↓reduceIte] at he
  have h1 : x.toNat < F64.signBit := by have := hx.1; simpa [F64.isNeg] using this
  have h2 : y.toNat < F64.signBit := by have := hy.1; simpa [F64.isNeg] using this
  have a1 : F64.absBits x = x.toNat := by unfold F64.absBits; exact Nat.mod_eq_of_lt h1
  have a2 : F64.absBits y = y.toNat := by unfold F64.absBits; exact Nat.mod_eq_of_lt h2
  split at he
  · rename_i hz
    simp only [Bool.and_eq_true, F64.isZero, decide_eq_true_eq, a1, a2] at hz
    exact UInt64.toNat_inj.mp (by rw [hz.1, hz.2])
  · exact UInt64.toNat_inj.mp (by simpa using he)

theorem addConst_float_index (cs : List Const) (x : UInt64) (hx : LitF x) (hcs : ∀ (k : Nat) (y : UInt64), cs[k]? = some (Const.float y) → LitF y) :
    (addConst cs (.float x)).1[(addConst cs (.float x)).2]? = some (.float x) := by
  unfold addConst
  cases h : cs.findIdx? (Const.same · (.float x)) with
  | none => simp
  | some i =>
    simp only
    rw [List.findIdx?_eq_some_iff_getElem] at h
    obtain ⟨hi, hs, _⟩ := h
    rw [List.getElem?_eq_getElem hi]
    cases hc : cs[i] with
    | int w => simp [hc, Const.same] at hs
    | str _ => simp [hc, Const.same] at hs
    | fn _ _ => simp [hc, Const.same] at hs
    | float y =>
      simp only [hc, Const.same] at hs
      have hy := hcs i y (by rw [List.getElem?_eq_getElem hi, hc])
      rw [litF_eq x y hx hy hs]

theorem addConst_str_index (cs : List Const) (s : Text) :
    (addConst cs (.str s)).1[(addConst cs (.str s)).2]? = some (.str s) := by
  unfold addConst
  cases h : cs.findIdx? (Const.same · (.str s)) with
  | none => simp
  | some i =>
    simp only
    rw [List.findIdx?_eq_some_iff_getElem] at h
    obtain ⟨hi, hs, _⟩ := h
    rw [List.getElem?_eq_getElem hi]
    cases hc : cs[i] with
    | int w => simp [hc, Const.same] at hs
    | float _ => simp [hc, Const.same] at hs
    | fn _ _ => simp [hc, Const.same] at hs
    | str t => simp [hc, Const.same] at hs; rw [hs]

section statements
variable (s0 : VM) (CS : List Const) (C : Code)

def PE5 (f : Nat) : Prop := ∀ (Γ : Gam) (ab : Bool) (e : RExpr), HE Γ ab e → GamOK Γ →
  ∀ (μ : AMap) (st : SState) (pos : Nat) (lp : LoopCtx) (cs : List Const) (stk g : Array Value) (l : Value) (m : Mem) (out : List Text),
  Inv5 s0 CS Γ μ st g l m out → CodeAt C pos (emitE e pos lp cs).1 → Ext (emitE e pos lp cs).2 CS →
  GoalV5 s0 CS C Γ ab lp μ pos stk g l m out (pos + sizeE e) stk st (evalE f e st)

def PEs5 (f : Nat) : Prop := ∀ (Γ : Gam) (es : RExprs), HEs Γ es → GamOK Γ →
  ∀ (μ : AMap) (st : SState) (pos : Nat) (lp : LoopCtx) (cs : List Const) (stk g : Array Value) (l : Value) (m : Mem) (out : List Text),
  Inv5 s0 CS Γ μ st g l m out → CodeAt C pos (emitEs es pos lp cs).1 → Ext (emitEs es pos lp cs).2 CS →
  GoalEs5 s0 CS C Γ μ pos stk g l m out (pos + sizeEs es) st (evalEs f es st)

def PBV5 (f : Nat) : Prop := ∀ (Γ : Gam) (ab : Bool) (b : RBlock) (Γ1 : Gam), HB Γ ab b Γ1 → GamOK Γ →
  ∀ (μ : AMap) (st : SState) (pos : Nat) (lp : LoopCtx) (cs : List Const) (stk g : Array Value) (l : Value) (m : Mem) (out : List Text),
  Inv5 s0 CS Γ μ st g l m out → CodeAt C pos (asValue b (emitB b pos lp cs).1) → Ext (emitB b pos lp cs).2 CS →
  GoalV5 s0 CS C Γ ab lp μ pos stk g l m out (pos + sizeBV b) stk st (evalBV f b st)

def PS5 (f : Nat) : Prop := ∀ (Γ : Gam) (ab : Bool) (s : RStmt) (Γ1 : Gam), HS Γ ab s Γ1 → GamOK Γ →
  ∀ (μ : AMap) (st : SState) (pos : Nat) (lp : LoopCtx) (cs : List Const) (stk g : Array Value) (l : Value) (m : Mem) (out : List Text),
  Inv5 s0 CS Γ μ st g l m out → CodeAt C pos (emitS s pos lp cs).1 → Ext (emitS s pos lp cs).2 CS →
  GoalU5 s0 CS C Γ Γ1 ab lp μ pos stk g l m out (pos + sizeS s) st (evalS f s st)

def PB5 (f : Nat) : Prop := ∀ (Γ : Gam) (ab : Bool) (b : RBlock) (Γ1 : Gam), HB Γ ab b Γ1 → GamOK Γ →
  ∀ (μ : AMap) (st : SState) (pos : Nat) (lp : LoopCtx) (cs : List Const) (stk g : Array Value) (l : Value) (m : Mem) (out : List Text),
  Inv5 s0 CS Γ μ st g l m out → CodeAt C pos (emitB b pos lp cs).1 → Ext (emitB b pos lp cs).2 CS →
  GoalU5 s0 CS C Γ Γ1 ab lp μ pos stk g l m out (pos + sizeB b) st (evalB f b st)

def PL5 (f : Nat) : Prop := ∀ (Γ : Gam) (ab : Bool) (c : RExpr) (b : RBlock) (Γ1 : Gam), HE Γ false c → HB Γ true b Γ1 → GamOK Γ →
  ∀ (μ : AMap) (st : SState) (pos : Nat) (lp : LoopCtx) (cs : List Const) (stk g : Array Value) (l : Value) (m : Mem) (out : List Text)
    (acc : SVal) (accv : Value), VRh μ st m.heap acc accv →
  Inv5 s0 CS Γ μ st g l m out → CodeAt C pos (emitE (.whileE c b) pos lp cs).1 → Ext (emitE (.whileE c b) pos lp cs).2 CS →
  GoalV5 s0 CS C Γ ab lp μ (pos + 1) (stk.push accv) g l m out (pos + sizeE (.whileE c b)) stk st (evalLoop f c b acc st)

structure PAll5 (f : Nat) : Prop where
  e : PE5 s0 CS C f
  es : PEs5 s0 CS C f
  bv : PBV5 s0 CS C f
  s : PS5 s0 CS C f
  b : PB5 s0 CS C f
  l : PL5 s0 CS C f
end statements

section expr
variable {s0 : VM} {CS : List Const} {C : Code} {Γ : Gam} {ab : Bool} {μ : AMap} {st : SState} {pos : Nat} {lp : LoopCtx} {cs : List Const}
  {stk g : Array Value} {l : Value} {m : Mem} {out : List Text}

theorem Reach5.refl (hinv : Inv5 s0 CS Γ μ st g l m out) : Reach5 s0 CS C Γ μ st pos stk g l m out pos stk μ st m :=
  ⟨g, l, out, 0, rfl, hinv, Grow.refl _ _ _⟩

theorem pe5_int (f : Nat) (v : Int) (hinv : Inv5 s0 CS Γ μ st g l m out)
    (hcode : CodeAt C pos (emitE (.int v) pos lp cs).1) (hext : Ext (emitE (.int v) pos lp cs).2 CS) :
    GoalV5 s0 CS C Γ ab lp μ pos stk g l m out (pos + sizeE (.int v)) stk st (evalE (f + 1) (.int v) st) := by
  simp only [evalE, emitE] at hcode hext ⊢
  have hk := hinv.pool.ints _ v (hext.get _ _ (addConst_int_index cs v))
  exact ⟨.int v, μ, m, rfl, g, l, out, 1, execN_one C _ _ (step_const hcode hk (by simp)), hinv, Grow.refl _ _ _⟩

theorem pe5_bool (f : Nat) (b : Bool) (hinv : Inv5 s0 CS Γ μ st g l m out)
    (hcode : CodeAt C pos (emitE (.bool b) pos lp cs).1) :
    GoalV5 s0 CS C Γ ab lp μ pos stk g l m out (pos + sizeE (.bool b)) stk st (evalE (f + 1) (.bool b) st) := by
  simp only [evalE, emitE] at hcode ⊢
  refine ⟨.bool b, μ, m, rfl, g, l, out, 1, ?_, hinv, Grow.refl _ _ _⟩
  cases b
  · exact execN_one C _ _ (step_false hcode)
  · exact execN_one C _ _ (step_true hcode)

theorem pe5_float (f : Nat) (x : UInt64) (hx : LitF x) (hinv : Inv5 s0 CS Γ μ st g l m out)
    (hcode : CodeAt C pos (emitE (.float x) pos lp cs).1) (hext : Ext (emitE (.float x) pos lp cs).2 CS) :
    GoalV5 s0 CS C Γ ab lp μ pos stk g l m out (pos + sizeE (.float x)) stk st (evalE (f + 1) (.float x) st) := by
  simp only [evalE, emitE] at hcode hext ⊢
  have hcs : ∀ (k : Nat) (y : UInt64), cs[k]? = some (Const.float y) → LitF y := by
    intro k y hk
    exact hinv.pool.lits k y (hext.get k _ ((addConst_ext cs (.float x)).get k _ hk))
  obtain ⟨a0, hk, ha0⟩ := hinv.pool.floats _ x (hext.get _ _ (addConst_float_index cs x hx hcs))
  exact ⟨.float a0, μ, m, ha0, g, l, out, 1, execN_one C _ _ (step_const hcode hk (by simp)), hinv, Grow.refl _ _ _⟩

theorem pe5_str (f : Nat) (s : Text) (hinv : Inv5 s0 CS Γ μ st g l m out)
    (hcode : CodeAt C pos (emitE (.str s) pos lp cs).1) (hext : Ext (emitE (.str s) pos lp cs).2 CS) :
    GoalV5 s0 CS C Γ ab lp μ pos stk g l m out (pos + sizeE (.str s)) stk st (evalE (f + 1) (.str s) st) := by
  simp only [evalE, emitE] at hcode hext ⊢
  obtain ⟨a0, hk, ha0, _⟩ := hinv.pool.strs _ s (hext.get _ _ (addConst_str_index cs s))
  have hstr : m.heap.strAt a0 = s := by simp [Heap.strAt, ha0]
  obtain ⟨hinv', hg, hv⟩ := inv_alloc_str hinv s
  have hstep := step_const_str (s0 := s0) (stk := stk) (g := g) (l := l) (m := m) (out := out) hcode hk
  rw [hstr] at hstep
  exact ⟨_, _, _, hv, g, l, out, 1, execN_one C _ _ hstep, hinv', hg⟩

theorem pe5_var (f : Nat) (b k : Nat) (hm : (b, k) ∈ Γ) (hinv : Inv5 s0 CS Γ μ st g l m out)
    (hcode : CodeAt C pos (emitE (.var ⟨b, .global k⟩) pos lp cs).1) :
    GoalV5 s0 CS C Γ ab lp μ pos stk g l m out (pos + sizeE (.var ⟨b, .global k⟩)) stk st (evalE (f + 1) (.var ⟨b, .global k⟩) st) := by
  simp only [evalE, emitE, getVar] at hcode ⊢
  simp only [SState.lookup, isGlobalSlot, ↓reduceIte]
  cases hl : envGet st.genv b with
  | none => trivial
  | some v =>
    obtain ⟨mv, hmv, hg⟩ := hinv.relG b k hm v hl
    refine ⟨mv, μ, m, hmv, g, l, out, 1, ?_, hinv, Grow.refl _ _ _⟩
    rw [← hg]
    exact execN_one C _ _ (step_getGlobal hcode)

end expr
end SimH
end Nl
