/-
  Number → text → number, part 3: `parseDec (toDecimal x) = some x`.

  `FloatTextParse`  : the text printed for digits `q` and exponent `p` is read as `ofDecimal _ q p`;
  `FloatTextRound`  : the digits `shortest x` read back as `|x|` (17 digits always suffice).
-/
import Nlmodel.Proofs.Lemmas.FloatTextParse
import Nlmodel.Proofs.Lemmas.FloatTextRound

namespace Nl
namespace F64T
open Nl.F64 Nl.F64R

/-- a float is its sign and its magnitude bits -/
theorem mk_isNeg_absBits (x : Bits) : mk (isNeg x) (absBits x) = x := by
  unfold mk isNeg absBits signBit
  have hx := x.toNat_lt
  have e : (if (decide (x.toNat ≥ 2 ^ 63)) = true then x.toNat % 2 ^ 63 + 2 ^ 63 else x.toNat % 2 ^ 63)
      = x.toNat := by
    by_cases h : x.toNat ≥ 2 ^ 63
    · simp only [h, decide_true, if_true]; omega
    · simp only [h, decide_false, Bool.false_eq_true, if_false]; omega
  rw [e]
  exact UInt64.ofNat_toNat

/-- the sign of a decimal is independent of its magnitude -/
theorem ofDecimal_sign (s : Bool) (q : Nat) (p : Int) :
    ofDecimal s q p = mk s (absBits (ofDecimal false q p)) := by
  unfold ofDecimal
  split
  · unfold zero; rw [absBits_mk false (by decide)]
  · split
    · rw [absBits_ofRat]; rfl
    · rw [absBits_ofRat]; rfl

/-- if the digits read back as the magnitude, they read back as `x` with its sign -/
theorem ofDecimal_of_searchOK (x : Bits) (h : SearchOK x) :
    ofDecimal (isNeg x) (shortest x).1 (shortest x).2 = x := by
  rw [ofDecimal_sign, h, absBits_mk false (absBits_lt x)]
  exact mk_isNeg_absBits x

/-- the finite non-zero case under the (decidable) hypothesis that the search succeeded -/
theorem parse_toDecimal_of_searchOK (x : Bits) (h1 : isNaN x = false) (h2 : isInf x = false)
    (h3 : isZero x = false) (h : SearchOK x) : parseDec (toDecimal x) = some x := by
  rw [toDecimal_finite x h1 h2 h3,
    parseDec_render _ _ _ (strip_pos _ _ _ (shortest_pos x h3 h)), ofDecimal_strip,
    ofDecimal_of_searchOK x h]

theorem finite_of_not (x : Bits) (h1 : isNaN x = false) (h2 : isInf x = false) : isFinite x = true := by
  unfold isNaN at h1; unfold isInf at h2; unfold isFinite
  simp at h1 h2 ⊢; omega

/-- **number → text → number**: every float that is not a NaN is read back from its printed text
    bit for bit (including `-0`, subnormals, the largest finite number and both infinities) -/
theorem parse_toDecimal (x : Bits) (hx : isNaN x = false) : parseDec (toDecimal x) = some x := by
  by_cases h2 : isInf x = true
  · rw [toDecimal_inf x hx h2]
    have ha : absBits x = infBits := by unfold isInf at h2; simpa using h2
    have hxx := mk_isNeg_absBits x
    rw [ha] at hxx
    cases hn : isNeg x
    · rw [hn] at hxx
      simp only [Bool.false_eq_true, if_false]
      rw [parseDec_inf]; unfold inf; rw [hxx]
    · rw [hn] at hxx
      simp only [if_true]
      rw [parseDec_neg_inf]; unfold inf; rw [hxx]
  · have h2' : isInf x = false := by simpa using h2
    by_cases h3 : isZero x = true
    · rw [toDecimal_zero x hx h2' h3, parseDec_zero]
      have ha : absBits x = 0 := by unfold isZero at h3; simpa using h3
      have hxx := mk_isNeg_absBits x
      rw [ha] at hxx
      unfold zero; rw [hxx]
    · have h3' : isZero x = false := by simpa using h3
      exact parse_toDecimal_of_searchOK x hx h2' h3'
        (shortest_ok x (finite_of_not x hx h2') h3')

/-- negative zero in particular -/
theorem parse_toDecimal_negzero : parseDec (toDecimal (zero true)) = some (zero true) :=
  parse_toDecimal _ (by decide)

/-- all NaNs print as `NaN`, which reads back as the canonical NaN -/
theorem parse_toDecimal_nan (x : Bits) (hx : isNaN x = true) :
    parseDec (toDecimal x) = some canonNaN := by
  rw [toDecimal_nan x hx, parseDec_NaN]

/-- in one statement -/
theorem parse_toDecimal_all (x : Bits) :
    parseDec (toDecimal x) = some (if isNaN x then canonNaN else x) := by
  cases h : isNaN x
  · simp only [Bool.false_eq_true, if_false]; exact parse_toDecimal x h
  · simp only [if_true]; exact parse_toDecimal_nan x h

end F64T
end Nl
