/- Code layout (`CodeAt`), multi-step execution (`execN`): the basis of the simulation proofs (C01). -/
import Nlmodel.Proofs.Lemmas.Decode
import Nlmodel.Proofs.Lemmas.EmitSize
import Nlmodel.Model.Pipeline
namespace Nl
namespace Sim

/-! ## code layout -/

theorem encode_length (i : Instr) : i.encode.length = i.size := by
  cases i <;> simp [Instr.encode, Instr.size, u16le]

theorem encodeAll_length (is : List Instr) : (encodeAll is).length = codeSize is := by
  induction is with
  | nil => rfl
  | cons i is ih => simp [encodeAll, codeSize, encode_length] at ih ⊢ <;> omega

/-- the bytes of `is` (all well-formed) sit in `C` at byte offset `pos` -/
def CodeAt (C : Code) (pos : Nat) (is : List Instr) : Prop :=
  (∀ i ∈ is, i.wf) ∧ ∃ pre post, C.toList = pre ++ encodeAll is ++ post ∧ pre.length = pos

theorem CodeAt.append {C : Code} {pos : Nat} {a b : List Instr} (h : CodeAt C pos (a ++ b)) :
    CodeAt C pos a ∧ CodeAt C (pos + codeSize a) b := by
  obtain ⟨hw, pre, post, hC, hp⟩ := h
  refine ⟨⟨fun i hi => hw i (List.mem_append_left _ hi), pre, encodeAll b ++ post, ?_, hp⟩,
          ⟨fun i hi => hw i (List.mem_append_right _ hi), pre ++ encodeAll a, post, ?_, ?_⟩⟩
  · simp [hC, encodeAll, List.append_assoc]
  · simp [hC, encodeAll, List.append_assoc]
  · simp [hp, encodeAll_length]

theorem CodeAt.head {C : Code} {pos : Nat} {i : Instr} {rest : List Instr} (h : CodeAt C pos (i :: rest)) :
    decodeAt C pos = some i := by
  obtain ⟨hw, pre, post, hC, hp⟩ := h
  apply decodeAt_of_bytes C pos i (hw i List.mem_cons_self)
  intro k hk
  have : C = (pre ++ i.encode ++ (encodeAll rest ++ post)).toArray := by
    apply Array.ext'
    simp [hC, encodeAll, List.append_assoc]
  rw [this, ← hp]
  exact getElem?_mid pre i.encode _ k hk

theorem CodeAt.tail {C : Code} {pos : Nat} {i : Instr} {rest : List Instr} (h : CodeAt C pos (i :: rest)) :
    CodeAt C (pos + i.size) rest := by
  have := CodeAt.append (a := [i]) (b := rest) (by simpa using h)
  simpa [codeSize] using this.2

/-! ## running several steps -/

/-- `n` successful steps -/
def execN (C : Code) : Nat → VM → Option VM
  | 0, s => some s
  | n + 1, s => match step C s with
    | .next s' => execN C n s'
    | _ => none

theorem execN_add (C : Code) (n m : Nat) (s s1 s2 : VM) (h1 : execN C n s = some s1) (h2 : execN C m s1 = some s2) :
    execN C (n + m) s = some s2 := by
  induction n generalizing s with
  | zero => simp [execN] at h1; subst h1; simpa using h2
  | succ n ih =>
    have e : n + 1 + m = (n + m) + 1 := by omega
    rw [e]
    simp only [execN] at h1 ⊢
    cases hs : step C s with
    | next s' => rw [hs] at h1; simp only; exact ih s' h1
    | halt v s' => rw [hs] at h1; simp at h1
    | error e s' => rw [hs] at h1; simp at h1
    | fault site => rw [hs] at h1; simp at h1

/-- after `n` good steps an error step gives an error run -/
theorem run_error (C : Code) (n : Nat) (s s1 : VM) (e : Err) (s2 : VM) (h1 : execN C n s = some s1)
    (h2 : step C s1 = .error e s2) : ∀ k, runSteps C (n + 1 + k) s = .error e s2 := by
  intro k
  induction n generalizing s with
  | zero => simp [execN] at h1; subst h1; simp [runSteps, h2, Nat.add_comm]
  | succ n ih =>
    have e' : n + 1 + 1 + k = (n + 1 + k) + 1 := by omega
    rw [e']
    simp only [execN] at h1
    simp only [runSteps]
    cases hs : step C s with
    | next s' => rw [hs] at h1; exact ih s' h1
    | halt v s' => rw [hs] at h1; simp at h1
    | error e s' => rw [hs] at h1; simp at h1
    | fault site => rw [hs] at h1; simp at h1

theorem step_at {C : Code} {s : VM} {i : Instr} {rest : List Instr} (h : CodeAt C s.ip (i :: rest)) :
    step C s = exec i (s.ip + i.size) s := by
  unfold step; rw [h.head]

end Sim
end Nl
