/- Stage 6: whole programs with functions AND heap values: compileR + VM.start + run, collections at every
   return inside the simulation (C01, C03, C06, C12, C13, C14). -/
import Nlmodel.Proofs.Lemmas.Sim6Top
namespace Nl
namespace Sim6
open Spec Sim
open SimH (AMap isStrCell isArrCell Grow PoolH MemOK sameKind LitF LitPool)
open SimF (FT FnInfo FTInj paramScope bigScope FDef lookupD)

/-- END TO END, stage 6: a top-level program (statements and function definitions in sequence, `ZTop`: functions,
    calls with any number of arguments, locals, recursion, `antwoord`, control flow, globals, floats, strings, array
    literals, indexing, index assignment, all operators and builtins, inside function bodies as well as at top level)
    whose function ids are pairwise distinct, compiled by the compiler model and run on a fresh machine — WITH the
    collection that every `Return`/`ReturnValue` runs: the run halts with a value whose DEEP VIEW is the deep view of
    the semantics' result, with the same printed output; an error is the same error after the same output; or the
    machine stops at one of its limits (stack height / number of frames at a call), which the semantics does not have -/
theorem top_program6 (p : RBlock) (Γ' : Gam) (D : List (Nat × FnInfo)) (hy : ZTop [] p 0 [] Γ' D)
    (hnd : D.Pairwise (fun x y => x.1 ≠ y.1)) (bc : Bytecode) (hc : compileR p = .ok bc) (F : Nat) :
    HitsLimit bc ∨
    match evalB F p {} with
    | .val () st' => ∃ mv n s', (∀ k, runSteps bc.code (n + k) (VM.start {} bc) = .value mv s') ∧
        s'.mem.heap.tree treeDepth [] mv = st'.tree treeDepth [] st'.last ∧ s'.out = st'.out ∧
        (finishValue mv s').mem.heap.tree treeDepth [] mv = s'.mem.heap.tree treeDepth [] mv
    | .err er ste => ∃ n s', (∀ k, runSteps bc.code (n + k) (VM.start {} bc) = .error er s') ∧ s'.out = ste.out
    | .brk _ => False
    | .cont _ => False
    | .ret _ _ => False
    | _ => True := by
  obtain ⟨hcode, hconsts, hwf⟩ := compile_general p bc hc
  have hall : CodeAt bc.code 0 ((emitB p 0 none []).1 ++ [.halt]) := ⟨hwf, [], [], by simp [hcode], rfl⟩
  obtain ⟨h1, hhalt⟩ := hall.append
  have hlit : LitPool bc.consts := by rw [hconsts]; exact ztop_litpool hy (by intro k y hk; simp at hk)
  let W : World := { ft := lookupD D, Γp := [], C := bc.code, s0 := VM.start {} bc, CS := bc.consts }
  have hext : Ext (emitB p 0 none []).2 W.CS := by show Ext _ bc.consts; rw [hconsts]; exact Ext.refl _
  have hips := ztop_ips hy
  have hW : WOK6 W := by
    refine ⟨?_, ?_, (SimF.start_pool2 bc {}).2⟩
    · intro f1 f2 i1 i2 h1' h2' hip
      have m1 := SimF.lookupD_mem D f1 i1 h1'
      have m2 := SimF.lookupD_mem D f2 i2 h2'
      rcases List.mem_iff_getElem.mp m1 with ⟨a, ha, ea⟩
      rcases List.mem_iff_getElem.mp m2 with ⟨b, hb, eb⟩
      by_cases hab : a = b
      · subst hab; rw [ea] at eb; injection eb
      · exfalso
        rcases Nat.lt_or_gt_of_ne hab with hlt | hgt
        · have := (List.pairwise_iff_getElem.mp hips.2) a b ha hb hlt
          rw [ea, eb] at this; exact this hip
        · have := (List.pairwise_iff_getElem.mp hips.2) b a hb ha hgt
          rw [ea, eb] at this; exact this hip.symm
    · intro fid info hft
      exact ztop_fnok (W := W) hy hext h1 (fid, info) (SimF.lookupD_mem D fid info hft)
  have hD : ∀ q ∈ D, W.ft q.1 = some q.2 := fun q hq => SimF.lookupD_of_mem D hnd q hq
  have hstart : mk6 W.s0 0 #[] #[] #[] #[] .null [] (VM.start {} bc).mem [] = VM.start {} bc := by
    simp [mk6, W, VM.start]
  have hinv0 : Inv6 (W.at []) [] [] 0 ⟨fun _ => none, {}, 0, #[], #[], #[], .null, (VM.start {} bc).mem, []⟩ :=
    ⟨fun _ _ hm => (by cases hm), fun _ _ hm => (by cases hm), trivial, rfl, rfl,
     ⟨⟨fun _ _ _ e => (by cases e), fun _ _ e => (by cases e), fun _ _ _ e => (by cases e), fun _ _ _ e => (by cases e)⟩,
      SimH.start_poolH bc hlit, SimH.start_mok bc⟩⟩
  have hwt0 : TI.WT (mk6 W.s0 0 #[] #[] #[] #[] .null [] (VM.start {} bc).mem []) := by
    rw [hstart]; exact TI.start_wt {} bc TI.wt_empty
  have hsim := ptop6 hW hy hD (by simp [GamOK]) F (fun _ => none) {} #[] .null (VM.start {} bc).mem [] hinv0 hwt0 h1 hext
  rcases hsim with hov | hsim
  · obtain ⟨n, s1, hn, hl⟩ := hov
    simp only [Cfg.vm] at hn
    rw [hstart] at hn
    exact .inl ⟨n, s1, hn, hl⟩
  refine .inr ?_
  cases hr : evalB F p {} with
  | val u st' =>
    rw [hr] at hsim
    obtain ⟨μ', g', l', m', out', n, hn, hinv⟩ := hsim
    have hwt1 := wt_execN n _ _ hwt0 hn
    simp only [Cfg.vm] at hn
    rw [hstart] at hn
    simp only [emitB_size, Nat.zero_add] at hhalt hn hwt1
    have hs : step bc.code (mk6 W.s0 (sizeB p) #[] #[] #[] g' l' [] m' out') =
        .halt l' (mk6 W.s0 (sizeB p + 1) #[] #[] #[] g' l' [] m' out') := by
      rw [step_exec6 (C := bc.code) hhalt]; rfl
    refine ⟨l', n + 1, _, fun k => run_halt bc.code n _ _ l' _ hn hs k, ?_, ?_, ?_⟩
    · exact (tree_rel6 hinv.hi.hr treeDepth [] [] st'.last l' trivial hinv.last).symm
    · exact hinv.out.symm
    · obtain ⟨hk, hkr⟩ := TI.wt_kinds hwt1
      have hkl : GC.KindOK m'.heap l' := hkr l' (by simp)
      simp only [finishValue]
      exact GC.finish_tree m' l' hk hkl hinv.hi.mok.nd
        (fun a ha => by
          cases hg : m'.heap.get a with
          | arr mvs => exact (hinv.hi.mok.arrs a mvs hg).1
          | _ => simp [Heap.arrAt, hg] at ha) treeDepth []
  | err er ste =>
    rw [hr] at hsim
    obtain ⟨n, s1, s2, hn, hs, ho⟩ := hsim
    simp only [Cfg.vm] at hn
    rw [hstart] at hn
    exact ⟨n + 1, s2, fun k => run_error bc.code n _ s1 er s2 hn hs k, ho⟩
  | fuel => trivial
  | brk _ => rw [hr] at hsim; exact hsim
  | cont _ => rw [hr] at hsim; exact hsim
  | ret _ _ => rw [hr] at hsim; exact hsim
  | unspec _ => trivial

end Sim6
end Nl
