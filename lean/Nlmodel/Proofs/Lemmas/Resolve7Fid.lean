/- Stage 7, resolver side: the function ids the resolver hands out (`nextFid`, in traversal order) are increasing along
   the resolved tree, hence the ids of ALL function literals of a resolved program (nested ones included) are pairwise
   distinct — for every program the resolver accepts, whatever its shape. -/
import Nlmodel.Proofs.Lemmas.Sim7Prog
namespace Nl
namespace Sim7
open Spec Sim Sim6
open SimF (FT FnInfo)

/-! ### the function ids of a resolved tree, in code order -/

mutual
def fidsE : RExpr → List Nat
  | .int _ => []
  | .float _ => []
  | .str _ => []
  | .bool _ => []
  | .var _ => []
  | .not r => fidsE r
  | .neg r => fidsE r
  | .assignVar _ e => fidsE e
  | .assignIndex l i v => fidsE l ++ (fidsE i ++ fidsE v)
  | .infix l _ r => fidsE l ++ fidsE r
  | .ifE c t e => fidsE c ++ (fidsB t ++ fidsO e)
  | .whileE c b => fidsE c ++ fidsB b
  | .func fid _ _ _ body => fid :: fidsB body
  | .call f as => fidsEs as ++ fidsE f
  | .callBuiltin _ as => fidsEs as
  | .arr vs => fidsEs vs
  | .index l i => fidsE l ++ fidsE i
def fidsEs : RExprs → List Nat
  | .nil => []
  | .cons e es => fidsE e ++ fidsEs es
def fidsS : RStmt → List Nat
  | .expr e => fidsE e
  | .letS _ e => fidsE e
  | .ret e => fidsE e
  | .block b => fidsB b
  | .brk => []
  | .cont => []
def fidsB : RBlock → List Nat
  | .nil => []
  | .cons s b => fidsS s ++ fidsB b
def fidsO : ROptBlock → List Nat
  | .none => []
  | .some b => fidsB b
end

theorem fused_fids {l r : RExpr} {op : BinOp} {x : BinOp × Nat × Int} (h : fusedCandidate l op r = some x) : fidsE l = [] ∧ fidsE r = [] := by
  unfold fusedCandidate at h
  split at h
  · exact ⟨by simp only [fidsE], by simp only [fidsE]⟩
  · exact ⟨by simp only [fidsE], by simp only [fidsE]⟩
  · cases h

mutual
theorem lits_fidsE : (e : RExpr) → ∀ (Δ : Gam) (pos : Nat) (lp : LoopCtx) (cs : List Const), (litsE Δ e pos lp cs).map (·.1) = fidsE e
  | .int _, _, _, _, _ => by simp only [litsE, fidsE, List.map_nil]
  | .float _, _, _, _, _ => by simp only [litsE, fidsE, List.map_nil]
  | .str _, _, _, _, _ => by simp only [litsE, fidsE, List.map_nil]
  | .bool _, _, _, _, _ => by simp only [litsE, fidsE, List.map_nil]
  | .var _, _, _, _, _ => by simp only [litsE, fidsE, List.map_nil]
  | .not r, Δ, pos, lp, cs => by simp only [litsE, fidsE]; exact lits_fidsE r Δ pos lp cs
  | .neg r, Δ, pos, lp, cs => by simp only [litsE, fidsE]; exact lits_fidsE r Δ pos lp cs
  | .assignVar _ e, Δ, pos, lp, cs => by simp only [litsE, fidsE]; exact lits_fidsE e Δ pos lp cs
  | .assignIndex l i v, Δ, pos, lp, cs => by
    simp only [litsE, fidsE, List.map_append, lits_fidsE l, lits_fidsE i, lits_fidsE v]
  | .infix l op r, Δ, pos, lp, cs => by
    simp only [litsE, fidsE]
    cases hfc : fusedCandidate l op r with
    | some x => obtain ⟨h1, h2⟩ := fused_fids hfc; simp only [h1, h2, List.map_nil, List.append_nil]
    | none => simp only [List.map_append, lits_fidsE l, lits_fidsE r]
  | .ifE c t e, Δ, pos, lp, cs => by
    simp only [litsE, fidsE, List.map_append, lits_fidsE c, lits_fidsB t, lits_fidsO e]
  | .whileE c b, Δ, pos, lp, cs => by
    simp only [litsE, fidsE, List.map_append, lits_fidsE c, lits_fidsB b]
  | .func fid self ps nl body, Δ, pos, lp, cs => by
    simp only [litsE, fidsE, List.map_cons, lits_fidsB body]
  | .call f as, Δ, pos, lp, cs => by
    simp only [litsE, fidsE, List.map_append, lits_fidsEs as, lits_fidsE f]
  | .callBuiltin _ as, Δ, pos, lp, cs => by simp only [litsE, fidsE]; exact lits_fidsEs as Δ pos lp cs
  | .arr vs, Δ, pos, lp, cs => by simp only [litsE, fidsE]; exact lits_fidsEs vs Δ pos lp cs
  | .index l i, Δ, pos, lp, cs => by
    simp only [litsE, fidsE, List.map_append, lits_fidsE l, lits_fidsE i]
theorem lits_fidsEs : (es : RExprs) → ∀ (Δ : Gam) (pos : Nat) (lp : LoopCtx) (cs : List Const), (litsEs Δ es pos lp cs).map (·.1) = fidsEs es
  | .nil, _, _, _, _ => by simp only [litsEs, fidsEs, List.map_nil]
  | .cons e es, Δ, pos, lp, cs => by simp only [litsEs, fidsEs, List.map_append, lits_fidsE e, lits_fidsEs es]
theorem lits_fidsS : (s : RStmt) → ∀ (Δ : Gam) (pos : Nat) (lp : LoopCtx) (cs : List Const), (litsS Δ s pos lp cs).map (·.1) = fidsS s
  | .expr e, Δ, pos, lp, cs => by simp only [litsS, fidsS]; exact lits_fidsE e Δ pos lp cs
  | .letS _ e, Δ, pos, lp, cs => by simp only [litsS, fidsS]; exact lits_fidsE e Δ pos lp cs
  | .ret e, Δ, pos, lp, cs => by simp only [litsS, fidsS]; exact lits_fidsE e Δ pos lp cs
  | .block b, Δ, pos, lp, cs => by simp only [litsS, fidsS]; exact lits_fidsB b Δ pos lp cs
  | .brk, _, _, _, _ => by simp only [litsS, fidsS, List.map_nil]
  | .cont, _, _, _, _ => by simp only [litsS, fidsS, List.map_nil]
theorem lits_fidsB : (b : RBlock) → ∀ (Δ : Gam) (pos : Nat) (lp : LoopCtx) (cs : List Const), (litsB Δ b pos lp cs).map (·.1) = fidsB b
  | .nil, _, _, _, _ => by simp only [litsB, fidsB, List.map_nil]
  | .cons s b, Δ, pos, lp, cs => by simp only [litsB, fidsB, List.map_append, lits_fidsS s, lits_fidsB b]
theorem lits_fidsO : (o : ROptBlock) → ∀ (Δ : Gam) (pos : Nat) (lp : LoopCtx) (cs : List Const), (litsO Δ o pos lp cs).map (·.1) = fidsO o
  | .none, _, _, _, _ => by simp only [litsO, fidsO, List.map_nil]
  | .some b, Δ, pos, lp, cs => by simp only [litsO, fidsO]; exact lits_fidsB b Δ pos lp cs
end

theorem litsTop_fids : (b : RBlock) → ∀ (Γ : Gam) (pos : Nat) (cs : List Const), (litsTop Γ b pos cs).map (·.1) = fidsB b
  | .nil, _, _, _ => by simp only [litsTop, fidsB, List.map_nil]
  | .cons s b, Γ, pos, cs => by simp only [litsTop, fidsB, List.map_append, lits_fidsS s, litsTop_fids b]

/-! ### the resolver hands them out in increasing order -/

/-- all ids in `[lo, hi)`, increasing -/
def FS (L : List Nat) (lo hi : Nat) : Prop := lo ≤ hi ∧ (∀ x ∈ L, lo ≤ x ∧ x < hi) ∧ L.Pairwise (· < ·)

theorem FS.nil {lo hi : Nat} (h : lo ≤ hi) : FS [] lo hi := ⟨h, fun _ hx => (by cases hx), List.Pairwise.nil⟩

theorem FS.append {L1 L2 : List Nat} {lo mid hi : Nat} (h1 : FS L1 lo mid) (h2 : FS L2 mid hi) : FS (L1 ++ L2) lo hi := by
  refine ⟨Nat.le_trans h1.1 h2.1, ?_, List.pairwise_append.mpr ⟨h1.2.2, h2.2.2, ?_⟩⟩
  · intro x hx
    rcases List.mem_append.mp hx with h | h
    · have := h1.2.1 x h; have := h2.1; omega
    · have := h2.2.1 x h; have := h1.1; omega
  · intro a ha b hb
    have := h1.2.1 a ha; have := h2.2.1 b hb; omega

theorem FS.cons {L : List Nat} {lo hi : Nat} (h : FS L (lo + 1) hi) : FS (lo :: L) lo hi := by
  refine ⟨by have := h.1; omega, ?_, List.pairwise_cons.mpr ⟨?_, h.2.2⟩⟩
  · intro x hx
    rcases List.mem_cons.mp hx with rfl | hx
    · have := h.1; omega
    · have := h.2.1 x hx; omega
  · intro x hx; have := h.2.1 x hx; omega

theorem define_nextFid (st : RState) (n : Text) : (st.define n).1.nextFid = st.nextFid := by
  unfold RState.define; split <;> rfl

theorem enter_nextFid (st : RState) : st.enterScope.nextFid = st.nextFid := by
  unfold RState.enterScope; split <;> rfl

theorem leave_nextFid (st : RState) : st.leaveScope.nextFid = st.nextFid := by
  unfold RState.leaveScope; split <;> rfl

theorem defineParams_nextFid : ∀ (ps : List Text) (st : RState), (defineParams st ps).1.nextFid = st.nextFid
  | [], _ => rfl
  | p :: ps, st => by
    simp only [defineParams]
    rw [defineParams_nextFid ps, define_nextFid]

mutual
theorem fE : (x : Expr) → (st : RState) → (r : RExpr) → (st' : RState) → resolveE x st = .ok (r, st') → FS (fidsE r) st.nextFid st'.nextFid
  | .bool _, st, r, st', h => by
    simp only [resolveE] at h; injection h with h; obtain ⟨h1, h2⟩ := Prod.mk.inj h; subst h1; subst h2; exact .nil (Nat.le_refl _)
  | .float _, st, r, st', h => by
    simp only [resolveE] at h; injection h with h; obtain ⟨h1, h2⟩ := Prod.mk.inj h; subst h1; subst h2; exact .nil (Nat.le_refl _)
  | .int _, st, r, st', h => by
    simp only [resolveE] at h; injection h with h; obtain ⟨h1, h2⟩ := Prod.mk.inj h; subst h1; subst h2; exact .nil (Nat.le_refl _)
  | .str _, st, r, st', h => by
    simp only [resolveE] at h; injection h with h; obtain ⟨h1, h2⟩ := Prod.mk.inj h; subst h1; subst h2; exact .nil (Nat.le_refl _)
  | .ident n, st, r, st', h => by
    simp only [resolveE] at h
    split at h
    · injection h with h; obtain ⟨h1, h2⟩ := Prod.mk.inj h; subst h1; subst h2; exact .nil (Nat.le_refl _)
    · cases h
  | .pre op x, st, r, st', h => by
    simp only [resolveE] at h
    split at h
    · rename_i x' st1 hx
      have := fE x st x' st1 hx
      split at h
      · injection h with h; obtain ⟨h1, h2⟩ := Prod.mk.inj h; subst h1; subst h2; simpa only [fidsE] using this
      · injection h with h; obtain ⟨h1, h2⟩ := Prod.mk.inj h; subst h1; subst h2; simpa only [fidsE] using this
      · injection h with h; obtain ⟨h1, h2⟩ := Prod.mk.inj h; subst h1; subst h2; simpa only [fidsE] using this
      · cases h
    · cases h
  | .assign (.ident n) x, st, r, st', h => by
    simp only [resolveE] at h
    split at h
    · split at h
      · rename_i x' st1 hx
        injection h with h; obtain ⟨h1, h2⟩ := Prod.mk.inj h; subst h1; subst h2
        simpa only [fidsE] using fE x st x' st1 hx
      · cases h
    · cases h
  | .assign (.index a i) x, st, r, st', h => by
    simp only [resolveE] at h
    split at h
    · rename_i a' st1 ha
      split at h
      · rename_i i' st2 hi
        split at h
        · rename_i x' st3 hx
          injection h with h; obtain ⟨h1, h2⟩ := Prod.mk.inj h; subst h1; subst h2
          simp only [fidsE]
          exact (fE a st a' st1 ha).append ((fE i st1 i' st2 hi).append (fE x st2 x' st3 hx))
        · cases h
      · cases h
    · cases h
  | .assign (.bool _) x, st, r, st', h | .assign (.float _) x, st, r, st', h | .assign (.int _) x, st, r, st', h | .assign (.str _) x, st, r, st', h
  | .assign (.pre _ _) x, st, r, st', h | .assign (.assign _ _) x, st, r, st', h | .assign (.infix _ _ _) x, st, r, st', h
  | .assign (.ifE _ _ _) x, st, r, st', h | .assign (.whileE _ _) x, st, r, st', h | .assign (.func _ _ _) x, st, r, st', h
  | .assign (.call _ _) x, st, r, st', h | .assign (.arr _) x, st, r, st', h => by
    simp only [resolveE] at h; cases h
  | .infix l op x, st, r, st', h => by
    simp only [resolveE] at h
    split at h
    · rename_i l' st1 hl
      split at h
      · rename_i x' st2 hx
        split at h
        · injection h with h; obtain ⟨h1, h2⟩ := Prod.mk.inj h; subst h1; subst h2
          simp only [fidsE]
          exact (fE l st l' st1 hl).append (fE x st1 x' st2 hx)
        · cases h
      · cases h
    · cases h
  | .ifE c t e, st, r, st', h => by
    simp only [resolveE] at h
    split at h
    · rename_i c' st1 hc
      split at h
      · rename_i t' st2 ht
        split at h
        · rename_i e' st3 he
          injection h with h; obtain ⟨h1, h2⟩ := Prod.mk.inj h; subst h1; subst h2
          simp only [fidsE]
          exact (fE c st c' st1 hc).append ((fB t st1 t' st2 ht).append (fO e st2 e' st3 he))
        · cases h
      · cases h
    · cases h
  | .whileE c b, st, r, st', h => by
    simp only [resolveE] at h
    split at h
    · rename_i c' st1 hc
      split at h
      · rename_i b' st2 hb
        injection h with h; obtain ⟨h1, h2⟩ := Prod.mk.inj h; subst h1; subst h2
        simp only [fidsE]
        exact (fE c _ c' st1 hc).append (fB b st1 b' st2 hb)
      · cases h
    · cases h
  | .func name ps body, st, r, st', h => by
    simp only [resolveE] at h
    split at h
    · rename_i b' st4 hb
      injection h with h; obtain ⟨h1, h2⟩ := Prod.mk.inj h; subst h1; subst h2
      have hbody := fB body _ b' st4 hb
      rw [defineParams_nextFid] at hbody
      simp only [fidsE]
      by_cases hn : name.isEmpty = true
      · simp only [hn, ↓reduceIte] at hbody ⊢
        exact .cons hbody
      · simp only [hn, Bool.false_eq_true, ↓reduceIte] at hbody ⊢
        rw [define_nextFid] at hbody ⊢
        exact .cons hbody
    · cases h
  | .call f as, st, r, st', h => by
    simp only [resolveE] at h
    split at h
    · rename_i as' st1 has
      have h1 := fEs as st as' st1 has
      split at h
      · injection h with h; obtain ⟨h2, h3⟩ := Prod.mk.inj h; subst h2; subst h3; simpa only [fidsE] using h1
      · split at h
        · rename_i f' st2 hf
          injection h with h; obtain ⟨h2, h3⟩ := Prod.mk.inj h; subst h2; subst h3
          simp only [fidsE]
          exact h1.append (fE f st1 f' st2 hf)
        · cases h
    · cases h
  | .arr vs, st, r, st', h => by
    simp only [resolveE] at h
    split at h
    · rename_i vs' st1 hvs
      injection h with h; obtain ⟨h1, h2⟩ := Prod.mk.inj h; subst h1; subst h2
      simpa only [fidsE] using fEs vs st vs' st1 hvs
    · cases h
  | .index l i, st, r, st', h => by
    simp only [resolveE] at h
    split at h
    · rename_i l' st1 hl
      split at h
      · rename_i i' st2 hi
        injection h with h; obtain ⟨h1, h2⟩ := Prod.mk.inj h; subst h1; subst h2
        simp only [fidsE]
        exact (fE l st l' st1 hl).append (fE i st1 i' st2 hi)
      · cases h
    · cases h

theorem fEs : (x : Exprs) → (st : RState) → (r : RExprs) → (st' : RState) → resolveEs x st = .ok (r, st') → FS (fidsEs r) st.nextFid st'.nextFid
  | .nil, st, r, st', h => by
    simp only [resolveEs] at h; injection h with h; obtain ⟨h1, h2⟩ := Prod.mk.inj h; subst h1; subst h2; exact .nil (Nat.le_refl _)
  | .cons x xs, st, r, st', h => by
    simp only [resolveEs] at h
    split at h
    · rename_i x' st1 hx
      split at h
      · rename_i xs' st2 hxs
        injection h with h; obtain ⟨h1, h2⟩ := Prod.mk.inj h; subst h1; subst h2
        simp only [fidsEs]
        exact (fE x st x' st1 hx).append (fEs xs st1 xs' st2 hxs)
      · cases h
    · cases h

theorem fS : (x : Stmt) → (st : RState) → (r : RStmt) → (st' : RState) → resolveS x st = .ok (r, st') → FS (fidsS r) st.nextFid st'.nextFid
  | .expr x, st, r, st', h => by
    simp only [resolveS] at h
    split at h
    · rename_i x' st1 hx; injection h with h; obtain ⟨h1, h2⟩ := Prod.mk.inj h; subst h1; subst h2
      simpa only [fidsS] using fE x st x' st1 hx
    · cases h
  | .block b, st, r, st', h => by
    simp only [resolveS] at h
    split at h
    · rename_i b' st1 hb; injection h with h; obtain ⟨h1, h2⟩ := Prod.mk.inj h; subst h1; subst h2
      simpa only [fidsS] using fB b st b' st1 hb
    · cases h
  | .letS n x, st, r, st', h => by
    simp only [resolveS] at h
    split at h
    · rename_i x' st2 hx
      injection h with h; obtain ⟨h1, h2⟩ := Prod.mk.inj h; subst h1; subst h2
      have := fE x _ x' st2 hx
      rw [define_nextFid] at this
      simpa only [fidsS] using this
    · cases h
  | .ret x, st, r, st', h => by
    simp only [resolveS] at h
    split at h
    · cases h
    · split at h
      · rename_i x' st1 hx; injection h with h; obtain ⟨h1, h2⟩ := Prod.mk.inj h; subst h1; subst h2
        simpa only [fidsS] using fE x st x' st1 hx
      · cases h
  | .brk, st, r, st', h => by
    simp only [resolveS] at h
    split at h
    · cases h
    · injection h with h; obtain ⟨h1, h2⟩ := Prod.mk.inj h; subst h1; subst h2; exact .nil (Nat.le_refl _)
  | .cont, st, r, st', h => by
    simp only [resolveS] at h
    split at h
    · cases h
    · injection h with h; obtain ⟨h1, h2⟩ := Prod.mk.inj h; subst h1; subst h2; exact .nil (Nat.le_refl _)

theorem fB : (x : Block) → (st : RState) → (r : RBlock) → (st' : RState) → resolveB x st = .ok (r, st') → FS (fidsB r) st.nextFid st'.nextFid
  | .nil, st, r, st', h => by
    simp only [resolveB] at h; injection h with h; obtain ⟨h1, h2⟩ := Prod.mk.inj h; subst h1; subst h2; exact .nil (Nat.le_refl _)
  | .cons s b, st, r, st', h => by
    simp only [resolveB] at h
    split at h
    · rename_i s' st1 hs
      split at h
      · rename_i b' st2 hb
        injection h with h; obtain ⟨h1, h2⟩ := Prod.mk.inj h; subst h1; subst h2
        have h1 := fS s _ s' st1 hs
        rw [enter_nextFid] at h1
        have h2 := fSs b st1 b' st2 hb
        simp only [fidsB]
        rw [leave_nextFid]
        exact h1.append h2
      · cases h
    · cases h

theorem fSs : (x : Block) → (st : RState) → (r : RBlock) → (st' : RState) → resolveSs x st = .ok (r, st') → FS (fidsB r) st.nextFid st'.nextFid
  | .nil, st, r, st', h => by
    simp only [resolveSs] at h; injection h with h; obtain ⟨h1, h2⟩ := Prod.mk.inj h; subst h1; subst h2; exact .nil (Nat.le_refl _)
  | .cons s b, st, r, st', h => by
    simp only [resolveSs] at h
    split at h
    · rename_i s' st1 hs
      split at h
      · rename_i b' st2 hb
        injection h with h; obtain ⟨h1, h2⟩ := Prod.mk.inj h; subst h1; subst h2
        simp only [fidsB]
        exact (fS s st s' st1 hs).append (fSs b st1 b' st2 hb)
      · cases h
    · cases h

theorem fO : (x : OptBlock) → (st : RState) → (r : ROptBlock) → (st' : RState) → resolveO x st = .ok (r, st') → FS (fidsO r) st.nextFid st'.nextFid
  | .none, st, r, st', h => by
    simp only [resolveO] at h; injection h with h; obtain ⟨h1, h2⟩ := Prod.mk.inj h; subst h1; subst h2; exact .nil (Nat.le_refl _)
  | .some b, st, r, st', h => by
    simp only [resolveO] at h
    split at h
    · rename_i b' st1 hb; injection h with h; obtain ⟨h1, h2⟩ := Prod.mk.inj h; subst h1; subst h2
      simpa only [fidsO] using fB b st b' st1 hb
    · cases h
end

/-- the function ids of all literals of a resolved program are pairwise distinct -/
theorem resolve_fids_distinct (ast : Block) (r : RBlock) (h : resolveProgram ast = .ok r) :
    (litsTop [] r 0 []).Pairwise (fun x y => x.1 ≠ y.1) := by
  unfold resolveProgram at h
  cases hr : resolveSs ast {} with
  | error er => simp [hr] at h
  | ok q =>
    obtain ⟨b, st'⟩ := q
    simp only [hr] at h
    injection h with h; subst h
    have hfs := (fSs ast {} b st' hr).2.2
    rw [← litsTop_fids b [] 0 []] at hfs
    rw [List.pairwise_map] at hfs
    exact hfs.imp (fun h => Nat.ne_of_lt h)

end Sim7
end Nl
