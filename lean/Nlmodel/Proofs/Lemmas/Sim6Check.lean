/- Stage 6: a decidable, sound check for membership in the fragment (validation of the resolver's output program
   by program), the end-to-end theorems from source trees and from text, and a non-vacuity example. -/
import Nlmodel.Proofs.Lemmas.Sim6Program
import Nlmodel.Proofs.Lemmas.SimHValidate
namespace Nl
namespace Sim6
open Spec Sim
open SimH (LitF litFb litFb_sound)
open SimF (FT FnInfo paramScope FDef memG freshG memG_sound freshG_sound gamOKb gamOKb_sound fdefOf fdefOf_sound fidsDistinct fidsDistinct_sound
  fusedCandidate_varL fusedCandidate_intL)

mutual
def chk6E (nl : Nat) (fn : Bool) (Γ Λ : Gam) (ab : Bool) : RExpr → Bool
  | .int _ => true
  | .bool _ => true
  | .float x => litFb x
  | .str _ => true
  | .not e => chk6E nl fn Γ Λ ab e
  | .neg e => chk6E nl fn Γ Λ ab e
  | .infix l op r =>
    match fusedCandidate l op r with
    | none => chk6E nl fn Γ Λ ab l && chk6E nl fn Γ Λ false r
    | some _ =>
      match l, r with
      | .var ⟨b, .loc k⟩, .int _ => memG Λ b k && decide (k < nl)
      | .int _, .var ⟨b, .loc k⟩ => memG Λ b k && decide (k < nl)
      | _, _ => false
  | .var ⟨b, .global k⟩ => memG Γ b k
  | .var ⟨b, .loc k⟩ => memG Λ b k && decide (k < nl)
  | .assignVar ⟨b, .global k⟩ e => memG Γ b k && chk6E nl fn Γ Λ ab e
  | .assignVar ⟨b, .loc k⟩ e => memG Λ b k && decide (k < nl) && chk6E nl fn Γ Λ ab e
  | .arr vs => chk6Es nl fn Γ Λ vs
  | .index l i => chk6E nl fn Γ Λ ab l && chk6E nl fn Γ Λ false i
  | .assignIndex l i v => chk6E nl fn Γ Λ ab l && chk6E nl fn Γ Λ false i && chk6E nl fn Γ Λ false v
  | .callBuiltin _ as => chk6Es nl fn Γ Λ as
  | .ifE c t e => chk6E nl fn Γ Λ ab c && (chk6B nl fn Γ Λ ab t).isSome && chk6O nl fn Γ Λ ab e
  | .whileE c b => chk6E nl fn Γ Λ false c && (chk6B nl fn Γ Λ true b).isSome
  | .call f as => chk6Es nl fn Γ Λ as && chk6E nl fn Γ Λ false f
  | .func _ _ _ _ _ => false
def chk6Es (nl : Nat) (fn : Bool) (Γ Λ : Gam) : RExprs → Bool
  | .nil => true
  | .cons e es => chk6E nl fn Γ Λ false e && chk6Es nl fn Γ Λ es
def chk6O (nl : Nat) (fn : Bool) (Γ Λ : Gam) (ab : Bool) : ROptBlock → Bool
  | .none => true
  | .some b => (chk6B nl fn Γ Λ ab b).isSome
def chk6S (nl : Nat) (fn : Bool) (Γ Λ : Gam) (ab : Bool) : RStmt → Option (Gam × Gam)
  | .expr e => if chk6E nl fn Γ Λ ab e then some (Γ, Λ) else none
  | .letS ⟨b, .global k⟩ e =>
    if !fn && freshG Γ b k && chk6E nl fn ((b, k) :: Γ) Λ ab e then some ((b, k) :: Γ, Λ) else none
  | .letS ⟨b, .loc k⟩ e =>
    if fn && freshG Λ b k && decide (k < nl) && chk6E nl fn Γ ((b, k) :: Λ) ab e then some (Γ, (b, k) :: Λ) else none
  | .block b => if (chk6B nl fn Γ Λ ab b).isSome then some (Γ, Λ) else none
  | .brk => if ab then some (Γ, Λ) else none
  | .cont => if ab then some (Γ, Λ) else none
  | .ret e => if fn && chk6E nl fn Γ Λ ab e then some (Γ, Λ) else none
def chk6B (nl : Nat) (fn : Bool) (Γ Λ : Gam) (ab : Bool) : RBlock → Option (Gam × Gam)
  | .nil => some (Γ, Λ)
  | .cons s b =>
    match chk6S nl fn Γ Λ ab s with
    | some (Γ1, Λ1) => chk6B nl fn Γ1 Λ1 ab b
    | none => none
end

mutual
theorem chk6E_sound (nl : Nat) (fn : Bool) : (e : RExpr) → ∀ (Γ Λ : Gam) (ab : Bool), chk6E nl fn Γ Λ ab e = true → ZE nl fn Γ Λ ab e
  | .int v, Γ, Λ, ab, _ => .int _ _ _ v
  | .bool b, Γ, Λ, ab, _ => .bool _ _ _ b
  | .float x, Γ, Λ, ab, h => by simp only [chk6E] at h; exact .float _ _ _ x (litFb_sound x h)
  | .str s, Γ, Λ, ab, _ => .str _ _ _ s
  | .not e, Γ, Λ, ab, h => by simp only [chk6E] at h; exact .not _ _ _ e (chk6E_sound nl fn e Γ Λ ab h)
  | .neg e, Γ, Λ, ab, h => by simp only [chk6E] at h; exact .neg _ _ _ e (chk6E_sound nl fn e Γ Λ ab h)
  | .infix l op r, Γ, Λ, ab, h => by
    simp only [chk6E] at h
    cases hfc : fusedCandidate l op r with
    | none =>
      simp only [hfc, Bool.and_eq_true] at h
      exact .bin _ _ _ l op r hfc (chk6E_sound nl fn l Γ Λ ab h.1) (chk6E_sound nl fn r Γ Λ false h.2)
    | some p =>
      simp only [hfc] at h
      split at h
      · rename_i b k v
        simp only [Bool.and_eq_true, decide_eq_true_eq] at h
        have hp := fusedCandidate_varL b k op v p hfc
        subst hp
        exact .fusedL _ _ _ b k op v (memG_sound h.1) h.2 hfc
      · rename_i v b k
        simp only [Bool.and_eq_true, decide_eq_true_eq] at h
        obtain ⟨op', hm⟩ := fusedCandidate_intL b k op v p hfc
        exact .fusedR _ _ _ b k op op' v (memG_sound h.1) h.2 hm
      · cases h
  | .var ⟨b, .global k⟩, Γ, Λ, ab, h => by simp only [chk6E] at h; exact .varG _ _ _ b k (memG_sound h)
  | .var ⟨b, .loc k⟩, Γ, Λ, ab, h => by
    simp only [chk6E, Bool.and_eq_true, decide_eq_true_eq] at h; exact .varL _ _ _ b k (memG_sound h.1) h.2
  | .assignVar ⟨b, .global k⟩ e, Γ, Λ, ab, h => by
    simp only [chk6E, Bool.and_eq_true] at h; exact .assignG _ _ _ b k e (memG_sound h.1) (chk6E_sound nl fn e Γ Λ ab h.2)
  | .assignVar ⟨b, .loc k⟩ e, Γ, Λ, ab, h => by
    simp only [chk6E, Bool.and_eq_true, decide_eq_true_eq] at h
    exact .assignL _ _ _ b k e (memG_sound h.1.1) h.1.2 (chk6E_sound nl fn e Γ Λ ab h.2)
  | .arr vs, Γ, Λ, ab, h => by simp only [chk6E] at h; exact .arr _ _ _ vs (chk6Es_sound nl fn vs Γ Λ h)
  | .index l i, Γ, Λ, ab, h => by
    simp only [chk6E, Bool.and_eq_true] at h
    exact .index _ _ _ l i (chk6E_sound nl fn l Γ Λ ab h.1) (chk6E_sound nl fn i Γ Λ false h.2)
  | .assignIndex l i v, Γ, Λ, ab, h => by
    simp only [chk6E, Bool.and_eq_true] at h
    exact .assignIndex _ _ _ l i v (chk6E_sound nl fn l Γ Λ ab h.1.1) (chk6E_sound nl fn i Γ Λ false h.1.2) (chk6E_sound nl fn v Γ Λ false h.2)
  | .callBuiltin b as, Γ, Λ, ab, h => by simp only [chk6E] at h; exact .builtin _ _ _ b as (chk6Es_sound nl fn as Γ Λ h)
  | .ifE c t e, Γ, Λ, ab, h => by
    simp only [chk6E, Bool.and_eq_true] at h
    obtain ⟨⟨hc, ht⟩, he⟩ := h
    cases hb : chk6B nl fn Γ Λ ab t with
    | none => simp [hb] at ht
    | some q => exact .ifE _ _ _ c t e q.1 q.2 (chk6E_sound nl fn c Γ Λ ab hc) (chk6B_sound nl fn t Γ Λ ab q.1 q.2 hb) (chk6O_sound nl fn e Γ Λ ab he)
  | .whileE c b, Γ, Λ, ab, h => by
    simp only [chk6E, Bool.and_eq_true] at h
    cases hb : chk6B nl fn Γ Λ true b with
    | none => simp [hb] at h
    | some q => exact .whileE _ _ _ c b q.1 q.2 (chk6E_sound nl fn c Γ Λ false h.1) (chk6B_sound nl fn b Γ Λ true q.1 q.2 hb)
  | .call f as, Γ, Λ, ab, h => by
    simp only [chk6E, Bool.and_eq_true] at h
    exact .call _ _ _ f as (chk6Es_sound nl fn as Γ Λ h.1) (chk6E_sound nl fn f Γ Λ false h.2)
  | .func _ _ _ _ _, _, _, _, h => by simp [chk6E] at h
theorem chk6Es_sound (nl : Nat) (fn : Bool) : (es : RExprs) → ∀ (Γ Λ : Gam), chk6Es nl fn Γ Λ es = true → ZEs nl fn Γ Λ es
  | .nil, Γ, Λ, _ => .nil _ _
  | .cons e es, Γ, Λ, h => by
    simp only [chk6Es, Bool.and_eq_true] at h
    exact .cons _ _ e es (chk6E_sound nl fn e Γ Λ false h.1) (chk6Es_sound nl fn es Γ Λ h.2)
theorem chk6O_sound (nl : Nat) (fn : Bool) : (o : ROptBlock) → ∀ (Γ Λ : Gam) (ab : Bool), chk6O nl fn Γ Λ ab o = true → ZO nl fn Γ Λ ab o
  | .none, Γ, Λ, ab, _ => .none _ _ _
  | .some b, Γ, Λ, ab, h => by
    simp only [chk6O] at h
    cases hb : chk6B nl fn Γ Λ ab b with
    | none => simp [hb] at h
    | some q => exact .some _ _ _ b q.1 q.2 (chk6B_sound nl fn b Γ Λ ab q.1 q.2 hb)
theorem chk6S_sound (nl : Nat) (fn : Bool) : (s : RStmt) → ∀ (Γ Λ : Gam) (ab : Bool) (Γ1 Λ1 : Gam), chk6S nl fn Γ Λ ab s = some (Γ1, Λ1) →
    ZS nl fn Γ Λ ab s Γ1 Λ1
  | .expr e, Γ, Λ, ab, Γ1, Λ1, h => by
    simp only [chk6S] at h
    split at h
    · rename_i hc; injection h with h; injection h with h1 h2; subst h1; subst h2
      exact .expr _ _ _ e (chk6E_sound nl fn e Γ Λ ab hc)
    · cases h
  | .letS ⟨b, .global k⟩ e, Γ, Λ, ab, Γ1, Λ1, h => by
    simp only [chk6S] at h
    split at h
    · rename_i hc; injection h with h; injection h with h1 h2; subst h1; subst h2
      simp only [Bool.and_eq_true, Bool.not_eq_true'] at hc
      exact .letG _ _ _ b k e hc.1.1 (freshG_sound hc.1.2) (chk6E_sound nl fn e _ Λ ab hc.2)
    · cases h
  | .letS ⟨b, .loc k⟩ e, Γ, Λ, ab, Γ1, Λ1, h => by
    simp only [chk6S] at h
    split at h
    · rename_i hc; injection h with h; injection h with h1 h2; subst h1; subst h2
      simp only [Bool.and_eq_true, decide_eq_true_eq] at hc
      exact .letL _ _ _ b k e hc.1.1.1 (freshG_sound hc.1.1.2) hc.1.2 (chk6E_sound nl fn e Γ _ ab hc.2)
    · cases h
  | .block b, Γ, Λ, ab, Γ1, Λ1, h => by
    simp only [chk6S] at h
    split at h
    · rename_i hc; injection h with h; injection h with h1 h2; subst h1; subst h2
      cases hb : chk6B nl fn Γ Λ ab b with
      | none => simp [hb] at hc
      | some q => exact .block _ _ _ b q.1 q.2 (chk6B_sound nl fn b Γ Λ ab q.1 q.2 hb)
    · cases h
  | .brk, Γ, Λ, ab, Γ1, Λ1, h => by
    simp only [chk6S] at h
    split at h
    · rename_i hc; injection h with h; injection h with h1 h2; subst h1; subst h2; subst hc; exact .brk _ _
    · cases h
  | .cont, Γ, Λ, ab, Γ1, Λ1, h => by
    simp only [chk6S] at h
    split at h
    · rename_i hc; injection h with h; injection h with h1 h2; subst h1; subst h2; subst hc; exact .cont _ _
    · cases h
  | .ret e, Γ, Λ, ab, Γ1, Λ1, h => by
    simp only [chk6S] at h
    split at h
    · rename_i hc; injection h with h; injection h with h1 h2; subst h1; subst h2
      simp only [Bool.and_eq_true] at hc
      exact .ret _ _ _ e hc.1 (chk6E_sound nl fn e Γ Λ ab hc.2)
    · cases h
theorem chk6B_sound (nl : Nat) (fn : Bool) : (b : RBlock) → ∀ (Γ Λ : Gam) (ab : Bool) (Γ1 Λ1 : Gam), chk6B nl fn Γ Λ ab b = some (Γ1, Λ1) →
    ZB nl fn Γ Λ ab b Γ1 Λ1
  | .nil, Γ, Λ, ab, Γ1, Λ1, h => by
    simp only [chk6B] at h; injection h with h; injection h with h1 h2; subst h1; subst h2; exact .nil _ _ _
  | .cons s b, Γ, Λ, ab, Γ1, Λ1, h => by
    simp only [chk6B] at h
    cases hs : chk6S nl fn Γ Λ ab s with
    | none => simp [hs] at h
    | some q =>
      obtain ⟨Γ2, Λ2⟩ := q
      simp only [hs] at h
      exact .cons _ _ _ Γ2 Λ2 _ _ s b (chk6S_sound nl fn s Γ Λ ab Γ2 Λ2 hs) (chk6B_sound nl fn b Γ2 Λ2 ab Γ1 Λ1 h)
end

def chkTop6 (Γ : Gam) : RBlock → Nat → List Const → Option (Gam × List (Nat × FnInfo))
  | .nil, _, _ => some (Γ, [])
  | .cons s rest, pos, cs =>
    match fdefOf s with
    | some (fid, b, k, ps, nlf, body) =>
      if freshG Γ b k && (chk6B nlf true ((b, k) :: Γ) (paramScope ps) false body).isSome && gamOKb (paramScope ps) &&
          (paramScope ps).all (fun p => decide (p.2 < nlf)) then
        match chkTop6 ((b, k) :: Γ) rest (pos + sizeS s) (emitS s pos none cs).2 with
        | some (Γ2, D) => some (Γ2, (fid, ⟨pos + 3, ps, nlf, body, cs, (b, k) :: Γ⟩) :: D)
        | none => none
      else none
    | none =>
      match chk6S 0 false Γ [] false s with
      | some (Γ1, Λ1) => if Λ1.isEmpty then chkTop6 Γ1 rest (pos + sizeS s) (emitS s pos none cs).2 else none
      | none => none

theorem chkTop6_sound : ∀ (b : RBlock) (Γ : Gam) (pos : Nat) (cs : List Const) (Γ' : Gam) (D : List (Nat × FnInfo)),
    chkTop6 Γ b pos cs = some (Γ', D) → ZTop Γ b pos cs Γ' D
  | .nil, Γ, pos, cs, Γ', D, h => by
    simp only [chkTop6] at h; injection h with h; injection h with h1 h2; subst h1; subst h2; exact .nil _ _ _
  | .cons s rest, Γ, pos, cs, Γ', D, h => by
    simp only [chkTop6] at h
    cases hf : fdefOf s with
    | some q =>
      obtain ⟨fid, b, k, ps, nlf, body⟩ := q
      simp only [hf] at h
      split at h
      · rename_i hc
        simp only [Bool.and_eq_true, List.all_eq_true, decide_eq_true_eq] at hc
        obtain ⟨⟨⟨h1, h2⟩, h3⟩, h4⟩ := hc
        cases hr : chkTop6 ((b, k) :: Γ) rest (pos + sizeS s) (emitS s pos none cs).2 with
        | none => simp [hr] at h
        | some w =>
          obtain ⟨Γ2, D2⟩ := w
          simp only [hr] at h
          injection h with h; injection h with e1 e2; subst e1; subst e2
          cases hb : chk6B nlf true ((b, k) :: Γ) (paramScope ps) false body with
          | none => simp [hb] at h2
          | some z =>
            exact .fdef Γ Γ2 s rest pos cs D2 fid b k ps nlf body z.1 z.2 (fdefOf_sound s fid b k ps nlf body hf) (freshG_sound h1)
              (chk6B_sound nlf true body _ _ false z.1 z.2 hb) (gamOKb_sound _ h3) h4
              (chkTop6_sound rest _ _ _ Γ2 D2 hr)
      · cases h
    | none =>
      simp only [hf] at h
      cases hs : chk6S 0 false Γ [] false s with
      | none => simp [hs] at h
      | some w =>
        obtain ⟨Γ1, Λ1⟩ := w
        simp only [hs] at h
        split at h
        · rename_i he
          have : Λ1 = [] := by simpa using he
          subst this
          exact .stmt Γ Γ1 Γ' s rest pos cs D (chk6S_sound 0 false s Γ [] false Γ1 [] hs) (chkTop6_sound rest Γ1 _ _ Γ' D h)
        · cases h

/-- the whole validation of a resolved program: stage-6 fragment, function ids pairwise distinct -/
def inFragment6 (p : RBlock) : Bool :=
  match chkTop6 [] p 0 [] with
  | some (_, D) => fidsDistinct D
  | none => false

theorem inFragment6_sound (p : RBlock) (h : inFragment6 p = true) :
    ∃ Γ' D, ZTop [] p 0 [] Γ' D ∧ D.Pairwise (fun x y => x.1 ≠ y.1) := by
  unfold inFragment6 at h
  cases hc : chkTop6 [] p 0 [] with
  | none => simp [hc] at h
  | some w =>
    obtain ⟨Γ', D⟩ := w
    simp only [hc] at h
    exact ⟨Γ', D, chkTop6_sound p [] 0 [] Γ' D hc, fidsDistinct_sound D h⟩

/-- END TO END FROM SOURCE TREES, stage 6, by validation: for any parsed program, if the resolved tree the resolver
    model produces passes the (decidable) fragment check, then compiling and running it — with a collection at every
    return — agrees with the definitional semantics: same deep view of the result (nested arrays, strings, floats,
    cycles, function values), same printed output, same error after the same output; or the machine stops at its
    stack/frame limit -/
theorem program6 (ast : Block) (r : RBlock) (bc : Bytecode) (hc : compileProgram ast = .ok (r, bc)) (hin : inFragment6 r = true) (F : Nat) :
    HitsLimit bc ∨
    match evalB F r {} with
    | .val () st' => ∃ mv n s', (∀ k, runSteps bc.code (n + k) (VM.start {} bc) = .value mv s') ∧
        s'.mem.heap.tree treeDepth [] mv = st'.tree treeDepth [] st'.last ∧ s'.out = st'.out ∧
        (finishValue mv s').mem.heap.tree treeDepth [] mv = s'.mem.heap.tree treeDepth [] mv
    | .err er ste => ∃ n s', (∀ k, runSteps bc.code (n + k) (VM.start {} bc) = .error er s') ∧ s'.out = ste.out
    | .brk _ => False
    | .cont _ => False
    | .ret _ _ => False
    | _ => True := by
  obtain ⟨Γ', D, hy, hnd⟩ := inFragment6_sound r hin
  unfold compileProgram at hc
  cases hr : resolveProgram ast with
  | error e => simp [hr] at hc
  | ok r' =>
    simp only [hr] at hc
    cases hcr : compileR r' with
    | error e => simp [hcr] at hc
    | ok bc' =>
      simp only [hcr] at hc
      injection hc with hc; injection hc with h1 h2; subst h1; subst h2
      exact top_program6 r' Γ' D hy hnd bc' hcr F

/-- THE OBSERVATION ITSELF, stage 6: for a text whose resolved tree lies in the fragment, whatever the definitional
    semantics answers with some fuel (a value with its printed output, or an error after its printed output) is
    exactly what `eval` answers on the machine for every large enough instruction budget — collections at every
    return, the hand-over of the result at `Halt` (`untrace`) and the release of everything else (`destroy`)
    included — unless the machine stops at its stack/frame limit -/
theorem eval_text6 (cc : CharClass) (src : Text) (ast : Block) (r : RBlock) (bc : Bytecode) (hp : parse cc src = .ok ast)
    (hc : compileProgram ast = .ok (r, bc)) (hin : inFragment6 r = true) (F : Nat) :
    TextHitsLimit cc src ∨
    match specText cc F src with
    | .value t out => ∃ n, ∀ k, evalText cc (n + k) src = .value t out
    | .error e out => ∃ n, ∀ k, evalText cc (n + k) src = .error e out
    | .fault _ => False
    | _ => True := by
  have hsim := program6 ast r bc hc hin F
  have hres : resolveProgram ast = .ok r := by
    unfold compileProgram at hc
    cases hr : resolveProgram ast with
    | error e => simp [hr] at hc
    | ok r' =>
      simp only [hr] at hc
      cases hcr : compileR r' with
      | error e => simp [hcr] at hc
      | ok bc' => simp only [hcr] at hc; injection hc with hc; injection hc with h1 h2; rw [h1]
  rcases hsim with hlim | hsim
  · exact .inl (TextHitsLimit.of hp hc hlim)
  right
  simp only [specText, hp, hres, Spec.evalProgram]
  cases hr : evalB F r {} with
  | val u st' =>
    rw [hr] at hsim
    obtain ⟨mv, n, s', hn, ht, ho, hf⟩ := hsim
    refine ⟨n, fun k => ?_⟩
    simp only [evalText, hp, hc, VM.run, hn k]
    rw [hf, ht]
    have : (finishValue mv s').out = s'.out := rfl
    rw [this, ho]
  | err er ste =>
    rw [hr] at hsim
    obtain ⟨n, s', hn, ho⟩ := hsim
    refine ⟨n, fun k => ?_⟩
    simp only [evalText, hp, hc, VM.run, hn k]
    have : (finishError s').out = s'.out := rfl
    rw [this, ho]
  | fuel => trivial
  | brk _ => rw [hr] at hsim; exact hsim.elim
  | cont _ => rw [hr] at hsim; exact hsim.elim
  | ret _ _ => rw [hr] at hsim; exact hsim.elim
  | unspec _ => trivial

end Sim6
end Nl
