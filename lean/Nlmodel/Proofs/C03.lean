/-
  C03 — a value that is still reachable is never reclaimed.
  Statements about the collector model (Model/GC: the mirror of gc.rs after repair F21) on the
  heap store of the machine model.
-/
import Nlmodel.Proofs.Lemmas.GCReach
import Nlmodel.Proofs.Lemmas.TypeInv
import Nlmodel.Proofs.Lemmas.NoDangle
import Nlmodel.Model.Pipeline
import Nlmodel.Proofs.Lemmas.Ledger
namespace Nl
namespace C03
open GC

/-- the mark phase reaches every managed object that is reachable from the roots through arrays —
    nested, aliased and cyclic ones included — with the fuel the collector supplies -/
theorem C03_mark_complete (h : Heap) (man : List Nat) (roots : List Value) (hk : HeapKindOK h)
    (hr : ∀ v ∈ roots, KindOK h v) (a : Nat) (ha : Reach h man roots a) : a ∈ markAll h man roots :=
  markAll_complete h man roots hk hr a ha

/-- whenever the collector runs, every managed object reachable from the roots stays managed and
    keeps exactly its contents; so does every object the collector does not manage -/
theorem C03_collect_preserves (m : Mem) (roots : List Value) (hk : HeapKindOK m.heap)
    (hr : ∀ v ∈ roots, KindOK m.heap v) (a : Nat)
    (ha : Reach m.heap m.managed roots a ∨ a ∉ m.managed) :
    (run m roots).heap.get a = m.heap.get a ∧ (a ∈ m.managed → a ∈ (run m roots).managed) := by
  unfold run
  by_cases he : m.managed.isEmpty = true
  · simp [he]
  · simp only [he, Bool.false_eq_true, ↓reduceIte]
    have hnd : a ∉ m.managed.filter (fun x => !(markAll m.heap m.managed roots).contains x) := by
      intro hd
      simp only [List.mem_filter, Bool.not_eq_true', List.contains_eq_mem, decide_eq_false_iff_not] at hd
      cases ha with
      | inl hreach => exact hd.2 (markAll_complete m.heap m.managed roots hk hr a hreach)
      | inr hnm => exact hnm hd.1
    refine ⟨freeAll_get_other _ _ _ hnd, ?_⟩
    intro hm
    cases ha with
    | inl hreach =>
      simp only [List.mem_filter, List.contains_eq_mem, decide_eq_true_eq]
      exact ⟨hm, markAll_complete m.heap m.managed roots hk hr a hreach⟩
    | inr hnm => exact absurd hm hnm

/-- no object is released twice: the collector's object list never holds an address twice (an
    invariant of allocation, collection and hand-over), so each sweep releases each object once -/
theorem C03_managed_nodup_alloc (m : Mem) (c : Cell) (hn : m.managed.Nodup) (hb : ∀ a ∈ m.managed, a < m.heap.cells.size) :
    ((m.heap.alloc c).2 :: m.managed).Nodup ∧ ∀ a ∈ (m.heap.alloc c).2 :: m.managed, a < (m.heap.alloc c).1.cells.size := by
  simp only [Heap.alloc, List.nodup_cons, Array.size_push]
  refine ⟨⟨?_, hn⟩, ?_⟩
  · intro hmem; have := hb _ hmem; omega
  · intro a ha
    cases List.mem_cons.1 ha with
    | inl e => omega
    | inr e => have := hb a e; omega

theorem C03_managed_nodup_run (m : Mem) (roots : List Value) (hn : m.managed.Nodup) :
    (run m roots).managed.Nodup ∧
    (m.managed.filter (fun x => !(markAll m.heap m.managed roots).contains x)).Nodup := by
  unfold run
  by_cases he : m.managed.isEmpty = true
  · simp [he, hn]
    exact hn.filter _
  · simp only [he, Bool.false_eq_true, ↓reduceIte]
    exact ⟨hn.filter _, hn.filter _⟩

/-- hand-over (`untrace`) only ever removes addresses from the collector's list -/
theorem C03_untrace_sublist (h : Heap) : ∀ f man v, (untrace h f man v).Sublist man := by
  intro f
  induction f with
  | zero => intro man v; exact List.Sublist.refl _
  | succ f ih =>
    intro man v
    cases v with
    | null => exact List.Sublist.refl _
    | bool _ => exact List.Sublist.refl _
    | int _ => exact List.Sublist.refl _
    | fn _ _ => exact List.Sublist.refl _
    | float a => simp only [untrace]; split; exact List.erase_sublist; exact List.Sublist.refl _
    | str a => simp only [untrace]; split; exact List.erase_sublist; exact List.Sublist.refl _
    | arr a =>
      simp only [untrace]
      split
      · have fold : ∀ (l : List Value) (N : List Nat), (l.foldl (untrace h f) N).Sublist N := by
          intro l
          induction l with
          | nil => intro N; exact List.Sublist.refl _
          | cons e l ihl => intro N; simp only [List.foldl_cons]; exact (ihl _).trans (ih N e)
        exact (fold _ _).trans List.erase_sublist
      · exact List.Sublist.refl _

theorem C03_managed_nodup_untrace (h : Heap) (f : Nat) (man : List Nat) (v : Value) (hn : man.Nodup) :
    (untrace h f man v).Nodup := (C03_untrace_sublist h f man v).nodup hn

/-- a concrete cyclic heap meets the hypotheses (non-vacuity): a = [b], b = [a, 1.5] with root a -/
example : HeapKindOK { cells := #[.arr [.arr 1], .arr [.arr 0, .float 2], .float 0] } := by
  intro a v hv
  match a with
  | 0 => simp [Heap.arrAt, Heap.get] at hv; subst hv; trivial
  | 1 =>
    simp [Heap.arrAt, Heap.get] at hv
    rcases hv with rfl | rfl
    · trivial
    · simp [KindOK, Heap.arrAt, Heap.get]
  | 2 => simp [Heap.arrAt, Heap.get] at hv
  | n + 3 => simp [Heap.arrAt, Heap.get] at hv

/-! ### machine level: the roots handed over at a return are complete -/

/-- everything the machine still holds after a return: operand stack (with the result pushed), constants, globals, `last` -/
def held (s : VM) : List Value := s.stack.toList ++ s.cvals.toList ++ s.globals.toList ++ [s.last]

theorem Reach.mono {h : Heap} {man : List Nat} {r1 r2 : List Value} (hsub : ∀ v ∈ r1, v.addr? = none ∨ v ∈ r2) {a : Nat}
    (ha : Reach h man r1 a) : Reach h man r2 a := by
  induction ha with
  | root v a hv ha hm =>
    rcases hsub v hv with h0 | h0
    · rw [h0] at ha; cases ha
    · exact .root v a h0 ha hm
  | step x v b _ hv hb hm ih => exact .step x v b ih hv hb hm

/-- ROOTS ARE COMPLETE AT A RETURN: every value the machine holds after `Return`/`ReturnValue` (the
    caller's part of the stack with the result pushed, the constants, the globals and the
    last-popped register) is among the roots handed to the collector, provided the result and
    `last` are in the extra roots (they are: `[s.last, v]`; for `Return` the result is null).
    Hence, with `C03_collect_preserves`: every managed object reachable from the machine state
    after the return is still managed and has kept its contents. -/
theorem C03_return_roots_complete (s : VM) (result : Value) (extra : List Value) (s' : VM)
    (hres : result.addr? = none ∨ result ∈ extra) (hlast : s.last ∈ extra)
    (h : doReturn s result extra = .next s') (hk : HeapKindOK s.mem.heap)
    (hr : ∀ v ∈ (s.stack.extract 0 s.bp).toList ++ s.cvals.toList ++ s.globals.toList ++ extra, KindOK s.mem.heap v)
    (a : Nat) (ha : Reach s.mem.heap s.mem.managed (held s') a) :
    s'.mem.heap.get a = s.mem.heap.get a ∧ a ∈ s'.mem.managed := by
  unfold doReturn at h
  cases hf : s.frames with
  | nil => simp [hf] at h
  | cons fr rest =>
    simp only [hf] at h
    split at h
    · cases h
    · rename_i hsz
      injection h with h
      subst h
      have ham : a ∈ s.mem.managed := by
        cases ha with
        | root _ _ _ _ hm => exact hm
        | step _ _ _ _ _ _ hm => exact hm
      have hne : s.mem.managed.isEmpty = false := by
        cases hm : s.mem.managed with
        | nil => rw [hm] at ham; cases ham
        | cons _ _ => rfl
      simp only [hne, Bool.false_eq_true, ↓reduceIte, held, VM.roots] at ha ⊢
      have ha' : Reach s.mem.heap s.mem.managed ((s.stack.extract 0 s.bp).toList ++ s.cvals.toList ++ s.globals.toList ++ extra) a := by
        refine Reach.mono ?_ ha
        intro v hv
        simp only [List.mem_append, Array.toList_push, List.mem_singleton] at hv ⊢
        rcases hv with (((hv | hv) | hv) | hv) | hv
        · exact .inr (.inl (.inl (.inl hv)))
        · subst hv
          rcases hres with h0 | h0
          · exact .inl h0
          · exact .inr (.inr h0)
        · exact .inr (.inl (.inl (.inr hv)))
        · exact .inr (.inl (.inr hv))
        · subst hv; exact .inr (.inr hlast)
      have := C03_collect_preserves s.mem _ hk hr a (.inl ha')
      exact ⟨this.1, this.2 ham⟩

/-- the two return instructions pass complete roots: after `ReturnValue` / `Return` every managed object
    reachable from anything the machine still holds is still managed, with its contents -/
theorem C03_return_instructions_keep_reachable (i : Instr) (hi : i = .retv ∨ i = .ret) (ip' : Nat) (s s' : VM)
    (h : exec i ip' s = .next s') (hk : HeapKindOK s.mem.heap)
    (hr : ∀ v ∈ s.stack.toList ++ s.cvals.toList ++ s.globals.toList ++ [s.last], KindOK s.mem.heap v)
    (a : Nat) (ha : Reach s.mem.heap s.mem.managed (held s') a) :
    s'.mem.heap.get a = s.mem.heap.get a ∧ a ∈ s'.mem.managed := by
  have hsubstack : ∀ (st : Array Value) (n : Nat) v, v ∈ (st.extract 0 n).toList → v ∈ st.toList := by
    intro st n v hv
    simp only [Array.toList_extract] at hv
    rw [List.extract_eq_take_drop] at hv
    exact List.mem_of_mem_drop (List.mem_of_mem_take hv)
  rcases hi with rfl | rfl
  · simp only [exec] at h
    cases hp : pop1 s.stack with
    | none => simp [hp] at h
    | some q =>
      obtain ⟨v, st⟩ := q
      simp only [hp] at h
      have hv : v ∈ s.stack.toList ∧ ∀ x ∈ st.toList, x ∈ s.stack.toList := by
        unfold pop1 at hp
        cases hb : s.stack.back? with
        | none => simp [hb] at hp
        | some w =>
          simp only [hb, Option.some.injEq, Prod.mk.injEq] at hp
          obtain ⟨h1, h2⟩ := hp
          subst h1; subst h2
          refine ⟨by simpa using Array.mem_of_back? hb, ?_⟩
          intro x hx
          simp only [Array.toList_pop] at hx
          exact List.dropLast_subset _ hx
      refine C03_return_roots_complete { s with ip := ip', stack := st } v [s.last, v] s' (.inr (by simp)) (by simp) h hk ?_ a ha
      intro x hx
      apply hr x
      simp only [List.mem_append, List.mem_cons, List.not_mem_nil, or_false] at hx ⊢
      rcases hx with ((hx | hx) | hx) | hx
      · left; left; left; exact hv.2 x (hsubstack st _ x hx)
      · left; left; right; exact hx
      · left; right; exact hx
      · rcases hx with hx | hx
        · right; exact hx
        · left; left; left; rw [hx]; exact hv.1
  · simp only [exec] at h
    refine C03_return_roots_complete { s with ip := ip' } .null [s.last] s' (.inl rfl) (by simp) h hk ?_ a ha
    intro x hx
    apply hr x
    simp only [List.mem_append, List.mem_cons, List.not_mem_nil, or_false] at hx ⊢
    rcases hx with ((hx | hx) | hx) | hx
    · left; left; left; exact hsubstack s.stack _ x hx
    · left; left; right; exact hx
    · left; right; exact hx
    · right; exact hx

/-! ### the hypotheses above hold in every state any run reaches -/

/-- TYPE SOUNDNESS OF THE MACHINE'S VALUES (`TI.exec_wt`, all 26 instructions): in every state a run of
    ANY program passes through — on a fresh machine (`TI.wt_empty`) or on what earlier lines of a
    session left (`TI.vmrun_wt`) — the tag of every value the machine holds (operand stack, locals,
    globals, constants, last-popped register, every element of every heap array) agrees with the kind
    of the cell it points to.  Hence `HeapKindOK` and `KindOK` of the roots, the hypotheses of the
    collector theorems, are facts about reachable states, not assumptions. -/
theorem C03_reachable_states_are_well_typed (prev : VM) (bc : Bytecode) (hp : TI.WT prev) (s : VM)
    (hs : TI.Reachable bc.code (prev.start bc) s) :
    HeapKindOK s.mem.heap ∧ ∀ v, v ∈ s.stack.toList ++ s.cvals.toList ++ s.globals.toList ++ [s.last] → KindOK s.mem.heap v :=
  TI.wt_kinds (TI.reachable_wt bc.code _ (TI.start_wt prev bc hp) s hs)

/-- C03 AT EVERY COLLECTION POINT OF EVERY RUN, without hypotheses on the heap: whenever a return
    instruction executes in a state that a run of any program has reached, every managed object
    reachable from anything the machine still holds afterwards is still managed and has exactly the
    contents it had -/
theorem C03_every_return_of_every_run_keeps_reachable (prev : VM) (bc : Bytecode) (hp : TI.WT prev) (s s' : VM)
    (hs : TI.Reachable bc.code (prev.start bc) s) (i : Instr) (hi : i = .retv ∨ i = .ret) (ip' : Nat)
    (h : exec i ip' s = .next s') (a : Nat) (ha : Reach s.mem.heap s.mem.managed (held s') a) :
    s'.mem.heap.get a = s.mem.heap.get a ∧ a ∈ s'.mem.managed := by
  obtain ⟨hk, hr⟩ := C03_reachable_states_are_well_typed prev bc hp s hs
  exact C03_return_instructions_keep_reachable i hi ip' s s' h hk (fun v hv => hr v hv) a ha

/-- non-vacuity: a fresh machine is well-typed, and so is what any run leaves behind for the next line -/
example : TI.WT ({} : VM) := TI.wt_empty

/-- NO PROGRAM EVER OBSERVES A FREED OBJECT (`ND.exec_ok`, all instructions, collections included): in
    every state that a run of ANY program on a fresh machine passes through — after any number of
    instructions, calls, returns and collections — (1) every value the machine holds (operand stack
    and locals of all frames, constants, globals, the last-popped register) points to a cell that has
    not been released, (2) so does every element of every array that has not been released, hence
    everything reachable from what the machine holds, and (3) every cell not yet released is managed
    by the run's collector (so the end of the run releases it, exactly once by
    `C04_managed_never_lists_twice`, unless it is handed over with the result). -/
theorem C03_no_dangling_reference (bc : Bytecode) (s : VM) (hs : TI.Reachable bc.code (({} : VM).start bc) s) :
    (∀ v, v ∈ held s → ∀ a, v.addr? = some a → s.mem.heap.get a ≠ .freed) ∧
    (∀ a vs, s.mem.heap.get a = .arr vs → ∀ v, v ∈ vs → ∀ b, v.addr? = some b → s.mem.heap.get b ≠ .freed) ∧
    (∀ a, s.mem.heap.get a ≠ .freed → a ∈ s.mem.managed) := by
  have h := (ND.reachable_safe bc.code _ (ND.start_safe bc) s hs).2
  refine ⟨?_, h.hok.elems, h.hok.allm⟩
  intro v hv
  simp only [held, List.mem_append, List.mem_singleton] at hv
  rcases hv with ((hv | hv) | hv) | hv
  · exact h.stack v hv
  · exact h.cvals v hv
  · exact h.globals v hv
  · rw [hv]; exact h.last

/-- ... and the value a run hands back at `Halt` does not dangle either -/
theorem C03_result_does_not_dangle (bc : Bytecode) (s : VM) (hs : TI.Reachable bc.code (({} : VM).start bc) s) (v : Value) (s' : VM)
    (hh : step bc.code s = .halt v s') : ∀ a, v.addr? = some a → s'.mem.heap.get a ≠ .freed := by
  have h := ND.reachable_safe bc.code _ (ND.start_safe bc) s hs
  unfold step at hh
  split at hh
  · cases hh
  · rename_i i _
    have := ND.exec_ok i (s.ip + i.size) s h.2 h.1
    rw [hh] at this
    exact this.2

/-- NO OBJECT IS RELEASED TWICE — every single `free` of every collection hits a LIVE cell: in any state any run
    (fresh machine or session) has reached, a collection with whatever roots releases the cells of a
    duplicate-free list (`Ledger.swept`: the managed cells that were not marked), and each of them is live at
    the moment its turn comes -/
theorem C03_every_sweep_frees_live_cells (prev : VM) (bc : Bytecode) (s : VM) (hr : TI.Reachable bc.code (prev.start bc) s)
    (roots : List Value) :
    (GC.run s.mem roots).heap = GC.freeAll s.mem.heap (Ledger.swept s.mem roots) ∧ (Ledger.swept s.mem roots).Nodup ∧
    ∀ pre a post, Ledger.swept s.mem roots = pre ++ a :: post → (GC.freeAll s.mem.heap pre).isLive a = true :=
  Ledger.every_sweep_frees_live_cells prev bc s hr roots

/-- in every reachable state every object the collector manages is live (never a released one), and listed once -/
theorem C03_managed_cells_are_live (prev : VM) (bc : Bytecode) (s : VM) (hr : TI.Reachable bc.code (prev.start bc) s) :
    s.mem.managed.Nodup ∧ ∀ a, a ∈ s.mem.managed → s.mem.heap.isLive a = true :=
  Ledger.managed_cells_are_live prev bc s hr

end C03
end Nl
