//! Correspondence harness: runs the REAL nederlang code in-process and answers the same line
//! protocol as the Lean driver (`/verif/lean/Nlmodel/Driver/Main.lean`).
//!
//! One request per line on stdin, one answer per line on stdout.  Text is `x<hex of UTF-8>`.
use nederlang::compiler::Compiler;
use nederlang::object::{Error, Object, Type};
use nederlang::parser::parse;
use nederlang::verif;
use nederlang::verif::{Expr, Operator, Stmt};
use nederlang::vm::VM;
use std::io::{BufRead, Write};
use std::panic::{catch_unwind, AssertUnwindSafe};

mod gcops;
mod objops;

pub fn hex(bytes: &[u8]) -> String {
    let mut s = String::with_capacity(bytes.len() * 2 + 1);
    s.push('x');
    for b in bytes {
        s.push_str(&format!("{:02x}", b));
    }
    s
}

pub fn unhex(s: &str) -> Option<String> {
    let s = s.strip_prefix('x')?;
    if s.len() % 2 != 0 {
        return None;
    }
    let mut out = Vec::with_capacity(s.len() / 2);
    let b = s.as_bytes();
    for i in (0..b.len()).step_by(2) {
        let h = (b[i] as char).to_digit(16)?;
        let l = (b[i + 1] as char).to_digit(16)?;
        out.push((h * 16 + l) as u8);
    }
    String::from_utf8(out).ok()
}

pub fn err_kind(e: &Error) -> String {
    match e {
        Error::TypeError(_) => "err Type".into(),
        Error::SyntaxError(_) => "err Syntax".into(),
        Error::ReferenceError(_) => "err Reference".into(),
        Error::IndexError(_) => "err Index".into(),
        Error::ArgumentError(_) => "err Argument".into(),
        Error::Budget => "BUDGET".into(),
        Error::Fault(site) => format!("FAULT {}", site),
    }
}

/// canonical observation of a value (DESIGN §4.2); `path` = enclosing arrays, innermost last
pub fn canon(o: Object, path: &mut Vec<usize>, out: &mut String) {
    match o.tag() {
        Type::Null => out.push_str("null"),
        Type::Bool => out.push_str(if o.as_bool() { "b:ja" } else { "b:nee" }),
        Type::Int => out.push_str(&format!("i:{}", o.as_int())),
        Type::Function => out.push_str("fn"),
        Type::Float => {
            let f = o.as_f64();
            if f.is_nan() {
                out.push_str("f:nan")
            } else {
                out.push_str(&format!("f:{:016x}", f.to_bits()))
            }
        }
        Type::String => {
            out.push_str("s:");
            out.push_str(&hex(o.as_str().as_bytes()));
        }
        Type::Array => {
            let addr = o.verif_raw() & !7usize;
            if let Some(pos) = path.iter().rposition(|a| *a == addr) {
                out.push_str(&format!("^{}", path.len() - 1 - pos));
                return;
            }
            path.push(addr);
            out.push_str("a:[");
            let v = o.as_vec();
            for (i, e) in v.iter().enumerate() {
                if i > 0 {
                    out.push(' ');
                }
                canon(*e, path, out);
            }
            out.push(']');
            path.pop();
        }
    }
}

/// release the result graph: every distinct heap object once
pub fn free_graph(o: Object) {
    let mut seen: Vec<usize> = Vec::new();
    let mut order: Vec<Object> = Vec::new();
    fn walk(o: Object, seen: &mut Vec<usize>, order: &mut Vec<Object>) {
        if !o.is_heap_allocated() {
            return;
        }
        let addr = o.verif_raw() & !7usize;
        if seen.contains(&addr) {
            return;
        }
        seen.push(addr);
        if o.tag() == Type::Array {
            for e in o.as_vec().iter() {
                walk(*e, seen, order);
            }
        }
        order.push(o);
    }
    walk(o, &mut seen, &mut order);
    for o in order {
        o.free();
    }
}

fn op_name(op: &Operator) -> String {
    format!("{:?}", op)
}

fn sexp_expr(e: &Expr, out: &mut String) {
    match e {
        Expr::Infix { left, operator, right } => {
            out.push_str("(infix ");
            out.push_str(&op_name(operator));
            out.push(' ');
            sexp_expr(left, out);
            out.push(' ');
            sexp_expr(right, out);
            out.push(')');
        }
        Expr::Prefix { operator, right } => {
            out.push_str("(prefix ");
            out.push_str(&op_name(operator));
            out.push(' ');
            sexp_expr(right, out);
            out.push(')');
        }
        Expr::Int { value } => out.push_str(&format!("(int {})", value)),
        Expr::Float { value } => out.push_str(&format!("(float {:016x})", value.to_bits())),
        Expr::Bool { value } => out.push_str(if *value { "(bool ja)" } else { "(bool nee)" }),
        Expr::If { condition, consequence, alternative } => {
            out.push_str("(if ");
            sexp_expr(condition, out);
            out.push(' ');
            sexp_block(consequence, out);
            out.push(' ');
            match alternative {
                None => out.push_str("none"),
                Some(b) => sexp_block(b, out),
            }
            out.push(')');
        }
        Expr::Identifier(n) => {
            out.push_str("(id ");
            out.push_str(&hex(n.as_bytes()));
            out.push(')');
        }
        Expr::Function { name, parameters, body } => {
            out.push_str("(fn ");
            out.push_str(&hex(name.as_bytes()));
            out.push_str(" [");
            for (i, p) in parameters.iter().enumerate() {
                if i > 0 {
                    out.push(' ');
                }
                out.push_str(&hex(p.as_bytes()));
            }
            out.push_str("] ");
            sexp_block(body, out);
            out.push(')');
        }
        Expr::Call { left, arguments } => {
            out.push_str("(call ");
            sexp_expr(left, out);
            out.push_str(" [");
            sexp_exprs(arguments, out);
            out.push_str("])");
        }
        Expr::Assign { left, right } => {
            out.push_str("(assign ");
            sexp_expr(left, out);
            out.push(' ');
            sexp_expr(right, out);
            out.push(')');
        }
        Expr::String { value } => {
            out.push_str("(str ");
            out.push_str(&hex(value.as_bytes()));
            out.push(')');
        }
        Expr::Array { values } => {
            out.push_str("(arr [");
            sexp_exprs(values, out);
            out.push_str("])");
        }
        Expr::Index { left, index } => {
            out.push_str("(index ");
            sexp_expr(left, out);
            out.push(' ');
            sexp_expr(index, out);
            out.push(')');
        }
        Expr::While { condition, body } => {
            out.push_str("(while ");
            sexp_expr(condition, out);
            out.push(' ');
            sexp_block(body, out);
            out.push(')');
        }
    }
}

fn sexp_exprs(es: &[Expr], out: &mut String) {
    for (i, e) in es.iter().enumerate() {
        if i > 0 {
            out.push(' ');
        }
        sexp_expr(e, out);
    }
}

fn sexp_stmt(s: &Stmt, out: &mut String) {
    match s {
        Stmt::Let(n, e) => {
            out.push_str("(let ");
            out.push_str(&hex(n.as_bytes()));
            out.push(' ');
            sexp_expr(e, out);
            out.push(')');
        }
        Stmt::Return(e) => {
            out.push_str("(return ");
            sexp_expr(e, out);
            out.push(')');
        }
        Stmt::Expr(e) => {
            out.push_str("(expr ");
            sexp_expr(e, out);
            out.push(')');
        }
        Stmt::Block(b) => {
            out.push_str("(block ");
            sexp_block(b, out);
            out.push(')');
        }
        Stmt::Break => out.push_str("(break)"),
        Stmt::Continue => out.push_str("(continue)"),
    }
}

fn sexp_block(b: &[Stmt], out: &mut String) {
    out.push('{');
    for (i, s) in b.iter().enumerate() {
        if i > 0 {
            out.push(' ');
        }
        sexp_stmt(s, out);
    }
    out.push('}');
}

fn cmd_lex(src: &str) -> String {
    let toks = verif::tokens(src);
    let mut out = String::from("ok");
    let mut first = true;
    for (kind, text) in toks {
        out.push(' ');
        let _ = first;
        first = false;
        match kind.as_str() {
            "Identifier" | "Int" | "Float" | "String" => {
                out.push_str(&kind);
                out.push(':');
                out.push_str(&hex(text.as_bytes()));
            }
            _ => out.push_str(&kind),
        }
    }
    if out == "ok" {
        out.push(' ');
    }
    out
}

fn cmd_parse(src: &str) -> String {
    match parse(src) {
        Ok(ast) => {
            let mut out = String::from("ok ");
            sexp_block(&ast, &mut out);
            out
        }
        Err(e) => err_kind(&e),
    }
}

fn const_canon(o: Object) -> String {
    match o.tag() {
        Type::Int => format!("i:{}", o.as_int()),
        Type::Float => {
            let f = o.as_f64();
            if f.is_nan() {
                "f:nan".into()
            } else {
                format!("f:{:016x}", f.to_bits())
            }
        }
        Type::String => format!("s:{}", hex(o.as_str().as_bytes())),
        Type::Function => {
            let [ip, nl] = o.as_function();
            format!("fn:{}:{}", ip, nl)
        }
        _ => "?".into(),
    }
}

fn cmd_compile(src: &str) -> String {
    let ast = match parse(src) {
        Ok(a) => a,
        Err(e) => return err_kind(&e),
    };
    let mut compiler = Compiler::new();
    match compiler.compile_ast(&ast) {
        Ok(code) => {
            let consts: Vec<String> = code.constants.iter().map(|c| const_canon(*c)).collect();
            let s = format!("ok {} | {}", hex(&code.instructions), consts.join(" "));
            for c in code.constants.iter() {
                if c.is_heap_allocated() {
                    c.free();
                }
            }
            s
        }
        Err(e) => err_kind(&e),
    }
}

/// compile with the REAL compiler, print its bytes and constants, then run them on the REAL machine with the
/// lockstep trace: `<outcome> # steps= halt= gc= hash= ## x<bytes> | <constants>`
fn cmd_runtrace(budget: u64, src: &str) -> String {
    verif::heap_reset();
    let ast = match parse(src) {
        Ok(a) => a,
        Err(e) => return err_kind(&e),
    };
    let mut compiler = Compiler::new();
    let code = match compiler.compile_ast(&ast) {
        Ok(c) => c,
        Err(e) => return err_kind(&e),
    };
    let consts: Vec<String> = code.constants.iter().map(|c| const_canon(*c)).collect();
    let bytes = format!("{} | {}", hex(&code.instructions), consts.join(" "));
    verif::capture_start();
    verif::set_budget(Some(budget));
    verif::trace_start(true);
    let r = VM::new().run(code);
    verif::set_budget(None);
    let output = verif::capture_take();
    let mut line = match &r {
        Ok(obj) => {
            let mut s = String::from("ok ");
            let mut path = Vec::new();
            canon(*obj, &mut path, &mut s);
            s
        }
        Err(e) => err_kind(e),
    };
    let plain_error = matches!(
        &r,
        Err(Error::TypeError(_))
            | Err(Error::SyntaxError(_))
            | Err(Error::ReferenceError(_))
            | Err(Error::IndexError(_))
            | Err(Error::ArgumentError(_))
    );
    if r.is_ok() || plain_error {
        line.push_str(" | ");
        line.push_str(&hex(output.as_bytes()));
    }
    if let Ok(obj) = r {
        free_graph(obj);
    }
    let t = verif::trace_take();
    let h = verif::heap_stats();
    let gcs: Vec<String> = t.gc_runs.iter().map(|(s, f)| format!("{}/{}", s, f)).collect();
    line.push_str(&format!(
        " # steps={} halt={} gc={}:{} hash={} live={} dfree={} uaf={} ## {}",
        t.steps,
        t.halt_stack,
        gcs.len(),
        gcs.join(","),
        t.step_hash,
        h.live,
        h.double_free,
        h.use_after_free,
        bytes
    ));
    line
}

/// `eval` with output capture, instruction budget and heap audit
/// hash of the TEXT of an error (C16: the same text must give the same error, message included, on every thread, in
/// every order and build profile; the model knows error kinds only, so this part is compared between runs of the
/// implementation and stripped before the comparison with the model)
fn err_text_hash(e: &Error) -> u64 {
    let t = format!("{:?}", e);
    let mut h: u64 = 0xcbf29ce484222325;
    for b in t.as_bytes() {
        h ^= *b as u64;
        h = h.wrapping_mul(0x100000001b3);
    }
    h
}

fn run_eval(budget: u64, src: &str, extended: bool) -> String {
    run_eval_m(budget, src, extended, false)
}

fn run_eval_m(budget: u64, src: &str, extended: bool, with_msg: bool) -> String {
    verif::heap_reset();
    verif::capture_start();
    verif::set_budget(Some(budget));
    verif::trace_start(extended);
    let r = nederlang::eval(src);
    verif::set_budget(None);
    let output = verif::capture_take();
    let mut line = match &r {
        Ok(obj) => {
            let mut s = String::from("ok ");
            let mut path = Vec::new();
            canon(*obj, &mut path, &mut s);
            s
        }
        Err(e) => err_kind(e),
    };
    let plain_error = matches!(
        &r,
        Err(Error::TypeError(_))
            | Err(Error::SyntaxError(_))
            | Err(Error::ReferenceError(_))
            | Err(Error::IndexError(_))
            | Err(Error::ArgumentError(_))
    );
    if r.is_ok() || plain_error {
        line.push_str(" | ");
        line.push_str(&hex(output.as_bytes()));
    }
    if with_msg && plain_error {
        if let Err(e) = &r {
            line.push_str(&format!(" @m={:016x}", err_text_hash(e)));
        }
    }
    if let Ok(obj) = r {
        free_graph(obj);
    }
    if extended {
        let t = verif::trace_take();
        let h = verif::heap_stats();
        let gcs: Vec<String> = t.gc_runs.iter().map(|(s, f)| format!("{}/{}", s, f)).collect();
        line.push_str(&format!(
            " # steps={} halt={} gc={}:{} live={} hash={} dfree={} uaf={} loopdrift={}",
            t.steps,
            t.halt_stack,
            gcs.len(),
            gcs.join(","),
            h.live,
            t.step_hash,
            h.double_free,
            h.use_after_free,
            t.loop_drift
        ));
    }
    line
}

/// a retained session: one Compiler and one VM across lines
fn cmd_session(budget: u64, lines: &[String]) -> String {
    verif::heap_reset();
    let mut compiler = Compiler::new();
    let mut vm = VM::new();
    let mut outs: Vec<String> = Vec::new();
    for src in lines {
        verif::capture_start();
        verif::set_budget(Some(budget));
        let r = (|| {
            let ast = parse(src)?;
            let code = compiler.compile_ast(&ast)?;
            vm.run(code)
        })();
        verif::set_budget(None);
        let output = verif::capture_take();
        let mut line = match &r {
            Ok(obj) => {
                let mut s = String::from("ok ");
                let mut path = Vec::new();
                canon(*obj, &mut path, &mut s);
                s
            }
            Err(e) => err_kind(e),
        };
        if !line.starts_with("BUDGET") && !line.starts_with("FAULT") {
            line.push_str(" | ");
            line.push_str(&hex(output.as_bytes()));
        }
        if let Ok(obj) = r {
            free_graph(obj);
        }
        outs.push(line);
    }
    drop(vm);
    drop(compiler);
    let h = verif::heap_stats();
    format!(
        "{} # live={} dfree={} uaf={}",
        outs.join(" ;; "),
        h.live,
        h.double_free,
        h.use_after_free
    )
}

/// a retained session, line by line, with the BYTES the retained compiler produced for each line (for the verified checker):
/// per line `ok|err.. [| output] ## x<bytes> | <constants>` (no `##` part when the line did not compile)
fn cmd_sessionbytes(budget: u64, lines: &[String]) -> String {
    verif::heap_reset();
    let mut compiler = Compiler::new();
    let mut vm = VM::new();
    let mut outs: Vec<String> = Vec::new();
    for src in lines {
        verif::capture_start();
        verif::set_budget(Some(budget));
        let mut bytes = String::new();
        let r = (|| {
            let ast = parse(src)?;
            let code = compiler.compile_ast(&ast)?;
            let consts: Vec<String> = code.constants.iter().map(|c| const_canon(*c)).collect();
            bytes = format!(" ## {} | {}", hex(&code.instructions), consts.join(" "));
            vm.run(code)
        })();
        verif::set_budget(None);
        let output = verif::capture_take();
        let mut line = match &r {
            Ok(obj) => {
                let mut s = String::from("ok ");
                let mut path = Vec::new();
                canon(*obj, &mut path, &mut s);
                s
            }
            Err(e) => err_kind(e),
        };
        if !line.starts_with("BUDGET") && !line.starts_with("FAULT") {
            line.push_str(" | ");
            line.push_str(&hex(output.as_bytes()));
        }
        if let Ok(obj) = r {
            free_graph(obj);
        }
        line.push_str(&bytes);
        outs.push(line);
    }
    drop(vm);
    drop(compiler);
    outs.join(" ;; ")
}

/// evaluate the batch concurrently: `n` threads, each repeatedly takes the next program of its own
/// seeded order; every program is evaluated by several threads and all answers for one program
/// must be identical (returned once; `DIVERGED` otherwise)
fn cmd_threads(n: usize, seed: u64, budget: u64, progs: Vec<String>, with_msg: bool) -> String {
    use std::sync::{Arc, Mutex};
    let progs = Arc::new(progs);
    let results: Arc<Mutex<Vec<Vec<String>>>> = Arc::new(Mutex::new(vec![Vec::new(); progs.len()]));
    let mut handles = Vec::new();
    for t in 0..n {
        let progs = Arc::clone(&progs);
        let results = Arc::clone(&results);
        handles.push(
            std::thread::Builder::new()
                .stack_size(64 << 20)
                .spawn(move || {
                    let mut x = seed.wrapping_mul(0x9E3779B97F4A7C15).wrapping_add(t as u64 * 7919 + 1) | 1;
                    let rounds = progs.len() * 3 / n.max(1) + 1;
                    for _ in 0..rounds {
                        x ^= x >> 12;
                        x ^= x << 25;
                        x ^= x >> 27;
                        let k = (x.wrapping_mul(0x2545F4914F6CDD1D) >> 11) as usize % progs.len();
                        let r = catch_unwind(AssertUnwindSafe(|| run_eval_m(budget, &progs[k], false, with_msg)))
                            .unwrap_or_else(|_| "PANIC".to_string());
                        results.lock().unwrap()[k].push(r);
                    }
                })
                .unwrap(),
        );
    }
    for h in handles {
        let _ = h.join();
    }
    let results = results.lock().unwrap();
    let mut out = Vec::new();
    for (k, rs) in results.iter().enumerate() {
        if rs.is_empty() {
            // not drawn by any thread: evaluate here
            out.push(run_eval_m(budget, &progs[k], false, with_msg));
        } else if rs.iter().all(|r| r == &rs[0]) {
            out.push(rs[0].clone());
        } else {
            let mut d = rs.clone();
            d.sort();
            d.dedup();
            out.push(format!("DIVERGED {}", d.join(" <> ")));
        }
    }
    out.join(" ;; ")
}

fn handle(line: &str) -> String {
    let parts: Vec<&str> = line.trim().split(' ').collect();
    match parts.as_slice() {
        ["lex", h] => match unhex(h) {
            Some(t) => cmd_lex(&t),
            None => "bad-hex".into(),
        },
        ["parse", h] => match unhex(h) {
            Some(t) => cmd_parse(&t),
            None => "bad-hex".into(),
        },
        ["compile", h] => match unhex(h) {
            Some(t) => cmd_compile(&t),
            None => "bad-hex".into(),
        },
        ["eval", b, h] => match (b.parse::<u64>(), unhex(h)) {
            (Ok(b), Some(t)) => run_eval(b, &t, false),
            _ => "bad-hex".into(),
        },
        ["evalm", b, h] => match (b.parse::<u64>(), unhex(h)) {
            (Ok(b), Some(t)) => run_eval_m(b, &t, false, true),
            _ => "bad-hex".into(),
        },
        ["evalx", b, h] => match (b.parse::<u64>(), unhex(h)) {
            (Ok(b), Some(t)) => run_eval(b, &t, true),
            _ => "bad-hex".into(),
        },
        ["runtrace", b, h] => match (b.parse::<u64>(), unhex(h)) {
            (Ok(b), Some(t)) => cmd_runtrace(b, &t),
            _ => "bad-hex".into(),
        },
        ["session", b, rest @ ..] => {
            let b = match b.parse::<u64>() {
                Ok(b) => b,
                Err(_) => return "bad-request".into(),
            };
            let mut lines = Vec::new();
            for h in rest.iter() {
                match unhex(h) {
                    Some(t) => lines.push(t),
                    None => return "bad-hex".into(),
                }
            }
            cmd_session(b, &lines)
        }
        ["sessionbytes", b, rest @ ..] => {
            let b = match b.parse::<u64>() {
                Ok(b) => b,
                Err(_) => return "bad-request".into(),
            };
            let mut lines = Vec::new();
            for h in rest.iter() {
                match unhex(h) {
                    Some(t) => lines.push(t),
                    None => return "bad-hex".into(),
                }
            }
            cmd_sessionbytes(b, &lines)
        }
        [cmd @ ("threads" | "threadsm"), n, seed, b, rest @ ..] => {
            let (n, seed, b) = match (n.parse::<usize>(), seed.parse::<u64>(), b.parse::<u64>()) {
                (Ok(n), Ok(s), Ok(b)) => (n, s, b),
                _ => return "bad-request".into(),
            };
            let mut progs = Vec::new();
            for h in rest.iter() {
                match unhex(h) {
                    Some(t) => progs.push(t),
                    None => return "bad-hex".into(),
                }
            }
            cmd_threads(n, seed, b, progs, *cmd == "threadsm")
        }
        ["tables"] => verif::tables().replace('\n', " ;; "),
        ["obj", rest @ ..] => objops::handle(rest),
        ["gcops", rest @ ..] => gcops::handle(rest),
        _ => "bad-request".into(),
    }
}

fn dump_unicode(path: &str) -> std::io::Result<()> {
    // ranges of char::is_alphabetic / is_alphanumeric / is_whitespace as the running std has them
    let mut f = std::fs::File::create(path)?;
    for (name, pred) in [
        ("alpha", (|c: char| c.is_alphabetic()) as fn(char) -> bool),
        ("alnum", |c: char| c.is_alphanumeric()),
        ("space", |c: char| c.is_whitespace()),
    ] {
        let mut start: Option<u32> = None;
        let mut prev: u32 = 0;
        for cp in 0u32..=0x10FFFF {
            let ok = char::from_u32(cp).map(pred).unwrap_or(false);
            if ok {
                if start.is_none() {
                    start = Some(cp);
                }
                prev = cp;
            } else if let Some(s) = start.take() {
                writeln!(f, "{} {} {}", name, s, prev)?;
            }
        }
        if let Some(s) = start {
            writeln!(f, "{} {} {}", name, s, prev)?;
        }
    }
    Ok(())
}

fn main() {
    let args: Vec<String> = std::env::args().collect();
    if args.len() == 3 && args[1] == "--unicode" {
        dump_unicode(&args[2]).expect("cannot write unicode table");
        return;
    }
    // keep panics quiet: they are reported on the protocol
    std::panic::set_hook(Box::new(|_| {}));
    let stdin = std::io::stdin();
    let stdout = std::io::stdout();
    let mut out = std::io::BufWriter::new(stdout.lock());
    for line in stdin.lock().lines() {
        let line = match line {
            Ok(l) => l,
            Err(_) => break,
        };
        if line.is_empty() {
            continue;
        }
        let res = catch_unwind(AssertUnwindSafe(|| handle(&line)));
        let ans = match res {
            Ok(s) => s,
            Err(p) => {
                let msg = if let Some(s) = p.downcast_ref::<&str>() {
                    s.to_string()
                } else if let Some(s) = p.downcast_ref::<String>() {
                    s.clone()
                } else {
                    "?".to_string()
                };
                verif::set_budget(None);
                let _ = verif::capture_take();
                format!("PANIC {}", msg.replace('\n', " "))
            }
        };
        writeln!(out, "{}", ans).unwrap();
        out.flush().unwrap();
    }
}
