/- Stage 5: related values have the same deep view (what `print` shows), cycles included. -/
import Nlmodel.Proofs.Lemmas.SimHBase
namespace Nl
namespace SimH
open Spec Sim

def PathRel (μ : AMap) : List Nat → List Nat → Prop
  | [], [] => True
  | p :: ps, q :: qs => μ p = some q ∧ PathRel μ ps qs
  | _, _ => False

theorem idxOf_rel {μ : AMap} (hinj : ∀ a b a', μ a = some a' → μ b = some a' → a = b) :
    ∀ (ps qs : List Nat), PathRel μ ps qs → ∀ a a', μ a = some a' → ps.idxOf? a = qs.idxOf? a'
  | [], [], _, _, _, _ => rfl
  | p :: ps, q :: qs, h, a, a', ha => by
    have ih := idxOf_rel hinj ps qs h.2 a a' ha
    simp only [List.idxOf?, List.findIdx?_cons] at ih ⊢
    by_cases hpa : p = a
    · subst hpa
      have : q = a' := by have := h.1; rw [ha] at this; injection this with this; exact this.symm
      subst this; simp
    · have hq : q ≠ a' := by
        intro e; subst e; exact hpa (hinj p a q h.1 ha)
      have e1 : (p == a) = false := by simpa using hpa
      have e2 : (q == a') = false := by simpa using hq
      simp only [e1, e2, Bool.false_eq_true, ↓reduceIte]
      rw [ih]
  | [], _ :: _, h, _, _, _ => h.elim
  | _ :: _, [], h, _, _, _ => h.elim

theorem map_tree_rel {μ : AMap} {st : SState} {h : Heap} (F : SVal → Tree) (G : Value → Tree)
    (hFG : ∀ v mv, VRh μ st h v mv → F v = G mv) : ∀ (vs : List SVal) (ms : List Value), VRL μ st h vs ms → vs.map F = ms.map G
  | [], [], _ => rfl
  | v :: vs, m :: ms, hv => by simp [hFG v m hv.1, map_tree_rel F G hFG vs ms hv.2]
  | [], _ :: _, hv => hv.elim
  | _ :: _, [], hv => hv.elim

/-- related values have the same deep view (what `print` shows), cycles included -/
theorem tree_rel {μ : AMap} {st : SState} {h : Heap} (hr : HR μ st h) : ∀ (f : Nat) (ps qs : List Nat) (v : SVal) (mv : Value),
    PathRel μ ps qs → VRh μ st h v mv → st.tree f ps v = h.tree f qs mv
  | 0, _, _, _, _, _, _ => rfl
  | f + 1, ps, qs, v, mv, hp, hv => by
    cases v <;> cases mv <;> simp only [VRh] at hv <;> try exact absurd hv id
    · rfl
    · subst hv; rfl
    · subst hv; rfl
    · simp [SState.tree, Heap.tree, Heap.floatAt, hv]
    · rename_i a a'
      have := view_eq hr (v := .str a) (mv := .str a') hv
      simp only [Heap.view, SState.view, View.str.injEq] at this
      simp [SState.tree, Heap.tree, this]
    · rename_i a a'
      obtain ⟨hm, hk⟩ := hv
      simp only [SState.tree, Heap.tree]
      rw [idxOf_rel hr.inj ps qs hp a a' hm]
      cases hi : qs.idxOf? a' with
      | some k => rfl
      | none =>
        simp only
        cases hc : st.store[a]? with
        | none => rw [hc] at hk; cases hk
        | some c =>
          cases c with
          | str s => rw [hc] at hk; cases hk
          | arr vs =>
            obtain ⟨mvs, hg, hl⟩ := hr.arr a a' vs hm hc
            have e1 : st.arrAt a = vs := by simp [SState.arrAt, hc]
            have e2 : h.arrAt a' = mvs := by simp [Heap.arrAt, hg]
            rw [e1, e2]
            congr 1
            exact map_tree_rel _ _ (fun v mv hvm => tree_rel hr f (a :: ps) (a' :: qs) v mv ⟨hm, hp⟩ hvm) vs mvs hl

theorem trees_rel {μ : AMap} {st : SState} {h : Heap} (hr : HR μ st h) (f : Nat) (vs : List SVal) (ms : List Value) (hl : VRL μ st h vs ms) :
    vs.map (st.tree f []) = ms.map (h.tree f []) :=
  map_tree_rel _ _ (fun v mv hvm => tree_rel hr f [] [] v mv trivial hvm) vs ms hl

end SimH
end Nl
