/-
  C02 — execution never leaves the interpreter's own memory (no underflow, no wild jump).

  `fault` is every access vm.rs performs unchecked or by panicking: pop of an empty stack, fetch or
  operand read outside the code, invalid opcode or builtin byte, constant/local slot out of range,
  base pointer underflow, return without a caller.  The theorems say: bytecode accepted by the
  checker of Model/Verifier never makes the machine of Model/VM fault, in any number of steps.
  The check applies this checker to the REAL compiler's bytes for every generated source.
-/
import Nlmodel.Proofs.Lemmas.VerifierSound
import Nlmodel.Proofs.Lemmas.CompileVerifiable
namespace Nl
namespace C02
open Verifier

/-- in a checked program every certified offset is the start of a valid instruction whose operands
    lie inside the code, and the instruction satisfies its rule (operand-stack lower bound, operand
    ranges, certified successors of the same function) -/
theorem C02_certified_decodes (bc : Bytecode) (c : Cert) (hc : check bc c = true) (pc o h : Nat)
    (hg : c.get pc = some (o, h)) :
    ∃ i, decodeAt bc.code pc = some i ∧
      checkInstr c (fnTable bc.consts) bc.consts.length (pc + i.size) i o h = true := by
  unfold check at hc
  simp only [Bool.and_eq_true, List.all_eq_true, List.mem_range] at hc
  obtain ⟨_, hall⟩ := hc
  have hpc : pc < c.ent.size := by
    unfold Cert.get at hg
    cases he : c.ent[pc]? with
    | none => simp [he] at hg
    | some x => exact (Array.getElem?_eq_some_iff.mp he).1
  have := hall pc hpc
  rw [hg] at this
  simp only at this
  cases hd : decodeAt bc.code pc with
  | none => simp [hd] at this
  | some i => exact ⟨i, rfl, by simpa [hd] using this⟩

/-- one step of a checked program from a state satisfying the invariant (certificate entry at the
    instruction pointer, operand height above the locals, every suspended frame able to take its
    result, every function value a checked entry) either halts, fails with an error value, or
    continues in a state satisfying the invariant — it never faults -/
theorem C02_step_preserves (bc : Bytecode) (c : Cert) (hc : check bc c = true) (s : VM) (o h : Nat)
    (inv : Inv bc c s o h) :
    (∃ s' o' h', step bc.code s = .next s' ∧ Inv bc c s' o' h') ∨ (∃ v s', step bc.code s = .halt v s')
    ∨ (∃ e s', step bc.code s = .error e s') := by
  have hg := step_good bc c hc s o h inv
  cases hs : step bc.code s with
  | next s' => rw [hs] at hg; obtain ⟨o', h', i'⟩ := hg; exact Or.inl ⟨s', o', h', rfl, i'⟩
  | halt v s' => exact Or.inr (Or.inl ⟨v, s', rfl⟩)
  | error e s' => exact Or.inr (Or.inr ⟨e, s', rfl⟩)
  | fault site => rw [hs] at hg; exact absurd hg (by simp [Good])

/-- SOUNDNESS: for bytecode the checker accepts, `eval`'s run — a fresh machine — never reaches a
    fault, for any instruction budget: no stack underflow, no fetch outside the code or off an
    instruction boundary, no running out of a function body, every constant, local-slot and builtin
    number in range -/
theorem C02_check_sound (bc : Bytecode) (c : Cert) (hc : check bc c = true) (n : Nat) (site : String) :
    VM.run {} bc n ≠ .fault site := by
  have inv := start_inv bc c hc {} (by intro v hv; simp at hv) (by intro a v hv; simp [Heap.arrAt, Heap.get] at hv)
  have := run_never_faults bc c hc n _ 0 0 inv
  unfold VM.run
  cases hr : runSteps bc.code n (VM.start {} bc) with
  | value v s => simp
  | error e s => simp
  | budget s => simp
  | fault st => exact absurd hr (this st)

/-- the same for a retained machine (a session), provided the carried globals and heap hold only
    function values that are entries of THIS bytecode (they do within U8: scalars only) -/
theorem C02_check_sound_session (bc : Bytecode) (c : Cert) (hc : check bc c = true) (prev : VM)
    (hg : ∀ v ∈ prev.globals, ValOK c (fnTable bc.consts) v) (hh : HeapOK c (fnTable bc.consts) prev.mem.heap)
    (n : Nat) (site : String) : VM.run prev bc n ≠ .fault site := by
  have inv := start_inv bc c hc prev hg hh
  have := run_never_faults bc c hc n _ 0 0 inv
  unfold VM.run
  cases hr : runSteps bc.code n (prev.start bc) with
  | value v s => simp
  | error e s => simp
  | budget s => simp
  | fault st => exact absurd hr (this st)

/-- the verdict the check uses (`verify` = infer a certificate, then check it) inherits soundness:
    the inference is untrusted -/
theorem C02_verify_sound (bc : Bytecode) (hv : verify bc = true) (n : Nat) (site : String) :
    VM.run {} bc n ≠ .fault site :=
  C02_check_sound bc (inferCert bc) hv n site

/-- THE COMPILER'S OUTPUT IS ALWAYS CHECKABLE: for EVERY source tree (the whole language: functions, nested
    function literals, loops, `stop`/`volgende` under pending operands, fused instructions, everything), if the
    resolver and the code generator accept it, the bytecode passes the checker — with an explicit certificate
    built from the resolved tree (`CV.progCert`: owner and operand-height lower bound of every emitted
    instruction).  Ingredients, each by mutual induction over the tree: the resolver's output is well-formed
    (`CV.resolveProgram_wf`: local slots below the function's locals count and only inside functions,
    `stop`/`volgende` only inside a loop of the same function, `antwoord` only inside a function); every emitted
    instruction satisfies its rule (`CV.ckE` ..: operand heights, certified successors of the same owner, jump
    targets of `als`/`zolang`/`stop`/`volgende`, function bodies closed by a return); every function constant
    in the pool is the certified entry of exactly one function literal (`CV.poolE`, `CV.funE`). -/
theorem C02_compiler_verifiable (ast : Block) (r : RBlock) (bc : Bytecode)
    (hc : compileProgram ast = .ok (r, bc)) : ∃ c : Cert, check bc c = true :=
  CV.compile_checkable ast r bc hc

/-- THE PROPERTY ON THE MODEL, UNCONDITIONALLY: for every program the front end accepts, running it on a fresh
    machine never reaches a fault, for any instruction budget — no pop of an empty stack, no fetch or jump
    outside the code or off an instruction boundary, no running out of a function body, every constant,
    local-slot and builtin number in range.  (`C02_compiler_verifiable` + `C02_check_sound`.) -/
theorem C02_accepted_program_never_faults (ast : Block) (r : RBlock) (bc : Bytecode)
    (hc : compileProgram ast = .ok (r, bc)) (n : Nat) (site : String) : VM.run {} bc n ≠ .fault site := by
  obtain ⟨c, hcheck⟩ := C02_compiler_verifiable ast r bc hc
  exact C02_check_sound bc c hcheck n site

/-- the same from TEXT: whatever `evalText` (lexer, parser, resolver, code generator, machine) answers for any
    text and any budget, it is never a fault -/
theorem C02_eval_text_never_faults (cc : CharClass) (b : Nat) (src : Text) (site : String) :
    evalText cc b src ≠ .fault site := by
  unfold evalText
  cases hp : parse cc src with
  | error e => simp
  | ok ast =>
    simp only
    cases hc : compileProgram ast with
    | error e => simp
    | ok rb =>
      obtain ⟨r, bc⟩ := rb
      simp only
      have := C02_accepted_program_never_faults ast r bc hc b
      cases hr : VM.run {} bc b with
      | fault st => exact absurd hr (this st)
      | _ => simp

/-- non-vacuity: the bytecode of the program `1` (Const 0; Pop; Halt) with its certificate is accepted -/
example : check { code := #[0, 0, 0, 1, 44], consts := [.int 1] }
    { ent := #[some (0, 0), none, none, some (0, 1), some (0, 0)] } = true := by decide

end C02
end Nl
