/- NON-VACUITY of the converse theorems after the machine-limit disjunct was made precise (`TextHitsLimit`): the text
   `[1][5]` is answered by an ORDINARY index error; it does not hit the stack/frame limit (no `Call` is ever executed),
   so the converse theorem of stage 6 applies to it and says that the text denotes the index error. -/
import Nlmodel.Proofs.Lemmas.Div6Text
import Nlmodel.Proofs.Lemmas.LimitRun
namespace Nl
namespace Sim6
open Spec Sim

/-- `[1][5]` -/
def idxSrc : Text := ['[', '1', ']', '[', '5', ']']

def idxAst : Block := .cons (.expr (.index (.arr (.cons (.int 1) .nil)) (.int 5))) .nil

theorem idx_parse : parse CharClass.ascii idxSrc = .ok idxAst := by rfl

theorem idx_src6Top : src6Top idxAst = true := by decide

/-- `eval` answers an ordinary index error (within 10 steps) -/
theorem idx_eval : evalText CharClass.ascii 10 idxSrc = .error .index [] := by
  have h : (match evalText CharClass.ascii 10 idxSrc with | .error .index [] => true | _ => false) = true := by decide +kernel
  revert h
  cases evalText CharClass.ascii 10 idxSrc with
  | error e out =>
    cases e <;> cases out <;> simp
  | _ => simp

/-- ... which is NOT the machine's limit: the run is over after 4 instructions, none of which is a `Call` -/
theorem idx_not_limit : ¬ TextHitsLimit CharClass.ascii idxSrc := by
  have d : (match compileProgram idxAst with
      | .ok (_, bc) => endsCallFree bc.code 10 (VM.start {} bc)
      | .error _ => false) = true := by decide +kernel
  intro hl
  cases hc : compileProgram idxAst with
  | error e => rw [hc] at d; cases d
  | ok q =>
    obtain ⟨r, bc⟩ := q
    rw [hc] at d
    exact not_hitsLimit_of_run 10 d (TextHitsLimit.program idx_parse hc hl)

/-- NON-VACUITY of `eval_text6_converse` with the precise hypothesis `¬ TextHitsLimit`: its hypotheses hold for a text
    whose answer is an index error, and it yields that the text denotes the index error (before, the hypothesis
    "`eval` does not end with an index error" excluded exactly these texts) -/
example : ∃ F, specText CharClass.ascii F idxSrc = .error .index [] ∨ specText CharClass.ascii F idxSrc = .unspec := by
  have d : (match compileProgram idxAst with | .ok _ => true | .error _ => false) = true := by decide +kernel
  cases hc : compileProgram idxAst with
  | error e => rw [hc] at d; cases d
  | ok q =>
    obtain ⟨r, bc⟩ := q
    have hne : evalText CharClass.ascii 10 idxSrc ≠ .budget := by rw [idx_eval]; intro h; cases h
    have := eval_text6_converse CharClass.ascii idxSrc idxAst r bc idx_parse idx_src6Top hc 10 hne idx_not_limit
    rw [idx_eval] at this
    exact this

/-- and indeed (kernel-evaluated) the definitional semantics answers the index error -/
example : (match specText CharClass.ascii 10 idxSrc with | .error .index [] => true | _ => false) = true := by decide +kernel

end Sim6
end Nl
