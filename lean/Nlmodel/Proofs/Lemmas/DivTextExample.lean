/- Divergence preservation, stage 6, instantiated at the level of source TEXTS: the two examples of `Div6Example.lean`
   (`zolang ja { }` and `functie f() { f() }; f()`) as texts, with the ASCII character class.  The texts parse to the
   examples' trees, denote "no end" for every fuel (`specText = .budget`), and therefore `eval` exhausts every budget
   or stops at the machine's stack/frame limit (`eval_text6_div`).  For the loop the second alternative is excluded
   (the program is also in the stage-3 fragment, whose theorem has no limit disjunct). -/
import Nlmodel.Proofs.Lemmas.Div6Example
import Nlmodel.Proofs.Lemmas.DivCtlText
namespace Nl
namespace Sim6
open Spec Sim

/-- the direction of `specText_budget` needed here: the resolved program runs out of the fuel, so the text denotes
    "no end" for that fuel -/
theorem specText_budget_of_fuel {cc : CharClass} {src : Text} {ast : Block} {r : RBlock} (hp : parse cc src = .ok ast)
    (hres : resolveProgram ast = .ok r) {F : Nat} (h : Spec.evalB F r {} = .fuel) : specText cc F src = .budget := by
  have he : Spec.evalProgram F r = .fuel := (Sim.evalProgram_fuel_iff F r).2 h
  simp only [specText, hp, hres, he]

/-! ## `zolang ja { }` -/

/-- `zolang ja { }` -/
def loopSrc : Text := "zolang ja { }".toList

theorem loop_parse : parse CharClass.ascii loopSrc = .ok exLoopAst := by rfl

theorem loop_src6Top : src6Top exLoopAst = true := by decide

theorem loop_resolve : resolveProgram exLoopAst = .ok exLoopR := by rfl

theorem loop_sb : SB false exLoopAst :=
  .cons _ _ _ (.expr _ _ (.whileE _ _ _ (.bool _ _) (.nil _))) (.nil _)

/-- the text denotes "no end" -/
theorem loop_specText : ∀ F, specText CharClass.ascii F loopSrc = .budget :=
  fun F => specText_budget_of_fuel loop_parse loop_resolve (exLoop_diverges F)

theorem loop_compiles : ∃ bc, compileProgram exLoopAst = .ok (exLoopR, bc) := by
  cases hc : compileProgram exLoopAst with
  | error e =>
    have h0 : (match compileProgram exLoopAst with | .ok _ => true | .error _ => false) = true := by decide
    rw [hc] at h0; cases h0
  | ok q =>
    obtain ⟨r, bc⟩ := q
    have := resolve_of_compile hc
    rw [loop_resolve] at this; injection this with this; subst this
    exact ⟨bc, rfl⟩

/-- stage-6 theorem on the text of the loop (with the limit disjunct that the theorem carries) -/
theorem loop_text_diverges6 : ∀ b, evalText CharClass.ascii b loopSrc = .budget ∨ TextHitsLimit CharClass.ascii loopSrc := by
  obtain ⟨bc, hc⟩ := loop_compiles
  exact eval_text6_div CharClass.ascii loopSrc exLoopAst exLoopR bc loop_parse loop_src6Top hc loop_specText

/-- DIVERGENCE OF THE LOOP TEXT: `eval` exhausts every budget (no limit disjunct: the program is in the stage-3
    fragment `SB false`, `Sim.ctl_text_diverges`) -/
theorem loop_text_diverges : ∀ b, evalText CharClass.ascii b loopSrc = .budget := by
  obtain ⟨bc, hc⟩ := loop_compiles
  exact Sim.ctl_text_diverges CharClass.ascii loopSrc exLoopAst exLoopR bc loop_parse loop_sb hc loop_specText

/-- hence the loop text does not hit the limit -/
theorem loop_not_limit : ¬ TextHitsLimit CharClass.ascii loopSrc := by
  intro hl
  obtain ⟨n, out, hn⟩ := hl.observable
  have h := hn 0
  rw [loop_text_diverges] at h
  cases h

/-! ## `functie f() { f() }; f()` -/

/-- `functie f() { f() }; f()` -/
def recSrc : Text := "functie f() { f() }; f()".toList

theorem rec_parse : parse CharClass.ascii recSrc = .ok exRecAst := by rfl

theorem rec_src6Top : src6Top exRecAst = true := by decide

theorem rec_resolve : resolveProgram exRecAst = .ok exRecR := by rfl

/-- the text denotes "no end" -/
theorem rec_specText : ∀ F, specText CharClass.ascii F recSrc = .budget :=
  fun F => specText_budget_of_fuel rec_parse rec_resolve (exRec_diverges F)

theorem rec_compiles : ∃ bc, compileProgram exRecAst = .ok (exRecR, bc) := by
  cases hc : compileProgram exRecAst with
  | error e =>
    have h0 : (match compileProgram exRecAst with | .ok _ => true | .error _ => false) = true := by decide
    rw [hc] at h0; cases h0
  | ok q =>
    obtain ⟨r, bc⟩ := q
    have := resolve_of_compile hc
    rw [rec_resolve] at this; injection this with this; subst this
    exact ⟨bc, rfl⟩

/-- DIVERGENCE OF THE RECURSION TEXT: `eval` exhausts the budget or stops at the machine's frame limit.
    (Which disjunct: for small budgets the first; the recursion reaches the frame limit after 65534 calls, so the
    second disjunct is TRUE: `rec_text_hitsLimit` in `DivTextLimit.lean`, proved by an invariant of the recursion, not
    by evaluating the frames in the kernel.) -/
theorem rec_text_diverges : ∀ b, evalText CharClass.ascii b recSrc = .budget ∨ TextHitsLimit CharClass.ascii recSrc := by
  obtain ⟨bc, hc⟩ := rec_compiles
  exact eval_text6_div CharClass.ascii recSrc exRecAst exRecR bc rec_parse rec_src6Top hc rec_specText

end Sim6
end Nl
