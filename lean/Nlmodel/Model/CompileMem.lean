/-
  Memory behaviour of the COMPILE phase (`src/compiler.rs`: `Compiler { constants, gc, .. }`,
  `compile_expression` for `Expr::Float`/`Expr::String`, `add_constant`, `compile_ast`,
  `compile_ast_inner`; `src/gc.rs`: `trace`, `untrace`, `maybe_trace`, `destroy`, `impl Drop`).

  Model/VM (`VM.start`/`loadConsts`) pretends that the boxes of the float and string constants are
  allocated when the run starts.  The real compiler allocates them WHILE COMPILING, with its OWN
  collector:
    * every float / string literal OCCURRENCE allocates a fresh box traced by the compiler's
      collector (`Object::float(v, &mut self.gc)`); ints and function descriptors are immediates;
    * `add_constant` re-uses an equal pool entry - then the fresh box is a DUPLICATE: it is not put
      into the pool and stays managed by the compiler's collector;
    * on success `compile_ast_inner` untraces every pool constant and hands the pool over to the
      `Bytecode`; `VM::run` registers the pool boxes with the run's collector (`maybe_trace`);
    * on failure `compile_ast` clears the pool and calls `self.gc.destroy()`;
    * duplicates of a successful compilation stay with the compiler's collector until the compiler
      is dropped or a later failed compilation destroys it.

  `occE/occEs/occS/occB/occO` list the literal occurrences in the order the code generator visits
  them (checked against `emitE/..` in Proofs/Lemmas/CompileMemOcc.lean: `occ_faithful`).
  The machine state `CM` carries two GHOST fields, `handed` and `log`, that only record history:
  which boxes were handed over, and every `free` the compiler's collector executed, in order
  (`GC.destroy m` is `freeAll m.heap m.managed = m.managed.foldl Heap.free m.heap`, so the sequence
  of `free` calls of one `destroy` is exactly `m.managed`).  Since `Heap.alloc` never re-uses an
  address, "no box is freed twice" is `log.Nodup`.
-/
import Nlmodel.Model.Compiler
namespace Nl
namespace CompileMem

/-- the constants that live in a heap box (`Object::is_heap_allocated`) -/
def isHeap : Const → Bool
  | .float _ | .str _ => true
  | _ => false

/-! ### the literal occurrences, in code-generation order -/
mutual
def occE : RExpr → List Const
  | .int _ => []
  | .float x => [.float x]
  | .str s => [.str s]
  | .bool _ => []
  | .var _ => []
  | .not r | .neg r => occE r
  | .assignVar _ e => occE e
  | .assignIndex l i v => occE l ++ occE i ++ occE v
  -- a fused `local op int` has no float/string operand, so no case split is needed here
  | .infix l _ r => occE l ++ occE r
  | .ifE c t e => occE c ++ occB t ++ occO e
  | .whileE c b => occE c ++ occB b
  | .func _ _ _ _ body => occB body
  | .call f as => occEs as ++ occE f
  | .callBuiltin _ as => occEs as
  | .arr vs => occEs vs
  | .index l i => occE l ++ occE i
def occEs : RExprs → List Const
  | .nil => []
  | .cons e es => occE e ++ occEs es
def occS : RStmt → List Const
  | .expr e => occE e
  | .letS _ e => occE e
  | .ret e => occE e
  | .block b => occB b
  | .brk | .cont => []
def occB : RBlock → List Const
  | .nil => []
  | .cons s b => occS s ++ occB b
def occO : ROptBlock → List Const
  | .none => []
  | .some b => occB b
end

/-- the constant pool after `add_constant` of each occurrence in turn -/
def addConsts (cs : List Const) (occ : List Const) : List Const :=
  occ.foldl (fun cs c => (addConst cs c).1) cs

/-! ### the compile-phase memory machine -/

/-- the box of a float / string constant -/
def cellOf : Const → Cell
  | .float b => .float b
  | .str s => .str s
  | _ => .freed          -- immediates have no box

/-- the run-time value of a pool constant whose box is at `a` -/
def valOf (e : Const × Nat) : Value :=
  match e.1 with
  | .float _ => .float e.2
  | .str _ => .str e.2
  | .int i => .int i
  | .fn ip nl => .fn ip nl

/-- `Object::float(v, &mut self.gc)` / `Object::string(s, &mut self.gc)`: allocate and trace; the
    address of the new box is the old heap size (`Heap.alloc`) -/
def allocBox (m : Mem) : Const → Mem × Nat
  | .float b => ((m.allocFloat b).1, m.heap.cells.size)
  | .str s => ((m.allocStr s).1, m.heap.cells.size)
  | _ => (m, m.heap.cells.size)

/-- `GC::maybe_trace(o)` -/
def maybeTrace (m : Mem) (v : Value) : Mem :=
  match v.addr? with
  | some a => { m with managed := a :: m.managed }
  | none => m

structure CM where
  /-- the heap and the COMPILER's collector (`Compiler.gc`) -/
  mem : Mem := {}
  /-- `Compiler.constants`, float/string entries, each with the address of ITS box -/
  pool : List (Const × Nat) := []
  /-- boxes of literals whose constant was re-used: traced, never put into the pool -/
  dups : List Nat := []
  /-- ghost: the pool entries handed over to `Bytecode`s so far -/
  handed : List (Const × Nat) := []
  /-- ghost: every `free` executed by the compiler's collector, in order -/
  log : List Nat := []
  deriving Inhabited

/-- one literal occurrence: allocate the box (traced), then `add_constant` -/
def step (w : CM) (c : Const) : CM :=
  if isHeap c then
    let (m', a) := allocBox w.mem c
    match w.pool.findIdx? (fun e => Const.same e.1 c) with
    | some _ => { w with mem := m', dups := a :: w.dups }
    | none => { w with mem := m', pool := w.pool ++ [(c, a)] }
  else w

def compileAllocFrom (w : CM) (occ : List Const) : CM := occ.foldl step w

/-- the occurrences `occ` on a fresh compiler and an empty heap -/
def compileAlloc (occ : List Const) : CM := compileAllocFrom {} occ

/-- the collector's list after `for c in &self.constants { self.gc.untrace(*c) }` -/
def untracePool (h : Heap) (man : List Nat) (pool : List (Const × Nat)) : List Nat :=
  pool.foldl (fun man e => GC.untrace h (man.length + 1) man (valOf e)) man

/-- success (`compile_ast_inner`): untrace the pool boxes, hand the pool over (`mem::take`) -/
def handOver (w : CM) : CM :=
  { w with mem := { w.mem with managed := untracePool w.mem.heap w.mem.managed w.pool },
           handed := w.handed ++ w.pool, pool := [] }

/-- `self.constants.clear(); self.gc.destroy()` (failure) and `Drop` of the compiler -/
def destroyC (w : CM) : CM :=
  { w with mem := GC.destroy w.mem, log := w.log ++ w.mem.managed, pool := [], dups := [] }

/-- the compilation fails after the `k`-th occurrence -/
def failAfter (k : Nat) (occ : List Const) (w : CM) : CM := destroyC (compileAllocFrom w (occ.take k))

/-- `Drop` of the compiler: its collector releases what it still manages -/
def dropCompiler (w : CM) : CM := destroyC w

/-- a successful compilation -/
def succeed (occ : List Const) (w : CM) : CM := handOver (compileAllocFrom w occ)

/-- `VM::run`: register the handed-over constants with the run's (fresh) collector -/
def registerPool (h : Heap) (pool : List (Const × Nat)) : Mem :=
  pool.foldl (fun m e => maybeTrace m (valOf e)) { heap := h, managed := [] }

/-! ### sessions: one compiler, several compilations -/

inductive Comp where
  | ok (occ : List Const)                 -- succeeds
  | fail (occ : List Const) (k : Nat)     -- fails after the `k`-th occurrence
  deriving Repr, Inhabited

def Comp.run : Comp → CM → CM
  | .ok occ, w => succeed occ w
  | .fail occ k, w => failAfter k occ w

def runSession (cs : List Comp) (w : CM) : CM := cs.foldl (fun w c => c.run w) w

end CompileMem
end Nl
