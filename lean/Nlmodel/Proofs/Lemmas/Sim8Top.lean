/- Stage 8: top-level programs.  The constant pool (float constants are literals); the function table of a whole
   tree: every literal's body sits in the code where the table says (`fnok..`); top-level sequences. -/
import Nlmodel.Proofs.Lemmas.Sim8Body
namespace Nl
namespace Sim8
open Spec Sim Sim6 Sim7
open SimH (AMap isStrCell isArrCell Grow PoolH MemOK sameKind LitF LitPool addConst_litpool)
open SimF (FT FnInfo FTInj paramScope bigScope selfTail func_layout lookupD)

/-! ### float constants of the pool are literals -/

mutual
theorem lpE8 {Δ : Gam} : (e : RExpr) → ∀ {nl : Nat} {fn : Bool} {Γ Λ : Gam} {ab : Bool} {Γ' Λ' : Gam}, Z8E Δ nl fn Γ Λ ab e Γ' Λ' → ∀ (pos : Nat) (lp : LoopCtx) (cs : List Const),
    LitPool cs → LitPool (emitE e pos lp cs).2
  | .int v, _, _, _, _, _, _, _, _, _, _, cs, h => by simp only [emitE]; exact addConst_litpool cs _ h (fun y e => by cases e)
  | .float x, _, _, _, _, _, _, _, hy, _, _, cs, h => by
    cases hy with | float _ _ _ _ hx => simp only [emitE]; exact addConst_litpool cs _ h (fun y e => by injection e with e; rw [← e]; exact hx)
  | .str s, _, _, _, _, _, _, _, _, _, _, cs, h => by simp only [emitE]; exact addConst_litpool cs _ h (fun y e => by cases e)
  | .bool _, _, _, _, _, _, _, _, _, _, _, cs, h => by simp only [emitE]; exact h
  | .var _, _, _, _, _, _, _, _, _, _, _, cs, h => by simp only [emitE]; exact h
  | .not r, _, _, _, _, _, _, _, hy, pos, lp, cs, h => by cases hy with | not _ _ _ _ _ _ h1 => simp only [emitE]; exact lpE8 r h1 pos lp cs h
  | .neg r, _, _, _, _, _, _, _, hy, pos, lp, cs, h => by cases hy with | neg _ _ _ _ _ _ h1 => simp only [emitE]; exact lpE8 r h1 pos lp cs h
  | .assignVar _ e, _, _, _, _, _, _, _, hy, pos, lp, cs, h => by
    cases hy with
    | assignG _ _ _ _ _ _ _ _ _ h1 => simp only [emitE]; exact lpE8 e h1 pos lp cs h
    | assignL _ _ _ _ _ _ _ _ _ _ h1 => simp only [emitE]; exact lpE8 e h1 pos lp cs h
  | .infix l op r, _, _, _, _, _, _, _, hy, pos, lp, cs, h => by
    cases hy with
    | bin _ _ _ _ _ _ _ _ _ _ hnf hl hr =>
      simp only [emitE, hnf]
      exact lpE8 r hr _ lp _ (lpE8 l hl pos lp cs h)
    | fusedL _ _ _ b k _ v _ _ hfc =>
      simp only [emitE, hfc]; exact addConst_litpool cs _ h (fun y e => by cases e)
    | fusedR _ _ _ b k _ op' v _ _ hmir =>
      have hfc : fusedCandidate (.int v) op (.var ⟨b, .loc k⟩) = some (op', k, v) := by simp [fusedCandidate, hmir]
      simp only [emitE, hfc]; exact addConst_litpool cs _ h (fun y e => by cases e)
  | .ifE c t e, _, _, _, _, _, _, _, hy, pos, lp, cs, h => by
    cases hy with
    | ifE _ _ _ _ _ _ _ _ _ _ hc ht he => simp only [emitE]; exact lpO8 e he _ lp _ (lpB8 t ht _ lp _ (lpE8 c hc pos lp cs h))
  | .whileE c b, _, _, _, _, _, _, _, hy, pos, lp, cs, h => by
    cases hy with
    | whileE _ _ _ _ _ _ _ _ _ hc hb => simp only [emitE]; exact lpB8 b hb _ _ _ (lpE8 c hc _ _ cs h)
  | .arr vs, _, _, _, _, _, _, _, hy, pos, lp, cs, h => by cases hy with | arr _ _ _ _ _ _ hvs => simp only [emitE]; exact lpEs8 vs hvs pos lp cs h
  | .callBuiltin _ as, _, _, _, _, _, _, _, hy, pos, lp, cs, h => by
    cases hy with | builtin _ _ _ _ _ _ _ has => simp only [emitE]; exact lpEs8 as has pos lp cs h
  | .index l i, _, _, _, _, _, _, _, hy, pos, lp, cs, h => by
    cases hy with | index _ _ _ _ _ _ _ _ _ hl hi => simp only [emitE]; exact lpE8 i hi _ lp _ (lpE8 l hl pos lp cs h)
  | .assignIndex l i v, _, _, _, _, _, _, _, hy, pos, lp, cs, h => by
    cases hy with
    | assignIndex _ _ _ _ _ _ _ _ _ _ _ _ hl hi hv => simp only [emitE]; exact lpE8 v hv _ lp _ (lpE8 i hi _ lp _ (lpE8 l hl pos lp cs h))
  | .call f as, _, _, _, _, _, _, _, hy, pos, lp, cs, h => by
    cases hy with
    | call _ _ _ _ _ _ _ _ _ has hf => simp only [emitE]; exact lpE8 f hf _ lp _ (lpEs8 as has pos lp cs h)
  | .func _ _ _ _ body, _, _, _, _, _, _, _, hy, pos, lp, cs, h => by
    cases hy with
    | func _ _ _ _ _ _ _ _ _ hb _ _ =>
      simp only [emitE]; exact addConst_litpool _ _ (lpB8 body hb _ _ _ h) (fun y e => by cases e)
    | funcG _ _ _ _ _ _ _ _ _ _ _ _ _ hb _ _ =>
      simp only [emitE]; exact addConst_litpool _ _ (lpB8 body hb _ _ _ h) (fun y e => by cases e)
    | funcL _ _ _ _ _ _ _ _ _ _ _ _ _ _ hb _ _ =>
      simp only [emitE]; exact addConst_litpool _ _ (lpB8 body hb _ _ _ h) (fun y e => by cases e)
theorem lpEs8 {Δ : Gam} : (es : RExprs) → ∀ {nl : Nat} {fn : Bool} {Γ Λ Γ' Λ' : Gam}, Z8Es Δ nl fn Γ Λ es Γ' Λ' → ∀ (pos : Nat) (lp : LoopCtx) (cs : List Const),
    LitPool cs → LitPool (emitEs es pos lp cs).2
  | .nil, _, _, _, _, _, _, _, _, _, cs, h => by simp only [emitEs]; exact h
  | .cons e es, _, _, _, _, _, _, hy, pos, lp, cs, h => by
    cases hy with | cons _ _ _ _ _ _ _ _ he hes => simp only [emitEs]; exact lpEs8 es hes _ lp _ (lpE8 e he pos lp cs h)
theorem lpO8 {Δ : Gam} : (o : ROptBlock) → ∀ {nl : Nat} {fn : Bool} {Γ Λ : Gam} {ab : Bool}, Z8O Δ nl fn Γ Λ ab o → ∀ (pos : Nat) (lp : LoopCtx) (cs : List Const),
    LitPool cs → LitPool (emitO o pos lp cs).2
  | .none, _, _, _, _, _, _, _, _, cs, h => by simp only [emitO]; exact h
  | .some b, _, _, _, _, _, hy, pos, lp, cs, h => by cases hy with | some _ _ _ _ _ _ hb => simp only [emitO]; exact lpB8 b hb pos lp cs h
theorem lpS8 {Δ : Gam} : (s : RStmt) → ∀ {nl : Nat} {fn : Bool} {Γ Λ Γ1 Λ1 : Gam} {ab : Bool}, Z8S Δ nl fn Γ Λ ab s Γ1 Λ1 → ∀ (pos : Nat) (lp : LoopCtx)
    (cs : List Const), LitPool cs → LitPool (emitS s pos lp cs).2
  | .expr e, _, _, _, _, _, _, _, hy, pos, lp, cs, h => by
    cases hy with
    | expr _ _ _ _ _ _ he => simp only [emitS]; exact lpE8 e he pos lp cs h
  | .letS _ e, _, _, _, _, _, _, _, hy, pos, lp, cs, h => by
    cases hy with
    | letG _ _ _ _ _ _ _ _ _ _ he => simp only [emitS]; exact lpE8 e he pos lp cs h
    | letL _ _ _ _ _ _ _ _ _ _ _ he => simp only [emitS]; exact lpE8 e he pos lp cs h
  | .ret e, _, _, _, _, _, _, _, hy, pos, lp, cs, h => by cases hy with | ret _ _ _ _ _ _ _ he => simp only [emitS]; exact lpE8 e he pos lp cs h
  | .block b, _, _, _, _, _, _, _, hy, pos, lp, cs, h => by cases hy with | block _ _ _ _ _ _ hb => simp only [emitS]; exact lpB8 b hb pos lp cs h
  | .brk, _, _, _, _, _, _, _, _, _, _, cs, h => by simp only [emitS]; exact h
  | .cont, _, _, _, _, _, _, _, _, _, _, cs, h => by simp only [emitS]; exact h
theorem lpB8 {Δ : Gam} : (b : RBlock) → ∀ {nl : Nat} {fn : Bool} {Γ Λ Γ1 Λ1 : Gam} {ab : Bool}, Z8B Δ nl fn Γ Λ ab b Γ1 Λ1 → ∀ (pos : Nat) (lp : LoopCtx)
    (cs : List Const), LitPool cs → LitPool (emitB b pos lp cs).2
  | .nil, _, _, _, _, _, _, _, _, _, _, cs, h => by simp only [emitB]; exact h
  | .cons s b, _, _, _, _, _, _, _, hy, pos, lp, cs, h => by
    cases hy with | cons _ _ _ _ _ _ _ _ _ hs hb => simp only [emitB]; exact lpB8 b hb _ lp _ (lpS8 s hs pos lp cs h)
end

/-! ### every literal of a tree has its body in the code where `lits..` says

By induction on a bound of the size of the tree (the seven statements together, one step lemma each). -/

def AllOK8 (W : World) (L : List (Nat × FnInfo)) : Prop := ∀ q ∈ L, FnOK8 W q.2

theorem AllOK8.nil {W : World} : AllOK8 W [] := fun _ h => (by cases h)
theorem AllOK8.append {W : World} {L1 L2 : List (Nat × FnInfo)} (h1 : AllOK8 W L1) (h2 : AllOK8 W L2) : AllOK8 W (L1 ++ L2) := by
  intro q hq
  rcases List.mem_append.mp hq with h | h
  · exact h1 q h
  · exact h2 q h

/-- one literal, given its body's literals -/
theorem allOK8_lit {W : World} {Δ : Gam} {fid : Nat} {self : Option Ref} {ps : List Nat} {nlf : Nat} {body : RBlock} {Γb Λb : Gam}
    (hb : Z8B Δ nlf true Δ (paramScope ps) false body Γb Λb) (hpok : GamOK (paramScope ps)) (hpsz : ∀ p ∈ paramScope ps, p.2 < nlf)
    {pos : Nat} {lp : LoopCtx} {cs : List Const}
    (hc : CodeAt W.C pos (emitE (.func fid self ps nlf body) pos lp cs).1 ∧ Ext (emitE (.func fid self ps nlf body) pos lp cs).2 W.CS)
    (hft : FtE W.ft Δ (.func fid self ps nlf body) pos lp cs)
    (ihb : CodeAt W.C (pos + 3) (asFnBody body (emitB body (pos + 3) none cs).1) ∧ Ext (emitB body (pos + 3) none cs).2 W.CS →
      AllOK8 W (litsB Δ body (pos + 3) none cs)) :
    AllOK8 W (litsE Δ (.func fid self ps nlf body) pos lp cs) := by
  have hl := lay_func hc.1 hc.2
  intro q hq
  simp only [litsE, List.mem_cons] at hq
  rcases hq with rfl | hq
  · exact ⟨hl.1, hl.2, ⟨Γb, Λb, hb⟩, hpok, hpsz, hft.func.2⟩
  · exact ihb hl q hq

theorem litsB_single8 (Δ : Gam) (s : RStmt) (pos : Nat) (lp : LoopCtx) (cs : List Const) :
    litsB Δ (.cons s .nil) pos lp cs = litsS Δ s pos lp cs := by simp only [litsB, List.append_nil]

theorem litsB_cons8 (Δ : Gam) (s : RStmt) (b : RBlock) (pos : Nat) (lp : LoopCtx) (cs : List Const) :
    litsB Δ (.cons s b) pos lp cs = litsS Δ s pos lp cs ++ litsB Δ b (pos + sizeS s) lp (emitS s pos lp cs).2 := by rw [litsB]

section sz
variable (W : World) (Δ : Gam)

def QE8 (n : Nat) : Prop := ∀ (e : RExpr), sizeOf e ≤ n → ∀ {nl : Nat} {fn : Bool} {Γ Λ : Gam} {ab : Bool} {Γ' Λ' : Gam}, Z8E Δ nl fn Γ Λ ab e Γ' Λ' →
    ∀ (pos : Nat) (lp : LoopCtx) (cs : List Const), CodeAt W.C pos (emitE e pos lp cs).1 ∧ Ext (emitE e pos lp cs).2 W.CS →
    FtE W.ft Δ e pos lp cs → AllOK8 W (litsE Δ e pos lp cs)
def QEs8 (n : Nat) : Prop := ∀ (es : RExprs), sizeOf es ≤ n → ∀ {nl : Nat} {fn : Bool} {Γ Λ Γ' Λ' : Gam}, Z8Es Δ nl fn Γ Λ es Γ' Λ' →
    ∀ (pos : Nat) (lp : LoopCtx) (cs : List Const), CodeAt W.C pos (emitEs es pos lp cs).1 ∧ Ext (emitEs es pos lp cs).2 W.CS →
    FtEs W.ft Δ es pos lp cs → AllOK8 W (litsEs Δ es pos lp cs)
def QO8 (n : Nat) : Prop := ∀ (o : ROptBlock), sizeOf o ≤ n → ∀ {nl : Nat} {fn : Bool} {Γ Λ : Gam} {ab : Bool}, Z8O Δ nl fn Γ Λ ab o →
    ∀ (pos : Nat) (lp : LoopCtx) (cs : List Const), CodeAt W.C pos (emitO o pos lp cs).1 ∧ Ext (emitO o pos lp cs).2 W.CS →
    FtO W.ft Δ o pos lp cs → AllOK8 W (litsO Δ o pos lp cs)
def QS8 (n : Nat) : Prop := ∀ (s : RStmt), sizeOf s ≤ n → ∀ {nl : Nat} {fn : Bool} {Γ Λ Γ1 Λ1 : Gam} {ab : Bool}, Z8S Δ nl fn Γ Λ ab s Γ1 Λ1 →
    ∀ (pos : Nat) (lp : LoopCtx) (cs : List Const), CodeAt W.C pos (emitS s pos lp cs).1 ∧ Ext (emitS s pos lp cs).2 W.CS →
    FtS W.ft Δ s pos lp cs → AllOK8 W (litsS Δ s pos lp cs)
def QB8 (n : Nat) : Prop := ∀ (b : RBlock), sizeOf b ≤ n → ∀ {nl : Nat} {fn : Bool} {Γ Λ Γ1 Λ1 : Gam} {ab : Bool}, Z8B Δ nl fn Γ Λ ab b Γ1 Λ1 →
    ∀ (pos : Nat) (lp : LoopCtx) (cs : List Const), CodeAt W.C pos (emitB b pos lp cs).1 ∧ Ext (emitB b pos lp cs).2 W.CS →
    FtB W.ft Δ b pos lp cs → AllOK8 W (litsB Δ b pos lp cs)
/-- a block in value position: the final `Pop` is missing or a `Null` follows -/
def QBV8 (n : Nat) : Prop := ∀ (b : RBlock), sizeOf b ≤ n → ∀ {nl : Nat} {fn : Bool} {Γ Λ Γ1 Λ1 : Gam} {ab : Bool}, Z8B Δ nl fn Γ Λ ab b Γ1 Λ1 →
    ∀ (pos : Nat) (lp : LoopCtx) (cs : List Const), CodeAt W.C pos (asValue b (emitB b pos lp cs).1) ∧ Ext (emitB b pos lp cs).2 W.CS →
    FtB W.ft Δ b pos lp cs → AllOK8 W (litsB Δ b pos lp cs)
/-- a function body with its epilogue -/
def QBF8 (n : Nat) : Prop := ∀ (b : RBlock), sizeOf b ≤ n → ∀ {nl : Nat} {fn : Bool} {Γ Λ Γ1 Λ1 : Gam} {ab : Bool}, Z8B Δ nl fn Γ Λ ab b Γ1 Λ1 →
    ∀ (pos : Nat) (cs : List Const), CodeAt W.C pos (asFnBody b (emitB b pos none cs).1) ∧ Ext (emitB b pos none cs).2 W.CS →
    FtB W.ft Δ b pos none cs → AllOK8 W (litsB Δ b pos none cs)

structure QAll8 (n : Nat) : Prop where
  e : QE8 W Δ n
  es : QEs8 W Δ n
  o : QO8 W Δ n
  s : QS8 W Δ n
  b : QB8 W Δ n
  bv : QBV8 W Δ n
  bf : QBF8 W Δ n
end sz

section steps
variable {W : World} {Δ : Gam} {n : Nat}

theorem qe8_succ (ih : QAll8 W Δ n) : QE8 W Δ (n + 1) := by
  intro e hsz nl fn Γ Λ ab Γ' Λ' hy pos lp cs hc hft
  cases hy with
  | int => simp only [litsE]; exact .nil
  | bool => simp only [litsE]; exact .nil
  | float => simp only [litsE]; exact .nil
  | str => simp only [litsE]; exact .nil
  | varG => simp only [litsE]; exact .nil
  | varL => simp only [litsE]; exact .nil
  | not _ _ _ r _ _ h1 => simp only [litsE]; exact ih.e r (by simp at hsz; omega) h1 pos lp cs (lay_not hc.1 hc.2) hft.not
  | neg _ _ _ r _ _ h1 => simp only [litsE]; exact ih.e r (by simp at hsz; omega) h1 pos lp cs (lay_neg hc.1 hc.2) hft.neg
  | assignG _ _ _ _ _ e1 _ _ _ h1 => simp only [litsE]; exact ih.e e1 (by simp at hsz; omega) h1 pos lp cs (lay_assignVar hc.1 hc.2) hft.assignVar
  | assignL _ _ _ _ _ e1 _ _ _ _ h1 => simp only [litsE]; exact ih.e e1 (by simp at hsz; omega) h1 pos lp cs (lay_assignVar hc.1 hc.2) hft.assignVar
  | bin _ _ _ l op r _ _ _ _ hnf hl hr =>
    have hft' := hft.infix hnf
    have hl' := lay_infix hnf hc.1 hc.2
    simp only [litsE, hnf]
    exact .append (ih.e l (by simp at hsz; omega) hl pos lp cs hl'.1 hft'.1) (ih.e r (by simp at hsz; omega) hr _ lp _ hl'.2 hft'.2)
  | fusedL _ _ _ b k op v _ _ hfc => simp only [litsE, hfc]; exact .nil
  | fusedR _ _ _ b k op op' v _ _ hmir =>
    have hfc : fusedCandidate (.int v) op (.var ⟨b, .loc k⟩) = some (op', k, v) := by simp [fusedCandidate, hmir]
    simp only [litsE, hfc]; exact .nil
  | index _ _ _ l i _ _ _ _ hl hi =>
    have hft' := hft.index
    have hl' := lay_index hc.1 hc.2
    simp only [litsE]
    exact .append (ih.e l (by simp at hsz; omega) hl pos lp cs hl'.1 hft'.1) (ih.e i (by simp at hsz; omega) hi _ lp _ hl'.2 hft'.2)
  | assignIndex _ _ _ l i v _ _ _ _ _ _ hl hi hv =>
    have hft' := hft.assignIndex
    have hl' := lay_assignIndex hc.1 hc.2
    simp only [litsE]
    exact .append (ih.e l (by simp at hsz; omega) hl pos lp cs hl'.1 hft'.1)
      (.append (ih.e i (by simp at hsz; omega) hi _ lp _ hl'.2.1 hft'.2.1) (ih.e v (by simp at hsz; omega) hv _ lp _ hl'.2.2 hft'.2.2))
  | arr _ _ _ vs _ _ hvs => simp only [litsE]; exact ih.es vs (by simp at hsz; omega) hvs pos lp cs (lay_arr hc.1 hc.2) hft.arr
  | builtin _ _ _ _ as _ _ has => simp only [litsE]; exact ih.es as (by simp at hsz; omega) has pos lp cs (lay_builtin hc.1 hc.2) hft.builtin
  | call _ _ _ f as _ _ _ _ has hf =>
    have hft' := hft.call
    have hl' := lay_call hc.1 hc.2
    simp only [litsE]
    exact .append (ih.es as (by simp at hsz; omega) has pos lp cs hl'.1 hft'.1) (ih.e f (by simp at hsz; omega) hf _ lp _ hl'.2 hft'.2)
  | ifE _ _ _ c t e _ _ Γ1 Λ1 hcn ht he =>
    have hft' := hft.ifE
    have hl' := lay_if hc.1 hc.2
    simp only [litsE]
    exact .append (ih.e c (by simp at hsz; omega) hcn pos lp cs hl'.1 hft'.1)
      (.append (ih.bv t (by simp at hsz; omega) ht _ lp _ hl'.2.1 hft'.2.1) (ih.o e (by simp at hsz; omega) he _ lp _ hl'.2.2 hft'.2.2))
  | whileE _ _ _ c b _ _ Γ1 Λ1 hcn hb =>
    have hft' := hft.whileE
    have hl' := lay_while hc.1 hc.2
    simp only [litsE]
    exact .append (ih.e c (by simp at hsz; omega) hcn _ _ cs hl'.1 hft'.1) (ih.bv b (by simp at hsz; omega) hb _ _ _ hl'.2 hft'.2)
  | func _ _ _ fid ps nlf body Γb Λb hb hpok hpsz =>
    exact allOK8_lit hb hpok hpsz hc hft (fun h => ih.bf body (by simp at hsz; omega) hb (pos + 3) cs h hft.func.2)
  | funcG _ _ _ fid b k ps nlf body Γb Λb _ _ hb hpok hpsz =>
    exact allOK8_lit hb hpok hpsz hc hft (fun h => ih.bf body (by simp at hsz; omega) hb (pos + 3) cs h hft.func.2)
  | funcL _ _ _ fid b k ps nlf body Γb Λb _ _ _ hb hpok hpsz =>
    exact allOK8_lit hb hpok hpsz hc hft (fun h => ih.bf body (by simp at hsz; omega) hb (pos + 3) cs h hft.func.2)

theorem qes8_succ (ih : QAll8 W Δ n) : QEs8 W Δ (n + 1) := by
  intro es hsz nl fn Γ Λ Γ' Λ' hy pos lp cs hc hft
  cases hy with
  | nil => simp only [litsEs]; exact .nil
  | cons _ _ e es _ _ _ _ he hes =>
    have hft' := hft.cons
    have hl' := lay_es_cons hc.1 hc.2
    simp only [litsEs]
    exact .append (ih.e e (by simp at hsz; omega) he pos lp cs hl'.1 hft'.1) (ih.es es (by simp at hsz; omega) hes _ lp _ hl'.2 hft'.2)

theorem qo8_succ (ih : QAll8 W Δ n) : QO8 W Δ (n + 1) := by
  intro o hsz nl fn Γ Λ ab hy pos lp cs hc hft
  cases hy with
  | none => simp only [litsO]; exact .nil
  | some _ _ _ b Γ1 Λ1 hb => simp only [litsO]; exact ih.bv b (by simp at hsz; omega) hb pos lp cs (lay_o_some hc.1 hc.2) hft.some

theorem qs8_succ (ih : QAll8 W Δ n) : QS8 W Δ (n + 1) := by
  intro s hsz nl fn Γ Λ Γ1 Λ1 ab hy pos lp cs hc hft
  cases hy with
  | expr _ _ _ e _ _ he => simp only [litsS]; exact ih.e e (by simp at hsz; omega) he pos lp cs (lay_s_expr hc.1 hc.2) hft.expr
  | letG _ _ _ _ _ e _ _ _ _ he => simp only [litsS]; exact ih.e e (by simp at hsz; omega) he pos lp cs (lay_s_let hc.1 hc.2) hft.letS
  | letL _ _ _ _ _ e _ _ _ _ _ he => simp only [litsS]; exact ih.e e (by simp at hsz; omega) he pos lp cs (lay_s_let hc.1 hc.2) hft.letS
  | ret _ _ _ e _ _ _ he => simp only [litsS]; exact ih.e e (by simp at hsz; omega) he pos lp cs (lay_s_ret hc.1 hc.2) hft.ret
  | block _ _ _ b Γ2 Λ2 hb => simp only [litsS]; exact ih.b b (by simp at hsz; omega) hb pos lp cs (lay_s_block hc.1 hc.2) hft.block
  | brk => simp only [litsS]; exact .nil
  | cont => simp only [litsS]; exact .nil

theorem qb8_succ (ih : QAll8 W Δ n) : QB8 W Δ (n + 1) := by
  intro b hsz nl fn Γ Λ Γ1 Λ1 ab hy pos lp cs hc hft
  cases hy with
  | nil => simp only [litsB]; exact .nil
  | cons _ _ _ _ _ _ _ s rest hs hb =>
    have hft' := hft.cons
    have hl' := lay_b_cons hc.1 hc.2
    rw [litsB_cons8]
    exact .append (ih.s s (by simp at hsz; omega) hs pos lp cs hl'.1 hft'.1) (ih.b rest (by simp at hsz; omega) hb _ lp _ hl'.2 hft'.2)

theorem qbv8_succ (ih : QAll8 W Δ n) : QBV8 W Δ (n + 1) := by
  intro b hsz nl fn Γ Λ Γ1 Λ1 ab hy pos lp cs hc hft
  cases hy with
  | nil => simp only [litsB]; exact .nil
  | cons _ _ _ _ _ _ _ s rest hs hb =>
    cases rest with
    | nil =>
      cases hb
      have hft' := hft.single
      rw [litsB_single8]
      cases hs with
      | expr _ _ _ e _ _ he => simp only [litsS]; exact ih.e e (by simp at hsz; omega) he pos lp cs (lay_bv_expr hc.1 hc.2) hft'.expr
      | block _ _ _ b' Γ3 Λ3 hb' =>
        cases b' with
        | nil => simp only [litsS, litsB]; exact .nil
        | cons s' b'' =>
          simp only [litsS]
          exact ih.bv (.cons s' b'') (by simp at hsz ⊢; omega) hb' pos lp cs (lay_bv_block hc.1 hc.2) hft'.block
      | letG _ _ _ bb k e _ _ hfn hf he =>
        exact ih.s _ (by simp at hsz ⊢; omega) (.letG _ _ _ bb k e _ _ hfn hf he) pos lp cs
          (lay_bv_other (by intro is; simp [asValue, RBlock.tailKind]) hc.1 hc.2) hft'
      | letL _ _ _ bb k e _ _ hfn hf hk he =>
        exact ih.s _ (by simp at hsz ⊢; omega) (.letL _ _ _ bb k e _ _ hfn hf hk he) pos lp cs
          (lay_bv_other (by intro is; simp [asValue, RBlock.tailKind]) hc.1 hc.2) hft'
      | ret _ _ _ e _ _ hfn he =>
        exact ih.s _ (by simp at hsz ⊢; omega) (.ret _ _ _ e _ _ hfn he) pos lp cs
          (lay_bv_other (by intro is; simp [asValue, RBlock.tailKind]) hc.1 hc.2) hft'
      | brk => simp only [litsS]; exact .nil
      | cont => simp only [litsS]; exact .nil
    | cons s2 rest2 =>
      have hft' := hft.cons
      have hl' := lay_bv_seq hc.1 hc.2
      rw [litsB_cons8]
      exact .append (ih.s s (by simp at hsz; omega) hs pos lp cs hl'.1 hft'.1)
        (ih.bv (.cons s2 rest2) (by simp at hsz ⊢; omega) hb _ lp _ hl'.2 hft'.2)

theorem qbf8_succ (ih : QAll8 W Δ n) : QBF8 W Δ (n + 1) := by
  intro b hsz nl fn Γ Λ Γ1 Λ1 ab hy pos cs hc hft
  cases hy with
  | nil => simp only [litsB]; exact .nil
  | cons _ _ _ _ _ _ _ s rest hs hb =>
    cases rest with
    | nil =>
      cases hb
      have hft' := hft.single
      rw [litsB_single8]
      cases hs with
      | expr _ _ _ e _ _ he => simp only [litsS]; exact ih.e e (by simp at hsz; omega) he pos none cs (lay_bf_expr hc.1 hc.2) hft'.expr
      | block _ _ _ b' Γ3 Λ3 hb' =>
        cases b' with
        | nil => simp only [litsS, litsB]; exact .nil
        | cons s' b'' =>
          simp only [litsS]
          exact ih.bf (.cons s' b'') (by simp at hsz ⊢; omega) hb' pos cs (lay_bf_block hc.1 hc.2) hft'.block
      | letG _ _ _ bb k e _ _ hfn hf he =>
        exact ih.s _ (by simp at hsz ⊢; omega) (.letG _ _ _ bb k e _ _ hfn hf he) pos none cs
          (lay_bf_other [.ret] (by intro is; simp [asFnBody, RBlock.tailKind]) hc.1 hc.2) hft'
      | letL _ _ _ bb k e _ _ hfn hf hk he =>
        exact ih.s _ (by simp at hsz ⊢; omega) (.letL _ _ _ bb k e _ _ hfn hf hk he) pos none cs
          (lay_bf_other [.ret] (by intro is; simp [asFnBody, RBlock.tailKind]) hc.1 hc.2) hft'
      | ret _ _ _ e _ _ hfn he =>
        exact ih.s _ (by simp at hsz ⊢; omega) (.ret _ _ _ e _ _ hfn he) pos none cs
          (lay_bf_other [] (by intro is; simp [asFnBody, RBlock.tailKind]) hc.1 hc.2) hft'
      | brk => simp only [litsS]; exact .nil
      | cont => simp only [litsS]; exact .nil
    | cons s2 rest2 =>
      have hft' := hft.cons
      have hl' := lay_bf_seq hc.1 hc.2
      rw [litsB_cons8]
      exact .append (ih.s s (by simp at hsz; omega) hs pos none cs hl'.1 hft'.1)
        (ih.bf (.cons s2 rest2) (by simp at hsz ⊢; omega) hb _ _ hl'.2 hft'.2)

theorem qall8 (W : World) (Δ : Gam) : ∀ n, QAll8 W Δ n
  | 0 => ⟨fun e h => by cases e <;> simp at h, fun e h => by cases e <;> simp at h, fun e h => by cases e <;> simp at h,
          fun e h => by cases e <;> simp at h, fun e h => by cases e <;> simp at h, fun e h => by cases e <;> simp at h,
          fun e h => by cases e <;> simp at h⟩
  | n + 1 =>
    have ih := qall8 W Δ n
    ⟨qe8_succ ih, qes8_succ ih, qo8_succ ih, qs8_succ ih, qb8_succ ih, qbv8_succ ih, qbf8_succ ih⟩

end steps

end Sim8
end Nl
