"""C15 — the value encoding is lossless and collision-free.
Theorems: Proofs/C15 (all words). Correspondence: raw words, tags and decoded fields of the real
`Object` vs Model/Object on the boundary lattice, boundary (offset,count) pairs, float bit
patterns, UTF-8 strings, arrays; direct oracle: round trip and pairwise distinctness on the
implementation itself."""
from .. import core, lattice
from ..core import hx

PROOF_MODULE = "Nlmodel.Proofs.C15"
PROOF_FILES = ["Nlmodel/Proofs/C15.lean", "Nlmodel/Model/Object.lean"]
THEOREM_FILE = PROOF_FILES[0]
LEVEL_TEXT = 'Lean theorems over ALL 64-bit words / all in-range values about Model/Object, which uses the same shifts and masks as object.rs: integer, boolean, null, function-descriptor and pointer round trips, tag correctness, heap/immediate separation, injectivity. The model is tied to object.rs by comparing raw words, tags and decoded fields on the boundary lattice, boundary (offset,count) pairs, float bit patterns, strings, arrays, and equality over a cross product. SESSION 7: text at the byte level: decode (encode t) = t and bytewise equality of encodings = equality of texts, for every text (C15_text_bytes_roundtrip, C15_text_bytes_injective); the encoder is proved equal to core Lean String.utf8EncodeChar.'
LEVEL_NOTE = 'Trusted: Lean kernel plus the bv_decide certificates (axioms `._native.bv_decide.ax_*`, listed in evidence); allocator returns 8-aligned blocks (hypothesis of C15_ptr_roundtrip); contents of heap boxes are Rust std String/Vec/f64.'
TECHNIQUE = 'Lean 4 proof (bit-vector lemmas via bv_decide, Int bridging by omega) + raw-word correspondence'
RULE = ("encode requests for every integer of the boundary lattice (+ random 61-bit), every (offset,count) "
        "pair of a boundary set, float bit patterns (incl. NaNs, signed zeros), UTF-8 strings, arrays; "
        "equality requests over the cross product of a mixed sample; non-trivial = every request (each "
        "exercises the tag/shift logic); distinct by request text")
EXHAUSTIVE = False


def specs(tier, rng):
    ints = lattice.int_lattice(lattice.QUICK_KS if tier == "quick" else lattice.ALL_KS)
    ints += [lattice.rand_int61(rng) for _ in range(300 if tier == "quick" else 5000)]
    out = ["n", "b0", "b1"] + ["i%d" % i for i in ints]
    ips = [0, 1, 2, 255, 256, 65535, 65536, 2 ** 31 - 1, 2 ** 31, 2 ** 32 - 2, 2 ** 32 - 1]
    nls = [0, 1, 2, 255, 256, 32767, 32768, 65534, 65535]
    out += ["fn%d:%d" % (a, b) for a in ips for b in nls]
    fl = list(lattice.FLOAT_BITS) + [rng.next() for _ in range(200 if tier == "quick" else 3000)]
    fl += [0x7FF0000000000000 | (rng.next() & 0xFFFFFFFFFFFFF) | 1 for _ in range(20)]
    out += ["f%016x" % b for b in fl]
    strs = list(lattice.STRINGS) + ["".join(rng.pick(["a", "é", "日", "😀", " ", "\n", "0"]) for _ in range(rng.below(8))) for _ in range(100)]
    out += ["s" + hx(s) for s in strs]
    return out


def collision_programs():
    """values of different type with the same payload bits must stay distinct wherever values are compared or shared: the
    constant pool shares equal constants, so for every function of a program its descriptor (entry, slots) is read from the
    compiled constants and the program is extended with the integer literal whose payload equals it (and neighbours)"""
    import re
    bases = ["functie f(a) { a };", "functie f() { 1 }; functie g(a, b) { stel c = a; c + b };", "stel h = functie(x) { x * 2 };",
             "stel pad = 123456; functie f(a) { a + pad };", "stel f = functie() { 7 };", "1; stel f = functie() { 7 };"]
    calls = ["f(3)", "f() + g(1, 2)", "h(4)", "f(5)", "f()", "f()"]
    out = []
    ans = core.impl(["compile " + core.hx(b + " 0") for b in bases])
    for (b, cl), a in zip(zip(bases, calls), ans):
        for ip, n in re.findall(r"fn:(\d+):(\d+)", a):
            k = int(ip) * 65536 + int(n)
            names = re.findall(r"functie (\w+)\(", b) + re.findall(r"stel (\w+) = functie", b)
            f = names[0] if names else "f"
            for lit in (k, k + 1, k - 1):
                out.append("%s [type(%d), %d + 1, type(%s), %d == %d]" % (b, lit, lit, f, lit, lit))
                out.append("%d; %s type(%s)" % (lit, b, f))
                out.append("%s stel q = %d; [q, %s == %s]" % (b, lit, f, f))
                out.append("%s %d + %s" % (b, lit, cl))
                out.append("stel x = %d; %s %s + x" % (lit, b, cl))
                out.append("functie hoofd() { %s [%d, %s, %d] }; hoofd()" % (b, lit, cl, lit))
    return out


def history_programs():
    """values of equal type and content compare equal HOWEVER THEY CAME TO HAVE THAT CONTENT: a text written as a literal, built by
    concatenation, by `string()`, read out of another text, or MODIFIED IN PLACE (one character, several, none: the length
    changes) — compared in both directions with `== != < <= > >=`, with itself, through an alias, after repeated modification;
    floats computed vs written; a cache of anything derived from the content (a hash, a length) that is not refreshed by
    an in-place change shows up here"""
    out = []
    target = "doobar"
    makers = ['stel s = "doobar";', 'stel s = "doo" + "bar";', 'stel s = "foobar"; s[0] = "d";', 'stel s = "dXr"; s[1] = "ooba";',
              'stel s = "dooQbar"; s[3] = "";', 'stel s = "xoobax"; s[0] = "d"; s[-1] = "r";', 'stel s = "d"; s[0] = "doobar";',
              'stel s = "foobar"; stel i = 0; zolang i < 3 { s[0] = "x"; i += 1 }; s[0] = "d";', 'stel s = string("doobar");',
              'stel b = "zdoobarz"; stel s = b[1] + b[2] + b[3] + b[4] + b[5] + b[6];', 'functie m() { stel t = "foobar"; t[0] = "d"; t }; stel s = m();']
    for mk in makers:
        out.append('%s [s == "%s", "%s" == s, s != "%s", "%s" != s, s == s, s < "%s", s <= "%s", s > "%s", s >= "%s", lengte(s), s]'
                   % (mk, target, target, target, target, target, target, target, target))
        out.append('%s stel a = s; stel f = "%s"; [a == f, f == a, a == s, [s][0] == f, s == "doobaz", s == "doobar ", s < "doobas", "doobaq" < s]' % (mk, target))
        out.append('%s functie eq(x, y) { x == y }; [eq(s, "%s"), eq("%s", s), eq(s, s)]' % (mk, target, target))
        for mk2 in makers[2:6]:
            out.append('%s %s [s == u, u == s, s != u]' % (mk, mk2.replace("stel s", "stel u").replace("s[", "u[")))
    # non-ASCII content, modified at a multi-byte character
    out.append('stel s = "aéb"; s[1] = "日"; [s == "a日b", "a日b" == s, lengte(s), s != "a日b"]')
    out.append('stel s = "a日b"; s[1] = "é"; stel t = "aéb"; [s == t, t == s, s < "aéc"]')
    # the two zeros are different floats (distinct bit patterns, distinct observable sign) however they are written and wherever
    # else in the program the other one occurs (a constant pool that shares "equal" literals must not merge them)
    zobs = "[1.0 / z, string(z), z == 0.0, z < 0.0]"
    for pre in ["", "0.0;", "-0.0;", "stel p = 0.0; stel q = -0.0;", "stel q = -0.0; stel p = 0.0;", "functie g() { -0.0 }; functie h() { 0.0 };"]:
        for zs in ["0.0", "-0.0", "0.0 * (0.0 - 1.0)", "-(0.0)"]:
            out.append("%s stel z = %s; %s" % (pre, zs, zobs))
    out += ["[0.0, -0.0, 0.0, -0.0]", "[string(0.0), string(-0.0)]", "[1.0 / 0.0 > 1.0 / -0.0, 1.0 / -0.0 < 0.0]", "[-0.0, 0.0]", "-1.5; 1.5; [-1.5, 1.5, -1.5 == 0.0 - 1.5]",
            "stel a = -2.5; stel b = 2.5; [a, b, a + b, string(a)]"]
    # the same value compared with itself
    from .. import enum as _enum
    out += _enum.same_object_programs()
    cf = _enum.cross_type_fused_programs()
    out += cf[::3]
    # floats and integers: computed vs written
    out += ["[0.5 + 0.25 == 0.75, 0.75 == 0.5 + 0.25, 1.5 * 2.0 == 3.0, 6 * 7 == 42, 42 == 6 * 7, 0.0 == 0.0 * (0.0 - 1.0)]",
            "stel a = [1.5]; a[0] = a[0] + 1.0; [a[0] == 2.5, 2.5 == a[0]]"]
    return out


def run(res, tier, rng, table_diffs=()):
    from .common_diff import run_cases
    lit = []
    for v in lattice.int_lattice(lattice.QUICK_KS if tier == "quick" else lattice.ALL_KS) + [2 ** 53 - 1, 2 ** 53, 2 ** 53 + 1, 2 ** 53 + 3, 9007199254740993, 123456789012345678,
                                                                                    2 ** 60 - 1, 2 ** 60 - 2, 2 ** 60 - 65, 2 ** 60, 2 ** 60 + 1, 2 ** 63, 2 ** 64]:
        if v >= 0:
            lit.append(("int-literal", "%d" % v))
            lit.append(("int-literal", "[%d, %d == %d, %d - 1, string(%d), type(%d)]" % (v, v, v + 1 if v + 1 < 2 ** 60 else v, v, v, v)))
    from .. import gen2
    lit += [("float-literal", p) for p in gen2.float_spelling_programs()]
    lit += [("float-alias", p) for p in gen2.float_alias_programs()]
    run_cases(res, "C15", lit + [("collision", p) for p in collision_programs()] + [("history", p) for p in history_programs()])
    sp = specs(tier, rng)
    reqs = ["obj enc " + s for s in sp]
    # arrays
    for _ in range(100 if tier == "quick" else 2000):
        k = rng.below(5)
        reqs.append("obj arr " + " ".join(rng.pick(sp) for _ in range(k)))
    # pairwise equality over a 200-value sample (complete cross product in the thorough tier)
    sample = [rng.pick(sp) for _ in range(60 if tier == "quick" else 200)]
    sample = sample[:-6] + ["i0", "b0", "n", "fn0:0", "f0000000000000000", "f8000000000000000"]
    for a in sample:
        for b in sample:
            reqs.append("obj eq %s %s" % (a, b))
    ia = core.impl(reqs)
    ma = core.model(reqs)
    bad = 0
    for q, i, m in zip(reqs, ia, ma):
        res.seen(q)
        res.count(q.split(" ")[1])
        if i != m:
            bad += 1
            if bad <= 3:
                # direct oracle on the implementation: does it break the property itself?
                prop_broken = oracle_broken(q, i)
                res.violation("object encoding differs from the verified model" + (" and the round trip fails" if prop_broken else ""),
                              dict(kind="encoding", input=q, impl=i, model=m, unchecked="correspondence Model/Object vs object.rs (theorems of Proofs/C15)"),
                              no_input=not prop_broken)
    # direct oracles, independent of the model
    for q, i in zip(reqs, ia):
        if oracle_broken(q, i) and bad == 0:
            res.violation("the implementation does not read back what was written", dict(kind="roundtrip", input=q, impl=i))
            break
    if table_diffs:
        res.violation("the model's tables differ from the code's", dict(kind="tables", diffs=list(table_diffs)[:10], unchecked="table correspondence"), no_input=True)


def oracle_broken(q, ans):
    """round trip on the implementation alone"""
    p = q.split(" ")
    if p[1] == "enc":
        sp = p[2]
        if ans.startswith(("PANIC", "CRASH", "TIMEOUT")):
            return True
        f = dict(kv.split("=", 1) for kv in ans.split(" ") if "=" in kv)
        if sp == "n":
            return f.get("tag") != "null" or f.get("heap") != "0"
        if sp in ("b0", "b1"):
            return f.get("tag") != "bool" or f.get("dec") != sp[1]
        if sp.startswith("fn"):
            return f.get("tag") != "function" or f.get("dec") != sp[2:]
        if sp.startswith("i"):
            return f.get("tag") != "int" or f.get("dec") != sp[1:] or f.get("heap") != "0"
        if sp.startswith("f"):
            return f.get("tag") != "float" or f.get("back") != sp or f.get("heap") != "1"
        if sp.startswith("s"):
            return f.get("tag") != "string" or f.get("back") != sp or f.get("heap") != "1"
    if p[1] == "eq":
        a, b = p[2], p[3]
        if ans.startswith(("PANIC", "CRASH", "TIMEOUT")):
            return True
        same_text = a == b
        is_nan = lambda s: s.startswith("f") and not s.startswith("fn") and (int(s[1:], 16) & 0x7FFFFFFFFFFFFFFF) > 0x7FF0000000000000
        is_zero = lambda s: s.startswith("f") and not s.startswith("fn") and (int(s[1:], 16) & 0x7FFFFFFFFFFFFFFF) == 0
        if is_nan(a) or is_nan(b):
            return ans != "eq=0"
        if is_zero(a) and is_zero(b):
            return ans != "eq=1"
        return ans != ("eq=1" if same_text else "eq=0")
    return False


def replay(res, rp):
    q = rp["input"]
    i = core.impl([q])[0]
    m = core.model([q])[0]
    print("impl :", i)
    print("model:", m)
    if i != m or oracle_broken(q, i):
        print("VIOLATION property=C15 replay=replay")
        return 1
    return 0
