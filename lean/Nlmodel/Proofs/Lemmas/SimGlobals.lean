/- Relation between the binders of the definitional semantics and the global slots of the machine (C01, C09). -/
import Nlmodel.Proofs.Lemmas.SimProgram
namespace Nl
namespace Sim
open Spec

/-- binders in scope with their global slots -/
abbrev Gam := List (Nat × Nat)

def GamOK (Γ : Gam) : Prop := Γ.Pairwise (fun x y => x.1 ≠ y.1 ∧ x.2 ≠ y.2)

/-- every bound binder in scope has its (scalar) value in its slot -/
def Rel (Γ : Gam) (st : SState) (g : Array Value) : Prop :=
  ∀ b k, (b, k) ∈ Γ → ∀ v, envGet st.genv b = some v → ∃ mv, toVal v = some mv ∧ g.getD k .null = mv

/-- the machine's `SetGlobal k` on the globals array -/
def setGlobalArr (g : Array Value) (k : Nat) (v : Value) : Array Value :=
  (if g.size ≤ k then g ++ Array.replicate (k + 1 - g.size) .null else g).setIfInBounds k v

theorem setGlobalArr_same (g : Array Value) (k : Nat) (v : Value) : (setGlobalArr g k v).getD k .null = v := by
  unfold setGlobalArr
  by_cases h : g.size ≤ k
  · simp only [h, ↓reduceIte]
    have hsz : k < g.size + (k + 1 - g.size) := by omega
    simp [Array.getD_eq_getD_getElem?, hsz]
  · simp only [h, ↓reduceIte]
    have hsz : k < g.size := by omega
    simp [Array.getD_eq_getD_getElem?, Array.getElem?_setIfInBounds, hsz]

theorem setGlobalArr_other (g : Array Value) (k j : Nat) (v : Value) (hjk : j ≠ k) :
    (setGlobalArr g k v).getD j .null = g.getD j .null := by
  unfold setGlobalArr
  by_cases h : g.size ≤ k
  · simp only [h, ↓reduceIte]
    simp only [Array.getD_eq_getD_getElem?, Array.getElem?_setIfInBounds, Ne.symm hjk, ↓reduceIte]
    by_cases hj : j < g.size
    · rw [Array.getElem?_append_left hj]
    · rw [Array.getElem?_append_right (by omega)]
      have : g[j]? = none := by simp; omega
      rw [this]
      by_cases hj2 : j - g.size < k + 1 - g.size
      · simp [Array.getElem?_replicate, hj2]
      · simp [Array.getElem?_replicate, hj2]
  · simp only [h, ↓reduceIte]
    simp [Array.getD_eq_getD_getElem?, Array.getElem?_setIfInBounds, Ne.symm hjk]

theorem envGet_envSet_same (env : List (Nat × SVal)) (k : Nat) (v : SVal) : envGet (envSet env k v) k = some v := by
  simp [envGet, envSet]

theorem envGet_envSet_other (env : List (Nat × SVal)) (k j : Nat) (v : SVal) (h : j ≠ k) :
    envGet (envSet env k v) j = envGet env j := by
  unfold envGet envSet
  have h1 : ((k == j) = false) := by simpa using (Ne.symm h)
  simp only [List.find?_cons, h1]
  congr 1
  induction env with
  | nil => rfl
  | cons p rest ih =>
    simp only [List.filter_cons]
    by_cases hp : p.1 = k
    · have : (p.1 != k) = false := by simp [hp]
      have hpj : (p.1 == j) = false := by simp [hp, Ne.symm h]
      simp [this, List.find?_cons, hpj, ih]
    · have : (p.1 != k) = true := by simp [hp]
      simp only [this, ↓reduceIte, List.find?_cons]
      split
      · rfl
      · exact ih

end Sim
end Nl
