-- DESIGN NOTE, NOT PART OF THE MACHINERY.
-- Feasibility prototype for C07 (see DESIGN.md section 2.4 and C07): a Pratt parser with fuel, a
-- minimal-parenthesis printer for left-associative binary operators on precedence levels, fuel
-- monotonicity, the Pratt-loop lemma and the round-trip theorem `parse_print`.
-- Checked with Lean 4.33.0 core only; axioms of Pratt.parse_print: [propext, Quot.sound].
-- Lesson recorded for the real proof: on mutually recursive definitions use `simp only [f]` + `cases h : …`;
-- `rw [f] at h ⊢` followed by `split at h` produced a kernel "application type mismatch".

namespace Pratt

inductive Tok where
  | atom (a : Nat) | op (o : Nat) | lp | rp
  deriving DecidableEq, Repr

inductive Expr where
  | atom (a : Nat)
  | bin (l : Expr) (o : Nat) (r : Expr)
  deriving DecidableEq, Repr

/-- precedence of operator `o`; always ≥ 1 (0 is "Lowest") -/
def prec (o : Nat) : Nat := o % 5 + 1

mutual
def parseExpr : Nat → Nat → List Tok → Option (Expr × List Tok)
  | 0, _, _ => none
  | f+1, p, ts =>
    match parsePrefix f ts with
    | some (l, rest) => parseLoop f p l rest
    | none => none
def parsePrefix : Nat → List Tok → Option (Expr × List Tok)
  | 0, _ => none
  | _+1, .atom a :: rest => some (.atom a, rest)
  | f+1, .lp :: rest =>
    match parseExpr f 0 rest with
    | some (e, .rp :: rest') => some (e, rest')
    | _ => none
  | _+1, _ => none
def parseLoop : Nat → Nat → Expr → List Tok → Option (Expr × List Tok)
  | 0, _, _, _ => none
  | f+1, p, l, .op o :: rest =>
    if p < prec o then
      match parseExpr f (prec o) rest with
      | some (r, rest') => parseLoop f p (.bin l o r) rest'
      | none => none
    else some (l, .op o :: rest)
  | _+1, _, l, ts => some (l, ts)
end

def level : Expr → Nat
  | .atom _ => 1000
  | .bin _ o _ => prec o

def wrapIf (b : Bool) (ts : List Tok) : List Tok := if b then .lp :: ts ++ [.rp] else ts

def pr : Expr → List Tok
  | .atom a => [.atom a]
  | .bin l o r => wrapIf (level l < prec o) (pr l) ++ [.op o] ++ wrapIf (level r ≤ prec o) (pr r)

/-- the next token does not continue an expression of level `q` -/
def stopsAt (q : Nat) : List Tok → Prop
  | .op o :: _ => prec o ≤ q
  | _ => True

theorem prec_lt_1000 (o : Nat) : prec o < 1000 := by unfold prec; omega
theorem prec_pos (o : Nat) : 0 < prec o := by unfold prec; omega
theorem level_pos (e : Expr) : 0 < level e := by cases e <;> simp [level, prec_pos]

theorem stopsAt_mono {q q' ts} (h : stopsAt q ts) (hq : q ≤ q') : stopsAt q' ts := by
  cases ts with
  | nil => trivial
  | cons t ts => cases t <;> simp_all [stopsAt]; omega

-- fuel monotonicity
theorem mono : ∀ f,
    (∀ p ts r, parseExpr f p ts = some r → parseExpr (f+1) p ts = some r) ∧
    (∀ ts r, parsePrefix f ts = some r → parsePrefix (f+1) ts = some r) ∧
    (∀ p l ts r, parseLoop f p l ts = some r → parseLoop (f+1) p l ts = some r) := by
  intro f
  induction f with
  | zero =>
    refine ⟨?_, ?_, ?_⟩
    · intro p ts r h; simp [parseExpr] at h
    · intro ts r h; simp [parsePrefix] at h
    · intro p l ts r h; simp [parseLoop] at h
  | succ f ih =>
    obtain ⟨ihE, ihP, ihL⟩ := ih
    refine ⟨?_, ?_, ?_⟩
    · intro p ts r h
      simp only [parseExpr] at h ⊢
      cases hp : parsePrefix f ts with
      | none => simp [hp] at h
      | some lr =>
        obtain ⟨l, rest⟩ := lr
        simp only [hp] at h
        simp only [ihP _ _ hp]
        exact ihL _ _ _ _ h
    · intro ts r h
      cases ts with
      | nil => simp [parsePrefix] at h
      | cons t rest =>
        cases t with
        | atom a => simpa [parsePrefix] using h
        | lp =>
          simp only [parsePrefix] at h ⊢
          cases he : parseExpr f 0 rest with
          | none => simp [he] at h
          | some er =>
            obtain ⟨e, rest'⟩ := er
            simp only [he] at h
            simp only [ihE _ _ _ he]
            exact h
        | op _ => simp [parsePrefix] at h
        | rp => simp [parsePrefix] at h
    · intro p l ts r h
      cases ts with
      | nil => simpa [parseLoop] using h
      | cons t rest =>
        cases t with
        | op o =>
          simp only [parseLoop] at h ⊢
          by_cases hlt : p < prec o
          · simp only [if_pos hlt] at h ⊢
            cases he : parseExpr f (prec o) rest with
            | none => simp [he] at h
            | some rr =>
              obtain ⟨r', rest'⟩ := rr
              simp only [he] at h
              simp only [ihE _ _ _ he]
              exact ihL _ _ _ _ h
          · simp only [if_neg hlt] at h ⊢; exact h
        | atom _ => simpa [parseLoop] using h
        | lp => simpa [parseLoop] using h
        | rp => simpa [parseLoop] using h

theorem monoE {f g p ts r} (h : parseExpr f p ts = some r) (hfg : f ≤ g) : parseExpr g p ts = some r := by
  induction hfg with
  | refl => exact h
  | step _ ih => exact (mono _).1 _ _ _ ih
theorem monoL {f g p l ts r} (h : parseLoop f p l ts = some r) (hfg : f ≤ g) : parseLoop g p l ts = some r := by
  induction hfg with
  | refl => exact h
  | step _ ih => exact (mono _).2.2 _ _ _ _ ih

/-- Pratt-loop lemma: parsing the printed form of `e` at context level `p < level e`, when what follows
does not continue `e`, is the same as entering the loop with `e` already parsed. -/
theorem loop_lemma (e : Expr) : ∀ p rest res, p < level e → stopsAt (level e) rest →
    (∃ f, parseLoop f p e rest = some res) → ∃ f, parseExpr f p (pr e ++ rest) = some res := by
  induction e with
  | atom a =>
    intro p rest res _ _ ⟨f, hf⟩
    exact ⟨f+2, by simp [pr, parseExpr, parsePrefix, monoL hf (Nat.le_succ f)]⟩
  | bin l o r ihl ihr =>
    intro p rest res hp hstop ⟨f, hf⟩
    simp only [level] at hp hstop
    -- Step A: parsing the right operand at level `prec o` yields `r` and leaves `rest`
    have hR : ∃ g, parseExpr g (prec o) (wrapIf (level r ≤ prec o) (pr r) ++ rest) = some (r, rest) := by
      by_cases hw : level r ≤ prec o
      · -- parenthesised
        have h0 : ∃ g, parseExpr g 0 (pr r ++ (.rp :: rest)) = some (r, .rp :: rest) :=
          ihr 0 (.rp :: rest) _ (level_pos r) trivial ⟨1, by simp [parseLoop]⟩
        obtain ⟨g, hg⟩ := h0
        refine ⟨g+3, ?_⟩
        have hloop : parseLoop (g+1) (prec o) r rest = some (r, rest) := by
          cases rest with
          | nil => simp [parseLoop]
          | cons t ts =>
            cases t <;> simp_all [parseLoop, stopsAt]
            omega
        have e1 := monoE hg (Nat.le_succ g)
        simp only [wrapIf, hw, if_true, decide_true, List.cons_append, List.append_assoc, List.nil_append]
        rw [parseExpr, parsePrefix]
        rw [e1]
        exact monoL hloop (by omega)
      · have hlt : prec o < level r := by omega
        simp only [wrapIf, hw]
        apply ihr (prec o) rest _ hlt (stopsAt_mono hstop (by omega))
        refine ⟨1, ?_⟩
        cases rest with
        | nil => simp [parseLoop]
        | cons t ts =>
          cases t <;> simp_all [parseLoop, stopsAt]
          omega
    obtain ⟨g, hg⟩ := hR
    -- Step B: the loop, entered with `l` in front of `op o :: R ++ rest`, produces `res`
    have hB : ∃ k, parseLoop k p l (.op o :: (wrapIf (level r ≤ prec o) (pr r) ++ rest)) = some res := by
      refine ⟨max f g + 1, ?_⟩
      rw [parseLoop, if_pos hp, monoE hg (Nat.le_max_right f g)]
      exact monoL hf (Nat.le_max_left f g)
    -- Step C: get `l` parsed
    by_cases hw : level l < prec o
    · -- l parenthesised
      have h0 : ∃ g, parseExpr g 0 (pr l ++ (.rp :: (.op o :: (wrapIf (level r ≤ prec o) (pr r) ++ rest)))) =
          some (l, .rp :: (.op o :: (wrapIf (level r ≤ prec o) (pr r) ++ rest))) :=
        ihl 0 _ _ (level_pos l) trivial ⟨1, by simp [parseLoop]⟩
      obtain ⟨g0, hg0⟩ := h0
      obtain ⟨k, hk⟩ := hB
      refine ⟨max g0 k + 2, ?_⟩
      have e1 := monoE hg0 (Nat.le_max_left g0 k)
      have e2 := monoL hk (Nat.le_succ_of_le (Nat.le_max_right g0 k))
      have hl : wrapIf (level l < prec o) (pr l) = .lp :: pr l ++ [.rp] := by simp [wrapIf, hw]
      simp only [pr, hl, List.cons_append, List.append_assoc, List.nil_append]
      rw [parseExpr, parsePrefix]
      rw [e1]; exact e2
    · have hge : prec o ≤ level l := by omega
      have := ihl p (.op o :: (wrapIf (level r ≤ prec o) (pr r) ++ rest)) res (by omega)
        (by simp [stopsAt]; exact hge) hB
      simpa [pr, wrapIf, hw] using this

/-- round trip -/
theorem parse_print (e : Expr) (rest : List Tok) (h : stopsAt 0 rest) :
    ∃ f, parseExpr f 0 (pr e ++ rest) = some (e, rest) := by
  apply loop_lemma e 0 rest _ (level_pos e) (stopsAt_mono h (Nat.zero_le _))
  refine ⟨1, ?_⟩
  cases rest with
  | nil => simp [parseLoop]
  | cons t ts =>
    cases t <;> simp_all [parseLoop, stopsAt]

#print axioms parse_print
#eval pr (.bin (.bin (.atom 1) 0 (.atom 2)) 2 (.bin (.atom 3) 0 (.bin (.atom 4) 0 (.atom 5))))
end Pratt
