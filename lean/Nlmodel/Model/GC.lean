/-
  Model of `src/gc.rs` (after repair F21) on the heap store of Model/Value: the collector's object
  list is `Mem.managed`; `mark` is the recursive descent through arrays with the "already marked"
  test; `sweep` releases exactly the unmarked managed objects; `untrace` hands an object graph over
  to the caller; `destroy` releases everything still managed.
-/
import Nlmodel.Model.Value
namespace Nl
namespace GC

/-- `GC::mark`: objects not managed by this collector are skipped entirely -/
def mark (h : Heap) (man : List Nat) : Nat → List Nat → Value → List Nat
  | 0, marked, _ => marked
  | f + 1, marked, v =>
    match v with
    | .float a | .str a =>
      if man.contains a && !marked.contains a then a :: marked else marked
    | .arr a =>
      if man.contains a && !marked.contains a then
        (h.arrAt a).foldl (mark h man f) (a :: marked)
      else marked
    | _ => marked

/-- mark all roots -/
def markAll (h : Heap) (man : List Nat) (roots : List Value) : List Nat :=
  roots.foldl (mark h man (man.length + 1)) []

/-- release the given addresses -/
def freeAll (h : Heap) (as : List Nat) : Heap := as.foldl Heap.free h

/-- `GC::run(roots)`: mark from the roots, sweep the rest -/
def run (m : Mem) (roots : List Value) : Mem :=
  if m.managed.isEmpty then m
  else
    let marked := markAll m.heap m.managed roots
    let keep := m.managed.filter marked.contains
    let dead := m.managed.filter (fun a => !marked.contains a)
    { heap := freeAll m.heap dead, managed := keep }

/-- `GC::untrace(o)`: stop managing `o` and everything it refers to -/
def untrace (h : Heap) : Nat → List Nat → Value → List Nat
  | 0, man, _ => man
  | f + 1, man, v =>
    match v with
    | .float a | .str a => if man.contains a then man.erase a else man
    | .arr a =>
      if man.contains a then (h.arrAt a).foldl (untrace h f) (man.erase a) else man
    | _ => man

/-- `GC::destroy` / `Drop`: release every managed object -/
def destroy (m : Mem) : Mem := { heap := freeAll m.heap m.managed, managed := [] }

/-- every address reachable from `v` through live arrays (for canonical printing and for the
    statement of C03/C04): plain reachability, independent of `managed` -/
def reachable (h : Heap) : Nat → List Nat → Value → List Nat
  | 0, seen, _ => seen
  | f + 1, seen, v =>
    match v with
    | .float a | .str a => if seen.contains a then seen else a :: seen
    | .arr a =>
      if seen.contains a then seen else (h.arrAt a).foldl (reachable h f) (a :: seen)
    | _ => seen

end GC
end Nl
