/-
  The static rule `NameEvalFn.declaredFn` (on SOURCE trees, a stack of name lists plus the globals visible at a function
  literal) agrees with the resolver on the stage-4 fragment `SimF.SrcTop`: the resolver accepts a program iff the rule
  holds, and the only error it can give is the reference error (C09).
-/
import Nlmodel.Spec.NameEvalFn
import Nlmodel.Proofs.Lemmas.NameEvalStatic
import Nlmodel.Proofs.Lemmas.ResolveFn
namespace Nl
namespace NameEvalFn
open SimF

/-- names of the resolver's scope stack -/
def names (scs : Scs) : List (List Text) := scs.map (fun sc => sc.map Prod.fst)

/-- the globals visible in a body: the names of the global context -/
def gOf (fn : Bool) (gscs : Scs) : Option (List Text) :=
  match fn with
  | true => some (gscs.flatten.map Prod.fst)
  | false => none

/-! ### lookup in the resolver's table vs `visibleFn` -/

theorem visible_true (sc : List (List Text)) (n : Text) :
    visible sc n = true ↔ ∃ s ∈ sc, n ∈ s := by
  simp [visible, List.any_eq_true]

theorem lookupFlat_visible (scs : Scs) (n : Text) :
    lookupFlat scs.flatten n = none ↔ visible (names scs) n = false := by
  rw [NameEval.lookupFlat_none]
  constructor
  · intro h
    cases hv : visible (names scs) n with
    | false => rfl
    | true =>
      exfalso
      obtain ⟨s, hs, hn⟩ := (visible_true _ _).1 hv
      simp only [names, List.mem_map] at hs
      obtain ⟨sc, hsc, rfl⟩ := hs
      simp only [List.mem_map] at hn
      obtain ⟨p, hp, rfl⟩ := hn
      exact h p (List.mem_flatten.2 ⟨sc, hsc, hp⟩) rfl
  · intro h p hp hpn
    obtain ⟨sc, hsc, hp⟩ := List.mem_flatten.1 hp
    have : visible (names scs) n = true :=
      (visible_true _ _).2 ⟨sc.map Prod.fst, by simp only [names, List.mem_map]; exact ⟨sc, hsc, rfl⟩,
        by simp only [List.mem_map]; exact ⟨p, hp, hpn⟩⟩
    rw [h] at this; cases this

theorem lookupFlat_contains (l : List (Text × Nat)) (n : Text) :
    lookupFlat l n = none ↔ (l.map Prod.fst).contains n = false := by
  rw [NameEval.lookupFlat_none]
  constructor
  · intro h
    cases hc : (l.map Prod.fst).contains n with
    | false => rfl
    | true =>
      exfalso
      have hm : n ∈ l.map Prod.fst := List.contains_iff_mem.1 hc
      simp only [List.mem_map] at hm
      obtain ⟨p, hp, hpn⟩ := hm
      exact h p hp hpn
  · intro h p hp hpn
    have hm : n ∈ l.map Prod.fst := by simp only [List.mem_map]; exact ⟨p, hp, hpn⟩
    have := List.contains_iff_mem.2 hm
    rw [h] at this; cases this

theorem resolve_none (fn : Bool) (st : RState) (scs gscs : Scs) (F : Nat) (h : RInv fn st scs gscs F) (n : Text) :
    st.resolve n = none ↔ visibleFn (gOf fn gscs) (names scs) n = false := by
  cases fn with
  | false =>
    obtain ⟨ms, hs⟩ := h.shapeF rfl
    simp only [visibleFn, gOf, Bool.or_false]
    rw [← lookupFlat_visible]
    unfold RState.resolve
    rw [hs]
    simp only [Ctx.resolve, Ctx.flat]
    cases hl : lookupFlat scs.flatten n with
    | none => simp [List.getLast?]
    | some p => simp
  | true =>
    obtain ⟨ms, gms, hs, _, _⟩ := h.shapeT rfl
    simp only [visibleFn, gOf]
    unfold RState.resolve
    rw [hs]
    simp only [Ctx.resolve, Ctx.flat]
    cases hl : lookupFlat scs.flatten n with
    | some p =>
      have hv : visible (names scs) n = true := by
        cases hv : visible (names scs) n with
        | true => rfl
        | false => rw [(lookupFlat_visible scs n).2 hv] at hl; cases hl
      simp [hv]
    | none =>
      have hv := (lookupFlat_visible scs n).1 hl
      simp only [hv, Bool.false_or, List.getLast?_singleton]
      cases hg : lookupFlat gscs.flatten n with
      | none =>
        have := (lookupFlat_contains _ n).1 hg
        rw [this]; simp
      | some p =>
        have : (gscs.flatten.map Prod.fst).contains n = true := by
          cases hc : (gscs.flatten.map Prod.fst).contains n with
          | true => rfl
          | false => rw [(lookupFlat_contains _ n).2 hc] at hg; cases hg
        rw [this]; simp

theorem resolve_some (fn : Bool) (st : RState) (scs gscs : Scs) (F : Nat) (h : RInv fn st scs gscs F) (n : Text) (r : Ref)
    (hr : st.resolve n = some r) : visibleFn (gOf fn gscs) (names scs) n = true := by
  cases hv : visibleFn (gOf fn gscs) (names scs) n with
  | true => rfl
  | false => rw [(resolve_none fn st scs gscs F h n).2 hv] at hr; cases hr

/-! ### function depth is untouched by the table operations -/

theorem enter_fd (st : RState) : st.enterScope.funcDepth = st.funcDepth := by
  unfold RState.enterScope; split <;> rfl

theorem leave_fd (st : RState) : st.leaveScope.funcDepth = st.funcDepth := by
  unfold RState.leaveScope; split <;> rfl

theorem define_fd (st : RState) (n : Text) : (st.define n).1.funcDepth = st.funcDepth := by
  unfold RState.define; split <;> rfl

theorem params_fd : ∀ (ps : List Text) (st : RState), (defineParams st ps).1.funcDepth = st.funcDepth
  | [], st => rfl
  | p :: ps, st => by
    simp only [defineParams]
    rw [params_fd ps, define_fd]

theorem builtinCallee_false (f : Expr) (h : nonBuiltin f = true) : builtinCallee f = false := by
  cases f with
  | ident n =>
    simp only [nonBuiltin] at h
    simp only [builtinCallee]
    cases hb : Builtin.resolve n with
    | none => rfl
    | some b => rw [hb] at h; cases h
  | _ => rfl

theorem scopeAfter_expr (fn ab : Bool) (e : Expr) (sc : List (List Text)) (h : SrcE fn ab e) :
    scopeAfter sc (.expr e) = sc := by
  cases h <;> rfl

/-! ### the agreement, by mutual structural induction -/

/-- the resolver's answer `r` agrees with the static verdict `d`; `P` holds of the final state -/
def Good {α : Type} (r : Except Err (α × RState)) (d : Bool) (P : RState → Prop) : Prop :=
  match r with
  | .ok p => d = true ∧ P p.2
  | .error er => er = .reference ∧ d = false

theorem good_ok {α : Type} (a : α) (s : RState) (d : Bool) (P : RState → Prop) :
    Good (.ok (a, s)) d P ↔ (d = true ∧ P s) := Iff.rfl

theorem good_error {α : Type} (er : Err) (d : Bool) (P : RState → Prop) :
    Good (.error er : Except Err (α × RState)) d P ↔ (er = .reference ∧ d = false) := Iff.rfl

/-- the final state keeps the invariant and both depth counters -/
def Keep (fn : Bool) (scs gscs : Scs) (F : Nat) (st st' : RState) : Prop :=
  RInv fn st' scs gscs F ∧ st'.loopDepth = st.loopDepth ∧ st'.funcDepth = st.funcDepth

mutual
theorem sE (fn : Bool) : (e : Expr) → ∀ (ab : Bool) (scs gscs : Scs) (F : Nat) (st : RState),
    SrcE fn ab e → RInv fn st scs gscs F → (ab = true → st.loopDepth ≠ 0) → (fn = true → st.funcDepth ≠ 0) →
    Good (resolveE e st) (declE (gOf fn gscs) (names scs) e) (Keep fn scs gscs F st)
  | .int v, ab, scs, gscs, F, st, _, hinv, _, _ => by
    simp only [resolveE, declE]; exact ⟨rfl, hinv, rfl, rfl⟩
  | .bool b, ab, scs, gscs, F, st, _, hinv, _, _ => by
    simp only [resolveE, declE]; exact ⟨rfl, hinv, rfl, rfl⟩
  | .ident n, ab, scs, gscs, F, st, _, hinv, _, _ => by
    simp only [resolveE, declE]
    cases hr : st.resolve n with
    | none => exact ⟨rfl, (resolve_none fn st scs gscs F hinv n).1 hr⟩
    | some r => exact ⟨resolve_some fn st scs gscs F hinv n r hr, hinv, rfl, rfl⟩
  | .pre op r, ab, scs, gscs, F, st, hs, hinv, hl, hf => by
    cases hs with
    | not _ _ hsr =>
      have ih := sE fn r ab scs gscs F st hsr hinv hl hf
      simp only [resolveE, declE]
      cases hr : resolveE r st with
      | error er => simp only [hr, good_error] at ih ⊢; exact ih
      | ok p =>
        obtain ⟨r1, st1⟩ := p
        simp only [hr, good_ok] at ih ⊢; exact ih
    | neg _ _ hsr =>
      have ih := sE fn r ab scs gscs F st hsr hinv hl hf
      simp only [resolveE, declE]
      cases hr : resolveE r st with
      | error er => simp only [hr, good_error] at ih ⊢; exact ih
      | ok p =>
        obtain ⟨r1, st1⟩ := p
        simp only [hr, good_ok] at ih ⊢; exact ih
    | negate _ _ hsr =>
      have ih := sE fn r ab scs gscs F st hsr hinv hl hf
      simp only [resolveE, declE]
      cases hr : resolveE r st with
      | error er => simp only [hr, good_error] at ih ⊢; exact ih
      | ok p =>
        obtain ⟨r1, st1⟩ := p
        simp only [hr, good_ok] at ih ⊢; exact ih
  | .assign l r, ab, scs, gscs, F, st, hs, hinv, hl, hf => by
    cases hs with
    | assign _ n _ hsr =>
      have ih := sE fn r ab scs gscs F st hsr hinv hl hf
      simp only [resolveE, declE]
      cases hres : st.resolve n with
      | none =>
        exact ⟨rfl, by simp [(resolve_none fn st scs gscs F hinv n).1 hres]⟩
      | some ref =>
        have hv := resolve_some fn st scs gscs F hinv n ref hres
        simp only []
        cases hr : resolveE r st with
        | error er =>
          simp only [hr, good_error] at ih ⊢; exact ⟨ih.1, by simp [ih.2]⟩
        | ok p =>
          obtain ⟨r1, st1⟩ := p
          simp only [hr, good_ok] at ih ⊢
          exact ⟨by simp [hv, ih.1], ih.2⟩
  | .infix l op r, ab, scs, gscs, F, st, hs, hinv, hl, hf => by
    cases hs with
    | bin _ _ _ _ bop hop hsl hsr =>
      have ihl := sE fn l ab scs gscs F st hsl hinv hl hf
      simp only [resolveE, declE]
      cases h1 : resolveE l st with
      | error er => simp only [h1, good_error] at ihl ⊢; exact ⟨ihl.1, by simp [ihl.2]⟩
      | ok p =>
        obtain ⟨l1, st1⟩ := p
        simp only [h1, good_ok] at ihl ⊢
        obtain ⟨hd1, hi1, hld1, hfd1⟩ := ihl
        have ihr := sE fn r false scs gscs F st1 hsr hi1 (by simp) (by rw [hfd1]; exact hf)
        cases h2 : resolveE r st1 with
        | error er => simp only [h2, good_error] at ihr ⊢; exact ⟨ihr.1, by simp [ihr.2]⟩
        | ok q =>
          obtain ⟨r1, st2⟩ := q
          simp only [h2, hop, good_ok] at ihr ⊢
          obtain ⟨hd2, hi2, hld2, hfd2⟩ := ihr
          exact ⟨by simp [hd1, hd2], hi2, by rw [hld2, hld1], by rw [hfd2, hfd1]⟩
  | .ifE c t e, ab, scs, gscs, F, st, hs, hinv, hl, hf => by
    cases hs with
    | ifE _ _ _ _ hsc hst hse =>
      have ihc := sE fn c ab scs gscs F st hsc hinv hl hf
      simp only [resolveE, declE]
      cases h1 : resolveE c st with
      | error er => simp only [h1, good_error] at ihc ⊢; exact ⟨ihc.1, by simp [ihc.2]⟩
      | ok p =>
        obtain ⟨c1, st1⟩ := p
        simp only [h1, good_ok] at ihc ⊢
        obtain ⟨hd1, hi1, hld1, hfd1⟩ := ihc
        have iht := sB fn t ab scs gscs F st1 hst hi1 (by rw [hld1]; exact hl) (by rw [hfd1]; exact hf)
        cases h2 : resolveB t st1 with
        | error er => simp only [h2, good_error] at iht ⊢; exact ⟨iht.1, by simp [iht.2]⟩
        | ok q =>
          obtain ⟨t1, st2⟩ := q
          simp only [h2, good_ok] at iht ⊢
          obtain ⟨hd2, hi2, hld2, hfd2⟩ := iht
          have ihe := sO fn e ab scs gscs F st2 hse hi2 (by rw [hld2, hld1]; exact hl) (by rw [hfd2, hfd1]; exact hf)
          cases h3 : resolveO e st2 with
          | error er => simp only [h3, good_error] at ihe ⊢; exact ⟨ihe.1, by simp [ihe.2]⟩
          | ok w =>
            obtain ⟨e1, st3⟩ := w
            simp only [h3, good_ok] at ihe ⊢
            obtain ⟨hd3, hi3, hld3, hfd3⟩ := ihe
            exact ⟨by simp [hd1, hd2, hd3], hi3, by rw [hld3, hld2, hld1], by rw [hfd3, hfd2, hfd1]⟩
  | .whileE c b, ab, scs, gscs, F, st, hs, hinv, hl, hf => by
    cases hs with
    | whileE _ _ _ hsc hsb =>
      have ihc := sE fn c false scs gscs F { st with loopDepth := st.loopDepth + 1 } hsc
        (rinv_loop fn st scs gscs F _ hinv) (by simp) hf
      simp only [resolveE, declE]
      cases h1 : resolveE c { st with loopDepth := st.loopDepth + 1 } with
      | error er => simp only [h1, good_error] at ihc ⊢; exact ⟨ihc.1, by simp [ihc.2]⟩
      | ok p =>
        obtain ⟨c1, st1⟩ := p
        simp only [h1, good_ok] at ihc ⊢
        obtain ⟨hd1, hi1, hld1, hfd1⟩ := ihc
        have ihb := sB fn b true scs gscs F st1 hsb hi1 (by intro _; rw [hld1]; simp) (by rw [hfd1]; exact hf)
        cases h2 : resolveB b st1 with
        | error er => simp only [h2, good_error] at ihb ⊢; exact ⟨ihb.1, by simp [ihb.2]⟩
        | ok q =>
          obtain ⟨b1, st2⟩ := q
          simp only [h2, good_ok] at ihb ⊢
          obtain ⟨hd2, hi2, hld2, hfd2⟩ := ihb
          exact ⟨by simp [hd1, hd2], rinv_loop fn st2 scs gscs F _ hi2, rfl, hfd2.trans hfd1⟩
  | .call f as, ab, scs, gscs, F, st, hs, hinv, hl, hf => by
    cases hs with
    | call _ _ _ hnb hsas hsf =>
      have ihas := sEs fn as scs gscs F st hsas hinv hf
      rw [resolveE_call f as st hnb]
      simp only [declE, builtinCallee_false f hnb, Bool.not_false, Bool.true_and]
      cases h1 : resolveEs as st with
      | error er => simp only [h1, good_error] at ihas ⊢; exact ⟨ihas.1, by simp [ihas.2]⟩
      | ok p =>
        obtain ⟨as1, st1⟩ := p
        simp only [h1, good_ok] at ihas ⊢
        obtain ⟨hd1, hi1, hld1, hfd1⟩ := ihas
        have ihf := sE fn f false scs gscs F st1 hsf hi1 (by simp) (by rw [hfd1]; exact hf)
        cases h2 : resolveE f st1 with
        | error er => simp only [h2, good_error] at ihf ⊢; exact ⟨ihf.1, by simp [ihf.2]⟩
        | ok q =>
          obtain ⟨f1, st2⟩ := q
          simp only [h2, good_ok] at ihf ⊢
          obtain ⟨hd2, hi2, hld2, hfd2⟩ := ihf
          exact ⟨by simp [hd1, hd2], hi2, by rw [hld2, hld1], by rw [hfd2, hfd1]⟩
  | .float _, _, _, _, _, _, hs, _, _, _ => by cases hs
  | .str _, _, _, _, _, _, hs, _, _, _ => by cases hs
  | .func _ _ _, _, _, _, _, _, hs, _, _, _ => by cases hs
  | .arr _, _, _, _, _, _, hs, _, _, _ => by cases hs
  | .index _ _, _, _, _, _, _, hs, _, _, _ => by cases hs

theorem sEs (fn : Bool) : (es : Exprs) → ∀ (scs gscs : Scs) (F : Nat) (st : RState),
    SrcEs fn es → RInv fn st scs gscs F → (fn = true → st.funcDepth ≠ 0) →
    Good (resolveEs es st) (declEs (gOf fn gscs) (names scs) es) (Keep fn scs gscs F st)
  | .nil, scs, gscs, F, st, _, hinv, _ => by
    simp only [resolveEs, declEs]; exact ⟨rfl, hinv, rfl, rfl⟩
  | .cons e es, scs, gscs, F, st, hs, hinv, hf => by
    cases hs with
    | cons _ _ hse hses =>
      have ih1 := sE fn e false scs gscs F st hse hinv (by simp) hf
      simp only [resolveEs, declEs]
      cases h1 : resolveE e st with
      | error er => simp only [h1, good_error] at ih1 ⊢; exact ⟨ih1.1, by simp [ih1.2]⟩
      | ok p =>
        obtain ⟨e1, st1⟩ := p
        simp only [h1, good_ok] at ih1 ⊢
        obtain ⟨hd1, hi1, hld1, hfd1⟩ := ih1
        have ih2 := sEs fn es scs gscs F st1 hses hi1 (by rw [hfd1]; exact hf)
        cases h2 : resolveEs es st1 with
        | error er => simp only [h2, good_error] at ih2 ⊢; exact ⟨ih2.1, by simp [ih2.2]⟩
        | ok q =>
          obtain ⟨es1, st2⟩ := q
          simp only [h2, good_ok] at ih2 ⊢
          obtain ⟨hd2, hi2, hld2, hfd2⟩ := ih2
          exact ⟨by simp [hd1, hd2], hi2, by rw [hld2, hld1], by rw [hfd2, hfd1]⟩

theorem sO (fn : Bool) : (o : OptBlock) → ∀ (ab : Bool) (scs gscs : Scs) (F : Nat) (st : RState),
    SrcO fn ab o → RInv fn st scs gscs F → (ab = true → st.loopDepth ≠ 0) → (fn = true → st.funcDepth ≠ 0) →
    Good (resolveO o st) (declO (gOf fn gscs) (names scs) o) (Keep fn scs gscs F st)
  | .none, ab, scs, gscs, F, st, _, hinv, _, _ => by
    simp only [resolveO, declO]; exact ⟨rfl, hinv, rfl, rfl⟩
  | .some b, ab, scs, gscs, F, st, hs, hinv, hl, hf => by
    cases hs with
    | some _ _ hsb =>
      have ih := sB fn b ab scs gscs F st hsb hinv hl hf
      simp only [resolveO, declO]
      cases hb : resolveB b st with
      | error er => simp only [hb, good_error] at ih ⊢; exact ih
      | ok q =>
        obtain ⟨b1, st1⟩ := q
        simp only [hb, good_ok] at ih ⊢; exact ih

theorem sS (fn : Bool) : (s : Stmt) → ∀ (ab : Bool) (sc : List (Text × Nat)) (scs gscs : Scs) (F : Nat) (st : RState),
    SrcS fn ab s → RInv fn st (sc :: scs) gscs F → (ab = true → st.loopDepth ≠ 0) → (fn = true → st.funcDepth ≠ 0) →
    Good (resolveS s st) (declS (gOf fn gscs) (names (sc :: scs)) s)
      (fun st' => ∃ sc', Keep fn (sc' :: scs) gscs F st st' ∧ names (sc' :: scs) = scopeAfter (names (sc :: scs)) s)
  | .expr e, ab, sc, scs, gscs, F, st, hs, hinv, hl, hf => by
    cases hs with
    | expr _ _ hse =>
      have ih := sE fn e ab (sc :: scs) gscs F st hse hinv hl hf
      simp only [resolveS, declS]
      cases hr : resolveE e st with
      | error er => simp only [hr, good_error] at ih ⊢; exact ih
      | ok p =>
        obtain ⟨e1, st1⟩ := p
        simp only [hr, good_ok] at ih ⊢
        exact ⟨ih.1, sc, ih.2, (scopeAfter_expr fn ab e _ hse).symm⟩
  | .letS n e, ab, sc, scs, gscs, F, st, hs, hinv, hl, hf => by
    cases hs with
    | letS _ _ _ hse =>
      obtain ⟨hinv1, _⟩ := rinv_define fn st sc scs gscs F hinv n
      have hnm : names (((n, st.nextId) :: sc) :: scs) = addName (names (sc :: scs)) n := rfl
      have ih := sE fn e ab _ gscs F (st.define n).1 hse hinv1 (by rw [NameEval.define_ld]; exact hl)
        (by rw [define_fd]; exact hf)
      rw [hnm] at ih
      simp only [resolveS, declS]
      cases hr : resolveE e (st.define n).1 with
      | error er => simp only [hr, good_error] at ih ⊢; exact ih
      | ok p =>
        obtain ⟨e1, st1⟩ := p
        simp only [hr, good_ok] at ih ⊢
        obtain ⟨hd, hi, hld, hfd⟩ := ih
        exact ⟨hd, (n, st.nextId) :: sc, ⟨hi, by rw [hld, NameEval.define_ld], by rw [hfd, define_fd]⟩, rfl⟩
  | .block b, ab, sc, scs, gscs, F, st, hs, hinv, hl, hf => by
    cases hs with
    | block _ _ hsb =>
      have ih := sB fn b ab (sc :: scs) gscs F st hsb hinv hl hf
      simp only [resolveS, declS]
      cases hb : resolveB b st with
      | error er => simp only [hb, good_error] at ih ⊢; exact ih
      | ok q =>
        obtain ⟨b1, st1⟩ := q
        simp only [hb, good_ok] at ih ⊢
        exact ⟨ih.1, sc, ih.2, rfl⟩
  | .brk, ab, sc, scs, gscs, F, st, hs, hinv, hl, hf => by
    cases hs
    simp only [resolveS, declS, if_neg (hl rfl)]
    exact ⟨rfl, sc, ⟨hinv, rfl, rfl⟩, rfl⟩
  | .cont, ab, sc, scs, gscs, F, st, hs, hinv, hl, hf => by
    cases hs
    simp only [resolveS, declS, if_neg (hl rfl)]
    exact ⟨rfl, sc, ⟨hinv, rfl, rfl⟩, rfl⟩
  | .ret e, ab, sc, scs, gscs, F, st, hs, hinv, hl, hf => by
    cases hs with
    | ret _ _ hfn hse =>
      have ih := sE fn e ab (sc :: scs) gscs F st hse hinv hl hf
      simp only [resolveS, declS, if_neg (hf hfn)]
      cases hr : resolveE e st with
      | error er => simp only [hr, good_error] at ih ⊢; exact ih
      | ok p =>
        obtain ⟨e1, st1⟩ := p
        simp only [hr, good_ok] at ih ⊢
        exact ⟨ih.1, sc, ih.2, rfl⟩

theorem sSs (fn : Bool) : (b : Block) → ∀ (ab : Bool) (sc : List (Text × Nat)) (scs gscs : Scs) (F : Nat) (st : RState),
    SrcB fn ab b → RInv fn st (sc :: scs) gscs F → (ab = true → st.loopDepth ≠ 0) → (fn = true → st.funcDepth ≠ 0) →
    Good (resolveSs b st) (declSs (gOf fn gscs) (names (sc :: scs)) b)
      (fun st' => ∃ sc', Keep fn (sc' :: scs) gscs F st st')
  | .nil, ab, sc, scs, gscs, F, st, _, hinv, _, _ => by
    simp only [resolveSs, declSs]; exact ⟨rfl, sc, hinv, rfl, rfl⟩
  | .cons s rest, ab, sc, scs, gscs, F, st, hs, hinv, hl, hf => by
    cases hs with
    | cons _ _ _ hss hsrest =>
      have ih1 := sS fn s ab sc scs gscs F st hss hinv hl hf
      simp only [resolveSs, declSs]
      cases hr : resolveS s st with
      | error er => simp only [hr, good_error] at ih1 ⊢; exact ⟨ih1.1, by simp [ih1.2]⟩
      | ok p =>
        obtain ⟨s1, st1⟩ := p
        simp only [hr, good_ok] at ih1 ⊢
        obtain ⟨hd1, sc1, ⟨hi1, hld1, hfd1⟩, hn1⟩ := ih1
        have ih2 := sSs fn rest ab sc1 scs gscs F st1 hsrest hi1 (by rw [hld1]; exact hl) (by rw [hfd1]; exact hf)
        rw [hn1] at ih2
        cases hr2 : resolveSs rest st1 with
        | error er => simp only [hr2, good_error] at ih2 ⊢; exact ⟨ih2.1, by simp [ih2.2]⟩
        | ok q =>
          obtain ⟨b1, st2⟩ := q
          simp only [hr2, good_ok] at ih2 ⊢
          obtain ⟨hd2, sc2, hi2, hld2, hfd2⟩ := ih2
          exact ⟨by simp [hd1, hd2], sc2, hi2, by rw [hld2, hld1], by rw [hfd2, hfd1]⟩

theorem sB (fn : Bool) : (b : Block) → ∀ (ab : Bool) (scs gscs : Scs) (F : Nat) (st : RState),
    SrcB fn ab b → RInv fn st scs gscs F → (ab = true → st.loopDepth ≠ 0) → (fn = true → st.funcDepth ≠ 0) →
    Good (resolveB b st) (declSs (gOf fn gscs) ([] :: names scs) b) (Keep fn scs gscs F st)
  | .nil, ab, scs, gscs, F, st, _, hinv, _, _ => by
    simp only [resolveB, declSs]; exact ⟨rfl, hinv, rfl, rfl⟩
  | .cons s rest, ab, scs, gscs, F, st, hs, hinv, hl, hf => by
    cases hs with
    | cons _ _ _ hss hsrest =>
      have hnm : names ([] :: scs) = [] :: names scs := rfl
      have ih1 := sS fn s ab [] scs gscs F st.enterScope hss (rinv_enter fn st scs gscs F hinv).1
        (by rw [NameEval.enter_ld]; exact hl) (by rw [enter_fd]; exact hf)
      rw [hnm] at ih1
      simp only [resolveB, declSs]
      cases hr : resolveS s st.enterScope with
      | error er => simp only [hr, good_error] at ih1 ⊢; exact ⟨ih1.1, by simp [ih1.2]⟩
      | ok p =>
        obtain ⟨s1, st1⟩ := p
        simp only [hr, good_ok] at ih1 ⊢
        obtain ⟨hd1, sc1, ⟨hi1, hld1, hfd1⟩, hn1⟩ := ih1
        rw [NameEval.enter_ld] at hld1
        rw [enter_fd] at hfd1
        have ih2 := sSs fn rest ab sc1 scs gscs F st1 hsrest hi1 (by rw [hld1]; exact hl) (by rw [hfd1]; exact hf)
        rw [hn1] at ih2
        cases hr2 : resolveSs rest st1 with
        | error er => simp only [hr2, good_error] at ih2 ⊢; exact ⟨ih2.1, by simp [ih2.2]⟩
        | ok q =>
          obtain ⟨b1, st2⟩ := q
          simp only [hr2, good_ok] at ih2 ⊢
          obtain ⟨hd2, sc2, hi2, hld2, hfd2⟩ := ih2
          exact ⟨by simp [hd1, hd2], (rinv_leave fn st2 sc2 scs gscs F hi2).1,
            by rw [NameEval.leave_ld, hld2, hld1], by rw [leave_fd, hfd2, hfd1]⟩
end

/-! ### function literals at top level -/

/-- the parameter scope after `defineParams`: the parameter names, newest first -/
theorem params_names : ∀ (ps : List Text) (st : RState) (sc : List (Text × Nat)) (gscs : Scs) (F : Nat), RInv true st [sc] gscs F →
    ∃ sc', RInv true (defineParams st ps).1 [sc'] gscs F ∧ sc'.map Prod.fst = ps.reverse ++ sc.map Prod.fst
  | [], st, sc, gscs, F, h => ⟨sc, h, by simp⟩
  | p :: ps, st, sc, gscs, F, h => by
    obtain ⟨h1, _⟩ := rinv_define true st sc [] gscs F h p
    obtain ⟨sc', h2, hn⟩ := params_names ps (st.define p).1 ((p, st.nextId) :: sc) gscs F h1
    have hst : (defineParams st (p :: ps)).1 = (defineParams (st.define p).1 ps).1 := by
      simp only [defineParams]
    rw [hst]
    exact ⟨sc', h2, by rw [hn]; simp⟩

/-- the body of a function literal at top level (outside blocks): the resolver and the rule agree on it -/
theorem fn_core (st1 : RState) (sc1 : List (Text × Nat)) (F : Nat) (hinv : RInv false st1 [sc1] [] F) (ps : List Text)
    (body : Block) (hb : SrcB true false body) :
    Good (resolveB body (defineParams (fnEnter st1) ps).1) (declSs (some (sc1.map Prod.fst)) [[], ps.reverse] body)
      (fun st4 => RInv false (fnExit st4 st1) [sc1] [] (F + 1)) := by
  obtain ⟨gms, hs⟩ := hinv.shapeF rfl
  have h2 : RInv true (fnEnter st1) [[]] [sc1] (F + 1) := by
    refine ⟨(fun hc => by cases hc), fun _ => ⟨0, gms, (by simp [fnEnter, hs]), (by simp), ?_⟩, (by simp), (by simp [fnEnter, hinv.fid])⟩
    intro p hp
    exact hinv.fresh p hp
  obtain ⟨psc, h3, hn⟩ := params_names ps (fnEnter st1) [] [sc1] (F + 1) h2
  have ih := sB true body false [psc] [sc1] (F + 1) _ hb h3 (by simp) (by intro _; rw [params_fd]; simp [fnEnter])
  have hg : gOf true [sc1] = some (sc1.map Prod.fst) := by simp [gOf]
  have hnm : names [psc] = [ps.reverse] := by simp [names, hn]
  rw [hg, hnm] at ih
  cases hr : resolveB body (defineParams (fnEnter st1) ps).1 with
  | error er => simp only [hr, good_error] at ih ⊢; exact ih
  | ok q =>
    obtain ⟨b', st4⟩ := q
    simp only [hr, good_ok] at ih ⊢
    exact ⟨ih.1, (func_core st1 sc1 F hinv ps body hb b' st4 hr).2.2.2⟩

/-! ### the top level -/

theorem sTop : (b : Block) → ∀ (sc : List (Text × Nat)) (st : RState) (F : Nat),
    SrcTop b → RInv false st [sc] [] F →
    Good (resolveSs b st) (declSs none [sc.map Prod.fst] b) (fun _ => True)
  | .nil, sc, st, F, _, hinv => by
    simp only [resolveSs, declSs]; exact ⟨rfl, trivial⟩
  | .cons s rest, sc, st, F, hs, hinv => by
    cases hs with
    | stmt _ _ hss hrest =>
      have ih1 := sS false s false sc [] [] F st hss hinv (by simp) (by simp)
      have hg : gOf false [] = none := rfl
      have hnm : names [sc] = [sc.map Prod.fst] := rfl
      rw [hg, hnm] at ih1
      simp only [resolveSs, declSs]
      cases hr : resolveS s st with
      | error er => simp only [hr, good_error] at ih1 ⊢; exact ⟨ih1.1, by simp [ih1.2]⟩
      | ok p =>
        obtain ⟨s1, st1⟩ := p
        simp only [hr, good_ok] at ih1 ⊢
        obtain ⟨hd1, sc1, ⟨hi1, _, _⟩, hn1⟩ := ih1
        have ih2 := sTop rest sc1 st1 F hrest hi1
        have hn2 : [sc1.map Prod.fst] = scopeAfter [sc.map Prod.fst] s := hn1
        rw [hn2] at ih2
        cases hr2 : resolveSs rest st1 with
        | error er => simp only [hr2, good_error] at ih2 ⊢; exact ⟨ih2.1, by simp [ih2.2]⟩
        | ok q =>
          obtain ⟨b1, st2⟩ := q
          simp only [hr2, good_ok] at ih2 ⊢
          exact ⟨by simp [hd1, ih2.1], trivial⟩
    | named name ps body _ hname hsb hrest =>
      obtain ⟨hinv1, _⟩ := rinv_define false st sc [] [] F hinv name
      have ihb := fn_core (st.define name).1 ((name, st.nextId) :: sc) F hinv1 ps body hsb
      simp only [List.map_cons] at ihb
      simp only [resolveSs, declSs, declS, declE, scopeAfter, addName, hname, Bool.false_eq_true, ↓reduceIte]
      rw [resolveS_named name ps body st hname]
      cases hb : resolveB body (defineParams (fnEnter (st.define name).1) ps).1 with
      | error er => simp only [hb, good_error] at ihb ⊢; exact ⟨ihb.1, by simp [ihb.2]⟩
      | ok p =>
        obtain ⟨body1, st4⟩ := p
        simp only [hb, good_ok] at ihb ⊢
        obtain ⟨hd1, hinv2⟩ := ihb
        have ih2 := sTop rest ((name, st.nextId) :: sc) (fnExit st4 (st.define name).1) (F + 1) hrest hinv2
        simp only [List.map_cons] at ih2
        cases hr2 : resolveSs rest (fnExit st4 (st.define name).1) with
        | error er => simp only [hr2, good_error] at ih2 ⊢; exact ⟨ih2.1, by simp [ih2.2]⟩
        | ok q =>
          obtain ⟨b1, st2⟩ := q
          simp only [hr2, good_ok] at ih2 ⊢
          exact ⟨by simp [hd1, ih2.1], trivial⟩
    | letF f ps body _ hsb hrest =>
      obtain ⟨hinv1, _⟩ := rinv_define false st sc [] [] F hinv f
      have ihb := fn_core (st.define f).1 ((f, st.nextId) :: sc) F hinv1 ps body hsb
      simp only [List.map_cons] at ihb
      simp only [resolveSs, declSs, declS, declE, scopeAfter, addName, List.isEmpty_nil, ↓reduceIte]
      rw [resolveS_letF f ps body st]
      cases hb : resolveB body (defineParams (fnEnter (st.define f).1) ps).1 with
      | error er => simp only [hb, good_error] at ihb ⊢; exact ⟨ihb.1, by simp [ihb.2]⟩
      | ok p =>
        obtain ⟨body1, st4⟩ := p
        simp only [hb, good_ok] at ihb ⊢
        obtain ⟨hd1, hinv2⟩ := ihb
        have ih2 := sTop rest ((f, st.nextId) :: sc) (fnExit st4 (st.define f).1) (F + 1) hrest hinv2
        simp only [List.map_cons] at ih2
        cases hr2 : resolveSs rest (fnExit st4 (st.define f).1) with
        | error er => simp only [hr2, good_error] at ih2 ⊢; exact ⟨ih2.1, by simp [ih2.2]⟩
        | ok q =>
          obtain ⟨b1, st2⟩ := q
          simp only [hr2, good_ok] at ih2 ⊢
          exact ⟨by simp [hd1, ih2.1], trivial⟩

/-! ### the theorems about whole programs -/

/-- both directions at once: the verdict of the rule determines the resolver's answer -/
theorem resolve_declaredFn (ast : Block) (hs : SrcTop ast) :
    (declaredFn ast = true → ∃ r, resolveProgram ast = .ok r) ∧
    (declaredFn ast = false → resolveProgram ast = .error .reference) := by
  have hinv : RInv false ({} : RState) [[]] [] 0 :=
    ⟨fun _ => ⟨0, rfl⟩, (fun hc => by cases hc), (by intro p hp; simp at hp), rfl⟩
  have h := sTop ast [] {} 0 hs hinv
  have hnm : [([] : List (Text × Nat)).map Prod.fst] = [[]] := rfl
  rw [hnm] at h
  unfold resolveProgram declaredFn
  cases hr : resolveSs ast {} with
  | error er =>
    simp only [hr, good_error] at h ⊢
    obtain ⟨h1, h2⟩ := h
    subst h1
    exact ⟨(by intro h3; rw [h2] at h3; cases h3), fun _ => rfl⟩
  | ok q =>
    obtain ⟨b, st'⟩ := q
    simp only [hr, good_ok] at h ⊢
    exact ⟨fun _ => ⟨b, rfl⟩, by intro h3; rw [h.1] at h3; cases h3⟩

/-- for every program of the stage-4 source fragment: the resolver accepts it iff the name-based static rule holds -/
theorem resolve_ok_iff_declaredFn (ast : Block) (hs : SimF.SrcTop ast) :
    (∃ r, resolveProgram ast = .ok r) ↔ NameEvalFn.declaredFn ast = true := by
  obtain ⟨h1, h2⟩ := resolve_declaredFn ast hs
  constructor
  · rintro ⟨r, hr⟩
    cases hd : declaredFn ast with
    | true => rfl
    | false => rw [h2 hd] at hr; cases hr
  · exact h1

/-- ... and it rejects it, with the reference error, iff the rule fails -/
theorem resolve_error_iff_undeclaredFn (ast : Block) (hs : SimF.SrcTop ast) :
    resolveProgram ast = .error .reference ↔ NameEvalFn.declaredFn ast = false := by
  obtain ⟨h1, h2⟩ := resolve_declaredFn ast hs
  constructor
  · intro he
    cases hd : declaredFn ast with
    | false => rfl
    | true =>
      obtain ⟨r, hr⟩ := h1 hd
      rw [hr] at he; cases he
  · exact h2

/-- no other error can occur on the fragment -/
theorem resolve_error_is_reference (ast : Block) (hs : SimF.SrcTop ast) (e : Err)
    (h : resolveProgram ast = .error e) : e = .reference := by
  obtain ⟨h1, h2⟩ := resolve_declaredFn ast hs
  cases hd : declaredFn ast with
  | false =>
    rw [h2 hd] at h
    injection h with h
    exact h.symm
  | true =>
    obtain ⟨r, hr⟩ := h1 hd
    rw [hr] at h; cases h

/-! ### non-vacuity: the factorial program of `ResolveFn.lean` is in the fragment, the rule accepts it, the resolver too -/

example : declaredFn SimF.facSrc = true := by decide
example : ∃ r, resolveProgram SimF.facSrc = .ok r :=
  (resolve_ok_iff_declaredFn _ (SimF.srcTop_sound _ (by decide))).2 (by decide)

/-- `functie f() { x }` : the body uses an undeclared name; the rule fails and the resolver gives the reference error -/
example : resolveProgram (.cons (.expr (.func "f".toList [] (.cons (.expr (.ident "x".toList)) .nil))) .nil) = .error .reference :=
  (resolve_error_iff_undeclaredFn _ (SimF.srcTop_sound _ (by decide))).2 (by decide)

/-- `functie f(a) { stel t = a; t }  t` : a local of the body is not visible at top level -/
example : declaredFn (.cons (.expr (.func "f".toList ["a".toList]
    (.cons (.letS "t".toList (.ident "a".toList)) (.cons (.expr (.ident "t".toList)) .nil))))
    (.cons (.expr (.ident "t".toList)) .nil)) = false := by decide

#print axioms resolve_ok_iff_declaredFn
#print axioms resolve_error_iff_undeclaredFn
#print axioms resolve_error_is_reference

end NameEvalFn
end Nl
