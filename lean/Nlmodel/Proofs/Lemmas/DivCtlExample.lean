/- Divergence preservation, stage 3: non-vacuity.  `stel i = 0; zolang ja { i = 1 - i }` is in the
   fragment and its definitional evaluation runs out of fuel for EVERY fuel, so the divergence
   theorems apply to it: the machine exhausts every budget.
   (NOT `i = i + 1`: integer arithmetic is exact-or-error in this language, `Nl.intArith`, so that
   loop ends in a TypeError after 2^60 iterations; `∀ F, evalB F p {} = .fuel` is false for it:
   `inc_not_divergent` below.) -/
import Nlmodel.Proofs.Lemmas.DivCtlText
namespace Nl
namespace Sim
open Spec

/-- `stel i = 0; zolang ja { i = 1 - i }` -/
def divSrc : Text := "stel i = 0; zolang ja { i = 1 - i }".toList

def divAst : Block :=
  .cons (.letS ['i'] (.int 0))
    (.cons (.expr (.whileE (.bool true)
      (.cons (.expr (.assign (.ident ['i']) (.infix (.int 1) .sub (.ident ['i'])))) .nil))) .nil)

def divBody : RBlock := .cons (.expr (.assignVar ⟨0, .global 0⟩ (.infix (.int 1) .sub (.var ⟨0, .global 0⟩)))) .nil

/-- the resolved tree: binder 0 in global slot 0 -/
def divR : RBlock :=
  .cons (.letS ⟨0, .global 0⟩ (.int 0)) (.cons (.expr (.whileE (.bool true) divBody)) .nil)

theorem div_parse : parse CharClass.ascii divSrc = .ok divAst := by rfl

theorem div_resolve : resolveProgram divAst = .ok divR := by rfl

theorem div_sb : SB false divAst :=
  .cons _ _ _ (.letS _ _ _ (.int _ _))
    (.cons _ _ _ (.expr _ _ (.whileE _ _ _ (.bool _ _)
      (.cons _ _ _ (.expr _ _ (.assign _ _ _ (.bin _ _ _ _ .sub rfl (.int _ _) (.ident _ _)))) (.nil _)))) (.nil _))

theorem div_xb : XB [] false divR [(0, 0)] :=
  .cons _ _ _ _ _ _ (.letS _ _ 0 0 _ (by simp) (.int _ _ 0))
    (.cons _ _ _ _ _ _ (.expr _ _ _ (.whileE _ _ _ _ [(0, 0)] (.bool _ _ true)
      (.cons _ _ _ _ _ _ (.expr _ _ _ (.assign _ _ 0 0 _ (by simp) (.bin _ _ _ _ _ (.int _ _ 1) (.var _ _ 0 0 (by simp)))))
        (.nil _ _)))) (.nil _ _))

/-- loop invariant: `i` is 0 or 1 -/
def DivInv (st : SState) : Prop := envGet st.genv 0 = some (.int 0) ∨ envGet st.genv 0 = some (.int 1)

theorem div_body (F : Nat) (st : SState) (h : DivInv st) :
    evalBV F divBody st = .fuel ∨ ∃ v st2, evalBV F divBody st = .val v st2 ∧ DivInv st2 := by
  rcases F with _ | _ | _ | _ | F
  · exact .inl rfl
  · exact .inl rfl
  · exact .inl rfl
  · exact .inl rfl
  · right
    rcases h with h | h
    · refine ⟨.int 1, st.bind ⟨0, .global 0⟩ (.int 1), ?_, ?_⟩
      · simp [divBody, evalBV, evalE, SState.lookup, isGlobalSlot, h, SState.view, binopCore, View.ty, BinOp.isArith, intArith,
          inRange, MIN_INT, MAX_INT, SState.box]
      · right; simp [SState.bind, isGlobalSlot, envGet, envSet]
    · refine ⟨.int 0, st.bind ⟨0, .global 0⟩ (.int 0), ?_, ?_⟩
      · simp [divBody, evalBV, evalE, SState.lookup, isGlobalSlot, h, SState.view, binopCore, View.ty, BinOp.isArith, intArith,
          inRange, MIN_INT, MAX_INT, SState.box]
      · left; simp [SState.bind, isGlobalSlot, envGet, envSet]

theorem div_loop : ∀ (F : Nat) (acc : SVal) (st : SState), DivInv st → evalLoop F (.bool true) divBody acc st = .fuel
  | 0, _, _, _ => rfl
  | F + 1, acc, st, h => by
    simp only [evalLoop]
    cases F with
    | zero => rfl
    | succ F =>
      simp only [evalE]
      rcases div_body (F + 1) { st with last := acc } h with hb | ⟨v, st2, hb, h2⟩
      · rw [hb]
      · rw [hb]; exact div_loop (F + 1) v st2 h2

/-- the definitional evaluation of the program never ends -/
theorem div_diverges : ∀ F, evalB F divR {} = .fuel := by
  intro F
  rcases F with _ | _ | _ | F
  · rfl
  · rfl
  · rfl
  · have hinv : DivInv (SState.bind (SState.unbind {} ⟨0, .global 0⟩) ⟨0, .global 0⟩ (.int 0)) := by
      left; simp [SState.bind, SState.unbind, isGlobalSlot, envGet, envSet]
    simp only [divR, evalB, evalS, evalE]
    cases F with
    | zero => rfl
    | succ F =>
      simp only [evalE]
      rw [div_loop F .null _ hinv]

theorem div_spec_diverges : ∀ F, specText CharClass.ascii F divSrc = .budget := by
  intro F
  simp only [specText, div_parse, div_resolve, Spec.evalProgram, div_diverges F]

/-- (T6) the hypotheses of `ctl_program_diverges` hold for the example: whatever the compiler emits for it
    exhausts every instruction budget -/
example (bc : Bytecode) (hc : compileR divR = .ok bc) : ∀ n, ∃ s', runSteps bc.code n (VM.start {} bc) = .budget s' :=
  ctl_program_diverges divR [(0, 0)] div_xb bc hc div_diverges

/-- the program does compile, to the tree `divR` -/
theorem div_compiles : ∃ bc, compileProgram divAst = .ok (divR, bc) := by
  have h : (match compileProgram divAst with | .ok (_, _) => true | .error _ => false) = true := by decide +kernel
  cases hc : compileProgram divAst with
  | error e => rw [hc] at h; simp at h
  | ok p =>
    obtain ⟨r, bc⟩ := p
    obtain ⟨hr, _⟩ := compileProgram_ok hc
    rw [div_resolve] at hr
    injection hr with hr
    subst hr
    exact ⟨bc, rfl⟩

/-- (T6) ... and of `ctl_source_diverges` and of the text-level theorem: `eval` of the TEXT answers `.budget` for every budget -/
example : ∀ b, evalText CharClass.ascii b divSrc = .budget := by
  obtain ⟨bc, hc⟩ := div_compiles
  exact ctl_text_diverges CharClass.ascii divSrc divAst divR bc div_parse div_sb hc div_spec_diverges

example : ∃ bc, compileProgram divAst = .ok (divR, bc) ∧ ∀ n, ∃ s', runSteps bc.code n (VM.start {} bc) = .budget s' := by
  obtain ⟨bc, hc⟩ := div_compiles
  exact ⟨bc, hc, ctl_source_diverges divAst div_sb divR bc hc div_diverges⟩

/-! ### the counter that only grows is NOT a divergent program -/

def incBody : RBlock := .cons (.expr (.assignVar ⟨0, .global 0⟩ (.infix (.var ⟨0, .global 0⟩) .add (.int 1)))) .nil

/-- the resolved tree of `stel i = 0; zolang ja { i = i + 1 }` -/
def incR : RBlock :=
  .cons (.letS ⟨0, .global 0⟩ (.int 0)) (.cons (.expr (.whileE (.bool true) incBody)) .nil)

theorem inc_body (F : Nat) (st : SState) (i : Int) (h : envGet st.genv 0 = some (.int i)) :
    evalBV (F + 4) incBody st =
      if inRange (i + 1) then .val (.int (i + 1)) (st.bind ⟨0, .global 0⟩ (.int (i + 1))) else .err .type st := by
  by_cases hr : inRange (i + 1) = true
  · simp [incBody, evalBV, evalE, SState.lookup, isGlobalSlot, h, SState.view, binopCore, View.ty, BinOp.isArith, intArith,
      SState.box, hr]
  · simp [incBody, evalBV, evalE, SState.lookup, isGlobalSlot, h, SState.view, binopCore, View.ty, BinOp.isArith, intArith,
      hr]

/-- one iteration of a `zolang ja` loop -/
theorem evalLoop_true_step (G : Nat) (b : RBlock) (acc : SVal) (st : SState) :
    evalLoop (G + 1 + 1) (.bool true) b acc st =
      (match evalBV (G + 1) b { st with last := acc } with
        | .val v st2 => evalLoop (G + 1) (.bool true) b v st2
        | .brk st2 => .val .null st2
        | .cont st2 => evalLoop (G + 1) (.bool true) b .null st2
        | o => o) := by
  generalize hG : G + 1 = H
  simp only [evalLoop]
  subst hG
  simp only [evalE]
  cases evalBV (G + 1) b { st with last := acc } <;> rfl

theorem inc_loop : ∀ (n : Nat) (i : Int) (acc : SVal) (st : SState), envGet st.genv 0 = some (.int i) → 0 ≤ i → i + n = MAX_INT →
    ∃ st', evalLoop (n + 6) (.bool true) incBody acc st = .err .type st'
  | 0, i, acc, st, h, _, hi => by
    have hr : inRange (i + 1) = false := by
      have : i = MAX_INT := by simpa using hi
      subst this; decide
    refine ⟨{ st with last := acc }, ?_⟩
    rw [show 0 + 6 = 4 + 1 + 1 from rfl, evalLoop_true_step, inc_body 1 { st with last := acc } i h, hr]
    simp
  | n + 1, i, acc, st, h, h0, hi => by
    have hM : MAX_INT = 2 ^ 60 - 1 := rfl
    have hr : inRange (i + 1) = true := by
      rw [hM] at hi
      simp only [inRange, MIN_INT, hM, Bool.and_eq_true, decide_eq_true_eq]
      exact ⟨decide_eq_true (by omega), by omega⟩
    rw [show n + 1 + 6 = (n + 5) + 1 + 1 from rfl, evalLoop_true_step,
      show n + 5 + 1 = (n + 2) + 4 from rfl, inc_body (n + 2) { st with last := acc } i h, hr]
    simp only [↓reduceIte]
    exact inc_loop n (i + 1) _ _ (by simp [SState.bind, isGlobalSlot, envGet, envSet]) (by omega) (by omega)

/-- the program of the task description ends (in a TypeError, when `i + 1` leaves the integer range): the
    hypothesis `∀ F, evalB F p {} = .fuel` of the divergence theorems is FALSE for it -/
theorem inc_not_divergent : ¬ ∀ F, evalB F incR {} = .fuel := by
  intro hall
  obtain ⟨n, hn⟩ : ∃ n : Nat, (0 : Int) + n = MAX_INT := ⟨MAX_INT.toNat, by decide⟩
  have h := hall (n + 6 + 1 + 1 + 1 + 1)
  simp only [incR, evalB, evalS, evalE] at h
  obtain ⟨st', hl⟩ := inc_loop n 0 .null (SState.bind (SState.unbind {} ⟨0, .global 0⟩) ⟨0, .global 0⟩ (.int 0))
    (by simp [SState.bind, SState.unbind, isGlobalSlot, envGet, envSet]) (by omega) hn
  rw [hl] at h
  simp at h

/-- `stel i = 0; zolang ja { i = i + 1 }`, the text -/
def incSrc : Text := "stel i = 0; zolang ja { i = i + 1 }".toList

def incAst : Block :=
  .cons (.letS ['i'] (.int 0))
    (.cons (.expr (.whileE (.bool true)
      (.cons (.expr (.assign (.ident ['i']) (.infix (.ident ['i']) .add (.int 1)))) .nil))) .nil)

theorem inc_parse : parse CharClass.ascii incSrc = .ok incAst := by rfl
theorem inc_resolve : resolveProgram incAst = .ok incR := by rfl

theorem inc_text_not_divergent : ¬ ∀ F, specText CharClass.ascii F incSrc = .budget := by
  intro hall
  apply inc_not_divergent
  intro F
  obtain ⟨r, hr, he⟩ := specText_budget inc_parse (hall F)
  rw [inc_resolve] at hr; injection hr with hr; subst hr; exact he

/-! ### why the converse (T5) carries the alternative `.unspec` -/

/-- `stel x = x`: in the source fragment; the initialiser reads the variable being declared -/
def selfSrc : Text := "stel x = x".toList
def selfAst : Block := .cons (.letS ['x'] (.ident ['x'])) .nil
def selfR : RBlock := .cons (.letS ⟨0, .global 0⟩ (.var ⟨0, .global 0⟩)) .nil

theorem self_parse : parse CharClass.ascii selfSrc = .ok selfAst := by rfl
theorem self_resolve : resolveProgram selfAst = .ok selfR := by rfl
theorem self_sb : SB false selfAst := .cons _ _ _ (.letS _ _ _ (.ident _ _)) (.nil _)

theorem self_spec (F : Nat) : specText CharClass.ascii F selfSrc = .budget ∨ specText CharClass.ascii F selfSrc = .unspec := by
  rcases F with _ | _ | _ | F
  · exact .inl (by simp [specText, self_parse, self_resolve, Spec.evalProgram, selfR, evalB])
  · exact .inl (by simp [specText, self_parse, self_resolve, Spec.evalProgram, selfR, evalB, evalS])
  · exact .inl (by simp [specText, self_parse, self_resolve, Spec.evalProgram, selfR, evalB, evalS, evalE])
  · right
    simp [specText, self_parse, self_resolve, Spec.evalProgram, selfR, evalB, evalS, evalE, SState.lookup, SState.unbind,
      isGlobalSlot, envGet, envDel]

theorem self_eval : evalText CharClass.ascii 3 selfSrc = .value .null [] := by
  have h : (match evalText CharClass.ascii 3 selfSrc with | .value .null [] => true | _ => false) = true := by decide +kernel
  revert h
  cases evalText CharClass.ascii 3 selfSrc with
  | value t out =>
    cases t <;> cases out <;> simp
  | _ => simp

/-- the statement `evalText cc b src ≠ .budget → ∃ F, specText cc F src = evalText cc b src` is FALSE in the
    fragment `Sim.SB false` without the alternative `.unspec` of `ctl_text_converse`: the machine answers `null`
    where the documentation fixes nothing -/
theorem converse_needs_unspec : ∃ b, evalText CharClass.ascii b selfSrc ≠ .budget ∧
    ∀ F, specText CharClass.ascii F selfSrc ≠ evalText CharClass.ascii b selfSrc := by
  refine ⟨3, by rw [self_eval]; simp, fun F => ?_⟩
  rw [self_eval]
  rcases self_spec F with h | h <;> rw [h] <;> simp

end Sim
end Nl
