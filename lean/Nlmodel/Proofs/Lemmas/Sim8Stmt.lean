/- Stage 8: expressions assembled (with the new case: function literals); statements (with the new cases: named function literals) and blocks in statement position -/
import Nlmodel.Proofs.Lemmas.Sim8Ctl
namespace Nl
namespace Sim8
open Spec Sim Sim6 Sim7
open SimH (AMap isStrCell isArrCell Grow PoolH MemOK sameKind LitF)
open SimF (FT FnInfo FTInj paramScope paramScopeFrom bigScope)

section
variable {W : World}

theorem pe8_succ (hW : WOK8 W) (f : Nat) (ih : PAll8 W f) : PE8 W (f + 1) := by
  intro Δ nl fn Γ Γx Λ ab e Γ' Λ' hx c lp cs below fr hsc hinv hwt hcode hext hft
  cases hx with
  | int _ _ _ v => exact pe6_int f v hinv hcode hext
  | bool _ _ _ b => exact pe6_bool f b hinv hcode
  | float _ _ _ x hx => exact pe6_float f x hx hinv hcode hext
  | str _ _ _ s => exact pe6_str f s hinv hcode hext
  | varG _ _ _ b k hm => exact pe7_varG f b k hm hsc hinv hcode
  | varL _ _ _ b k hm _ => exact pe6_varL f b k hm hinv hcode
  | not _ _ _ e1 _ _ h1 => exact pe8_not f ih.e e1 h1 hsc hinv hwt hcode hext hft
  | neg _ _ _ e1 _ _ h1 => exact pe8_neg f ih.e e1 h1 hsc hinv hwt hcode hext hft
  | assignG _ _ _ b k e1 _ _ hm h1 => exact pe8_assignG f ih.e b k hm e1 h1 hsc hinv hwt hcode hext hft
  | assignL _ _ _ b k e1 _ _ hm hk h1 => exact pe8_assignL f ih.e b k hm hk e1 h1 hsc hinv hwt hcode hext hft
  | bin _ _ _ el op er _ _ _ _ hnf hl hr => exact pe8_bin hW f ih.e el op er hnf hl hr hsc hinv hwt hcode hext hft
  | fusedL _ _ _ b k op v hm _ hfc => exact pe8_fusedL hW f b k op v hm hfc hinv hcode hext
  | fusedR _ _ _ b k op op' v hm _ hmir => exact pe8_fusedR hW f b k op op' v hm hmir hinv hcode hext
  | arr _ _ _ vs _ _ hvs => exact pe8_arr f ih vs hvs hsc hinv hwt hcode hext hft
  | index _ _ _ el ei _ _ _ _ hl hi => exact pe8_index f ih.e el ei hl hi hsc hinv hwt hcode hext hft
  | assignIndex _ _ _ el ei ev _ _ _ _ _ _ hl hi hv => exact pe8_assignIndex f ih.e el ei ev hl hi hv hsc hinv hwt hcode hext hft
  | builtin _ _ _ b as _ _ has => exact pe8_builtin f ih b as has hsc hinv hwt hcode hext hft
  | ifE _ _ _ cnd t e _ _ Γt Λt hc ht he => exact pe8_if f ih cnd t e Γt Λt hc ht he hsc hinv hwt hcode hext hft
  | whileE _ _ _ cnd b _ _ Γt Λt hc hb =>
    obtain ⟨hnull, _⟩ := while_layout cnd b hcode
    have h1 := execN_one W.C _ _ (step6_null (s0 := W.s0) (below := below) (locs := c.locs) (ops := c.ops) (g := c.g) (l := c.l) (fr := fr)
      (m := c.m) (out := c.out) hnull)
    have hwt1 := wt_execN 1 _ _ hwt h1
    have ihl := ih.l nl fn Γ Γx Λ ab cnd b _ _ Γt Λt hc hb ⟨c.μ, c.st, c.ip + 1, c.locs, c.ops.push .null, c.g, c.l, c.m, c.out⟩ c.ip lp cs below fr c.ops
      .null .null rfl rfl trivial hsc (hinv.reip _ _) hwt1 hcode hext hft
    simp only [evalE]
    exact GoalV8.prefix (c1 := ⟨c.μ, c.st, c.ip + 1, c.locs, c.ops.push .null, c.g, c.l, c.m, c.out⟩) 1 h1 (Keep.refl _ _ _ _ _) ihl
  | call _ _ _ fe as _ _ _ _ has hfe => exact pe8_call hW f ih fe as has hfe hsc hinv hwt hcode hext hft
  | func _ _ _ fid ps nlf body Γb Λb hb hpok hpsz => exact pe8_func hW f fid ps nlf body hsc hinv hcode hext hft
  | funcG _ _ _ fid b k ps nlf body Γb Λb hfn hf hb hpok hpsz =>
    subst hfn
    have hokb : GamOK Γ := by have := hsc.okb; simpa [bigScope] using this
    simp only [bigScope, Bool.false_eq_true, ↓reduceIte] at hinv ⊢
    exact pe8_fdefG hW f fid b k ps nlf body hf hokb hsc.pi hinv hcode hext hft
  | funcL _ _ _ fid b k ps nlf body Γb Λb hfn hf hk hb hpok hpsz =>
    subst hfn
    simp only [bigScope, ↓reduceIte] at hinv ⊢
    exact pe8_fdefL hW f fid b k ps nlf body hf hk hsc.okl hsc.pi hinv hcode hext hft

theorem sc7_stepS {Δ : Gam} {nl : Nat} {fn : Bool} {Γ Γx Λ Γ1 Λ1 : Gam} {ab : Bool} {s : RStmt} (hsc : Sc7 W Δ fn Γ Γx Λ) (h : Z8S Δ nl fn Γ Λ ab s Γ1 Λ1) :
    Sc7 W Δ fn Γ1 Γx Λ1 ∧ (∃ d, bigScope fn Γ1 Γx = d ++ bigScope fn Γ Γx) ∧ (∃ c, Λ1 = c ++ Λ) := sc7_ext hsc (z8s_ext h)

theorem sc7_stepB {Δ : Gam} {nl : Nat} {fn : Bool} {Γx : Gam} (b : RBlock) {Γ Λ Γ1 Λ1 : Gam} {ab : Bool} (hsc : Sc7 W Δ fn Γ Γx Λ) (h : Z8B Δ nl fn Γ Λ ab b Γ1 Λ1) :
    Sc7 W Δ fn Γ1 Γx Λ1 ∧ (∃ d, bigScope fn Γ1 Γx = d ++ bigScope fn Γ Γx) ∧ (∃ c, Λ1 = c ++ Λ) := sc7_ext hsc (z8b_ext b h)

theorem ps8_succ (hW : WOK8 W) (f : Nat) (ih : PAll8 W f) : PS8 W (f + 1) := by
  intro Δ nl fn Γ Γx Λ ab s Γ1 Λ1 hx c lp cs below fr hsc hinv hwt hcode hext hft
  cases hx with
  | expr _ _ _ e _ _ he =>
    simp only [emitS] at hcode hext
    obtain ⟨hc1, hc2⟩ := hcode.append
    rw [emitE_size] at hc2
    rw [evalS_expr]
    simp only [sizeS]
    refine GoalG.bind (ih.e nl fn Γ Γx Λ ab e _ _ he c lp cs below fr hsc hinv hwt hc1 hext hft.expr) (.inr ⟨rfl, rfl⟩) ?_
    rintro v st1 - ⟨mv, μ1, m1, hmv, locs1, g1, l1, out1, n, hn, hinv1, hk1⟩
    have hgl : Grow μ1 st1 m1.heap μ1 { st1 with last := v } m1.heap := SimH.grow_store_eq rfl
    refine .inr ⟨μ1, m1, locs1, g1, mv, out1, n + 1, ?_, inv6_setLast hinv1 v mv hmv _ _, hk1.trans (Keep.of_grow hgl _)⟩
    rw [execN_step W.C n _ _ _ hn (step6_pop hc2)]; congr 2
  | letG _ _ _ b k e _ _ hfn hf he =>
    subst hfn
    simp only [bigScope, Bool.false_eq_true, ↓reduceIte] at hinv ⊢
    have hokb : GamOK Γ := by have := hsc.okb; simpa [bigScope] using this
    have hsc' : Sc7 W Δ false ((b, k) :: Γ) Γx Λ :=
      ⟨by simpa [bigScope] using gamOK_cons hokb b k hf, hsc.okl, by simp [bigScope],
       fun p hp => by have := hsc.psub p hp; simp only [bigScope, Bool.false_eq_true, ↓reduceIte] at this ⊢; exact List.mem_cons_of_mem _ this, hsc.pi⟩
    simp only [emitS, setVar] at hcode hext
    obtain ⟨hc1, hc2⟩ := hcode.append
    rw [emitE_size] at hc2
    rw [evalS_let]
    simp only [sizeS]
    have hk0 : Keep W c.μ c.st c.m.heap c.μ (c.st.unbind ⟨b, .global k⟩) c.m.heap (fixedOf below c.ops) :=
      Keep.of_grow (SimH.grow_store_eq (unbind_store _ _)) _
    have hinv0 := inv6_unbindG b k hf hinv c.ip c.ops
    have h0 := ih.e nl false ((b, k) :: Γ) Γx Λ ab e _ _ he ⟨c.μ, c.st.unbind ⟨b, .global k⟩, c.ip, c.locs, c.ops, c.g, c.l, c.m, c.out⟩ lp cs below fr hsc'
      (by simpa [bigScope] using hinv0) hwt hc1 hext hft.letS
    simp only [bigScope, Bool.false_eq_true, ↓reduceIte] at h0
    have h0w := GoalG.weaken (Γb := Γ) (Λ := Λ) [(b, k)] [] (fun _ _ x => x) h0
    have h1 : GoalG W Γ Λ nl below fr false ab lp c.ops c (VCV W Γ1 Λ1 nl below fr (c.ip + sizeE e) c.ops c)
        (evalE f e (c.st.unbind ⟨b, .global k⟩)) :=
      GoalG.prefix (c1 := ⟨c.μ, c.st.unbind ⟨b, .global k⟩, c.ip, c.locs, c.ops, c.g, c.l, c.m, c.out⟩) 0 rfl hk0
        (fun _ _ ⟨mv, μ', m', hv, hre⟩ => ⟨mv, μ', m', hv, hre.prefix 0 rfl hk0⟩) h0w
    refine GoalG.bind h1 (.inr ⟨rfl, rfl⟩) ?_
    rintro v st1 - ⟨mv, μ1, m1, hmv, locs1, g1, l1, out1, n, hn, hinv1, hk1⟩
    obtain ⟨hsc2, ⟨d, hd⟩, _⟩ := sc7_ext hsc' (z8e_ext e he)
    simp only [bigScope, Bool.false_eq_true, ↓reduceIte] at hd
    have hok2 : GamOK Γ1 := by have := hsc2.okb; simpa [bigScope] using this
    have hinv2 := inv6_bindG hok2 hinv1 b k (by rw [hd]; exact List.mem_append_right _ List.mem_cons_self) v mv hmv (c.ip + (sizeE e + 3)) c.ops
    refine .inr ⟨μ1, m1, locs1, setGlobalArr g1 k mv, l1, out1, n + 1, ?_, hinv2,
      hk1.trans (Keep.of_grow (SimH.grow_store_eq (bind_store _ _ _)) _)⟩
    rw [execN_step W.C n _ _ _ hn (step6_setGlobal hc2)]; congr 2
  | letL _ _ _ b k e _ _ hfn hf hk he =>
    subst hfn
    simp only [bigScope, ↓reduceIte] at hinv ⊢
    have hsc' : Sc7 W Δ true Γ Γx ((b, k) :: Λ) := ⟨hsc.okb, gamOK_cons hsc.okl b k hf, hsc.sub, hsc.psub, hsc.pi⟩
    simp only [emitS, setVar] at hcode hext
    obtain ⟨hc1, hc2⟩ := hcode.append
    rw [emitE_size] at hc2
    rw [evalS_let]
    simp only [sizeS]
    have hk0 : Keep W c.μ c.st c.m.heap c.μ (c.st.unbind ⟨b, .loc k⟩) c.m.heap (fixedOf below c.ops) :=
      Keep.of_grow (SimH.grow_store_eq (unbind_store _ _)) _
    have hinv0 := inv6_unbindL b k hf hinv c.ip c.ops
    have h0 := ih.e nl true Γ Γx ((b, k) :: Λ) ab e _ _ he ⟨c.μ, c.st.unbind ⟨b, .loc k⟩, c.ip, c.locs, c.ops, c.g, c.l, c.m, c.out⟩ lp cs below fr hsc'
      (by simpa [bigScope] using hinv0) hwt hc1 hext hft.letS
    simp only [bigScope, ↓reduceIte] at h0
    have h0w := GoalG.weaken (Γb := Γx) (Λ := Λ) [] [(b, k)] (fun _ _ x => x) h0
    have h1 : GoalG W Γx Λ nl below fr true ab lp c.ops c (VCV W Γx Λ1 nl below fr (c.ip + sizeE e) c.ops c)
        (evalE f e (c.st.unbind ⟨b, .loc k⟩)) :=
      GoalG.prefix (c1 := ⟨c.μ, c.st.unbind ⟨b, .loc k⟩, c.ip, c.locs, c.ops, c.g, c.l, c.m, c.out⟩) 0 rfl hk0
        (fun _ _ ⟨mv, μ', m', hv, hre⟩ => ⟨mv, μ', m', hv, hre.prefix 0 rfl hk0⟩) h0w
    refine GoalG.bind h1 (.inr ⟨rfl, rfl⟩) ?_
    rintro v st1 - ⟨mv, μ1, m1, hmv, locs1, g1, l1, out1, n, hn, hinv1, hk1⟩
    have hk1' : k < locs1.size := by have := hinv1.size; simp only at this; omega
    obtain ⟨hsc2, _, ⟨d, hd⟩⟩ := sc7_ext hsc' (z8e_ext e he)
    have hinv2 := inv6_bindL hsc2.okl hinv1 b k (by rw [hd]; exact List.mem_append_right _ List.mem_cons_self) hk1' v mv hmv (c.ip + (sizeE e + 3)) c.ops
    refine .inr ⟨μ1, m1, locs1.setIfInBounds k mv, g1, l1, out1, n + 1, ?_, hinv2,
      hk1.trans (Keep.of_grow (SimH.grow_store_eq (bind_store _ _ _)) _)⟩
    rw [execN_step W.C n _ _ _ hn (step6_setLocal hc2 hk1')]; congr 2
  | block _ _ _ b Γ2 Λ2 hb =>
    simp only [emitS] at hcode hext
    have h := ih.b nl fn Γ Γx Λ ab b Γ2 Λ2 hb c lp cs below fr hsc hinv hwt hcode hext hft.block
    obtain ⟨_, ⟨d, hd⟩, ⟨e, he⟩⟩ := sc7_stepB b hsc hb
    simp only [evalS, sizeS]
    rw [hd, he] at h
    exact GoalG.mono_vc (fun _ _ ⟨μ', m', hre⟩ => ⟨μ', m', hre.weaken d e⟩) h
  | brk _ _ =>
    simp only [emitS] at hcode
    simp only [evalS, sizeS]
    refine .inr ⟨rfl, c.μ, c.m, c.locs, c.g, c.l, c.out, 2, ?_, hinv.reip _ _, Keep.refl _ _ _ _ _⟩
    have h1 := execN_one W.C _ _ (step6_null (s0 := W.s0) (below := below) (locs := c.locs) (ops := c.ops) (g := c.g) (l := c.l) (fr := fr)
      (m := c.m) (out := c.out) hcode)
    have h2 := execN_step W.C 1 _ _ _ h1 (step6_jump (by simpa [Instr.size] using hcode.tail))
    exact h2
  | cont _ _ =>
    simp only [emitS] at hcode
    simp only [evalS, sizeS]
    refine .inr ⟨rfl, c.μ, c.m, c.locs, c.g, c.l, c.out, 2, ?_, hinv.reip _ _, Keep.refl _ _ _ _ _⟩
    have h1 := execN_one W.C _ _ (step6_null (s0 := W.s0) (below := below) (locs := c.locs) (ops := c.ops) (g := c.g) (l := c.l) (fr := fr)
      (m := c.m) (out := c.out) hcode)
    have h2 := execN_step W.C 1 _ _ _ h1 (step6_jump (by simpa [Instr.size] using hcode.tail))
    exact h2
  | ret _ _ _ e _ _ hfn he =>
    subst hfn
    simp only [emitS] at hcode hext
    obtain ⟨hc1, hc2⟩ := hcode.append
    rw [emitE_size] at hc2
    rw [evalS_ret]
    simp only [sizeS]
    have h0 := ih.e nl true Γ Γx Λ ab e _ _ he c lp cs below fr hsc hinv hwt hc1 hext hft.ret
    simp only [bigScope, ↓reduceIte] at h0 hinv ⊢
    refine GoalG.bind h0 (.inr ⟨rfl, rfl⟩) ?_
    rintro v st1 - ⟨mv, μ1, m1, hmv, locs1, g1, l1, out1, n, hn, hinv1, hk1⟩
    exact .inr ⟨rfl, returns_retv hwt hn hinv1 hmv (hk1.mono (fixedOf_below_sub below c.ops)) hc2⟩


theorem pb8_succ (f : Nat) (ih : PAll8 W f) : PB8 W (f + 1) := by
  intro Δ nl fn Γ Γx Λ ab b Γ2 Λ2 hx c lp cs below fr hsc hinv hwt hcode hext hft
  cases hx with
  | nil _ _ _ =>
    simp only [evalB, sizeB, Nat.add_zero]
    exact .inr ⟨c.μ, c.m, c.locs, c.g, c.l, c.out, 0, rfl, hinv.reip _ _, Keep.refl _ _ _ _ _⟩
  | cons _ _ _ Γ1 Λ1 _ _ s rest hs hrest =>
    simp only [emitB] at hcode hext
    obtain ⟨hc1, hc2⟩ := hcode.append
    rw [emitS_size] at hc2
    have hext1 : Ext (emitS s c.ip lp cs).2 W.CS := (emitB_ext rest _ _ _).trans hext
    have h1 := ih.s nl fn Γ Γx Λ ab s Γ1 Λ1 hs c lp cs below fr hsc hinv hwt hc1 hext1 hft.cons.1
    obtain ⟨hsc1, ⟨d, hd⟩, ⟨e, he⟩⟩ := sc7_stepS hsc hs
    rw [evalB_cons]
    simp only [sizeB]
    refine GoalG.bind h1 (.inr ⟨rfl, rfl⟩) ?_
    rintro u st1 - ⟨μ1, m1, locs1, g1, l1, out1, n, hn, hinv1, hk1⟩
    have hwt1 := wt_execN n _ _ hwt hn
    have h2 := ih.b nl fn Γ1 Γx Λ1 ab rest Γ2 Λ2 hrest ⟨μ1, st1, c.ip + sizeS s, locs1, c.ops, g1, l1, m1, out1⟩ lp _ below fr hsc1 hinv1 hwt1 hc2 hext hft.cons.2
    rw [hd, he] at h2
    rw [← Nat.add_assoc]
    exact GoalU6.prefix (c1 := ⟨μ1, st1, c.ip + sizeS s, locs1, c.ops, g1, l1, m1, out1⟩) n hn hk1 (GoalG.weaken d e (fun _ _ x => x) h2)

end
end Sim8
end Nl
