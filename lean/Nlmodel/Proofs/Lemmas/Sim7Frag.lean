/- Stage 7: the fragment of stage 6 PLUS function literals wherever an expression may stand (anonymous ones) and
   named function literals as whole expression statements of any block (top level, blocks, loop bodies, function bodies).

   `Δ` is the PERSISTENT global scope at this point of the program: at top level the scope of the enclosing TOP-LEVEL
   statement (globals declared by top-level statements outside any block: their slots are never reused), inside a
   function body the global scope of that function.  The body of a nested literal is checked as a function body against
   `Δ` — not against the whole visible global scope `Γ` — so a literal written inside a top-level block cannot refer to
   the block-scoped globals (unspecified behaviour U1 of DESIGN 4.3 is excluded exactly here). -/
import Nlmodel.Proofs.Lemmas.Sim6Check
namespace Nl
namespace Sim7
open Spec Sim Sim6
open SimH (LitF)
open SimF (paramScope paramScopeFrom)

mutual
/-- expressions. `Δ` = persistent global scope, `nl` = number of local slots of the enclosing function (0 at top level),
    `fn` = inside a function body, `Γ` = global scope visible here, `Λ` = local scope, `ab` = `stop`/`volgende` allowed here -/
inductive Z7E (Δ : Gam) : Nat → Bool → Gam → Gam → Bool → RExpr → Prop where
  | int {nl fn} (Γ Λ ab) (v : Int) : Z7E Δ nl fn Γ Λ ab (.int v)
  | bool {nl fn} (Γ Λ ab) (b : Bool) : Z7E Δ nl fn Γ Λ ab (.bool b)
  | float {nl fn} (Γ Λ ab) (x : UInt64) : LitF x → Z7E Δ nl fn Γ Λ ab (.float x)
  | str {nl fn} (Γ Λ ab) (s : Text) : Z7E Δ nl fn Γ Λ ab (.str s)
  | not {nl fn} (Γ Λ ab) (e : RExpr) : Z7E Δ nl fn Γ Λ ab e → Z7E Δ nl fn Γ Λ ab (.not e)
  | neg {nl fn} (Γ Λ ab) (e : RExpr) : Z7E Δ nl fn Γ Λ ab e → Z7E Δ nl fn Γ Λ ab (.neg e)
  | bin {nl fn} (Γ Λ ab) (l : RExpr) (op : BinOp) (r : RExpr) : fusedCandidate l op r = none →
      Z7E Δ nl fn Γ Λ ab l → Z7E Δ nl fn Γ Λ false r → Z7E Δ nl fn Γ Λ ab (.infix l op r)
  | fusedL {nl fn} (Γ Λ ab) (b k : Nat) (op : BinOp) (v : Int) : (b, k) ∈ Λ → k < nl →
      fusedCandidate (.var ⟨b, .loc k⟩) op (.int v) = some (op, k, v) → Z7E Δ nl fn Γ Λ ab (.infix (.var ⟨b, .loc k⟩) op (.int v))
  | fusedR {nl fn} (Γ Λ ab) (b k : Nat) (op op' : BinOp) (v : Int) : (b, k) ∈ Λ → k < nl → mirrorOp op = some op' →
      Z7E Δ nl fn Γ Λ ab (.infix (.int v) op (.var ⟨b, .loc k⟩))
  | varG {nl fn} (Γ Λ ab) (b k : Nat) : (b, k) ∈ Γ → Z7E Δ nl fn Γ Λ ab (.var ⟨b, .global k⟩)
  | varL {nl fn} (Γ Λ ab) (b k : Nat) : (b, k) ∈ Λ → k < nl → Z7E Δ nl fn Γ Λ ab (.var ⟨b, .loc k⟩)
  | assignG {nl fn} (Γ Λ ab) (b k : Nat) (e : RExpr) : (b, k) ∈ Γ → Z7E Δ nl fn Γ Λ ab e → Z7E Δ nl fn Γ Λ ab (.assignVar ⟨b, .global k⟩ e)
  | assignL {nl fn} (Γ Λ ab) (b k : Nat) (e : RExpr) : (b, k) ∈ Λ → k < nl → Z7E Δ nl fn Γ Λ ab e → Z7E Δ nl fn Γ Λ ab (.assignVar ⟨b, .loc k⟩ e)
  | arr {nl fn} (Γ Λ ab) (vs : RExprs) : Z7Es Δ nl fn Γ Λ vs → Z7E Δ nl fn Γ Λ ab (.arr vs)
  | index {nl fn} (Γ Λ ab) (l i : RExpr) : Z7E Δ nl fn Γ Λ ab l → Z7E Δ nl fn Γ Λ false i → Z7E Δ nl fn Γ Λ ab (.index l i)
  | assignIndex {nl fn} (Γ Λ ab) (l i v : RExpr) : Z7E Δ nl fn Γ Λ ab l → Z7E Δ nl fn Γ Λ false i → Z7E Δ nl fn Γ Λ false v →
      Z7E Δ nl fn Γ Λ ab (.assignIndex l i v)
  | builtin {nl fn} (Γ Λ ab) (b : Builtin) (as : RExprs) : Z7Es Δ nl fn Γ Λ as → Z7E Δ nl fn Γ Λ ab (.callBuiltin b as)
  | ifE {nl fn} (Γ Λ ab) (c : RExpr) (t : RBlock) (e : ROptBlock) (Γ1 Λ1 : Gam) : Z7E Δ nl fn Γ Λ ab c → Z7B Δ nl fn Γ Λ ab t Γ1 Λ1 →
      Z7O Δ nl fn Γ Λ ab e → Z7E Δ nl fn Γ Λ ab (.ifE c t e)
  | whileE {nl fn} (Γ Λ ab) (c : RExpr) (b : RBlock) (Γ1 Λ1 : Gam) : Z7E Δ nl fn Γ Λ false c → Z7B Δ nl fn Γ Λ true b Γ1 Λ1 →
      Z7E Δ nl fn Γ Λ ab (.whileE c b)
  | call {nl fn} (Γ Λ ab) (f : RExpr) (as : RExprs) : Z7Es Δ nl fn Γ Λ as → Z7E Δ nl fn Γ Λ false f → Z7E Δ nl fn Γ Λ ab (.call f as)
  /-- an ANONYMOUS function literal, anywhere: its body is a function body (fresh loop context, `nlf` local slots, the
      parameters in the first slots) that sees the persistent globals `Δ` only -/
  | func {nl fn} (Γ Λ ab) (fid : Nat) (ps : List Nat) (nlf : Nat) (body : RBlock) (Γb Λb : Gam) :
      Z7B Δ nlf true Δ (paramScope ps) false body Γb Λb → GamOK (paramScope ps) → (∀ p ∈ paramScope ps, p.2 < nlf) →
      Z7E Δ nl fn Γ Λ ab (.func fid none ps nlf body)
inductive Z7Es (Δ : Gam) : Nat → Bool → Gam → Gam → RExprs → Prop where
  | nil {nl fn} (Γ Λ) : Z7Es Δ nl fn Γ Λ .nil
  | cons {nl fn} (Γ Λ) (e : RExpr) (es : RExprs) : Z7E Δ nl fn Γ Λ false e → Z7Es Δ nl fn Γ Λ es → Z7Es Δ nl fn Γ Λ (.cons e es)
inductive Z7O (Δ : Gam) : Nat → Bool → Gam → Gam → Bool → ROptBlock → Prop where
  | none {nl fn} (Γ Λ ab) : Z7O Δ nl fn Γ Λ ab .none
  | some {nl fn} (Γ Λ ab) (b : RBlock) (Γ1 Λ1 : Gam) : Z7B Δ nl fn Γ Λ ab b Γ1 Λ1 → Z7O Δ nl fn Γ Λ ab (.some b)
inductive Z7S (Δ : Gam) : Nat → Bool → Gam → Gam → Bool → RStmt → Gam → Gam → Prop where
  | expr {nl fn} (Γ Λ ab) (e : RExpr) : Z7E Δ nl fn Γ Λ ab e → Z7S Δ nl fn Γ Λ ab (.expr e) Γ Λ
  | letG {nl fn} (Γ Λ ab) (b k : Nat) (e : RExpr) : fn = false → (∀ p ∈ Γ, p.1 ≠ b ∧ p.2 ≠ k) → Z7E Δ nl fn ((b, k) :: Γ) Λ ab e →
      Z7S Δ nl fn Γ Λ ab (.letS ⟨b, .global k⟩ e) ((b, k) :: Γ) Λ
  | letL {nl fn} (Γ Λ ab) (b k : Nat) (e : RExpr) : fn = true → (∀ p ∈ Λ, p.1 ≠ b ∧ p.2 ≠ k) → k < nl → Z7E Δ nl fn Γ ((b, k) :: Λ) ab e →
      Z7S Δ nl fn Γ Λ ab (.letS ⟨b, .loc k⟩ e) Γ ((b, k) :: Λ)
  | block {nl fn} (Γ Λ ab) (b : RBlock) (Γ1 Λ1 : Gam) : Z7B Δ nl fn Γ Λ ab b Γ1 Λ1 → Z7S Δ nl fn Γ Λ ab (.block b) Γ Λ
  | brk {nl fn} (Γ Λ) : Z7S Δ nl fn Γ Λ true .brk Γ Λ
  | cont {nl fn} (Γ Λ) : Z7S Δ nl fn Γ Λ true .cont Γ Λ
  | ret {nl fn} (Γ Λ ab) (e : RExpr) : fn = true → Z7E Δ nl fn Γ Λ ab e → Z7S Δ nl fn Γ Λ ab (.ret e) Γ Λ
  /-- a NAMED function literal as an expression statement outside any function: its name is a fresh global -/
  | fdefG {nl fn} (Γ Λ ab) (fid b k : Nat) (ps : List Nat) (nlf : Nat) (body : RBlock) (Γb Λb : Gam) :
      fn = false → (∀ p ∈ Γ, p.1 ≠ b ∧ p.2 ≠ k) →
      Z7B Δ nlf true Δ (paramScope ps) false body Γb Λb → GamOK (paramScope ps) → (∀ p ∈ paramScope ps, p.2 < nlf) →
      Z7S Δ nl fn Γ Λ ab (.expr (.func fid (some ⟨b, .global k⟩) ps nlf body)) ((b, k) :: Γ) Λ
  /-- a NAMED function literal as an expression statement inside a function body: its name is a fresh local of the
      enclosing function (the literal's own body does not see it: no closures) -/
  | fdefL {nl fn} (Γ Λ ab) (fid b k : Nat) (ps : List Nat) (nlf : Nat) (body : RBlock) (Γb Λb : Gam) :
      fn = true → (∀ p ∈ Λ, p.1 ≠ b ∧ p.2 ≠ k) → k < nl →
      Z7B Δ nlf true Δ (paramScope ps) false body Γb Λb → GamOK (paramScope ps) → (∀ p ∈ paramScope ps, p.2 < nlf) →
      Z7S Δ nl fn Γ Λ ab (.expr (.func fid (some ⟨b, .loc k⟩) ps nlf body)) Γ ((b, k) :: Λ)
inductive Z7B (Δ : Gam) : Nat → Bool → Gam → Gam → Bool → RBlock → Gam → Gam → Prop where
  | nil {nl fn} (Γ Λ ab) : Z7B Δ nl fn Γ Λ ab .nil Γ Λ
  | cons {nl fn} (Γ Λ ab) (Γ1 Λ1 Γ2 Λ2 : Gam) (s : RStmt) (b : RBlock) : Z7S Δ nl fn Γ Λ ab s Γ1 Λ1 → Z7B Δ nl fn Γ1 Λ1 ab b Γ2 Λ2 →
      Z7B Δ nl fn Γ Λ ab (.cons s b) Γ2 Λ2
end

theorem z7s_scope {Δ nl fn} {Γ Λ Γ1 Λ1 : Gam} {ab : Bool} {s : RStmt} (h : Z7S Δ nl fn Γ Λ ab s Γ1 Λ1) (hok : GamOK Γ) (hokl : GamOK Λ) :
    GamOK Γ1 ∧ GamOK Λ1 ∧ (∃ d, Γ1 = d ++ Γ) ∧ (∃ d, Λ1 = d ++ Λ) ∧ (fn = true → Γ1 = Γ) ∧ (fn = false → Λ1 = Λ) := by
  cases h with
  | expr => exact ⟨hok, hokl, ⟨[], rfl⟩, ⟨[], rfl⟩, fun _ => rfl, fun _ => rfl⟩
  | letG _ _ _ b k e hfn hf _ => exact ⟨gamOK_cons hok b k hf, hokl, ⟨[(b, k)], rfl⟩, ⟨[], rfl⟩, fun h => (by rw [hfn] at h; cases h), fun _ => rfl⟩
  | letL _ _ _ b k e hfn hf _ _ => exact ⟨hok, gamOK_cons hokl b k hf, ⟨[], rfl⟩, ⟨[(b, k)], rfl⟩, fun _ => rfl, fun h => (by rw [hfn] at h; cases h)⟩
  | block => exact ⟨hok, hokl, ⟨[], rfl⟩, ⟨[], rfl⟩, fun _ => rfl, fun _ => rfl⟩
  | brk => exact ⟨hok, hokl, ⟨[], rfl⟩, ⟨[], rfl⟩, fun _ => rfl, fun _ => rfl⟩
  | cont => exact ⟨hok, hokl, ⟨[], rfl⟩, ⟨[], rfl⟩, fun _ => rfl, fun _ => rfl⟩
  | ret => exact ⟨hok, hokl, ⟨[], rfl⟩, ⟨[], rfl⟩, fun _ => rfl, fun _ => rfl⟩
  | fdefG _ _ _ fid b k ps nlf body _ _ hfn hf _ _ _ =>
    exact ⟨gamOK_cons hok b k hf, hokl, ⟨[(b, k)], rfl⟩, ⟨[], rfl⟩, fun h => (by rw [hfn] at h; cases h), fun _ => rfl⟩
  | fdefL _ _ _ fid b k ps nlf body _ _ hfn hf _ _ _ _ =>
    exact ⟨hok, gamOK_cons hokl b k hf, ⟨[], rfl⟩, ⟨[(b, k)], rfl⟩, fun _ => rfl, fun h => (by rw [hfn] at h; cases h)⟩

theorem z7b_scope {Δ nl fn} : ∀ (b : RBlock) {Γ Λ Γ1 Λ1 : Gam} {ab : Bool}, Z7B Δ nl fn Γ Λ ab b Γ1 Λ1 → GamOK Γ → GamOK Λ →
    GamOK Γ1 ∧ GamOK Λ1 ∧ (∃ d, Γ1 = d ++ Γ) ∧ (∃ d, Λ1 = d ++ Λ) ∧ (fn = true → Γ1 = Γ) ∧ (fn = false → Λ1 = Λ)
  | .nil, _, _, _, _, _, h, hok, hokl => by cases h; exact ⟨hok, hokl, ⟨[], rfl⟩, ⟨[], rfl⟩, fun _ => rfl, fun _ => rfl⟩
  | .cons s rest, _, _, _, _, _, h, hok, hokl => by
    cases h with
    | cons _ _ _ Γ1 Λ1 _ _ _ _ hs hb =>
      obtain ⟨hok1, hokl1, ⟨d1, e1⟩, ⟨c1, f1⟩, g1, k1⟩ := z7s_scope hs hok hokl
      obtain ⟨hok2, hokl2, ⟨d2, e2⟩, ⟨c2, f2⟩, g2, k2⟩ := z7b_scope rest hb hok1 hokl1
      exact ⟨hok2, hokl2, ⟨d2 ++ d1, by rw [e2, e1, List.append_assoc]⟩, ⟨c2 ++ c1, by rw [f2, f1, List.append_assoc]⟩,
        fun h => by rw [g2 h, g1 h], fun h => by rw [k2 h, k1 h]⟩

end Sim7
end Nl
