/- Stage 8, divergence preservation: non-vacuity.  A NAMED function literal in expression position (the callee of a call)
   whose call never ends: `functie g(x) { zolang ja { } }(1)`.  The program is in the stage-8 fragment and NOT in the stage-7
   fragment; its definitional evaluation is proved to run out of every fuel and all hypotheses of `program_div8` hold. -/
import Nlmodel.Proofs.Lemmas.Div8Top
import Nlmodel.Proofs.Lemmas.Div7Example
namespace Nl
namespace Sim8
open Spec Sim Sim6 Sim7

/-- `functie g(x) { zolang ja { } }(1)` -/
def ex8DivAst : Block :=
  .cons (.expr (.call (.func "g".toList ["x".toList] (.cons (.expr (.whileE (.bool true) .nil)) .nil)) (.cons (.int 1) .nil))) .nil

/-- the named literal (its body is `ex7G`: `zolang ja { }`), the call, the resolved program -/
def ex8Lit : RExpr := .func 0 (some ⟨0, .global 0⟩) [1] 1 ex7G
def ex8Call : RExpr := .call ex8Lit (.cons (.int 1) .nil)
def ex8R : RBlock := .cons (.expr ex8Call) .nil

theorem ex8_call (F : Nat) (st : SState) : evalE F ex8Call st = .fuel := by
  cases F with
  | zero => rfl
  | succ F =>
    rw [ex8Call, evalE_call]
    rcases ex7_args F st with h | h
    · simp only [h, bindR]
    · rw [h]; simp only [bindR]
      cases F with
      | zero => rfl
      | succ F =>
        simp only [ex8Lit, evalE, specCall, List.length_cons, List.length_nil, Nat.lt_irrefl, gt_iff_lt, ↓reduceIte]
        rw [ex7_bodyG]

theorem ex8_diverges : ∀ F, evalB F ex8R {} = .fuel := by
  intro F
  cases F with
  | zero => rfl
  | succ F =>
    rw [ex8R, evalB_cons]
    cases F with
    | zero => rfl
    | succ F =>
      rw [evalS_expr, ex8_call]
      rfl

/-- non-vacuity, stage 8 (a named literal in expression position whose call loops forever) -/
example : ∃ bc, compileProgram ex8DivAst = .ok (ex8R, bc) ∧ inFragment8 ex8R = true ∧ (∀ F, Spec.evalB F ex8R {} = .fuel) ∧
    ∀ n, (∃ s', runSteps bc.code n (VM.start {} bc) = .budget s') ∨
         HitsLimit bc := by
  have hin : inFragment8 ex8R = true := by decide
  cases hc : compileProgram ex8DivAst with
  | error e =>
    have h0 : (match compileProgram ex8DivAst with | .ok _ => true | .error _ => false) = true := by decide
    rw [hc] at h0; cases h0
  | ok q =>
    obtain ⟨r, bc⟩ := q
    have hr : r = ex8R := by
      have := resolve_of_compile hc
      have h2 : resolveProgram ex8DivAst = .ok ex8R := by rfl
      rw [h2] at this; injection this with this; exact this.symm
    subst hr
    exact ⟨bc, rfl, hin, ex8_diverges, program_div8 ex8DivAst ex8R bc hc hin ex8_diverges⟩

/-- the program is genuinely a stage-8 program: the stage-7 validation rejects it -/
example : Sim7.inFragment7 ex8R = false := by decide

end Sim8
end Nl
