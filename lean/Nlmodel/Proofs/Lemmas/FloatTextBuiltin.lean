/- `float(string(x)) = x` at the level of the unary builtins (split off `FloatText.lean` so that `Proofs/C14.lean`, which
   `Pratt.lean` imports, can use it without an import cycle through `RoundTrip.lean`). -/
import Nlmodel.Proofs.Lemmas.FloatTextMain
import Nlmodel.Model.Value
namespace Nl
namespace F64T
open Nl.F64 Nl.F64R

/-! ## 2. the builtins `string` and `float` -/

theorem dropWhile_none {α} (p : α → Bool) (l : List α) (h : ∀ c ∈ l, p c = false) :
    l.dropWhile p = l := by
  cases l with
  | nil => rfl
  | cons a t => simp [List.dropWhile, h a (by simp)]

theorem trimText_id (s : Text) (h : ∀ c ∈ s, isUniSpace c = false) : trimText s = s := by
  unfold trimText
  rw [dropWhile_none _ s h, dropWhile_none _ s.reverse (fun c hc => h c (List.mem_reverse.1 hc)),
    List.reverse_reverse]

theorem digit_not_space (c : Char) (hc : c.isDigit = true) : isUniSpace c = false := by
  have := digit_val c hc
  have e : c.toNat = c.val.toNat := rfl
  unfold isUniSpace
  simp only [e]
  simp
  omega

theorem render_chars (neg : Bool) (q : Nat) (p : Int) :
    ∀ c ∈ render (signText neg) q p, c.isDigit = true ∨ c = '-' ∨ c = '.' := by
  have hs : ∀ c ∈ signText neg, c = '-' := by
    intro c hc; cases neg <;> simp [signText] at hc; exact hc
  have hd := natToDigits_digit q
  have hz := replicate_zero_digit
  have h0 : "0.".toList = ['0', '.'] := rfl
  intro c hc
  unfold render at hc
  simp only at hc
  split at hc
  · simp only [List.mem_append] at hc
    rcases hc with (h | h) | h
    · exact Or.inr (Or.inl (hs c h))
    · exact Or.inl (hd c h)
    · exact Or.inl (hz _ c h)
  · split at hc
    · simp only [List.mem_append, List.mem_singleton] at hc
      rcases hc with ((h | h) | h) | h
      · exact Or.inr (Or.inl (hs c h))
      · exact Or.inl (hd c (List.mem_of_mem_take h))
      · exact Or.inr (Or.inr h)
      · exact Or.inl (hd c (List.mem_of_mem_drop h))
    · rw [h0] at hc
      simp only [List.mem_append, List.mem_cons, List.not_mem_nil, or_false] at hc
      rcases hc with ((h | h | h) | h) | h
      · exact Or.inr (Or.inl (hs c h))
      · subst h; exact Or.inl zero_isDigit
      · exact Or.inr (Or.inr h)
      · exact Or.inl (hz _ c h)
      · exact Or.inl (hd c h)

theorem toDecimal_no_space (x : Bits) : ∀ c ∈ toDecimal x, isUniSpace c = false := by
  intro c hc
  by_cases h1 : isNaN x = true
  · rw [toDecimal_nan x h1] at hc
    have : "NaN".toList = ['N', 'a', 'N'] := rfl
    rw [this] at hc
    have hall : ∀ c ∈ ['N', 'a', 'N'], isUniSpace c = false := by decide
    exact hall c hc
  · have h1' : isNaN x = false := by simpa using h1
    by_cases h2 : isInf x = true
    · rw [toDecimal_inf x h1' h2] at hc
      have e1 : "-inf".toList = ['-', 'i', 'n', 'f'] := rfl
      have e2 : "inf".toList = ['i', 'n', 'f'] := rfl
      rw [e1, e2] at hc
      have hall1 : ∀ c ∈ ['-', 'i', 'n', 'f'], isUniSpace c = false := by decide
      have hall2 : ∀ c ∈ ['i', 'n', 'f'], isUniSpace c = false := by decide
      split at hc
      · exact hall1 c hc
      · exact hall2 c hc
    · have h2' : isInf x = false := by simpa using h2
      have key : c.isDigit = true ∨ c = '-' ∨ c = '.' := by
        by_cases h3 : isZero x = true
        · rw [toDecimal_zero x h1' h2' h3] at hc
          cases hn : isNeg x <;> rw [hn] at hc <;> simp [signText] at hc
          · subst hc; exact Or.inl zero_isDigit
          · rcases hc with h | h
            · exact Or.inr (Or.inl h)
            · subst h; exact Or.inl zero_isDigit
        · have h3' : isZero x = false := by simpa using h3
          rw [toDecimal_finite x h1' h2' h3'] at hc
          exact render_chars _ _ _ c hc
      rcases key with h | h | h
      · exact digit_not_space c h
      · subst h; decide
      · subst h; decide

/-- **`float(string(x)) = x`** at the level of the unary builtins: `string` of a float is its
    `toDecimal` text, and `float` of that text is the same float, bit for bit (not a NaN) -/
theorem float_string_roundtrip (x : Bits) (hx : isNaN x = false) :
    builtinCore .string (.float x) = .ok (.str (toDecimal x)) ∧
    builtinCore .float (.str (toDecimal x)) = .ok (.float x) := by
  refine ⟨rfl, ?_⟩
  unfold builtinCore
  simp only
  rw [trimText_id _ (toDecimal_no_space x), parse_toDecimal x hx]

/-- for a NaN the result is the canonical NaN -/
theorem float_string_nan (x : Bits) (hx : isNaN x = true) :
    builtinCore .float (.str (toDecimal x)) = .ok (.float canonNaN) := by
  unfold builtinCore
  simp only
  rw [trimText_id _ (toDecimal_no_space x), parse_toDecimal_nan x hx]

end F64T
end Nl
