/- `obj` requests of the protocol: raw words and decoded fields from Model/Object (C15). -/
import Nlmodel.Driver.Proto
import Nlmodel.Model.Pipeline
namespace Nl

inductive OSpec where
  | null | bool (b : Bool) | int (i : Int) | fn (ip nl : Nat) | float (bits : UInt64) | str (s : Text)

def parseHex64 (s : List Char) : Option UInt64 :=
  s.foldl (fun acc c => match acc, hexVal c with
    | some a, some v => some (a * 16 + UInt64.ofNat v)
    | _, _ => none) (some 0)

def parseOSpec (s : String) : Option OSpec :=
  match s.toList with
  | ['n'] => some .null
  | ['b', '0'] => some (.bool false)
  | ['b', '1'] => some (.bool true)
  | 'f' :: 'n' :: r =>
    match (String.ofList r).splitOn ":" with
    | [a, b] => match a.toNat?, b.toNat? with
      | some x, some y => some (.fn x y)
      | _, _ => none
    | _ => none
  | 'i' :: r => (String.ofList r).toInt?.map .int
  | 'f' :: r => (parseHex64 r).map .float
  | 's' :: r => (unhexText (String.ofList r)).map .str
  | _ => none

def hexWord (w : Obj.Word) : String := hex64 (UInt64.ofNat w.toNat)

def OSpec.word : OSpec → Option Obj.Word
  | .null => some Obj.null
  | .bool b => some (Obj.bool b)
  | .int i => some (Obj.int i)
  | .fn ip nl => some (Obj.function (BitVec.ofNat 32 ip) (BitVec.ofNat 16 nl))
  | _ => none

def tyName : Obj.Ty → String
  | .null => "null" | .int => "int" | .bool => "bool" | .function => "function"
  | .float => "float" | .string => "string" | .array => "array"

def describeWord (w : Obj.Word) : String :=
  match Obj.tag w with
  | none => "w=" ++ hexWord w ++ " tag=INVALID"
  | some t =>
    let dec := match t with
      | .null => "null"
      | .int => toString (Obj.asInt w)
      | .bool => if Obj.asBool w then "1" else "0"
      | .function => let (ip, nl) := Obj.asFunction w; toString ip.toNat ++ ":" ++ toString nl.toNat
      | _ => "?"
    "w=" ++ hexWord w ++ " tag=" ++ tyName t ++ " dec=" ++ dec ++ " heap=" ++ (if Obj.isHeap w then "1" else "0")

def OSpec.tree : OSpec → Tree
  | .null => .null | .bool b => .bool b | .int i => .int i | .fn .. => .fn
  | .float x => .float x | .str s => .str s

def handleObj (parts : List String) : String :=
  match parts with
  | ["enc", sp] =>
    match parseOSpec sp with
    | none => "bad-spec"
    | some o =>
      match o.word with
      | some w => describeWord w
      | none =>
        match o with
        | .float x =>
          -- a heap pointer: any 8-aligned address; the tag bits and the content are what is observable
          let w := Obj.ptr 0x7f0000001000#64 .float
          "tagbits=" ++ toString (Obj.tagNat w) ++ " tag=" ++ (match Obj.tag w with | some t => tyName t | none => "INVALID")
            ++ " heap=" ++ (if Obj.isHeap w then "1" else "0") ++ " back=f" ++ hex64 x
        | .str s =>
          let w := Obj.ptr 0x7f0000001000#64 .string
          "tagbits=" ++ toString (Obj.tagNat w) ++ " tag=" ++ (match Obj.tag w with | some t => tyName t | none => "INVALID")
            ++ " heap=" ++ (if Obj.isHeap w then "1" else "0") ++ " back=s" ++ hexText s
        | _ => "bad-spec"
  | ["eq", a, b] =>
    match parseOSpec a, parseOSpec b with
    | some x, some y =>
      let r : Bool := match x.word, y.word with
        | some w1, some w2 => w1 == w2       -- immediates: word equality (C15: injective)
        | _, _ =>
          match x, y with
          | .float p, .float q => F64.eq p q
          | .str p, .str q => p == q
          | _, _ => false
      "eq=" ++ (if r then "1" else "0")
    | _, _ => "bad-spec"
  | "arr" :: specs =>
    match specs.mapM parseOSpec with
    | none => "bad-spec"
    | some os =>
      let w := Obj.ptr 0x7f0000001000#64 .array
      "tagbits=" ++ toString (Obj.tagNat w) ++ " tag=" ++ (match Obj.tag w with | some t => tyName t | none => "INVALID")
        ++ " heap=" ++ (if Obj.isHeap w then "1" else "0") ++ " back=" ++ (Tree.arr (os.map OSpec.tree)).canon
  | _ => "bad-request"

end Nl
