/- Stage 4: function definition statements and the induction over the top-level sequence. -/
import Nlmodel.Proofs.Lemmas.SimFnTop
namespace Nl
namespace SimF
open Spec Sim

theorem PoolOK2.mono {cvals : Array Value} {a b : List Const} (h : PoolOK2 cvals b) (he : Ext a b) : PoolOK2 cvals a :=
  ⟨h.1.mono he, fun k ip nl hk => h.2 k ip nl (he.get k _ hk)⟩

theorem bind_unbind (st : SState) (r : Ref) (v : SVal) : (st.unbind r).bind r v = st.bind r v := by
  cases r with
  | mk b slot =>
    cases slot <;> simp [SState.bind, SState.unbind, isGlobalSlot, envSet, envDel, List.filter_filter]

/-- a function definition statement at top level: the function value lands in its global slot -/
theorem fdef_step {W : World} (hW : WOK W) {Γ : Gam} {s : RStmt} {fid b k : Nat} {ps : List Nat} {nlf : Nat} {body : RBlock}
    (hd : FDef s fid b k ps nlf body) (hf : ∀ p ∈ Γ, p.1 ≠ b ∧ p.2 ≠ k) (hok : GamOK Γ)
    {pos : Nat} {cs : List Const} (hft : W.ft fid = some ⟨pos + 3, ps, nlf, body, cs, (b, k) :: Γ⟩)
    {st : SState} {g : Array Value} {l : Value} (hinv : Inv (W.at Γ) Γ [] 0 st #[] g l)
    (hcode : CodeAt W.C pos (emitS s pos none cs).1) (hpool : PoolOK2 W.s0.cvals (emitS s pos none cs).2) (F : Nat) :
    match evalS F s st with
    | .val () st' => ∃ g' l' n, execN W.C n (mkS W.s0 pos #[] #[] #[] g l []) = some (mkS W.s0 (pos + sizeS s) #[] #[] #[] g' l' []) ∧
        Inv (W.at ((b, k) :: Γ)) ((b, k) :: Γ) [] 0 st' #[] g' l' ∧ st'.out = st.out
    | .fuel => True
    | _ => False := by
  have hsub : ∀ p ∈ Γ, p ∈ (b, k) :: Γ := fun p hp => List.mem_cons_of_mem _ hp
  have hok' := gamOK_cons hok b k hf
  have hvr : VR (W.at ((b, k) :: Γ)).ft (W.at ((b, k) :: Γ)).Γp (.fn fid ps nlf body) (.fn (pos + 3) nlf) :=
    ⟨_, hft, rfl, rfl, rfl, rfl, rfl, fun p hp => hp⟩
  have hinv' := Inv.grow hsub hinv
  cases hd with
  | named =>
    cases F with
    | zero => simp [evalS]
    | succ F =>
      cases F with
      | zero => simp [evalS, evalE]
      | succ F =>
        simp only [emitS] at hcode hpool
        obtain ⟨hce, hpop⟩ := hcode.append
        obtain ⟨hj, _, hc3, hpl, hsz⟩ := func_layout fid (some ⟨b, .global k⟩) ps nlf body hce
        rw [emitE_size, hsz] at hpop
        rw [hpl] at hpool
        have hk := hpool.2 _ _ _ (addConst_fn_index (emitB body (pos + 3) none cs).2 (pos + 3) nlf)
        simp only [selfTail, setVar, List.length_cons, List.length_nil] at hc3 hpop
        simp only [evalS, evalE, sizeS, hsz, selfTail, List.length_cons, List.length_nil]
        have s1 := execN_one W.C _ _ (step_jump (s0 := W.s0) (below := #[]) (locs := #[]) (ops := #[]) (g := g) (l := l) (fr := []) hj)
        have s2 := execN_step W.C 1 _ _ _ s1 (step_const hc3 hk (by simp))
        have s3 := execN_step W.C 2 _ _ _ s2 (step_setGlobal (by simpa [Instr.size] using hc3.tail))
        have s4 := execN_step W.C 3 _ _ _ s3 (step_const (by simpa [Instr.size] using hc3.tail.tail) hk (by simp))
        have s5 := execN_step W.C 4 _ _ _ s4 (step_pop (hpop.cast (by omega)))
        refine ⟨setGlobalArr g k (.fn (pos + 3) nlf), .fn (pos + 3) nlf, 5, ?_, ?_, ?_⟩
        · rw [s5]; congr 2; omega
        · refine ⟨?_, fun _ _ hm => (by cases hm), hvr, rfl⟩
          have h0 := relG_unbind (W := W.at ((b, k) :: Γ)) st g b k hf hinv'.relG
          have h1 := relG_bind hok' _ g b k List.mem_cons_self _ _ hvr h0
          rw [bind_unbind] at h1
          exact h1
        · simp [SState.bind, isGlobalSlot]
  | letS =>
    cases F with
    | zero => simp [evalS]
    | succ F =>
      cases F with
      | zero => simp [evalS, evalE]
      | succ F =>
        simp only [emitS, setVar] at hcode hpool
        obtain ⟨hce, hset⟩ := hcode.append
        obtain ⟨hj, _, hc3, hpl, hsz⟩ := func_layout fid none ps nlf body hce
        rw [emitE_size, hsz] at hset
        rw [hpl] at hpool
        have hk := hpool.2 _ _ _ (addConst_fn_index (emitB body (pos + 3) none cs).2 (pos + 3) nlf)
        simp only [selfTail, List.length_nil, List.append_nil] at hc3 hset
        simp only [evalS, evalE, sizeS, hsz, selfTail, List.length_nil]
        have s1 := execN_one W.C _ _ (step_jump (s0 := W.s0) (below := #[]) (locs := #[]) (ops := #[]) (g := g) (l := l) (fr := []) hj)
        have s2 := execN_step W.C 1 _ _ _ s1 (step_const hc3 hk (by simp))
        have s3 := execN_step W.C 2 _ _ _ s2 (step_setGlobal (hset.cast (by omega)))
        refine ⟨setGlobalArr g k (.fn (pos + 3) nlf), l, 3, ?_, ?_, ?_⟩
        · rw [s3]; congr 2; omega
        · refine ⟨?_, fun _ _ hm => (by cases hm), ?_, rfl⟩
          · have h0 := relG_unbind (W := W.at ((b, k) :: Γ)) st g b k hf hinv'.relG
            exact relG_bind hok' _ g b k List.mem_cons_self _ _ hvr h0
          · simpa [SState.bind, SState.unbind, isGlobalSlot] using hinv'.last
        · simp [SState.bind, SState.unbind, isGlobalSlot]

theorem ptop {W : World} (hW : WOK W) {Γ : Gam} {b : RBlock} {pos : Nat} {cs : List Const} {Γ' : Gam} {D : List (Nat × FnInfo)}
    (hy : YTop Γ b pos cs Γ' D) : (∀ q ∈ D, W.ft q.1 = some q.2) → GamOK Γ →
    ∀ (F : Nat) (st : SState) (g : Array Value) (l : Value), Inv (W.at Γ) Γ [] 0 st #[] g l →
    CodeAt W.C pos (emitB b pos none cs).1 → PoolOK2 W.s0.cvals (emitB b pos none cs).2 →
    GoalTop W Γ' pos (pos + sizeB b) g l st (evalB F b st) := by
  induction hy with
  | nil Γ pos cs =>
    intro _ _ F st g l hinv _ _
    cases F with
    | zero => simp only [evalB]; exact .inr trivial
    | succ F =>
      simp only [evalB, sizeB, Nat.add_zero]
      exact .inr ⟨g, l, 0, rfl, hinv, rfl⟩
  | stmt Γ Γ1 Γ2 s rest pos cs D hs _ ih =>
    intro hD hok F st g l hinv hcode hpool
    cases F with
    | zero => simp only [evalB]; exact .inr trivial
    | succ F =>
      simp only [emitB] at hcode hpool
      obtain ⟨hc1, hc2⟩ := hcode.append
      rw [emitS_size] at hc2
      have hpool1 : PoolOK W.s0.cvals (emitS s pos none cs).2 := hpool.1.mono (emitB_ext rest _ _ _)
      have hsc : Sc (W.at Γ) false Γ [] [] :=
        ⟨by simpa [bigScope] using hok, by simp [GamOK], by simp [bigScope], by intro p hp; simpa [bigScope, World.at] using hp⟩
      have h1 := (pall (hW.at Γ) F).s 0 false Γ [] [] false s Γ1 [] hs st pos none cs #[] [] #[] #[] g l hsc
        (by simpa [bigScope] using hinv) hc1 hpool1
      obtain ⟨hok1, _, ⟨d, hd⟩, _⟩ := ys_scope hs hok (by simp [GamOK])
      simp only [evalB, sizeB]
      rcases h1 with h1 | h1
      · exact .inl h1
      cases hr : evalS F s st with
      | val u st1 =>
        rw [hr] at h1
        obtain ⟨locs1, g1, l1, n, hn, hinv1, ho1⟩ := h1
        have hl0 : locs1 = #[] := by
          have := hinv1.size; exact Array.eq_empty_of_size_eq_zero this
        subst hl0
        simp only [bigScope, Bool.false_eq_true, ↓reduceIte] at hinv1
        have hinv1' : Inv (W.at Γ1) Γ1 [] 0 st1 #[] g1 l1 :=
          Inv.grow (by intro p hp; rw [hd]; exact List.mem_append_right _ hp) hinv1
        have h2 := ih hD hok1 F st1 g1 l1 hinv1' hc2 hpool
        rw [← Nat.add_assoc]
        exact h2.prefix n hn ho1
      | err er st1 => rw [hr] at h1; exact .inr h1
      | fuel => exact .inr trivial
      | unspec _ => exact .inr trivial
      | brk _ => rw [hr] at h1; exact absurd h1.1 (by simp)
      | cont _ => rw [hr] at h1; exact absurd h1.1 (by simp)
      | ret _ _ => rw [hr] at h1; exact absurd h1.1 (by simp)
  | fdef Γ Γ2 s rest pos cs D fid b k ps nlf body Γb Λb hd hf _ _ _ _ ih =>
    intro hD hok F st g l hinv hcode hpool
    cases F with
    | zero => simp only [evalB]; exact .inr trivial
    | succ F =>
      simp only [emitB] at hcode hpool
      obtain ⟨hc1, hc2⟩ := hcode.append
      rw [emitS_size] at hc2
      have hpool1 : PoolOK2 W.s0.cvals (emitS s pos none cs).2 := hpool.mono (emitB_ext rest _ _ _)
      have hft := hD _ List.mem_cons_self
      have h1 := fdef_step hW hd hf hok hft hinv hc1 hpool1 F
      simp only [evalB, sizeB]
      cases hr : evalS F s st with
      | val u st1 =>
        rw [hr] at h1
        obtain ⟨g1, l1, n, hn, hinv1, ho1⟩ := h1
        have h2 := ih (fun q hq => hD q (List.mem_cons_of_mem _ hq)) (gamOK_cons hok b k hf) F st1 g1 l1 hinv1 hc2 hpool
        rw [← Nat.add_assoc]
        exact h2.prefix n hn ho1
      | fuel => exact .inr trivial
      | err er st1 => rw [hr] at h1; exact h1.elim
      | unspec _ => rw [hr] at h1; exact h1.elim
      | brk _ => rw [hr] at h1; exact h1.elim
      | cont _ => rw [hr] at h1; exact h1.elim
      | ret _ _ => rw [hr] at h1; exact h1.elim

end SimF
end Nl
