/-
  C08 — tokenisation and literals are faithful to the text.
-/
import Nlmodel.Model.Printer
import Nlmodel.Proofs.Lemmas.LexAscii
namespace Nl
namespace C08

/-- a string literal denotes precisely the characters written: decoding the escaped spelling of
    ANY text gives that text back -/
theorem C08_unescape_escape (s : Text) : unescape (escape s) = s := by
  induction s with
  | nil => rfl
  | cons c r ih =>
    by_cases h1 : c = '"'
    · subst h1; simp [escape, unescape, ih]
    · by_cases h2 : c = '\\'
      · subst h2; simp [escape, unescape, ih]
      · by_cases h3 : c = '\n'
        · subst h3; simp [escape, unescape, ih]
        · by_cases h4 : c = '\t'
          · subst h4; simp [escape, unescape, ih]
          · have he : escape (c :: r) = c :: escape r := by
              rw [escape.eq_def]
              split <;> simp_all
            rw [he]
            have hu : unescape (c :: escape r) = c :: unescape (escape r) := by
              rw [unescape.eq_def]
              split <;> simp_all
            rw [hu, ih]

/-- TOKENISATION IS FAITHFUL: for every list of well-formed tokens (identifiers that are not keywords,
    digit strings, `digits.digits`, string bodies whose closing quote is the first unescaped one,
    keywords, operators, punctuation) and EVERY choice of separators — nothing where the
    maximal-munch rule allows it, blanks, tabs, newlines, CRLF, Unicode whitespace, line comments
    (also containing quotes), before, between and after the tokens — tokenizing the rendered text gives
    exactly that token list.  `cc` is any character classification satisfying `LR.CCWF` (the facts
    the check compares with the running Rust `std`: letters/digits/whitespace/punctuation classes). -/
theorem C08_lex_render (cc : CharClass) (h : LR.CCWF cc) (ts : List Token) (ks : List Nat) (hw : ∀ t ∈ ts, LR.WFTok cc t) :
    lex cc (render ts ks) = ts :=
  LR.lex_render h ts none ks hw

/-- a string literal written as `"` + escape(s) + `"` is one token whose body is escape(s), for ANY
    text s (quotes, backslashes, newlines, any Unicode) and whatever follows; with
    `C08_unescape_escape` the literal therefore denotes exactly s -/
theorem C08_string_literal_token (cc : CharClass) (h : LR.CCWF cc) (s r : Text) :
    LR.tok cc ('"' :: escape s ++ '"' :: r) = some (.str (escape s), r) :=
  LR.tok_str h (escape s) r (fun r' => LR.scanStr_escape s r')

/-- the assumptions on the character classes are satisfiable: the ASCII classification meets them -/
theorem C08_ascii_class_wf : LR.CCWF CharClass.ascii := LR.ascii_wf

/-- non-vacuity: `stel x1 = "a\"b" // c` as tokens is well formed -/
example : ∀ t ∈ [Token.kwDeclare, .ident ['x', '1'], .assign, .str (escape ['a', '"', 'b']), .slash, .int ['4', '2'], .lte, .float ['1', '.', '5']],
    LR.WFTok CharClass.ascii t := by
  intro t ht
  simp only [List.mem_cons, List.not_mem_nil, or_false] at ht
  rcases ht with rfl | rfl | rfl | rfl | rfl | rfl | rfl | rfl
  · trivial
  · exact ⟨⟨'x', ['1'], rfl, by decide, by decide⟩, by decide⟩
  · trivial
  · exact fun r => LR.scanStr_escape _ r
  · trivial
  · exact ⟨'4', ['2'], rfl, by decide, by decide⟩
  · trivial
  · exact ⟨'1', [], ['5'], rfl, by decide, by decide, by decide⟩

end C08
end Nl
