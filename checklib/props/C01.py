"""C01 — running a program yields exactly what its source denotes.
Deciding correspondence: real `eval` (value, output, error kind) vs the definitional evaluator
`Spec.evalProgram` run through the Lean front end; diagnostic: vs the machine model."""
import glob
import os

from .. import core, diff, enum, gen

PROOF_MODULE = "Nlmodel.Proofs.C01"
PROOF_FILES = ["Nlmodel/Proofs/C01.lean", "Nlmodel/Model/Pipeline.lean", "Nlmodel/Model/Compiler.lean",
               "Nlmodel/Model/VM.lean", "Nlmodel/Model/Resolve.lean", "Nlmodel/Spec/Eval.lean"]
THEOREM_FILE = PROOF_FILES[0]
LEVEL_TEXT = ("Lean theorems: (1) FORWARD SIMULATION definitional semantics => machine, proved in eight stages by induction on the evaluator's fuel with no bound on program size, depth, iterations or recursion: "
              "scalar expressions; global variables with declarations/assignment/shadowing; structured control flow (als/anders and zolang as values, stop, volgende, nested block scopes with slot reuse); "
              "FUNCTIONS (named/anonymous, first-class, recursion, parameters by position with missing/extra arguments, locals in frame slots, antwoord from any depth, fused local-constant instructions and their mirrored forms) on the flat stack with vm.rs's base-pointer arithmetic. "
              "End to end: for a program of the fragment, the bytes the compiler model emits (code generator, operand-width check, byte encoder), loaded by VM.start and run, give the value of the semantics' result / the same error kind for every large enough budget "
              "(C01_control_flow_program from SOURCE trees including the resolver, C01_function_program from resolved trees); with functions the machine may instead stop at its 65535-slot/frame limit, which the semantics does not have. "
              "(5) HEAP VALUES at top level: floats (boxed on the machine), strings and arrays shared by reference (injective address map growing with each allocation, cell-wise heap relation), string constants copied on evaluation, indexing and index assignment with aliasing, all operators on all value kinds, all seven builtins incl. print (deep views with cycles agree), errors matched after the same printed output; C01_heap_source_program: for a parsed program passing the decidable, proved-sound fragment check the halting value's deep view and the printed output are the definitional ones. "
              "(6) R1 OF THE RESOLVER, NO PER-PROGRAM VALIDATION: C01_function_free_source_program / C01_function_free_eval_text: for EVERY source tree without function literals, user calls and antwoord (a syntactic, decidable condition SimH.SHB on the parsed tree: all literals, operators, assignments to names and indexed elements, lists, indexing, all builtins, als/zolang/blocks/stel, stop/volgende with no operand pending) eval answers what the definitional semantics answers, resolver and code generator included, by induction over the resolver (SimH.resolve_hb); C01_function_program_no_validation: the same for the syntactic fragment with top-level function definitions, calls, recursion, locals in nested block scopes and antwoord (SimF.SrcTop, SimF.resolve_ytop: contexts, slot numbering with reuse, max_size as locals count, distinct function ids). "
              "(7) STAGE 6, HEAP VALUES TOGETHER WITH CALLS, COLLECTIONS INSIDE THE SIMULATION (Sim6*.lean, 5 400 lines): the union of stages 4 and 5 - functions, calls, recursion, locals, antwoord, control flow AND floats, strings, lists, indexing, index assignment, all operators and builtins inside bodies and at top level, arrays holding functions, heap values as arguments/results/globals; the address map between the semantics' store (never frees) and the machine heap shrinks at each collection to what survived (GC lemma Sim6.hinv_gc / C01_collection_is_transparent), what a caller holds is a root and stays related (Keep); C01_heap_and_calls_simulation (all seven statements for every fuel), C01_heap_and_calls_program (by validation), C01_heap_and_calls_eval_text (NO validation: syntactic fragment Sim6.S6Top = everything but nested function literals and stop/volgende under pending operands; evalText = specText or the machine's stack/frame limit). C01_parsed_float_literals_are_plain: the side condition on float literals holds for every parsed program (C01_heap_and_calls_eval_text_syntactic: hypothesis on the SHAPE of the parsed tree only). (8) STAGE 7, NESTED FUNCTION LITERALS (Sim7*.lean, 5 200 lines): literals in every expression position and named declarations in any block; function table of all literals, entry points and function ids pairwise distinct as theorems; bodies checked against the persistent global scope (a literal in a top-level block using a block-scoped global is outside: U1, the property is false there); C01_nested_functions_simulation/_program/_eval_text (validation) and _eval_text_no_validation (syntactic class Sim7.S7Top). (9) STAGE 8, NAMED function literals in every expression position (Sim8*.lean, 3 200 lines; expression judgments with scope outputs; C01_named_literals_simulation, C01_named_literals_eval_text by validation). "
              "(2) the semantics is well defined: more fuel never changes a finished evaluation (whole language); more budget never changes a finished run. "
              "Outside the proved fragments (a named literal referring to itself from inside a larger expression; literals in top-level blocks using block-scoped globals - U1; stop/volgende under pending operands, where the property is false - finding K3; the machine's 65535-slot/frame limit) the property is decided by the correspondence: "
              "the real eval (value, printed output, error kind) against the definitional evaluator Spec.evalProgram on bounded-exhaustive, boundary and type-directed random programs, and against the machine model (steps, stack at Halt, collections). SESSION 7: DIVERGENCE PRESERVATION for stages 3, 6 and 7 (C01_control_flow_divergence, C01_heap_and_calls_divergence, C01_nested_functions_divergence): a text of the syntactic fragment whose definitional evaluation runs out of every fuel exhausts every instruction budget on the machine (or, with calls, stops for good at the machine's stack/frame limit, reported as an index error) - by a second induction on the fuel, parallel to the forward simulation, with the quantitative bound 'out of fuel with fuel f => at least (f + K - d)/K further instructions'; and the CONVERSE of the forward theorems (C01_*_machine_answer_is_definitional): whatever the machine answers within some budget - other than the limit - is the definitional answer for some fuel (or the text is one of the unspecified behaviours, witness C01_converse_needs_unspec); non-vacuity: three programs proved divergent for every fuel, and the counting loop proved NOT divergent (it ends in the range error). THE MACHINE-LIMIT DISJUNCT IS PRECISE (after the audit): AtLimit = the failing instruction is a Call whose stack/frame limit test fails; HitsLimit / TextHitsLimit at program / text level replace 'some index error' in every forward, divergence and converse theorem with calls; C01_limit_is_observable; C01_ordinary_index_error_is_definitional (the converse applies to an ordinary index error, non-vacuously).")
LEVEL_NOTE = ("Trusted: Lean kernel (axioms propext, Classical.choice, Quot.sound); the hand-written model is tied to the code by the correspondence only; harness/driver I/O; Rust std. "
              "Partial: the simulation theorem covers the whole language except self-referring named literals inside larger expressions, U1 and K3 shapes (where the property is false); divergence preservation is proved for stages 3, 6, 7 and 8 (session 7) with the machine's limit as a disjunct once calls exist; the resolver part (R1) is proved for the control-flow fragment, the whole function-free language (stage 5), the syntactic function fragment (stage 4) the stage-6 fragment and the stage-7 class (nested literals at top level outside blocks and anywhere inside bodies); outside those syntactic fragments the end-to-end theorems go through the proved-sound per-program validation (inFragment / inFragmentH).")
TECHNIQUE = 'Lean 4 proof (forward simulation definitional semantics => bytecode machine by induction on fuel; fuel/budget monotonicity) + differential correspondence eval vs Spec.eval vs machine model'
RULE = ("programs: (a) bounded-exhaustive over the template grammar of checklib/enum.py, (b) type-directed "
        "random programs (checklib/gen.py) of 5-60 nodes, (c) the repository's examples/*.nl; a case is "
        "non-trivial when implementation and definitional semantics both produced a value or a "
        "documented error (not excluded as unspecified/budget) and the program ran at least one "
        "statement; distinct by text")


def cases(tier, rng):
    out = []
    ex = sorted(glob.glob(os.path.join(core.REPO, "examples", "*.nl")))
    for f in ex:
        out.append(("example", open(f, encoding="utf-8").read()))
    allp = list(enum.programs(2))
    if tier == "quick":
        stride = max(1, len(allp) // 1500)
        off = rng.below(stride)
        allp = allp[off::stride]
    for p in allp:
        out.append(("enum", p))
    for p in enum.boundary_programs():
        out.append(("boundary", p))
    for p in enum.same_object_programs():
        out.append(("same-object", p))
    sf = enum.signed_fused_programs()
    for p in sf:
        out.append(("signed-fused", p))
    n = 1500 if tier == "quick" else 20000
    for _ in range(n):
        src, _ = gen.random_program(rng.fork())
        out.append(("random", src))
    for _ in range(600 if tier == "quick" else 8000):
        out.append(("fragment", frag_program(rng.fork())))
    # layout never matters: the same programs with comments (ASCII and multi-byte text) and blank lines woven in
    for label, src in [c for c in out if c[0] == "random"][: (300 if tier == "quick" else 4000)]:
        out.append(("random-commented", decorate(rng, src)))
    from .. import gen2
    from . import C03
    out += gen2.big_code_programs()[:4]
    out += [("iife", p) for p in gen2.iife_programs()]
    out += [("rebinding", p) for p in gen2.rebinding_programs()]
    out += [("stale-slots", p) for p in gen2.stale_slot_programs()]
    ts = gen2.tail_shape_programs()
    out += [("tail-shapes", p) for p in (ts[rng.below(3)::3] if tier == "quick" else ts)]
    for _ in range(150 if tier == "quick" else 2000):
        out.append(("fn-values", gen2.fnvalue_program(rng.fork())))
        out.append(("nested-fn", gen2.nested_fn_program(rng.fork())))
        out.append(("heap-shapes", C03.heap_program(rng.fork())))
    return out


COMMENTS = ["// c", "//", "// één → 😀 日本語", "//é", "// \"tekst\" { } stel x = 1", "//// ", "// ë"]


def decorate(rng, src):
    """append line comments to lines, insert comment-only and blank lines (generated programs never break a line
    inside a string literal, so every line end is a token boundary)"""
    out = []
    for l in src.split("\n"):
        if rng.chance(1, 4):
            out.append(rng.pick(["", "  " + rng.pick(COMMENTS), "\t"]))
        out.append(l + (" " + rng.pick(COMMENTS) if rng.chance(1, 3) else ""))
    return "\n".join(out) + "\n" + rng.pick(COMMENTS)


def frag_program(rng):
    """programs INSIDE the fragment the simulation theorem covers (integers, booleans, global variables, functions with
    parameters and locals, recursion, als/zolang as statements and as values, stop/volgende in statement position,
    antwoord from loops and branches): the theorem and the correspondence meet on these"""
    lines = ["stel g0 = %d; stel g1 = %d;" % (rng.below(9), rng.below(9))]
    fns = []

    def ex(vis, d):
        """integer-valued expression (a deliberate type or arity slip now and then, for the error paths)"""
        c = rng.below(16)
        if d == 0 or c < 3:
            return rng.pick(vis) if vis and rng.chance(2, 3) else str(rng.below(30))
        if c < 6 and fns:
            f, n = rng.pick(fns)
            k = n if rng.chance(9, 10) else rng.pick([max(0, n - 1), n + 1, n + 4])
            return "%s(%s)" % (f, ", ".join(ex(vis, d - 1) for _ in range(k)))
        if c == 6:
            return "als %s { %s } anders { %s }" % (cond(vis, d - 1), ex(vis, d - 1), ex(vis, d - 1))
        if c == 7 and vis:
            return "(%s = %s)" % (rng.pick(vis), ex(vis, d - 1))
        if c == 8:
            return "-%s" % ex(vis, 0)
        if c == 9 and rng.chance(1, 6):
            return cond(vis, d - 1)          # a boolean where an integer is expected
        if c == 10:
            return "(%s %s %s)" % (ex(vis, d - 1), rng.pick(["/", "%"]), rng.pick(["1", "2", "3", "7", ex(vis, d - 1)]))
        return "(%s %s %s)" % (ex(vis, d - 1), rng.pick(["+", "-", "*", "+", "-"]), ex(vis, d - 1))

    def cond(vis, d):
        c = rng.below(8)
        if c == 0:
            return rng.pick(["ja", "nee"])
        if c == 1 and d > 0:
            return "!%s" % cond(vis, d - 1)
        if c == 2 and d > 0:
            return "(%s %s %s)" % (cond(vis, d - 1), rng.pick(["&&", "||", "==", "!="]), cond(vis, d - 1))
        return "(%s %s %s)" % (ex(vis, max(d - 1, 0)), rng.pick(["<", "<=", ">", ">=", "==", "!="]), ex(vis, max(d - 1, 0)))

    def body(vis, ind, d, in_fn, in_loop):
        out = []
        vis = list(vis)
        for _ in range(rng.range(1, 4)):
            c = rng.below(10)
            if c < 2:
                n = "l%d" % len(vis)
                out.append(ind + "stel %s = %s;" % (n, ex(vis, 2)))
                vis.append(n)
            elif c == 2 and vis:
                out.append(ind + "%s = %s;" % (rng.pick(vis), ex(vis, 2)))
            elif c == 3 and d < 3:
                out.append(ind + "als %s {" % cond(vis, 2))
                out += body(vis, ind + "  ", d + 1, in_fn, in_loop)
                out.append(ind + "} anders {")
                out += body(vis, ind + "  ", d + 1, in_fn, in_loop)
                out.append(ind + "};")
            elif c == 4 and d < 3:
                i = "i%d" % len(vis)
                out.append(ind + "stel %s = 0;" % i)
                out.append(ind + "zolang %s < %d {" % (i, rng.range(0, 5)))
                out.append(ind + "  %s = %s + 1;" % (i, i))
                out += body(vis + [i], ind + "  ", d + 1, in_fn, True)
                out.append(ind + "};")
                vis.append(i)
            elif c == 5 and in_loop:
                out.append(ind + "als %s { %s };" % (cond(vis, 1), rng.pick(["stop", "volgende"])))
            elif c == 6 and in_fn:
                out.append(ind + "als %s { antwoord %s };" % (cond(vis, 1), ex(vis, 1)))
            elif c == 7 and d < 3:
                out.append(ind + "{")
                out += body(vis, ind + "  ", d + 1, in_fn, in_loop)
                out.append(ind + "};")
            else:
                out.append(ind + ex(vis, 3) + ";")
        return out

    for k in range(rng.range(1, 4)):
        ps = ["p%d" % i for i in range(rng.below(4))]
        if rng.chance(1, 3):
            lines.append("functie rec%d(n, acc) { als n < 1 { antwoord acc }; rec%d(n - 1, acc + n) };" % (k, k))
            fns.append(("rec%d" % k, 2))
        b = body(ps + ["g0", "g1"], "  ", 1, True, False)
        form = rng.below(3)
        head = "functie f%d(%s) {" % (k, ", ".join(ps)) if form < 2 else "stel f%d = functie(%s) {" % (k, ", ".join(ps))
        lines.append(head + "\n" + "\n".join(b) + "\n  " + ex(ps + ["g0", "g1"], 2) + "\n};")
        fns.append(("f%d" % k, len(ps)))
    lines += body(["g0", "g1"], "", 0, False, False)
    lines.append(rng.pick([ex(["g0", "g1"], 3), cond(["g0", "g1"], 2), "[g0, g1][0]" if rng.chance(1, 8) else ex(["g0", "g1"], 2)]))
    return "\n".join(lines)


def report(res, r, kind, detail, label):
    def still(src):
        k, _ = diff.classify(diff.one(src, per_request_timeout=20.0))
        return k == kind
    src = r["src"]
    small = diff.shrink_lines(src, still, max_rounds=60) if len(src) < 4000 else src
    rr = diff.one(small)
    k2, d2 = diff.classify(rr)
    if k2 != kind:
        small, rr, d2 = src, r, detail
    what = {"spec-mismatch": "evaluation differs from the definitional semantics of the source",
            "impl-bad": "evaluation crashed, faulted or corrupted the heap",
            "model-mismatch": "the machine model no longer corresponds to vm.rs/compiler.rs"}[kind]
    res.violation(what, dict(kind=kind, input=small, original=src if small != src else None,
                             impl=rr["impl"], spec=rr.get("spec"), model=rr["model"], detail=d2,
                             generator=label),
                  no_input=(kind == "model-mismatch"))


def run(res, tier, rng, table_diffs=()):
    cs = cases(tier, rng)
    rs = diff.eval_all([c[1] for c in cs])
    reported = {}
    for (label, _), r in zip(cs, rs):
        kind, detail = diff.classify(r)
        res.count(label)
        res.count("outcome:" + kind)
        io = diff.obs(r["impl"])
        res.count("impl:" + " ".join(io.split(" ")[:2]) if io.startswith("err") else "impl:" + io.split(" ")[0])
        res.seen(r["src"], nontrivial=(kind == "ok"))
        if kind in ("spec-mismatch", "impl-bad", "model-mismatch"):
            if reported.get(kind, 0) < 3:
                reported[kind] = reported.get(kind, 0) + 1
                report(res, r, kind, detail, label)
            else:
                res.count("unreported-" + kind)
    # how much of what was compared lies inside the fragment the simulation theorem covers (proved-sound check `SimF.inFragment`)
    fr = core.model(["fragment " + core.hx(c[1]) for c in cs])
    for (label, _), a in zip(cs, fr):
        res.count("theorem-fragment:" + a)
        res.count("theorem-fragment:%s:%s" % (label, a))
    if table_diffs and not res.violations:
        res.violation("the model's tables differ from the code's", dict(kind="tables", diffs=list(table_diffs)[:10],
                                                                          unchecked="table correspondence"), no_input=True)


def replay(res, rp):
    r = diff.one(rp["input"])
    kind, detail = diff.classify(r)
    print("replay:", kind, detail)
    print(" impl :", r["impl"][:300])
    print(" spec :", (r.get("spec") or "")[:300])
    print(" model:", r["model"][:300])
    if kind in ("spec-mismatch", "impl-bad", "model-mismatch"):
        print("VIOLATION property=C01 replay=%s" % "replay")
        return 1
    return 0
