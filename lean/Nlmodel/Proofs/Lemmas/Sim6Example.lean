/- Stage 6: non-vacuity — a program with a recursive function that builds, passes, returns and prints heap values
   passes the validation (kernel-evaluated), so the end-to-end theorems apply to it. -/
import Nlmodel.Proofs.Lemmas.Sim6Check
namespace Nl
namespace Sim6

/-- `functie f(n) { als n < 1 { antwoord [] }; stel a = f(n - 1); [n, a, "x", 1.5] }; print(f(3)); f(2)` -/
def ex6Ast : Block :=
  .cons (.expr (.func "f".toList ["n".toList]
    (.cons (.expr (.ifE (.infix (.ident "n".toList) .lt (.int 1)) (.cons (.ret (.arr .nil)) .nil) .none))
    (.cons (.letS "a".toList (.call (.ident "f".toList) (.cons (.infix (.ident "n".toList) .sub (.int 1)) .nil)))
    (.cons (.expr (.arr (.cons (.ident "n".toList) (.cons (.ident "a".toList) (.cons (.str "x".toList) (.cons (.float 0x3FF8000000000000) .nil)))))) .nil)))))
  (.cons (.expr (.call (.ident "print".toList) (.cons (.call (.ident "f".toList) (.cons (.int 3) .nil)) .nil)))
  (.cons (.expr (.call (.ident "f".toList) (.cons (.int 2) .nil))) .nil))

/-- non-vacuity: the program (recursion, locals, `antwoord`, array literals holding an integer local, a returned array,
    a string and a float; `print` of a returned nested array) passes the stage-6 validation -/
example : (match compileProgram ex6Ast with | .ok (r, _) => inFragment6 r | .error _ => false) = true := by decide

/-- `stel g = functie(a, i) { a[i] = [a, g]; a }; stel x = g([0.5, "s"], 1); lengte(x[1])`:
    index assignment inside a body, an array holding itself (a cycle) and a function value, heap values as arguments -/
def ex6Ast2 : Block :=
  .cons (.letS "g".toList (.func [] ["a".toList, "i".toList]
    (.cons (.expr (.assign (.index (.ident "a".toList) (.ident "i".toList)) (.arr (.cons (.ident "a".toList) (.cons (.ident "g".toList) .nil)))))
    (.cons (.expr (.ident "a".toList)) .nil))))
  (.cons (.letS "x".toList (.call (.ident "g".toList) (.cons (.arr (.cons (.float 0x3FE0000000000000) (.cons (.str "s".toList) .nil))) (.cons (.int 1) .nil))))
  (.cons (.expr (.call (.ident "lengte".toList) (.cons (.index (.ident "x".toList) (.int 1)) .nil))) .nil))

example : (match compileProgram ex6Ast2 with | .ok (r, _) => inFragment6 r | .error _ => false) = true := by decide

end Sim6
end Nl
