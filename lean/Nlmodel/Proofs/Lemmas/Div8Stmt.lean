/- Stage 8, divergence preservation: statements, blocks in statement and in value position, function bodies, and the
   induction on the fuel for all seven syntactic classes together (`dall8`, the counterpart of `pall8`). -/
import Nlmodel.Proofs.Lemmas.Div8Ctl
namespace Nl
namespace Sim8
open Spec Sim Sim6 Sim7
open SimH (AMap isStrCell isArrCell Grow PoolH MemOK sameKind LitF)
open SimF (FT FnInfo FTInj paramScope bigScope)

section
variable {W : World} {K : Nat}

theorem ds8_succ (f : Nat) (ihd : DAll8 W K f) : DS8 W K (f + 1) := by
  intro Δ nl fn Γ Γx Λ ab s Γ1 Λ1 hx c lp cs below fr hsc hinv hwt hcode hext hft hfuel
  cases hx with
  | expr _ _ _ e _ _ he =>
    simp only [emitS] at hcode hext
    rw [evalS_expr] at hfuel
    exact de8_unary f ihd.e e he hsc hinv hwt (by simp only [dS]; omega) (fun _ _ h => by cases h) hcode.append.1 hext hft.expr hfuel
  | letG _ _ _ b k e _ _ hfn hf he =>
    subst hfn
    simp only [bigScope, Bool.false_eq_true, ↓reduceIte] at hinv
    have hokb : GamOK Γ := by have := hsc.okb; simpa [bigScope] using this
    have hsc' : Sc7 W Δ false ((b, k) :: Γ) Γx Λ :=
      ⟨by simpa [bigScope] using gamOK_cons hokb b k hf, hsc.okl, by simp [bigScope],
       fun p hp => by have := hsc.psub p hp; simp only [bigScope, Bool.false_eq_true, ↓reduceIte] at this ⊢; exact List.mem_cons_of_mem _ this, hsc.pi⟩
    simp only [emitS, setVar] at hcode hext
    obtain ⟨hc1, hc2⟩ := hcode.append
    rw [evalS_let] at hfuel
    have hf0 := bindR_fuel_leaf (fun _ _ h => by cases h) hfuel
    have hinv0 := inv6_unbindG b k hf hinv c.ip c.ops
    have h0 := ihd.e nl false ((b, k) :: Γ) Γx Λ ab e _ _ he ⟨c.μ, c.st.unbind ⟨b, .global k⟩, c.ip, c.locs, c.ops, c.g, c.l, c.m, c.out⟩ lp cs below fr hsc'
      (by simpa [bigScope] using hinv0) hwt hc1 hext hft.letS hf0
    exact h0.mono (hb_child (by simp only [dS]; omega))
  | letL _ _ _ b k e _ _ hfn hf hk he =>
    subst hfn
    simp only [bigScope, ↓reduceIte] at hinv
    have hsc' : Sc7 W Δ true Γ Γx ((b, k) :: Λ) := ⟨hsc.okb, gamOK_cons hsc.okl b k hf, hsc.sub, hsc.psub, hsc.pi⟩
    simp only [emitS, setVar] at hcode hext
    obtain ⟨hc1, hc2⟩ := hcode.append
    rw [evalS_let] at hfuel
    have hf0 := bindR_fuel_leaf (fun _ _ h => by cases h) hfuel
    have hinv0 := inv6_unbindL b k hf hinv c.ip c.ops
    have h0 := ihd.e nl true Γ Γx ((b, k) :: Λ) ab e _ _ he ⟨c.μ, c.st.unbind ⟨b, .loc k⟩, c.ip, c.locs, c.ops, c.g, c.l, c.m, c.out⟩ lp cs below fr hsc'
      (by simpa [bigScope] using hinv0) hwt hc1 hext hft.letS hf0
    exact h0.mono (hb_child (by simp only [dS]; omega))
  | block _ _ _ b Γ2 Λ2 hb =>
    simp only [emitS] at hcode hext
    simp only [evalS] at hfuel
    exact (ihd.b nl fn Γ Γx Λ ab b Γ2 Λ2 hb c lp cs below fr hsc hinv hwt hcode hext hft.block hfuel).mono (hb_child (by simp only [dS]; omega))
  | brk _ _ => simp [evalS] at hfuel
  | cont _ _ => simp [evalS] at hfuel
  | ret _ _ _ e _ _ hfn he =>
    simp only [emitS] at hcode hext
    rw [evalS_ret] at hfuel
    exact de8_unary f ihd.e e he hsc hinv hwt (by simp only [dS]; omega) (fun _ _ h => by cases h) hcode.append.1 hext hft.ret hfuel
theorem db8_succ (f : Nat) (ih : PAll8 W f) (ihd : DAll8 W K f) : DB8 W K (f + 1) := by
  intro Δ nl fn Γ Γx Λ ab b Γ2 Λ2 hx c lp cs below fr hsc hinv hwt hcode hext hft hfuel
  cases hx with
  | nil _ _ _ => simp [evalB] at hfuel
  | cons _ _ _ Γ1 Λ1 _ _ s rest hs hrest =>
    simp only [emitB] at hcode hext
    obtain ⟨hc1, hc2⟩ := hcode.append
    rw [emitS_size] at hc2
    have hext1 : Ext (emitS s c.ip lp cs).2 W.CS := (emitB_ext rest _ _ _).trans hext
    obtain ⟨hsc1, _, _⟩ := sc7_stepS hsc hs
    rw [evalB_cons] at hfuel
    refine DivG.bind hfuel (ih.s nl fn Γ Γx Λ ab s Γ1 Λ1 hs c lp cs below fr hsc hinv hwt hc1 hext1 hft.cons.1) ?_ ?_
    · intro hf
      exact (ihd.s nl fn Γ Γx Λ ab s Γ1 Λ1 hs c lp cs below fr hsc hinv hwt hc1 hext1 hft.cons.1 hf).mono (hb_child (by simp only [dB]; omega))
    rintro u st1 - ⟨μ1, m1, locs1, g1, l1, out1, n, hn, hinv1, hk1⟩ hfuel2
    have hwt1 := wt_execN n _ _ hwt hn
    exact DivG.after hn ((ihd.b nl fn Γ1 Γx Λ1 ab rest Γ2 Λ2 hrest ⟨μ1, st1, c.ip + sizeS s, locs1, c.ops, g1, l1, m1, out1⟩ lp _ below fr
      hsc1 hinv1 hwt1 hc2 hext hft.cons.2 hfuel2).mono (hb_child (by simp only [dB]; omega)))

/-! ### blocks in value position -/

theorem dbv8_novalue (f : Nat) (ihd : DAll8 W K f) {Δ : Gam} {nl : Nat} {fn : Bool} {Γ Γx Λ Γ1 Λ1 : Gam} {ab : Bool} (s : RStmt)
    (hs : Z8S Δ nl fn Γ Λ ab s Γ1 Λ1) {c : Cfg} {lp : LoopCtx} {cs : List Const} {below : Array Value} {fr : List Frame}
    (hsc : Sc7 W Δ fn Γ Γx Λ) (hinv : Inv6 W (bigScope fn Γ Γx) Λ nl c) (hwt : TI.WT (c.vm W below fr))
    (heval : evalBV (f + 1) (.cons s .nil) c.st = Sim.liftU (evalS f s c.st) (fun st1 => .val .null st1))
    (hasv : ∀ is, asValue (.cons s .nil) is = is ++ [.null])
    (hcode : CodeAt W.C c.ip (asValue (.cons s .nil) (emitB (.cons s .nil) c.ip lp cs).1))
    (hext : Ext (emitB (.cons s .nil) c.ip lp cs).2 W.CS) (hft : FtB W.ft Δ (.cons s .nil) c.ip lp cs)
    (hfuel : evalBV (f + 1) (.cons s .nil) c.st = .fuel) :
    DivG W.C (c.vm W below fr) (hb K (f + 1) (dB (.cons s .nil))) := by
  rw [hasv] at hcode
  simp only [emitB, List.append_nil] at hcode hext
  obtain ⟨hc1, hc2⟩ := hcode.append
  rw [heval, liftU_bindR] at hfuel
  have hf0 := bindR_fuel_leaf (fun _ _ h => by cases h) hfuel
  exact (ihd.s nl fn Γ Γx Λ ab s Γ1 Λ1 hs c lp cs below fr hsc hinv hwt hc1 hext hft.single hf0).mono (hb_child (by simp only [dB]; omega))

theorem dbv8_succ (f : Nat) (ih : PAll8 W f) (ihd : DAll8 W K f) : DBV8 W K (f + 1) := by
  intro Δ nl fn Γ Γx Λ ab b Γ2 Λ2 hx c lp cs below fr hsc hinv hwt hcode hext hft hfuel
  cases hx with
  | nil _ _ _ => simp [evalBV] at hfuel
  | cons _ _ _ Γ1 Λ1 _ _ s rest hs hrest =>
    cases rest with
    | nil =>
      cases hrest
      cases hs with
      | expr _ _ _ e _ _ he =>
        have hcode' : CodeAt W.C c.ip (emitE e c.ip lp cs).1 := by
          simpa [asValue, RBlock.tailKind, emitB, emitS] using hcode
        have hext' : Ext (emitE e c.ip lp cs).2 W.CS := by simpa [emitB, emitS] using hext
        simp only [evalBV] at hfuel
        exact (ihd.e nl fn Γ Γx Λ ab e _ _ he c lp cs below fr hsc hinv hwt hcode' hext' hft.single.expr hfuel).mono
          (hb_child (by simp only [dB, dS]; omega))
      | block _ _ _ b' Γ3 Λ3 hb' =>
        cases b' with
        | nil =>
          exact dbv8_novalue f ihd _ (.block _ _ _ _ _ _ hb') hsc hinv hwt (by simp only [evalBV]; exact liftU_eq _ _)
            (by intro c; simp [asValue, RBlock.tailKind]) hcode hext hft hfuel
        | cons s' b'' =>
          have hcode' : CodeAt W.C c.ip (asValue (.cons s' b'') (emitB (.cons s' b'') c.ip lp cs).1) := by
            have : (emitB (.cons (.block (.cons s' b'')) .nil) c.ip lp cs).1 = (emitB (.cons s' b'') c.ip lp cs).1 := by
              simp [emitB, emitS]
            rw [this] at hcode
            simpa [asValue, RBlock.tailKind] using hcode
          have hext' : Ext (emitB (.cons s' b'') c.ip lp cs).2 W.CS := by
            have : (emitB (.cons (.block (.cons s' b'')) .nil) c.ip lp cs).2 = (emitB (.cons s' b'') c.ip lp cs).2 := by
              simp [emitB, emitS]
            rw [this] at hext; exact hext
          simp only [evalBV] at hfuel
          exact (ihd.bv nl fn Γ Γx Λ ab _ Γ3 Λ3 hb' c lp cs below fr hsc hinv hwt hcode' hext' hft.single.block hfuel).mono
            (hb_child (by simp only [dB, dS]; omega))
      | letG _ _ _ bb k e _ _ hfn hf he =>
        exact dbv8_novalue f ihd _ (.letG _ _ _ bb k e _ _ hfn hf he) hsc hinv hwt (by simp only [evalBV]; exact liftU_eq _ _)
          (by intro c; simp [asValue, RBlock.tailKind]) hcode hext hft hfuel
      | letL _ _ _ bb k e _ _ hfn hf hk he =>
        exact dbv8_novalue f ihd _ (.letL _ _ _ bb k e _ _ hfn hf hk he) hsc hinv hwt (by simp only [evalBV]; exact liftU_eq _ _)
          (by intro c; simp [asValue, RBlock.tailKind]) hcode hext hft hfuel
      | brk _ _ =>
        exact dbv8_novalue f ihd _ (.brk _ _) hsc hinv hwt (by simp only [evalBV]; exact liftU_eq _ _)
          (by intro c; simp [asValue, RBlock.tailKind]) hcode hext hft hfuel
      | cont _ _ =>
        exact dbv8_novalue f ihd _ (.cont _ _) hsc hinv hwt (by simp only [evalBV]; exact liftU_eq _ _)
          (by intro c; simp [asValue, RBlock.tailKind]) hcode hext hft hfuel
      | ret _ _ _ e _ _ hfn he =>
        exact dbv8_novalue f ihd _ (.ret _ _ _ e _ _ hfn he) hsc hinv hwt (by simp only [evalBV]; exact liftU_eq _ _)
          (by intro c; simp [asValue, RBlock.tailKind]) hcode hext hft hfuel
    | cons s2 rest2 =>
      have e1 : (emitB (.cons s (.cons s2 rest2)) c.ip lp cs).1 =
          (emitS s c.ip lp cs).1 ++ (emitB (.cons s2 rest2) (c.ip + sizeS s) lp (emitS s c.ip lp cs).2).1 := by rw [emitB]
      have e2 : (emitB (.cons s (.cons s2 rest2)) c.ip lp cs).2 =
          (emitB (.cons s2 rest2) (c.ip + sizeS s) lp (emitS s c.ip lp cs).2).2 := by rw [emitB]
      have hcode' := hcode
      rw [e1, asValue_seq] at hcode'
      rw [e2] at hext
      obtain ⟨hc1, hc2⟩ := hcode'.append
      rw [emitS_size] at hc2
      have hext1 : Ext (emitS s c.ip lp cs).2 W.CS := (emitB_ext _ _ _ _).trans hext
      obtain ⟨hsc1, _, _⟩ := sc7_stepS hsc hs
      have heval : evalBV (f + 1) (.cons s (.cons s2 rest2)) c.st = Sim.liftU (evalS f s c.st) (fun st1 => evalBV f (.cons s2 rest2) st1) := by
        cases s <;> (simp only [evalBV]; exact liftU_eq _ _)
      rw [heval, liftU_bindR] at hfuel
      refine DivG.bind hfuel (ih.s nl fn Γ Γx Λ ab s Γ1 Λ1 hs c lp cs below fr hsc hinv hwt hc1 hext1 hft.cons.1) ?_ ?_
      · intro hf
        exact (ihd.s nl fn Γ Γx Λ ab s Γ1 Λ1 hs c lp cs below fr hsc hinv hwt hc1 hext1 hft.cons.1 hf).mono (hb_child (by simp only [dB]; omega))
      rintro u st1 - ⟨μ1, m1, locs1, g1, l1, out1, n, hn, hinv1, hk1⟩ hfuel2
      have hwt1 := wt_execN n _ _ hwt hn
      exact DivG.after hn ((ihd.bv nl fn Γ1 Γx Λ1 ab (.cons s2 rest2) Γ2 Λ2 hrest ⟨μ1, st1, c.ip + sizeS s, locs1, c.ops, g1, l1, m1, out1⟩ lp _
        below fr hsc1 hinv1 hwt1 hc2 hext hft.cons.2 hfuel2).mono (hb_child (by simp only [dB]; omega)))

/-! ### function bodies -/

theorem dbf8_novalue (f : Nat) (ihd : DAll8 W K f) {Δ : Gam} {nl : Nat} {Γ Γx Λ Γ1 Λ1 : Gam} (s : RStmt) (hs : Z8S Δ nl true Γ Λ false s Γ1 Λ1)
    {μ : AMap} {st : SState} {ip : Nat} {locs g : Array Value} {l : Value} {m : Mem} {out : List Text} {cs : List Const}
    {below : Array Value} {fr : List Frame}
    (hsc : Sc7 W Δ true Γ Γx Λ) (hinv : Inv6 W Γx Λ nl ⟨μ, st, ip, locs, #[], g, l, m, out⟩)
    (hwt : TI.WT (Cfg.vm W below fr ⟨μ, st, ip, locs, #[], g, l, m, out⟩))
    (heval : evalBV (f + 1) (.cons s .nil) st = Sim.liftU (evalS f s st) (fun st1 => .val .null st1))
    (hasf : ∀ is, asFnBody (.cons s .nil) is = is ++ [.ret])
    (hcode : CodeAt W.C ip (asFnBody (.cons s .nil) (emitB (.cons s .nil) ip none cs).1))
    (hext : Ext (emitB (.cons s .nil) ip none cs).2 W.CS) (hft : FtB W.ft Δ (.cons s .nil) ip none cs)
    (hfuel : evalBV (f + 1) (.cons s .nil) st = .fuel) :
    DivG W.C (Cfg.vm W below fr ⟨μ, st, ip, locs, #[], g, l, m, out⟩) (hb K (f + 1) (dB (.cons s .nil))) := by
  rw [hasf] at hcode
  simp only [emitB, List.append_nil] at hcode hext
  obtain ⟨hc1, hc2⟩ := hcode.append
  rw [heval, liftU_bindR] at hfuel
  have hf0 := bindR_fuel_leaf (fun _ _ h => by cases h) hfuel
  exact (ihd.s nl true Γ Γx Λ false s Γ1 Λ1 hs ⟨μ, st, ip, locs, #[], g, l, m, out⟩ none cs below fr hsc
    (by simpa [bigScope] using hinv) hwt hc1 hext hft.single hf0).mono (hb_child (by simp only [dB]; omega))

theorem dbf8_succ (f : Nat) (ih : PAll8 W f) (ihd : DAll8 W K f) : DBF8 W K (f + 1) := by
  intro Δ nl Γ Γx Λ b Γ2 Λ2 hx c cs below fr hops hsc hinv hwt hcode hext hft hfuel
  obtain ⟨μ, st, ip, locs, ops, g, l, m, out⟩ := c
  simp only at hops hfuel
  subst hops
  cases hx with
  | nil _ _ _ => simp [evalBV] at hfuel
  | cons _ _ _ Γ1 Λ1 _ _ s rest hs hrest =>
    cases rest with
    | nil =>
      cases hrest
      cases hs with
      | expr _ _ _ e _ _ he =>
        have hcode' : CodeAt W.C ip ((emitE e ip none cs).1 ++ [.retv]) := by
          simpa [asFnBody, RBlock.tailKind, emitB, emitS] using hcode
        obtain ⟨hc1, hc2⟩ := hcode'.append
        have hext' : Ext (emitE e ip none cs).2 W.CS := by simpa [emitB, emitS] using hext
        simp only [evalBV] at hfuel
        exact (ihd.e nl true Γ Γx Λ false e _ _ he ⟨μ, st, ip, locs, #[], g, l, m, out⟩ none cs below fr hsc
          (by simpa [bigScope] using hinv) hwt hc1 hext' hft.single.expr hfuel).mono (hb_child (by simp only [dB, dS]; omega))
      | block _ _ _ b' Γ3 Λ3 hb' =>
        cases b' with
        | nil =>
          exact dbf8_novalue f ihd _ (.block _ _ _ _ _ _ hb') hsc hinv hwt (by simp only [evalBV]; exact liftU_eq _ _)
            (by intro c; simp [asFnBody, RBlock.tailKind]) hcode hext hft hfuel
        | cons s' b'' =>
          have hcode' : CodeAt W.C ip (asFnBody (.cons s' b'') (emitB (.cons s' b'') ip none cs).1) := by
            have : (emitB (.cons (.block (.cons s' b'')) .nil) ip none cs).1 = (emitB (.cons s' b'') ip none cs).1 := by
              simp [emitB, emitS]
            simp only at hcode
            rw [this] at hcode
            simpa [asFnBody, RBlock.tailKind] using hcode
          have hext' : Ext (emitB (.cons s' b'') ip none cs).2 W.CS := by
            have : (emitB (.cons (.block (.cons s' b'')) .nil) ip none cs).2 = (emitB (.cons s' b'') ip none cs).2 := by
              simp [emitB, emitS]
            simp only at hext
            rw [this] at hext; exact hext
          simp only [evalBV] at hfuel
          exact (ihd.bf nl Γ Γx Λ _ Γ3 Λ3 hb' ⟨μ, st, ip, locs, #[], g, l, m, out⟩ cs below fr rfl hsc hinv hwt hcode' hext' hft.single.block hfuel).mono
            (hb_child (by simp only [dB, dS]; omega))
      | letG _ _ _ bb k e _ _ hfn hf he => cases hfn
      | letL _ _ _ bb k e _ _ hfn hf hk he =>
        exact dbf8_novalue f ihd _ (.letL _ _ _ bb k e _ _ hfn hf hk he) hsc hinv hwt (by simp only [evalBV]; exact liftU_eq _ _)
          (by intro c; simp [asFnBody, RBlock.tailKind]) hcode hext hft hfuel
      | ret _ _ _ e _ _ hfn he =>
        have hcode' : CodeAt W.C ip (emitS (.ret e) ip none cs).1 := by
          simpa [asFnBody, RBlock.tailKind, emitB] using hcode
        have hext' : Ext (emitS (.ret e) ip none cs).2 W.CS := by simpa [emitB] using hext
        have heval : evalBV (f + 1) (.cons (.ret e) .nil) st = Sim.liftU (evalS f (.ret e) st) (fun st1 => .val .null st1) := by
          simp only [evalBV]; exact liftU_eq _ _
        rw [heval, liftU_bindR] at hfuel
        have hf0 := bindR_fuel_leaf (fun _ _ h => by cases h) hfuel
        exact (ihd.s nl true Γ Γx Λ false (.ret e) _ _ (.ret _ _ _ e _ _ hfn he) ⟨μ, st, ip, locs, #[], g, l, m, out⟩ none cs below fr hsc
          (by simpa [bigScope] using hinv) hwt hcode' hext' hft.single hf0).mono (hb_child (by simp only [dB]; omega))
    | cons s2 rest2 =>
      have e1 : (emitB (.cons s (.cons s2 rest2)) ip none cs).1 =
          (emitS s ip none cs).1 ++ (emitB (.cons s2 rest2) (ip + sizeS s) none (emitS s ip none cs).2).1 := by rw [emitB]
      have e2 : (emitB (.cons s (.cons s2 rest2)) ip none cs).2 =
          (emitB (.cons s2 rest2) (ip + sizeS s) none (emitS s ip none cs).2).2 := by rw [emitB]
      have hcode' := hcode
      simp only at hcode' hext
      rw [e1, SimF.asFnBody_seq] at hcode'
      rw [e2] at hext
      obtain ⟨hc1, hc2⟩ := hcode'.append
      rw [emitS_size] at hc2
      have hext1 : Ext (emitS s ip none cs).2 W.CS := (emitB_ext _ _ _ _).trans hext
      have h1 := ih.s nl true Γ Γx Λ false s Γ1 Λ1 hs ⟨μ, st, ip, locs, #[], g, l, m, out⟩ none cs below fr hsc
        (by simpa [bigScope] using hinv) hwt hc1 hext1 hft.cons.1
      obtain ⟨hsc1, ⟨d, hd⟩, ⟨e, he⟩⟩ := sc7_stepS hsc hs
      simp only [bigScope, ↓reduceIte] at h1 hd
      have heval : evalBV (f + 1) (.cons s (.cons s2 rest2)) st = Sim.liftU (evalS f s st) (fun st1 => evalBV f (.cons s2 rest2) st1) := by
        cases s <;> (simp only [evalBV]; exact liftU_eq _ _)
      rw [heval, liftU_bindR] at hfuel
      refine DivG.bind (c := ⟨μ, st, ip, locs, #[], g, l, m, out⟩) hfuel h1 ?_ ?_
      · intro hf
        exact (ihd.s nl true Γ Γx Λ false s Γ1 Λ1 hs ⟨μ, st, ip, locs, #[], g, l, m, out⟩ none cs below fr hsc
          (by simpa [bigScope] using hinv) hwt hc1 hext1 hft.cons.1 hf).mono (hb_child (by simp only [dB]; omega))
      rintro u st1 - ⟨μ1, m1, locs1, g1, l1, out1, n, hn, hinv1, hk1⟩ hfuel2
      have hwt1 := wt_execN n _ _ hwt hn
      exact DivG.after hn ((ihd.bf nl Γ1 Γx Λ1 (.cons s2 rest2) Γ2 Λ2 hrest ⟨μ1, st1, ip + sizeS s, locs1, #[], g1, l1, m1, out1⟩ _ below fr rfl
        hsc1 hinv1 hwt1 hc2 hext hft.cons.2 hfuel2).mono (hb_child (by simp only [dB]; omega)))

/-- DIVERGENCE PRESERVATION, stage 8 (named function literals in every expression position), all syntactic classes: if the definitional evaluation of a fragment, from a state
    related to the machine configuration, runs out of fuel `f`, the machine started in that configuration performs at least
    `hb K f d = (f + K - d) / K` further steps without halting, failing or faulting (`d` the static depth of the fragment,
    `K` a bound on the depth of every function body of the world) — or stops at its stack/frame limit -/
theorem dall8 (hW : WOK8 W) (hK : KB W K) : ∀ f, DAll8 W K f
  | 0 => ⟨by unfold DE8; intros; rw [hb_zero (dE_pos _)]; exact DivG.zero _ _,
          by unfold DEs8; intros; rw [hb_zero (dEs_pos _)]; exact DivG.zero _ _,
          by unfold DBV8; intros; rw [hb_zero (dB_pos _)]; exact DivG.zero _ _,
          by unfold DS8; intros; rw [hb_zero (dS_pos _)]; exact DivG.zero _ _,
          by unfold DB8; intros; rw [hb_zero (dB_pos _)]; exact DivG.zero _ _,
          by unfold DL8; intros; rw [hb_zero (by omega)]; exact DivG.zero _ _,
          by unfold DBF8; intros; rw [hb_zero (dB_pos _)]; exact DivG.zero _ _⟩
  | f + 1 =>
    have ih := pall8 hW f
    have ihd := dall8 hW hK f
    ⟨de8_succ hW hK f ih ihd, des8_succ f ih ihd, dbv8_succ f ih ihd, ds8_succ f ihd, db8_succ f ih ihd, dl8_succ f ih ihd,
     dbf8_succ f ih ihd⟩

end
end Sim8
end Nl
