/- NameEvalH = Spec.eval on the resolver's output, stage-5 function-free fragment (C09): expressions, expression lists, loops. -/
import Nlmodel.Proofs.Lemmas.NameEvalHDefs
namespace Nl
namespace NameEvalH
open Sim Spec SimH
open NameEval (NState NRes Rel RelG At In bids findBid postS popRes)

/-- the six shapes of two related results -/
macro "inv6 " ih:ident a:ident ρ:ident σ:ident hn:ident hs:ident hr:ident : tactic =>
  `(tactic| rcases RelG.inv $ih with ⟨$a:ident, $ρ:ident, $σ:ident, $hn:ident, $hs:ident, $hr:ident⟩ |
      ⟨$ρ:ident, $σ:ident, $hn:ident, $hs:ident, $hr:ident⟩ | ⟨$ρ:ident, $σ:ident, $hn:ident, $hs:ident, $hr:ident⟩ |
      ⟨_, $ρ:ident, $σ:ident, $hn:ident, $hs:ident, $hr:ident⟩ | ⟨$ρ:ident, $σ:ident, $hn:ident, $hs:ident⟩ | ⟨$hn:ident, $hs:ident⟩)

/-- the five shapes in which a sub-evaluation did not complete normally -/
macro "pass5 " hn:ident hs:ident hr:ident : tactic =>
  `(tactic| all_goals (first | pass_on $hn $hs $hr | pass_on $hn $hs $hn))

theorem qe_succ (f : Nat) (q : QAll f) : QE (f + 1) := by
  intro e ab scs st e' st' ρ σ hs hinv hnd h hrel
  cases hs with
  | int _ v =>
    simp only [resolveE] at h; injection h with h; injection h with h1 h2; subst h1
    simp only [NameEvalH.evalE, Spec.evalE]; exact .val _ _ _ hrel
  | bool _ b =>
    simp only [resolveE] at h; injection h with h; injection h with h1 h2; subst h1
    simp only [NameEvalH.evalE, Spec.evalE]; exact .val _ _ _ hrel
  | float _ x _ =>
    simp only [resolveE] at h; injection h with h; injection h with h1 h2; subst h1
    simp only [NameEvalH.evalE, Spec.evalE]; exact .val _ _ _ hrel
  | str _ s =>
    simp only [resolveE] at h; injection h with h; injection h with h1 h2; subst h1
    obtain ⟨h1, h2⟩ := alloc_rel hrel (.str s)
    simp only [NameEvalH.evalE, Spec.evalE, h1]
    exact .val _ _ _ h2
  | ident _ n =>
    simp only [resolveE] at h
    cases hr : st.resolve n with
    | none => simp [hr] at h
    | some r =>
      simp only [hr] at h
      injection h with h; injection h with h1 h2; subst h1
      obtain ⟨hf1, hf2⟩ := NameEval.resolve_findBid st scs hinv n
      cases hfb : findBid scs.flatten n with
      | none => rw [hf1 hfb] at hr; cases hr
      | some b =>
        obtain ⟨k, hk⟩ := hf2 b hfb
        rw [hk] at hr; injection hr with hr; subst hr
        simp only [NameEvalH.evalE, Spec.evalE, NameEval.lookup_rel hrel.env n, hfb, NameEval.lookup_global, Option.map_some]
        cases envGet σ.genv b with
        | none => exact .unspec _ _
        | some v => exact .val _ _ _ hrel
  | not _ r hsr =>
    simp only [resolveE] at h
    cases hr : resolveE r st with
    | error er => simp [hr] at h
    | ok p =>
      obtain ⟨r1, st1⟩ := p
      simp only [hr] at h
      injection h with h; injection h with h1 h2; subst h1
      have ih := q.e r ab scs st r1 st1 ρ σ hsr hinv hnd hr hrel
      simp only [NameEvalH.evalE, Spec.evalE]
      inv6 ih a ρ1 σ1 hn hs hr1
      · simp only [hn, hs]
        cases a <;> first | exact .val _ _ _ hr1 | exact .err _ _ _ hr1.out
      pass5 hn hs hr1
  | neg _ r hsr =>
    simp only [resolveE] at h
    cases hr : resolveE r st with
    | error er => simp [hr] at h
    | ok p =>
      obtain ⟨r1, st1⟩ := p
      simp only [hr] at h
      injection h with h; injection h with h1 h2; subst h1
      have ih := q.e r ab scs st r1 st1 ρ σ hsr hinv hnd hr hrel
      simp only [NameEvalH.evalE, Spec.evalE]
      inv6 ih a ρ1 σ1 hn hs hr1
      · simp only [hn, hs]
        cases a with
        | int i =>
          simp only
          split
          · exact .val _ _ _ hr1
          · exact .err _ _ _ hr1.out
        | float x => exact .val _ _ _ hr1
        | _ => exact .err _ _ _ hr1.out
      pass5 hn hs hr1
  | negate _ r hsr =>
    simp only [resolveE] at h
    cases hr : resolveE r st with
    | error er => simp [hr] at h
    | ok p =>
      obtain ⟨r1, st1⟩ := p
      simp only [hr] at h
      injection h with h; injection h with h1 h2; subst h1
      have ih := q.e r ab scs st r1 st1 ρ σ hsr hinv hnd hr hrel
      simp only [NameEvalH.evalE, Spec.evalE]
      inv6 ih a ρ1 σ1 hn hs hr1
      · simp only [hn, hs]
        cases a with
        | int i =>
          simp only
          split
          · exact .val _ _ _ hr1
          · exact .err _ _ _ hr1.out
        | float x => exact .val _ _ _ hr1
        | _ => exact .err _ _ _ hr1.out
      pass5 hn hs hr1
  | bin _ l op r bop hop hsl hsr =>
    simp only [resolveE] at h
    cases hl : resolveE l st with
    | error er => simp [hl] at h
    | ok p =>
      obtain ⟨l1, st1⟩ := p
      simp only [hl] at h
      obtain ⟨_, hi1⟩ := rHE l ab scs st l1 st1 hsl hinv hl
      cases hr : resolveE r st1 with
      | error er => simp [hr] at h
      | ok p2 =>
        obtain ⟨r1, st2⟩ := p2
        simp only [hr, hop] at h
        injection h with h; injection h with h1 h2; subst h1
        have ih1 := q.e l ab scs st l1 st1 ρ σ hsl hinv hnd hl hrel
        simp only [NameEvalH.evalE, Spec.evalE, NameEval.binOf_eq, hop]
        inv6 ih1 a ρ1 σ1 hn hs hr1
        · simp only [hn, hs]
          have ih2 := q.e r false scs st1 r1 st2 ρ1 σ1 hsr hi1 hnd hr hr1
          inv6 ih2 b ρ2 σ2 hn2 hs2 hr2
          · simp only [hn2, hs2]
            exact relG_cast (heapRes_rel (binop_rel hr2 bop a b) hr2.out) (spec_binop bop a b σ2)
          pass5 hn2 hs2 hr2
        pass5 hn hs hr1
  | assign _ n r hsr =>
    simp only [resolveE] at h
    cases hres : st.resolve n with
    | none => simp [hres] at h
    | some ref =>
      simp only [hres] at h
      cases hr : resolveE r st with
      | error er => simp [hr] at h
      | ok p =>
        obtain ⟨r1, st1⟩ := p
        simp only [hr] at h
        injection h with h; injection h with h1 h2; subst h1
        obtain ⟨hf1, hf2⟩ := NameEval.resolve_findBid st scs hinv n
        cases hfb : findBid scs.flatten n with
        | none => rw [hf1 hfb] at hres; cases hres
        | some b =>
          obtain ⟨k, hk⟩ := hf2 b hfb
          rw [hk] at hres; injection hres with hres; subst hres
          have ih := q.e r ab scs st r1 st1 ρ σ hsr hinv hnd hr hrel
          simp only [NameEvalH.evalE, Spec.evalE]
          inv6 ih a ρ1 σ1 hn hs hr1
          · obtain ⟨ρ2, ha, hr2⟩ := hr1.assign hnd n b a hfb
            simp only [hn, hs, ha, NameEval.bind_global]
            exact .val _ _ _ hr2
          pass5 hn hs hr1
  | assignIndex _ a i v hsa hsi hsv =>
    simp only [resolveE] at h
    cases ha : resolveE a st with
    | error er => simp [ha] at h
    | ok p =>
      obtain ⟨a1, st1⟩ := p
      simp only [ha] at h
      obtain ⟨_, hi1⟩ := rHE a ab scs st a1 st1 hsa hinv ha
      cases hi : resolveE i st1 with
      | error er => simp [hi] at h
      | ok p2 =>
        obtain ⟨i1, st2⟩ := p2
        simp only [hi] at h
        obtain ⟨_, hi2⟩ := rHE i false scs st1 i1 st2 hsi hi1 hi
        cases hv : resolveE v st2 with
        | error er => simp [hv] at h
        | ok p3 =>
          obtain ⟨v1, st3⟩ := p3
          simp only [hv] at h
          injection h with h; injection h with h1 h2; subst h1
          have ih1 := q.e a ab scs st a1 st1 ρ σ hsa hinv hnd ha hrel
          simp only [NameEvalH.evalE, Spec.evalE]
          inv6 ih1 x ρ1 σ1 hn hs hr1
          · simp only [hn, hs]
            have ih2 := q.e i false scs st1 i1 st2 ρ1 σ1 hsi hi1 hnd hi hr1
            inv6 ih2 y ρ2 σ2 hn2 hs2 hr2
            · simp only [hn2, hs2]
              have ih3 := q.e v false scs st2 v1 st3 ρ2 σ2 hsv hi2 hnd hv hr2
              inv6 ih3 z ρ3 σ3 hn3 hs3 hr3
              · simp only [hn3, hs3]
                exact relG_cast (heapRes_rel (indexSet_rel hr3 x y z) hr3.out) (spec_indexSet x y z σ3)
              pass5 hn3 hs3 hr3
            pass5 hn2 hs2 hr2
          pass5 hn hs hr1
  | index _ l i hsl hsi =>
    simp only [resolveE] at h
    cases hl : resolveE l st with
    | error er => simp [hl] at h
    | ok p =>
      obtain ⟨l1, st1⟩ := p
      simp only [hl] at h
      obtain ⟨_, hi1⟩ := rHE l ab scs st l1 st1 hsl hinv hl
      cases hi : resolveE i st1 with
      | error er => simp [hi] at h
      | ok p2 =>
        obtain ⟨i1, st2⟩ := p2
        simp only [hi] at h
        injection h with h; injection h with h1 h2; subst h1
        have ih1 := q.e l ab scs st l1 st1 ρ σ hsl hinv hnd hl hrel
        simp only [NameEvalH.evalE, Spec.evalE]
        inv6 ih1 x ρ1 σ1 hn hs hr1
        · simp only [hn, hs]
          have ih2 := q.e i false scs st1 i1 st2 ρ1 σ1 hsi hi1 hnd hi hr1
          inv6 ih2 y ρ2 σ2 hn2 hs2 hr2
          · simp only [hn2, hs2]
            exact relG_cast (heapRes_rel (indexGet_rel hr2 x y) hr2.out) (spec_indexGet x y σ2)
          pass5 hn2 hs2 hr2
        pass5 hn hs hr1
  | arr _ vs hsv =>
    simp only [resolveE] at h
    cases hv : resolveEs vs st with
    | error er => simp [hv] at h
    | ok p =>
      obtain ⟨vs1, st1⟩ := p
      simp only [hv] at h
      injection h with h; injection h with h1 h2; subst h1
      have ih := q.es vs scs st vs1 st1 ρ σ hsv hinv hnd hv hrel
      simp only [NameEvalH.evalE, Spec.evalE]
      inv6 ih xs ρ1 σ1 hn hs hr1
      · obtain ⟨h1, h2⟩ := alloc_rel hr1 (.arr xs)
        simp only [hn, hs, h1]
        exact .val _ _ _ h2
      pass5 hn hs hr1
  | builtin _ n as b hb hsa =>
    simp only [resolveE] at h
    cases ha : resolveEs as st with
    | error er => simp [ha] at h
    | ok p =>
      obtain ⟨as1, st1⟩ := p
      simp only [ha, hb] at h
      injection h with h; injection h with h1 h2; subst h1
      have ih := q.es as scs st as1 st1 ρ σ hsa hinv hnd ha hrel
      simp only [NameEvalH.evalE, Spec.evalE, hb]
      inv6 ih xs ρ1 σ1 hn hs hr1
      · simp only [hn, hs]
        exact relG_cast (heapRes_rel (callBuiltin_rel hr1 b xs) hr1.out) (spec_callBuiltin b xs σ1)
      pass5 hn hs hr1
  | ifE _ c t e hsc hst hse =>
    simp only [resolveE] at h
    cases hc : resolveE c st with
    | error er => simp [hc] at h
    | ok p =>
      obtain ⟨c1, st1⟩ := p
      simp only [hc] at h
      obtain ⟨_, hi1⟩ := rHE c ab scs st c1 st1 hsc hinv hc
      cases ht : resolveB t st1 with
      | error er => simp [ht] at h
      | ok p2 =>
        obtain ⟨t1, st2⟩ := p2
        simp only [ht] at h
        obtain ⟨_, _, hi2⟩ := rHB t ab scs st1 t1 st2 hst hi1 ht
        cases he : resolveO e st2 with
        | error er => simp [he] at h
        | ok p3 =>
          obtain ⟨e1, st3⟩ := p3
          simp only [he] at h
          injection h with h; injection h with h1 h2; subst h1
          have ih := q.e c ab scs st c1 st1 ρ σ hsc hinv hnd hc hrel
          simp only [NameEvalH.evalE, Spec.evalE]
          inv6 ih a ρ1 σ1 hn hs hr1
          · simp only [hn, hs]
            cases a with
            | bool bb =>
              cases bb with
              | true => exact q.bv t ab scs st1 t1 st2 ρ1 σ1 hst hi1 hnd ht hr1
              | false =>
                cases hse with
                | none =>
                  simp only [resolveO] at he; injection he with he; injection he with he1 he2; subst he1
                  exact .val _ _ _ hr1
                | some _ b hsb =>
                  simp only [resolveO] at he
                  cases hb : resolveB b st2 with
                  | error er => simp [hb] at he
                  | ok p4 =>
                    obtain ⟨b1, st4⟩ := p4
                    simp only [hb] at he
                    injection he with he; injection he with he1 he2; subst he1
                    exact q.bv b ab scs st2 b1 st4 ρ1 σ1 hsb hi2 hnd hb hr1
            | _ => exact .err _ _ _ hr1.out
          pass5 hn hs hr1
  | whileE _ c b hsc hsb =>
    simp only [resolveE] at h
    cases hc : resolveE c { st with loopDepth := st.loopDepth + 1 } with
    | error er => simp [hc] at h
    | ok p =>
      obtain ⟨c1, st1⟩ := p
      simp only [hc] at h
      cases hb : resolveB b st1 with
      | error er => simp [hb] at h
      | ok p2 =>
        obtain ⟨b1, st2⟩ := p2
        simp only [hb] at h
        injection h with h; injection h with h1 h2; subst h1
        simp only [NameEvalH.evalE, Spec.evalE]
        exact q.l c b scs _ c1 st1 b1 st2 .null ρ σ hsc hsb (inv3_loop st scs _ hinv) hnd hc hb hrel

theorem qes_succ (f : Nat) (q : QAll f) : QEs (f + 1) := by
  intro es scs st es' st' ρ σ hs hinv hnd h hrel
  cases hs with
  | nil =>
    simp only [resolveEs] at h; injection h with h; injection h with h1 h2; subst h1
    simp only [NameEvalH.evalEs, Spec.evalEs]; exact .val _ _ _ hrel
  | cons e rest hse hsr =>
    simp only [resolveEs] at h
    cases hr : resolveE e st with
    | error er => simp [hr] at h
    | ok p =>
      obtain ⟨e1, st1⟩ := p
      simp only [hr] at h
      obtain ⟨_, hi1⟩ := rHE e false scs st e1 st1 hse hinv hr
      cases hr2 : resolveEs rest st1 with
      | error er => simp [hr2] at h
      | ok p2 =>
        obtain ⟨rest1, st2⟩ := p2
        simp only [hr2] at h
        injection h with h; injection h with h1 h2; subst h1
        have ih1 := q.e e false scs st e1 st1 ρ σ hse hinv hnd hr hrel
        simp only [NameEvalH.evalEs, Spec.evalEs]
        inv6 ih1 a ρ1 σ1 hn hs hr1
        · simp only [hn, hs]
          have ih2 := q.es rest scs st1 rest1 st2 ρ1 σ1 hsr hi1 hnd hr2 hr1
          inv6 ih2 xs ρ2 σ2 hn2 hs2 hr2'
          · simp only [hn2, hs2]; exact .val _ _ _ hr2'
          pass5 hn2 hs2 hr2'
        pass5 hn hs hr1

theorem ql_succ (f : Nat) (q : QAll f) : QL (f + 1) := by
  intro c b scs st c1 st1 b1 st2 acc ρ σ hsc hsb hinv hnd hc hb hrel
  obtain ⟨_, hi1⟩ := rHE c false scs st c1 st1 hsc hinv hc
  have ih := q.e c false scs st c1 st1 ρ σ hsc hinv hnd hc hrel
  simp only [NameEvalH.evalLoop, Spec.evalLoop]
  rcases ih.inv with ⟨a, ρ1, σ1, hn, hs, hr1⟩ | ⟨ρ1, σ1, hn, hs, hr1⟩ | ⟨ρ1, σ1, hn, hs, hr1⟩ | ⟨er, ρ1, σ1, hn, hs, hr1⟩ |
    ⟨ρ1, σ1, hn, hs⟩ | ⟨hn, hs⟩
  · simp only [hn, hs]
    cases a with
    | bool bb =>
      cases bb with
      | false => exact .val _ _ _ hr1
      | true =>
        simp only
        have ihb := q.bv b true scs st1 b1 st2 _ _ hsb hi1 hnd hb (hr1.setLast acc)
        rcases ihb.inv with ⟨v, ρ2, σ2, hn2, hs2, hr2⟩ | ⟨ρ2, σ2, hn2, hs2, hr2⟩ | ⟨ρ2, σ2, hn2, hs2, hr2⟩ | ⟨er, ρ2, σ2, hn2, hs2, hr2⟩ |
          ⟨ρ2, σ2, hn2, hs2⟩ | ⟨hn2, hs2⟩
        · simp only [hn2, hs2]
          exact q.l c b scs st c1 st1 b1 st2 v ρ2 σ2 hsc hsb hinv hnd hc hb hr2
        · simp only [hn2, hs2]; exact .val _ _ _ hr2
        · simp only [hn2, hs2]
          exact q.l c b scs st c1 st1 b1 st2 .null ρ2 σ2 hsc hsb hinv hnd hc hb hr2
        · pass_on hn2 hs2 hr2
        · pass_on hn2 hs2 hn2
        · pass_on hn2 hs2 hn2
    | _ => exact .err _ _ _ hr1.out
  · simp only [hn, hs]; exact .val _ _ _ hr1
  · simp only [hn, hs]
    exact q.l c b scs st c1 st1 b1 st2 .null ρ1 σ1 hsc hsb hinv hnd hc hb hr1
  · pass_on hn hs hr1
  · pass_on hn hs hn
  · pass_on hn hs hn

end NameEvalH
end Nl
