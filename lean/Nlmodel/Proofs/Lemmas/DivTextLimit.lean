/- Which disjunct of `rec_text_diverges` holds: the text `functie f() { f() }; f()` DOES hit the machine's frame limit
   (`TextHitsLimit`), proved by an invariant of the recursion (not by evaluating 65535 frames): at the entry of `f`
   (offset 3) the operand stack is empty, global 0 holds `f`, and each round `GetGlobal 0; Call 0` adds one frame. -/
import Nlmodel.Proofs.Lemmas.DivTextExample
namespace Nl
namespace Sim6
open Spec Sim

/-- the code of `functie f() { f() }; f()` -/
def recCode : Code := #[19, 9, 0, 28, 0, 0, 24, 0, 23, 0, 0, 0, 29, 0, 0, 0, 0, 0, 1, 28, 0, 0, 24, 0, 1, 44]

/-- the state at the entry of `f` with `d` suspended callers -/
def RecInv (d : Nat) (s : VM) : Prop :=
  s.ip = 3 ∧ s.stack = #[] ∧ s.globals.getD 0 .null = .fn 3 0 ∧ s.depth = d

theorem rec_d3 : decodeAt recCode 3 = some (.getGlobal 0) := by decide
theorem rec_d6 : decodeAt recCode 6 = some (.call 0) := by decide

/-- one round of the recursion: `GetGlobal 0; Call 0` -/
theorem recInv_round (d : Nat) (s : VM) (h : RecInv d s) (hd : d + 1 < STACK_LIMIT) :
    ∃ s', execN recCode 2 s = some s' ∧ RecInv (d + 1) s' := by
  obtain ⟨stack, globals, frames, depth, ip, bp, mem, last, out, cvals⟩ := s
  obtain ⟨h1, h2, h3, h4⟩ := h
  simp only at h1 h2 h3 h4
  subst h1; subst h2; subst h4
  have hb : ¬ (decide ((#[] : Array Value).size + 0 > STACK_LIMIT) || decide (depth + 1 ≥ STACK_LIMIT)) = true := by
    unfold STACK_LIMIT at hd ⊢; simp; omega
  have hp : pop1 ((#[] : Array Value).push (Value.fn 3 0)) = some (Value.fn 3 0, #[]) := by rfl
  have hng : ¬ 0 > 0 := by omega
  have hsz : ¬ (#[] : Array Value).size < 0 := by omega
  refine ⟨?w, ?h1, ?h2⟩
  case h1 =>
    simp only [execN, step, rec_d3, exec, h3, Instr.size, hp, hb]
    rfl
  case h2 => exact ⟨rfl, by simp, h3, rfl⟩

/-- `j` rounds -/
theorem recInv_rounds (j : Nat) : ∀ (d : Nat) (s : VM), RecInv d s → d + j < STACK_LIMIT →
    ∃ s', execN recCode (2 * j) s = some s' ∧ RecInv (d + j) s' := by
  induction j with
  | zero => intro d s h _; exact ⟨s, rfl, h⟩
  | succ j ih =>
    intro d s h hd
    obtain ⟨s1, he1, hi1⟩ := recInv_round d s h (by omega)
    obtain ⟨s2, he2, hi2⟩ := ih (d + 1) s1 hi1 (by omega)
    refine ⟨s2, ?_, ?_⟩
    · have e : 2 * (j + 1) = 2 + 2 * j := by omega
      rw [e]; exact execN_add recCode 2 (2 * j) s s1 s2 he1 he2
    · have e : d + (j + 1) = d + 1 + j := by omega
      rw [e]; exact hi2

/-- at the last admissible depth the next `Call` is at the limit -/
theorem recInv_limit (s : VM) (h : RecInv (STACK_LIMIT - 1) s) : ∃ s', execN recCode 1 s = some s' ∧ AtLimit recCode s' := by
  obtain ⟨stack, globals, frames, depth, ip, bp, mem, last, out, cvals⟩ := s
  obtain ⟨h1, h2, h3, h4⟩ := h
  simp only at h1 h2 h3 h4
  subst h1; subst h2; subst h4
  refine ⟨?w, ?h1, ?h2⟩
  case h1 =>
    simp only [execN, step, rec_d3, exec, h3, Instr.size]
    rfl
  case h2 =>
    refine ⟨0, 3, 0, #[], rec_d6, rfl, Nat.le_refl _, .inr ?_⟩
    show STACK_LIMIT - 1 + 1 ≥ STACK_LIMIT
    omega

/-- the compiled program is `recCode`, and after its first steps it stands at the entry of `f` with one suspended caller -/
theorem rec_prefix : (match compileProgram exRecAst with
    | .ok (_, bc) => bc.code == recCode && (match execN bc.code 7 (VM.start {} bc) with
      | some s => s.ip == 3 && s.stack.size == 0 && s.globals.getD 0 .null == .fn 3 0 && s.depth == 1
      | none => false)
    | .error _ => false) = true := by decide +kernel

/-- the compiled recursion hits the frame limit -/
theorem rec_hitsLimit {r : RBlock} {bc : Bytecode} (hc : compileProgram exRecAst = .ok (r, bc)) : HitsLimit bc := by
  have hpre := rec_prefix
  rw [hc] at hpre
  simp only [Bool.and_eq_true, beq_iff_eq] at hpre
  obtain ⟨hcode, hrun⟩ := hpre
  cases he : execN bc.code 7 (VM.start {} bc) with
  | none => rw [he] at hrun; cases hrun
  | some s0 =>
    rw [he] at hrun
    simp only [Bool.and_eq_true, beq_iff_eq] at hrun
    obtain ⟨⟨⟨hip, hst⟩, hg⟩, hdp⟩ := hrun
    have hinv : RecInv 1 s0 := ⟨hip, Array.eq_empty_of_size_eq_zero hst, hg, hdp⟩
    obtain ⟨code, consts⟩ := bc
    simp only at hcode; subst hcode
    simp only at he
    obtain ⟨s1, he1, hi1⟩ := recInv_rounds (STACK_LIMIT - 2) 1 s0 hinv (by unfold STACK_LIMIT; omega)
    have e : 1 + (STACK_LIMIT - 2) = STACK_LIMIT - 1 := by unfold STACK_LIMIT; omega
    rw [e] at hi1
    obtain ⟨s2, he2, hl⟩ := recInv_limit s1 hi1
    exact ⟨7 + 2 * (STACK_LIMIT - 2) + 1, s2,
      execN_add recCode _ 1 _ s1 s2 (execN_add recCode 7 _ _ s0 s1 he he1) he2, hl⟩

/-- THE RECURSION TEXT HITS THE LIMIT: the second disjunct of `rec_text_diverges` is the one that holds for large budgets -/
theorem rec_text_hitsLimit : TextHitsLimit CharClass.ascii recSrc := by
  obtain ⟨bc, hc⟩ := rec_compiles
  exact TextHitsLimit.of rec_parse hc (rec_hitsLimit hc)

/-- observable consequence: every long enough run of `eval` on the recursion text ends with the index error -/
theorem rec_text_observable : ∃ n out, ∀ k, evalText CharClass.ascii (n + k) recSrc = .error .index out :=
  rec_text_hitsLimit.observable

end Sim6
end Nl
