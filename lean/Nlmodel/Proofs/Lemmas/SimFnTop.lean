/- Stage 4: top-level programs with function definitions: layout and goals. -/
import Nlmodel.Proofs.Lemmas.SimFnAll
namespace Nl
namespace SimF
open Spec Sim

/-! ## top-level programs: statements and function definitions in sequence -/

/-- the two statement forms that define a function at top level -/
inductive FDef : RStmt → Nat → Nat → Nat → List Nat → Nat → RBlock → Prop where
  | named (fid b k : Nat) (ps : List Nat) (nlf : Nat) (body : RBlock) :
      FDef (.expr (.func fid (some ⟨b, .global k⟩) ps nlf body)) fid b k ps nlf body
  | letS (fid b k : Nat) (ps : List Nat) (nlf : Nat) (body : RBlock) :
      FDef (.letS ⟨b, .global k⟩ (.func fid none ps nlf body)) fid b k ps nlf body

/-- a top-level program laid out from position `pos` with pool `cs`; `D` collects the functions it defines -/
inductive YTop : Gam → RBlock → Nat → List Const → Gam → List (Nat × FnInfo) → Prop where
  | nil (Γ pos cs) : YTop Γ .nil pos cs Γ []
  | stmt (Γ Γ1 Γ2 : Gam) (s : RStmt) (rest : RBlock) (pos : Nat) (cs : List Const) (D : List (Nat × FnInfo)) :
      YS 0 false Γ [] false s Γ1 [] → YTop Γ1 rest (pos + sizeS s) (emitS s pos none cs).2 Γ2 D →
      YTop Γ (.cons s rest) pos cs Γ2 D
  | fdef (Γ Γ2 : Gam) (s : RStmt) (rest : RBlock) (pos : Nat) (cs : List Const) (D : List (Nat × FnInfo))
      (fid b k : Nat) (ps : List Nat) (nlf : Nat) (body : RBlock) (Γb Λb : Gam) :
      FDef s fid b k ps nlf body → (∀ p ∈ Γ, p.1 ≠ b ∧ p.2 ≠ k) →
      YB nlf true ((b, k) :: Γ) (paramScope ps) false body Γb Λb → GamOK (paramScope ps) → (∀ p ∈ paramScope ps, p.2 < nlf) →
      YTop ((b, k) :: Γ) rest (pos + sizeS s) (emitS s pos none cs).2 Γ2 D →
      YTop Γ (.cons s rest) pos cs Γ2 ((fid, ⟨pos + 3, ps, nlf, body, cs, (b, k) :: Γ⟩) :: D)

def selfTail (self : Option Ref) (k : Nat) : List Instr :=
  match self with
  | some r => [setVar r.slot, Instr.const k]
  | none => []

/-- code layout of a function literal -/
theorem func_layout {C : Code} {pos : Nat} {lp : LoopCtx} {cs : List Const} (fid : Nat) (self : Option Ref) (ps : List Nat) (nlf : Nat) (body : RBlock)
    (hcode : CodeAt C pos (emitE (.func fid self ps nlf body) pos lp cs).1) :
    CodeAt C pos [.jump (pos + 3 + sizeBF body)] ∧
    CodeAt C (pos + 3) (asFnBody body (emitB body (pos + 3) none cs).1) ∧
    CodeAt C (pos + 3 + sizeBF body) ([Instr.const (addConst (emitB body (pos + 3) none cs).2 (.fn (pos + 3) nlf)).2] ++
      selfTail self (addConst (emitB body (pos + 3) none cs).2 (.fn (pos + 3) nlf)).2) ∧
    (emitE (.func fid self ps nlf body) pos lp cs).2 = (addConst (emitB body (pos + 3) none cs).2 (.fn (pos + 3) nlf)).1 ∧
    sizeE (.func fid self ps nlf body) = 3 + sizeBF body + 3 + (selfTail self 0).length * 3 := by
  have hsz : codeSize (asFnBody body (emitB body (pos + 3) none cs).1) = sizeBF body := by
    rw [asFnBody_size body _ _ none _ rfl, emitB_size]; rfl
  cases self with
  | none =>
    simp only [emitE, selfTail, List.append_nil] at hcode ⊢
    obtain ⟨h12, h3⟩ := hcode.append
    obtain ⟨h1, h2⟩ := h12.append
    refine ⟨h1, h2.cast (by simp [Instr.size]), h3.cast (by simp [Instr.size, hsz]; omega), trivial, ?_⟩
    simp only [sizeE]; unfold sizeBF; simp
  | some r =>
    simp only [emitE, selfTail] at hcode ⊢
    obtain ⟨h123, h4⟩ := hcode.append
    obtain ⟨h12, h3⟩ := h123.append
    obtain ⟨h1, h2⟩ := h12.append
    have := CodeAt.append (C := C) (pos := pos) (a := [Instr.jump (pos + 3 + sizeBF body)] ++ asFnBody body (emitB body (pos + 3) none cs).1)
      (b := [Instr.const (addConst (emitB body (pos + 3) none cs).2 (.fn (pos + 3) nlf)).2] ++
        [setVar r.slot, Instr.const (addConst (emitB body (pos + 3) none cs).2 (.fn (pos + 3) nlf)).2])
      (by simpa [List.append_assoc] using hcode)
    refine ⟨h1, h2.cast (by simp [Instr.size]), this.2.cast (by simp [Instr.size, hsz]; omega), trivial, ?_⟩
    simp only [sizeE]; unfold sizeBF; simp

/-! ### the persistent scope grows along the top-level sequence -/

def World.at (W : World) (Γ : Gam) : World := { W with Γp := Γ }

theorem WOK.at {W : World} (h : WOK W) (Γ : Gam) : WOK (W.at Γ) := ⟨h.inj, h.mem, h.fns⟩

theorem Inv.grow {W : World} {Γ Γ' Γb Λ : Gam} {nl : Nat} {st : SState} {locs g : Array Value} {l : Value} (hsub : ∀ p ∈ Γ, p ∈ Γ')
    (h : Inv (W.at Γ) Γb Λ nl st locs g l) : Inv (W.at Γ') Γb Λ nl st locs g l :=
  ⟨fun b k hm v hv => by obtain ⟨mv, h1, h2⟩ := h.relG b k hm v hv; exact ⟨mv, h1.mono hsub, h2⟩,
   fun b k hm v hv => by obtain ⟨mv, h1, h2⟩ := h.relL b k hm v hv; exact ⟨mv, h1.mono hsub, h2⟩,
   h.last.mono hsub, h.size⟩

def GoalTop (W : World) (Γ' : Gam) (pos endIp : Nat) (g : Array Value) (l : Value) (st : SState) (r : Res Unit) : Prop :=
  Ovf W.C (mkS W.s0 pos #[] #[] #[] g l []) ∨
  match r with
  | .val () st' => ∃ g' l' n, execN W.C n (mkS W.s0 pos #[] #[] #[] g l []) = some (mkS W.s0 endIp #[] #[] #[] g' l' []) ∧
      Inv (W.at Γ') Γ' [] 0 st' #[] g' l' ∧ st'.out = st.out
  | .err er _ => Fails W.C (mkS W.s0 pos #[] #[] #[] g l []) er
  | .brk _ => False
  | .cont _ => False
  | .ret _ _ => False
  | .fuel => True
  | .unspec _ => True

theorem GoalTop.prefix {W : World} {Γ' : Gam} {pos pos1 endIp : Nat} {g g1 : Array Value} {l l1 : Value} {st st1 : SState} {r : Res Unit}
    (n : Nat) (hpre : execN W.C n (mkS W.s0 pos #[] #[] #[] g l []) = some (mkS W.s0 pos1 #[] #[] #[] g1 l1 []))
    (ho : st1.out = st.out) (h : GoalTop W Γ' pos1 endIp g1 l1 st1 r) : GoalTop W Γ' pos endIp g l st r := by
  rcases h with h | h
  · exact .inl (Ovf.after n hpre h)
  refine .inr ?_
  cases r with
  | val u st' =>
    obtain ⟨g', l', m, hm, hinv, ho2⟩ := h
    exact ⟨g', l', n + m, execN_add W.C n m _ _ _ hpre hm, hinv, by rw [ho2, ho]⟩
  | err er st' => exact Fails.after n hpre h
  | brk _ => exact h
  | cont _ => exact h
  | ret _ _ => exact h
  | fuel => trivial
  | unspec _ => trivial

theorem addConst_fn_index (cs : List Const) (a b : Nat) :
    (addConst cs (.fn a b)).1[(addConst cs (.fn a b)).2]? = some (.fn a b) := by
  unfold addConst
  cases h : cs.findIdx? (Const.same · (.fn a b)) with
  | none => simp
  | some i =>
    simp only
    rw [List.findIdx?_eq_some_iff_getElem] at h
    obtain ⟨hi, hs, _⟩ := h
    rw [List.getElem?_eq_getElem hi]
    cases hc : cs[i] with
    | int w => simp [hc, Const.same] at hs
    | float _ => simp [hc, Const.same] at hs
    | str _ => simp [hc, Const.same] at hs
    | fn x y => simp [hc, Const.same] at hs; rw [hs.1, hs.2]

end SimF
end Nl
