/- Stage 4: expressions assembled; statements and blocks in statement position. -/
import Nlmodel.Proofs.Lemmas.SimFnCallE
namespace Nl
namespace SimF
open Spec Sim

section
variable {W : World}

theorem pe_succ (hW : WOK W) (f : Nat) (ih : PAll W f) : PE W (f + 1) := by
  intro nl fn Γ Γx Λ ab e hx st pos lp cs below fr locs ops g l hsc hinv hcode hpool
  cases hx with
  | int _ _ _ v => exact pe_int f v hinv hcode hpool
  | bool _ _ _ b => exact pe_bool f b hinv hcode
  | varG _ _ _ b k hm => exact pe_varG f b k hm hsc hinv hcode
  | varL _ _ _ b k hm _ => exact pe_varL f b k hm hinv hcode
  | not _ _ _ e1 h1 => exact pe_not f ih.e e1 h1 hsc hinv hcode hpool
  | neg _ _ _ e1 h1 => exact pe_neg f ih.e e1 h1 hsc hinv hcode hpool
  | assignG _ _ _ b k e1 hm h1 => exact pe_assignG f ih.e b k hm e1 h1 hsc hinv hcode hpool
  | assignL _ _ _ b k e1 hm hk h1 => exact pe_assignL f ih.e b k hm hk e1 h1 hsc hinv hcode hpool
  | bin _ _ _ el op er hnf hl hr => exact pe_bin hW f ih.e el op er hnf hl hr hsc hinv hcode hpool
  | fusedL _ _ _ b k op v hm _ hfc => exact pe_fusedL hW f b k op v hm hfc hinv hcode hpool
  | fusedR _ _ _ b k op op' v hm _ hmir => exact pe_fusedR hW f b k op op' v hm hmir hinv hcode hpool
  | ifE _ _ _ c t e Γ1 Λ1 hc ht he => exact pe_if f ih c t e Γ1 Λ1 hc ht he hsc hinv hcode hpool
  | whileE _ _ _ c b Γ1 Λ1 hc hb =>
    obtain ⟨hnull, _⟩ := while_layout c b hcode
    have h1 := execN_one W.C _ _ (step_null (s0 := W.s0) (below := below) (locs := locs) (ops := ops) (g := g) (l := l) (fr := fr) hnull)
    have ihl := ih.l nl fn Γ Γx Λ ab c b Γ1 Λ1 hc hb st pos lp cs below fr locs ops g l .null .null trivial hsc hinv hcode hpool
    simp only [evalE]
    exact ihl.prefix 1 h1 rfl
  | call _ _ _ fe as has hfe => exact pe_call hW f ih fe as has hfe hsc hinv hcode hpool

/-! ### statements -/

theorem relG_unbind {Γb : Gam} (st : SState) (g : Array Value) (b k : Nat) (hf : ∀ p ∈ Γb, p.1 ≠ b ∧ p.2 ≠ k)
    (hr : RelG W Γb st g) : RelG W ((b, k) :: Γb) (st.unbind ⟨b, .global k⟩) g := by
  intro b' k' hm v hv
  simp only [SState.unbind, isGlobalSlot, ↓reduceIte] at hv
  rcases List.mem_cons.mp hm with he | hm'
  · injection he with e1 e2
    subst e1
    rw [envGet_envDel_same] at hv
    cases hv
  · have hb : b' ≠ b := (hf (b', k') hm').1
    rw [envGet_envDel_other _ _ _ hb] at hv
    exact hr b' k' hm' v hv

theorem relL_unbind {Λ : Gam} (st : SState) (locs : Array Value) (b k : Nat) (hf : ∀ p ∈ Λ, p.1 ≠ b ∧ p.2 ≠ k)
    (hr : RelL W Λ st locs) : RelL W ((b, k) :: Λ) (st.unbind ⟨b, .loc k⟩) locs := by
  intro b' k' hm v hv
  simp only [SState.unbind, isGlobalSlot, Bool.false_eq_true, ↓reduceIte] at hv
  rcases List.mem_cons.mp hm with he | hm'
  · injection he with e1 e2
    subst e1
    rw [envGet_envDel_same] at hv
    cases hv
  · have hb : b' ≠ b := (hf (b', k') hm').1
    rw [envGet_envDel_other _ _ _ hb] at hv
    exact hr b' k' hm' v hv

theorem Sc.stepS {nl : Nat} {fn : Bool} {Γ Γx Λ Γ1 Λ1 : Gam} {ab : Bool} {s : RStmt} (hsc : Sc W fn Γ Γx Λ) (h : YS nl fn Γ Λ ab s Γ1 Λ1) :
    Sc W fn Γ1 Γx Λ1 ∧ (∃ d, bigScope fn Γ1 Γx = d ++ bigScope fn Γ Γx) ∧ (∃ c, Λ1 = c ++ Λ) := by
  cases h with
  | expr => exact ⟨hsc, ⟨[], rfl⟩, ⟨[], rfl⟩⟩
  | block => exact ⟨hsc, ⟨[], rfl⟩, ⟨[], rfl⟩⟩
  | brk => exact ⟨hsc, ⟨[], rfl⟩, ⟨[], rfl⟩⟩
  | cont => exact ⟨hsc, ⟨[], rfl⟩, ⟨[], rfl⟩⟩
  | ret => exact ⟨hsc, ⟨[], rfl⟩, ⟨[], rfl⟩⟩
  | letG _ _ _ b k e hfn hf _ =>
    subst hfn
    have hokb : GamOK Γ := by have := hsc.okb; simpa [bigScope] using this
    exact ⟨⟨by simpa [bigScope] using gamOK_cons hokb b k hf, hsc.okl, by simp [bigScope],
      fun p hp => by have := hsc.psub p hp; simp only [bigScope, Bool.false_eq_true, ↓reduceIte] at this ⊢; exact List.mem_cons_of_mem _ this⟩,
      ⟨[(b, k)], by simp [bigScope]⟩, ⟨[], rfl⟩⟩
  | letL _ _ _ b k e hfn hf _ _ =>
    subst hfn
    exact ⟨⟨hsc.okb, gamOK_cons hsc.okl b k hf, hsc.sub, hsc.psub⟩, ⟨[], rfl⟩, ⟨[(b, k)], rfl⟩⟩

theorem Sc.stepB {nl : Nat} {fn : Bool} {Γx : Gam} : ∀ (b : RBlock) {Γ Λ Γ1 Λ1 : Gam} {ab : Bool}, Sc W fn Γ Γx Λ → YB nl fn Γ Λ ab b Γ1 Λ1 →
    Sc W fn Γ1 Γx Λ1 ∧ (∃ d, bigScope fn Γ1 Γx = d ++ bigScope fn Γ Γx) ∧ (∃ c, Λ1 = c ++ Λ)
  | .nil, _, _, _, _, _, hsc, h => by cases h; exact ⟨hsc, ⟨[], rfl⟩, ⟨[], rfl⟩⟩
  | .cons s rest, _, _, _, _, _, hsc, h => by
    cases h with
    | cons _ _ _ Γ1 Λ1 _ _ _ _ hs hb =>
      obtain ⟨hsc1, ⟨d1, e1⟩, ⟨c1, f1⟩⟩ := hsc.stepS hs
      obtain ⟨hsc2, ⟨d2, e2⟩, ⟨c2, f2⟩⟩ := Sc.stepB rest hsc1 hb
      exact ⟨hsc2, ⟨d2 ++ d1, by rw [e2, e1, List.append_assoc]⟩, ⟨c2 ++ c1, by rw [f2, f1, List.append_assoc]⟩⟩

theorem ps_succ (hW : WOK W) (f : Nat) (ih : PAll W f) : PS W (f + 1) := by
  intro nl fn Γ Γx Λ ab s Γ1 Λ1 hx st pos lp cs below fr locs ops g l hsc hinv hcode hpool
  cases hx with
  | expr _ _ _ e he =>
    simp only [emitS] at hcode hpool
    obtain ⟨hc1, hc2⟩ := hcode.append
    rw [emitE_size] at hc2
    have h := ih.e nl fn Γ Γx Λ ab e he st pos lp cs below fr locs ops g l hsc hinv hc1 hpool
    simp only [evalS, sizeS]
    rcases h with h | h
    · exact .inl h
    cases hr : evalE f e st with
    | val v st1 =>
      rw [hr] at h
      obtain ⟨mv, hmv, locs1, g1, l1, n, hn, hinv1, ho1⟩ := h
      refine .inr ⟨locs1, g1, mv, n + 1, ?_, ⟨hinv1.relG, hinv1.relL, hmv, hinv1.size⟩, ho1⟩
      rw [execN_step W.C n _ _ _ hn (step_pop hc2)]; congr 2
    | err er st1 => rw [hr] at h; exact .inr h
    | fuel => exact .inr trivial
    | unspec _ => exact .inr trivial
    | brk _ => rw [hr] at h; exact .inr h
    | cont _ => rw [hr] at h; exact .inr h
    | ret _ _ => rw [hr] at h; exact .inr h
  | letG _ _ _ b k e hfn hf he =>
    subst hfn
    simp only [bigScope, Bool.false_eq_true, ↓reduceIte] at hinv ⊢
    have hokb : GamOK Γ := by have := hsc.okb; simpa [bigScope] using this
    have hsc' : Sc W false ((b, k) :: Γ) Γx Λ :=
      ⟨by simpa [bigScope] using gamOK_cons hokb b k hf, hsc.okl, by simp [bigScope],
       fun p hp => by have := hsc.psub p hp; simp only [bigScope, Bool.false_eq_true, ↓reduceIte] at this ⊢; exact List.mem_cons_of_mem _ this⟩
    simp only [emitS, setVar] at hcode hpool
    obtain ⟨hc1, hc2⟩ := hcode.append
    rw [emitE_size] at hc2
    have hinv0 : Inv W (bigScope false ((b, k) :: Γ) Γx) Λ nl (st.unbind ⟨b, .global k⟩) locs g l :=
      ⟨by simpa [bigScope] using relG_unbind st g b k hf hinv.relG,
       by simpa [RelL, SState.unbind, isGlobalSlot] using hinv.relL,
       by simpa [SState.unbind, isGlobalSlot] using hinv.last, hinv.size⟩
    have h := ih.e nl false ((b, k) :: Γ) Γx Λ ab e he (st.unbind ⟨b, .global k⟩) pos lp cs below fr locs ops g l hsc' hinv0 hc1 hpool
    simp only [bigScope, Bool.false_eq_true, ↓reduceIte] at h
    simp only [evalS, sizeS]
    rcases h with h | h
    · exact .inl h
    cases hr : evalE f e (st.unbind ⟨b, .global k⟩) with
    | val v st1 =>
      rw [hr] at h
      obtain ⟨mv, hmv, locs1, g1, l1, n, hn, hinv1, ho1⟩ := h
      refine .inr ⟨locs1, setGlobalArr g1 k mv, l1, n + 1, ?_, ?_, ?_⟩
      · rw [execN_step W.C n _ _ _ hn (step_setGlobal hc2)]; congr 2
      · exact ⟨relG_bind (gamOK_cons hokb b k hf) st1 g1 b k List.mem_cons_self v mv hmv hinv1.relG,
          by simpa [RelL, SState.bind, isGlobalSlot] using hinv1.relL,
          by simpa [SState.bind, isGlobalSlot] using hinv1.last, hinv1.size⟩
      · simpa [SState.bind, isGlobalSlot, SState.unbind] using ho1
    | err er st1 => rw [hr] at h; exact .inr h
    | fuel => exact .inr trivial
    | unspec _ => exact .inr trivial
    | brk st1 =>
      rw [hr] at h
      refine .inr ⟨h.1, ?_⟩
      have := h.2.weaken (Γb := Γ) (Λ := Λ) [(b, k)] []
      obtain ⟨locs', g', l', n, hn, hinv', ho⟩ := this
      exact ⟨locs', g', l', n, hn, hinv', by simpa [SState.unbind, isGlobalSlot] using ho⟩
    | cont st1 =>
      rw [hr] at h
      refine .inr ⟨h.1, ?_⟩
      have := h.2.weaken (Γb := Γ) (Λ := Λ) [(b, k)] []
      obtain ⟨locs', g', l', n, hn, hinv', ho⟩ := this
      exact ⟨locs', g', l', n, hn, hinv', by simpa [SState.unbind, isGlobalSlot] using ho⟩
    | ret _ _ => rw [hr] at h; exact absurd h.1 (by simp)
  | letL _ _ _ b k e hfn hf hk he =>
    subst hfn
    simp only [bigScope, ↓reduceIte] at hinv ⊢
    have hsc' : Sc W true Γ Γx ((b, k) :: Λ) := ⟨hsc.okb, gamOK_cons hsc.okl b k hf, hsc.sub, hsc.psub⟩
    simp only [emitS, setVar] at hcode hpool
    obtain ⟨hc1, hc2⟩ := hcode.append
    rw [emitE_size] at hc2
    have hinv0 : Inv W (bigScope true Γ Γx) ((b, k) :: Λ) nl (st.unbind ⟨b, .loc k⟩) locs g l :=
      ⟨by simpa [RelG, bigScope, SState.unbind, isGlobalSlot] using hinv.relG,
       relL_unbind st locs b k hf hinv.relL,
       by simpa [SState.unbind, isGlobalSlot] using hinv.last, hinv.size⟩
    have h := ih.e nl true Γ Γx ((b, k) :: Λ) ab e he (st.unbind ⟨b, .loc k⟩) pos lp cs below fr locs ops g l hsc' hinv0 hc1 hpool
    simp only [bigScope, ↓reduceIte] at h
    simp only [evalS, sizeS]
    rcases h with h | h
    · exact .inl h
    cases hr : evalE f e (st.unbind ⟨b, .loc k⟩) with
    | val v st1 =>
      rw [hr] at h
      obtain ⟨mv, hmv, locs1, g1, l1, n, hn, hinv1, ho1⟩ := h
      have hk1 : k < locs1.size := by rw [hinv1.size]; exact hk
      refine .inr ⟨locs1.setIfInBounds k mv, g1, l1, n + 1, ?_, ?_, ?_⟩
      · rw [execN_step W.C n _ _ _ hn (step_setLocal hc2 hk1)]; congr 2
      · exact ⟨by simpa [RelG, SState.bind, isGlobalSlot] using hinv1.relG,
          relL_bind (gamOK_cons hsc.okl b k hf) st1 locs1 b k List.mem_cons_self hk1 v mv hmv hinv1.relL,
          by simpa [SState.bind, isGlobalSlot] using hinv1.last, by simp [hinv1.size]⟩
      · simpa [SState.bind, isGlobalSlot, SState.unbind] using ho1
    | err er st1 => rw [hr] at h; exact .inr h
    | fuel => exact .inr trivial
    | unspec _ => exact .inr trivial
    | brk st1 =>
      rw [hr] at h
      refine .inr ⟨h.1, ?_⟩
      have := h.2.weaken (Γb := Γx) (Λ := Λ) [] [(b, k)]
      obtain ⟨locs', g', l', n, hn, hinv', ho⟩ := this
      exact ⟨locs', g', l', n, hn, hinv', by simpa [SState.unbind, isGlobalSlot] using ho⟩
    | cont st1 =>
      rw [hr] at h
      refine .inr ⟨h.1, ?_⟩
      have := h.2.weaken (Γb := Γx) (Λ := Λ) [] [(b, k)]
      obtain ⟨locs', g', l', n, hn, hinv', ho⟩ := this
      exact ⟨locs', g', l', n, hn, hinv', by simpa [SState.unbind, isGlobalSlot] using ho⟩
    | ret v st1 =>
      rw [hr] at h
      refine .inr ⟨h.1, ?_⟩
      intro fr0 rest hfr
      obtain ⟨mv, g', l', n, hv, hn, hrel, hl, ho⟩ := h.2 fr0 rest hfr
      exact ⟨mv, g', l', n, hv, hn, hrel, hl, by simpa [SState.unbind, isGlobalSlot] using ho⟩
  | block _ _ _ b Γ2 Λ2 hb =>
    simp only [emitS] at hcode hpool
    have h := ih.b nl fn Γ Γx Λ ab b Γ2 Λ2 hb st pos lp cs below fr locs ops g l hsc hinv hcode hpool
    obtain ⟨_, ⟨d, hd⟩, ⟨c, hc⟩⟩ := Sc.stepB b hsc hb
    simp only [evalS, sizeS]
    rcases h with h | h
    · exact .inl h
    cases hr : evalB f b st with
    | val u st1 => rw [hr] at h; rw [hd, hc] at h; exact .inr (h.weaken d c)
    | err er st1 => rw [hr] at h; exact .inr h
    | fuel => exact .inr trivial
    | unspec _ => exact .inr trivial
    | brk _ => rw [hr] at h; exact .inr h
    | cont _ => rw [hr] at h; exact .inr h
    | ret _ _ => rw [hr] at h; exact .inr h
  | brk _ _ =>
    simp only [emitS] at hcode
    simp only [evalS, sizeS]
    refine .inr ⟨by first | rfl | trivial, locs, g, l, 2, ?_, hinv, rfl⟩
    have h1 := execN_one W.C _ _ (step_null (s0 := W.s0) (below := below) (locs := locs) (ops := ops) (g := g) (l := l) (fr := fr) hcode)
    rw [execN_step W.C 1 _ _ _ h1 (step_jump (by simpa [Instr.size] using hcode.tail))]
    rfl
  | cont _ _ =>
    simp only [emitS] at hcode
    simp only [evalS, sizeS]
    refine .inr ⟨by first | rfl | trivial, locs, g, l, 2, ?_, hinv, rfl⟩
    have h1 := execN_one W.C _ _ (step_null (s0 := W.s0) (below := below) (locs := locs) (ops := ops) (g := g) (l := l) (fr := fr) hcode)
    rw [execN_step W.C 1 _ _ _ h1 (step_jump (by simpa [Instr.size] using hcode.tail))]
    rfl
  | ret _ _ _ e hfn he =>
    simp only [emitS] at hcode hpool
    obtain ⟨hc1, hc2⟩ := hcode.append
    rw [emitE_size] at hc2
    have h := ih.e nl fn Γ Γx Λ ab e he st pos lp cs below fr locs ops g l hsc hinv hc1 hpool
    simp only [evalS, sizeS]
    rcases h with h | h
    · exact .inl h
    cases hr : evalE f e st with
    | val v st1 =>
      rw [hr] at h
      obtain ⟨mv, hmv, locs1, g1, l1, n, hn, hinv1, ho1⟩ := h
      refine .inr ⟨hfn, ?_⟩
      intro fr0 rest hfr
      subst hfr
      exact ⟨mv, g1, l1, n + 1, hmv, execN_step W.C n _ _ _ hn (step_retv hW.mem hc2), hinv1.relG, hinv1.last, ho1⟩
    | err er st1 => rw [hr] at h; exact .inr h
    | fuel => exact .inr trivial
    | unspec _ => exact .inr trivial
    | brk _ => rw [hr] at h; exact .inr h
    | cont _ => rw [hr] at h; exact .inr h
    | ret _ _ => rw [hr] at h; exact .inr h

theorem pb_succ (f : Nat) (ih : PAll W f) : PB W (f + 1) := by
  intro nl fn Γ Γx Λ ab b Γ2 Λ2 hx st pos lp cs below fr locs ops g l hsc hinv hcode hpool
  cases hx with
  | nil _ _ _ =>
    simp only [evalB, sizeB, Nat.add_zero]
    exact .inr ⟨locs, g, l, 0, rfl, hinv, rfl⟩
  | cons _ _ _ Γ1 Λ1 _ _ s rest hs hrest =>
    simp only [emitB] at hcode hpool
    obtain ⟨hc1, hc2⟩ := hcode.append
    rw [emitS_size] at hc2
    have hpool1 : PoolOK W.s0.cvals (emitS s pos lp cs).2 := hpool.mono (emitB_ext rest _ _ _)
    have h1 := ih.s nl fn Γ Γx Λ ab s Γ1 Λ1 hs st pos lp cs below fr locs ops g l hsc hinv hc1 hpool1
    obtain ⟨hsc1, ⟨d, hd⟩, ⟨c, hc⟩⟩ := hsc.stepS hs
    simp only [evalB, sizeB]
    rcases h1 with h1 | h1
    · exact .inl h1
    cases hr : evalS f s st with
    | val u st1 =>
      rw [hr] at h1
      obtain ⟨locs1, g1, l1, n, hn, hinv1, ho1⟩ := h1
      have h2 := ih.b nl fn Γ1 Γx Λ1 ab rest Γ2 Λ2 hrest st1 (pos + sizeS s) lp _ below fr locs1 ops g1 l1 hsc1 hinv1 hc2 hpool
      rw [hd, hc] at h2
      rw [← Nat.add_assoc]
      exact GoalU.seq d c n hn ho1 h2
    | err er st1 => rw [hr] at h1; exact .inr h1
    | fuel => exact .inr trivial
    | unspec _ => exact .inr trivial
    | brk _ => rw [hr] at h1; exact .inr h1
    | cont _ => rw [hr] at h1; exact .inr h1
    | ret _ _ => rw [hr] at h1; exact .inr h1

end
end SimF
end Nl
