/- Invariants of the memory (`Mem`) that every instruction of the machine preserves: a predicate closed
   under the five primitive memory operations holds in every state a run reaches. -/
import Nlmodel.Model.VM
namespace Nl

/-- closed under allocation of each kind, overwriting a cell, and a collection -/
structure MemClosed (P : Mem → Prop) : Prop where
  allocF : ∀ m x, P m → P (m.allocFloat x).1
  allocS : ∀ m s, P m → P (m.allocStr s).1
  allocA : ∀ m vs, P m → P (m.allocArr vs).1
  set : ∀ (m : Mem) a c, P m → P { m with heap := m.heap.set a c }
  gc : ∀ m roots, P m → P (GC.run m roots)

section
variable {P : Mem → Prop} (hP : MemClosed P)
include hP

theorem box_closed (m : Mem) (arg : Value) (p : PRes) (h : P m) : P (m.box arg p).2 := by
  cases p with
  | null => exact h
  | bool b => exact h
  | int i => exact h
  | float x => exact hP.allocF m x h
  | str s => exact hP.allocS m s h
  | same => exact h

theorem binop_closed (op : BinOp) (l r : Value) (m : Mem) (h : P m) (v : Value) (m' : Mem) (he : binop op l r m = .ok (v, m')) : P m' := by
  unfold binop at he
  split at he
  · injection he with he; rw [← (Prod.mk.inj he).2]; exact box_closed hP m l _ h
  · cases he

theorem callBuiltin_closed (b : Builtin) (args : List Value) (m : Mem) (out : List Text) (h : P m) (v : Value) (m' : Mem) (out' : List Text)
    (he : callBuiltin b args m out = .ok (v, m', out')) : P m' := by
  unfold callBuiltin at he
  split at he
  · injection he with he; rw [← (Prod.mk.inj (Prod.mk.inj he).2).1]; exact h
  · split at he
    · split at he
      · injection he with he; rw [← (Prod.mk.inj (Prod.mk.inj he).2).1]; exact box_closed hP m _ _ h
      · cases he
    · cases he

theorem indexGet_closed (l i : Value) (m : Mem) (h : P m) (v : Value) (m' : Mem) (he : indexGet l i m = .ok (v, m')) : P m' := by
  unfold indexGet at he
  split at he
  · split at he
    · simp only at he
      split at he
      · injection he with he; rw [← (Prod.mk.inj he).2]; exact h
      · cases he
    · simp only at he
      split at he
      · injection he with he; rw [← (Prod.mk.inj he).2]; exact hP.allocS m _ h
      · cases he
    · cases he
  · cases he

theorem indexSet_closed (l i x : Value) (m : Mem) (h : P m) (v : Value) (m' : Mem) (he : indexSet l i x m = .ok (v, m')) : P m' := by
  unfold indexSet at he
  split at he
  · split at he
    · simp only at he
      split at he
      · injection he with he; rw [← (Prod.mk.inj he).2]; exact hP.set m _ _ h
      · cases he
    · simp only at he
      split at he
      · split at he
        · injection he with he; rw [← (Prod.mk.inj he).2]; exact hP.set m _ _ h
        · cases he
      · cases he
    · cases he
  · cases he

/-- what a step yields, as far as the memory is concerned -/
def Step.MemP (P : Mem → Prop) : Step → Prop
  | .next s => P s.mem
  | .halt _ s => P s.mem
  | .error _ s => P s.mem
  | .fault _ => True

theorem doReturn_closed (s : VM) (r : Value) (extra : List Value) (h : P s.mem) : (doReturn s r extra).MemP P := by
  unfold doReturn
  split
  · trivial
  · split
    · trivial
    · simp only [Step.MemP]
      split
      · exact h
      · exact hP.gc _ _ h

theorem exec_closed (i : Instr) (ip' : Nat) (s : VM) (h : P s.mem) : (exec i ip' s).MemP P := by
  cases i <;> simp only [exec]
  case const k =>
    split
    · trivial
    · exact hP.allocS _ _ h
    · exact h
  case setGlobal k => split <;> first | trivial | exact h
  case getGlobal k => exact h
  case setLocal k =>
    split
    · trivial
    · split <;> first | trivial | exact h
  case getLocal k => split <;> first | trivial | exact h
  case jump t => exact h
  case jumpIfFalse t => split <;> first | trivial | exact h
  case pop => split <;> first | trivial | exact h
  case null => exact h
  case true_ => exact h
  case false_ => exact h
  case bin op =>
    split
    · trivial
    · split
      · trivial
      · split
        · rename_i he; exact binop_closed hP _ _ _ _ h _ _ he
        · exact h
  case fused op loc k =>
    split
    · trivial
    · split
      · trivial
      · split
        · rename_i he; exact binop_closed hP _ _ _ _ h _ _ he
        · exact h
  case not => split <;> first | trivial | exact h
  case negate =>
    split
    · trivial
    · split <;> exact h
    · exact hP.allocF _ _ h
    · exact h
  case call argc =>
    split
    · trivial
    · split
      · exact h
      · split
        · exact h
        · split <;> first | trivial | exact h
    · exact h
  case callBuiltin b argc =>
    split
    · trivial
    · split
      · trivial
      · split
        · rename_i he; exact callBuiltin_closed hP _ _ _ _ h _ _ _ he
        · exact h
  case retv =>
    split
    · trivial
    · exact doReturn_closed hP _ _ _ h
  case ret => exact doReturn_closed hP _ _ _ h
  case array n =>
    split
    · trivial
    · exact hP.allocA _ _ h
  case indexGet =>
    split
    · trivial
    · split
      · trivial
      · split
        · rename_i he; exact indexGet_closed hP _ _ _ h _ _ he
        · exact h
  case indexSet =>
    split
    · trivial
    · split
      · trivial
      · split
        · trivial
        · split
          · rename_i he; exact indexSet_closed hP _ _ _ _ h _ _ he
          · exact h
  case halt => exact h

theorem step_closed (c : Code) (s : VM) (h : P s.mem) : (step c s).MemP P := by
  unfold step
  split
  · trivial
  · exact exec_closed hP _ _ _ h

def Outcome.MemP (P : Mem → Prop) : Outcome → Prop
  | .value _ s => P s.mem
  | .error _ s => P s.mem
  | .budget s => P s.mem
  | .fault _ => True

/-- every state a run reaches -/
theorem runSteps_closed (c : Code) : ∀ (n : Nat) (s : VM), P s.mem → (runSteps c n s).MemP P := by
  intro n
  induction n with
  | zero => intro s h; exact h
  | succ n ih =>
    intro s h
    have := step_closed hP c s h
    simp only [runSteps]
    cases hs : step c s with
    | next s' => rw [hs] at this; exact ih s' this
    | halt v s' => rw [hs] at this; exact this
    | error e s' => rw [hs] at this; exact this
    | fault site => trivial

theorem loadConsts_closed : ∀ (cs : List Const) (m : Mem) (vs : Array Value), P m → P (loadConsts cs (m, vs)).1 := by
  intro cs
  induction cs with
  | nil => intro m vs h; exact h
  | cons c cs ih =>
    intro m vs h
    cases c with
    | int i => exact ih m _ h
    | fn ip nl => exact ih m _ h
    | float b => exact ih _ _ (hP.allocF m b h)
    | str t => exact ih _ _ (hP.allocS m t h)

/-- every state a run of any program reaches, on a fresh machine or in a session -/
theorem run_closed (prev : VM) (bc : Bytecode) (h0 : P { heap := prev.mem.heap, managed := [] }) (n : Nat) :
    (runSteps bc.code n (prev.start bc)).MemP P := by
  apply runSteps_closed hP
  have := loadConsts_closed hP bc.consts { heap := prev.mem.heap, managed := [] } #[] h0
  simpa [VM.start] using this
end

end Nl
