/- The emitted code has the static size: the basis of every jump-target computation. -/
import Nlmodel.Model.Compiler
namespace Nl

@[simp] theorem codeSize_nil : codeSize [] = 0 := rfl
@[simp] theorem codeSize_cons (i : Instr) (is : List Instr) : codeSize (i :: is) = i.size + codeSize is := by
  simp [codeSize]
@[simp] theorem codeSize_append (a b : List Instr) : codeSize (a ++ b) = codeSize a + codeSize b := by
  simp [codeSize]

theorem getVar_size (s : Slot) : (getVar s).size = 3 := by cases s <;> rfl
theorem setVar_size (s : Slot) : (setVar s).size = 3 := by cases s <;> rfl

/-- a block whose tail is a value ends in the `Pop` of that expression statement -/
theorem emitB_value_tail : (b : RBlock) → ∀ pos lp cs, b.tailKind = .value →
    ∃ c', (emitB b pos lp cs).1 = c' ++ [.pop]
  | .nil, _, _, _, h => by simp [RBlock.tailKind] at h
  | .cons s .nil, pos, lp, cs, h => by
    cases s with
    | expr e => exact ⟨(emitE e pos lp cs).1, by simp [emitB, emitS]⟩
    | block b' =>
      have h' : b'.tailKind = .value := by simpa [RBlock.tailKind] using h
      obtain ⟨c', hc⟩ := emitB_value_tail b' pos lp cs h'
      exact ⟨c', by simp [emitB, emitS, hc]⟩
    | letS _ _ => simp [RBlock.tailKind] at h
    | ret _ => simp [RBlock.tailKind] at h
    | brk => simp [RBlock.tailKind] at h
    | cont => simp [RBlock.tailKind] at h
  | .cons s (.cons s2 b2), pos, lp, cs, h => by
    have h' : (RBlock.cons s2 b2).tailKind = .value := by
      cases s <;> simpa [RBlock.tailKind] using h
    obtain ⟨c', hc⟩ := emitB_value_tail (.cons s2 b2) (pos + sizeS s) lp (emitS s pos lp cs).2 h'
    refine ⟨(emitS s pos lp cs).1 ++ c', ?_⟩
    rw [emitB]
    simp only [hc, List.append_assoc]

theorem asValue_size (b : RBlock) (c : List Instr) (pos : Nat) (lp : LoopCtx) (cs : List Const)
    (hc : c = (emitB b pos lp cs).1) : codeSize (asValue b c) = valSize b (codeSize c) := by
  cases b with
  | nil => simp [asValue, valSize, Instr.size]
  | cons s b' =>
    simp only [asValue, valSize]
    cases hk : (RBlock.cons s b').tailKind with
    | value =>
      obtain ⟨c', h'⟩ := emitB_value_tail (.cons s b') pos lp cs hk
      rw [hc, h']
      simp [Instr.size]
    | returns => simp [Instr.size]
    | other => simp [Instr.size]

theorem asFnBody_size (b : RBlock) (c : List Instr) (pos : Nat) (lp : LoopCtx) (cs : List Const)
    (hc : c = (emitB b pos lp cs).1) : codeSize (asFnBody b c) = fnSize b (codeSize c) := by
  cases b with
  | nil => simp [asFnBody, fnSize, Instr.size]
  | cons s b' =>
    simp only [asFnBody, fnSize]
    cases hk : (RBlock.cons s b').tailKind with
    | value =>
      obtain ⟨c', h'⟩ := emitB_value_tail (.cons s b') pos lp cs hk
      rw [hc, h']
      simp [Instr.size]
    | returns => simp
    | other => simp [Instr.size]

mutual
theorem emitE_size : (e : RExpr) → ∀ pos lp cs, codeSize (emitE e pos lp cs).1 = sizeE e
  | .int _, _, _, _ => by simp [emitE, sizeE, Instr.size]
  | .float _, _, _, _ => by simp [emitE, sizeE, Instr.size]
  | .str _, _, _, _ => by simp [emitE, sizeE, Instr.size]
  | .bool b, _, _, _ => by cases b <;> simp [emitE, sizeE, Instr.size]
  | .var r, _, _, _ => by simp [emitE, sizeE, getVar_size]
  | .not r, pos, lp, cs => by simp [emitE, sizeE, emitE_size r pos lp cs, Instr.size]
  | .neg r, pos, lp, cs => by simp [emitE, sizeE, emitE_size r pos lp cs, Instr.size]
  | .assignVar r e, pos, lp, cs => by simp [emitE, sizeE, emitE_size e pos lp cs, getVar_size, setVar_size]
  | .assignIndex l i v, pos, lp, cs => by
    simp [emitE, sizeE, emitE_size l, emitE_size i, emitE_size v, Instr.size] <;> omega
  | .infix l op r, pos, lp, cs => by
    simp only [emitE, sizeE]
    cases hf : fusedCandidate l op r with
    | none => simp [emitE_size l, emitE_size r, Instr.size] <;> omega
    | some p => obtain ⟨o, k, v⟩ := p; simp [Instr.size]
  | .ifE c t e, pos, lp, cs => by
    simp only [emitE, sizeE, codeSize_append, codeSize_cons, codeSize_nil, emitE_size c]
    rw [asValue_size t _ _ lp _ rfl, emitB_size t, emitO_size e]
    simp [Instr.size] <;> omega
  | .whileE c b, pos, lp, cs => by
    simp only [emitE, sizeE, codeSize_append, codeSize_cons, codeSize_nil, emitE_size c]
    rw [asValue_size b _ _ _ _ rfl, emitB_size b]
    simp [Instr.size] <;> omega
  | .func fid self ps nl body, pos, lp, cs => by
    simp only [emitE, sizeE, codeSize_append, codeSize_cons, codeSize_nil]
    rw [asFnBody_size body _ _ none _ rfl, emitB_size body]
    cases self with
    | none => simp [Instr.size] <;> omega
    | some r => simp only [codeSize_cons, codeSize_nil, setVar_size]; simp [Instr.size] <;> omega
  | .call f as, pos, lp, cs => by
    simp [emitE, sizeE, emitEs_size as, emitE_size f, Instr.size] <;> omega
  | .callBuiltin b as, pos, lp, cs => by
    simp [emitE, sizeE, emitEs_size as, Instr.size]
  | .arr vs, pos, lp, cs => by simp [emitE, sizeE, emitEs_size vs, Instr.size]
  | .index l i, pos, lp, cs => by simp [emitE, sizeE, emitE_size l, emitE_size i, Instr.size] <;> omega
theorem emitEs_size : (es : RExprs) → ∀ pos lp cs, codeSize (emitEs es pos lp cs).1 = sizeEs es
  | .nil, _, _, _ => by simp [emitEs, sizeEs]
  | .cons e es, pos, lp, cs => by simp [emitEs, sizeEs, emitE_size e, emitEs_size es]
theorem emitS_size : (s : RStmt) → ∀ pos lp cs, codeSize (emitS s pos lp cs).1 = sizeS s
  | .expr e, pos, lp, cs => by simp [emitS, sizeS, emitE_size e, Instr.size]
  | .letS r e, pos, lp, cs => by simp [emitS, sizeS, emitE_size e, setVar_size]
  | .ret e, pos, lp, cs => by simp [emitS, sizeS, emitE_size e, Instr.size]
  | .block b, pos, lp, cs => by simp [emitS, sizeS, emitB_size b]
  | .brk, _, _, _ => by simp [emitS, sizeS, Instr.size]
  | .cont, _, _, _ => by simp [emitS, sizeS, Instr.size]
theorem emitB_size : (b : RBlock) → ∀ pos lp cs, codeSize (emitB b pos lp cs).1 = sizeB b
  | .nil, _, _, _ => by simp [emitB, sizeB]
  | .cons s b, pos, lp, cs => by simp [emitB, sizeB, emitS_size s, emitB_size b]
theorem emitO_size : (o : ROptBlock) → ∀ pos lp cs, codeSize (emitO o pos lp cs).1 = sizeO o
  | .none, _, _, _ => by simp [emitO, sizeO, Instr.size]
  | .some b, pos, lp, cs => by
    simp only [emitO, sizeO]
    rw [asValue_size b _ _ lp _ rfl, emitB_size b]
end

end Nl
