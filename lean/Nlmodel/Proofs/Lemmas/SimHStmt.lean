/- Stage 5: expressions assembled; statements and blocks in statement position. -/
import Nlmodel.Proofs.Lemmas.SimHCtl
namespace Nl
namespace SimH
open Spec Sim

section
variable {s0 : VM} {CS : List Const} {C : Code}

theorem pe5_succ (f : Nat) (ih : PAll5 s0 CS C f) : PE5 s0 CS C (f + 1) := by
  intro Γ ab e hx hok μ st pos lp cs stk g l m out hinv hcode hext
  cases hx with
  | int _ _ v => exact pe5_int f v hinv hcode hext
  | bool _ _ b => exact pe5_bool f b hinv hcode
  | float _ _ x hx => exact pe5_float f x hx hinv hcode hext
  | str _ _ s => exact pe5_str f s hinv hcode hext
  | var _ _ b k hm => exact pe5_var f b k hm hinv hcode
  | not _ _ e1 h1 => exact pe5_not f ih.e e1 h1 hok hinv hcode hext
  | neg _ _ e1 h1 => exact pe5_neg f ih.e e1 h1 hok hinv hcode hext
  | assign _ _ b k e1 hm h1 => exact pe5_assign f ih.e b k hm e1 h1 hok hinv hcode hext
  | bin _ _ el op er hl hr => exact pe5_bin f ih.e el op er hl hr hok hinv hcode hext
  | arr _ _ vs hvs => exact pe5_arr f ih vs hvs hok hinv hcode hext
  | index _ _ el ei hl hi => exact pe5_index f ih.e el ei hl hi hok hinv hcode hext
  | assignIndex _ _ el ei ev hl hi hv => exact pe5_assignIndex f ih.e el ei ev hl hi hv hok hinv hcode hext
  | builtin _ _ b as has => exact pe5_builtin f ih b as has hok hinv hcode hext
  | ifE _ _ c t e Γ1 hc ht he => exact pe5_if f ih c t e Γ1 hc ht he hok hinv hcode hext
  | whileE _ _ c b Γ1 hc hb =>
    obtain ⟨hnull, _⟩ := while_layout c b hcode
    have h1 := execN_one C _ _ (step_null (s0 := s0) (stk := stk) (g := g) (l := l) (m := m) (out := out) hnull)
    have ihl := ih.l Γ ab c b Γ1 hc hb hok μ st pos lp cs stk g l m out .null .null trivial hinv hcode hext
    simp only [evalE]
    exact ihl.prefix 1 h1 (Grow.refl _ _ _)

/-- unbinding a fresh binder in an extended scope -/
theorem inv5_unbind {Γ : Gam} {μ : AMap} {st : SState} {g : Array Value} {l : Value} {m : Mem} {out : List Text} (b k : Nat)
    (hf : ∀ p ∈ Γ, p.1 ≠ b ∧ p.2 ≠ k) (hinv : Inv5 s0 CS Γ μ st g l m out) :
    Inv5 s0 CS ((b, k) :: Γ) μ (st.unbind ⟨b, .global k⟩) g l m out ∧ Grow μ st m.heap μ (st.unbind ⟨b, .global k⟩) m.heap := by
  have hst : (st.unbind ⟨b, .global k⟩).store = st.store := by simp [SState.unbind, isGlobalSlot]
  have hgr : Grow μ st m.heap μ (st.unbind ⟨b, .global k⟩) m.heap := grow_store_eq hst
  refine ⟨⟨?_, ?_, hinv.hr.store_eq hst, by simpa [SState.unbind, isGlobalSlot] using hinv.out, hinv.pool, hinv.mok⟩, hgr⟩
  · intro b' k' hm v hv
    simp only [SState.unbind, isGlobalSlot, ↓reduceIte] at hv
    rcases List.mem_cons.mp hm with he | hm'
    · injection he with e1 e2
      subst e1
      rw [envGet_envDel_same] at hv
      cases hv
    · have hb : b' ≠ b := (hf (b', k') hm').1
      rw [envGet_envDel_other _ _ _ hb] at hv
      obtain ⟨mv, h1, h2⟩ := hinv.relG b' k' hm' v hv
      exact ⟨mv, h1.grow hgr, h2⟩
  · have : (st.unbind ⟨b, .global k⟩).last = st.last := by simp [SState.unbind, isGlobalSlot]
    rw [this]; exact hinv.last.grow hgr

theorem ps5_succ (f : Nat) (ih : PAll5 s0 CS C f) : PS5 s0 CS C (f + 1) := by
  intro Γ ab s Γ1 hx hok μ st pos lp cs stk g l m out hinv hcode hext
  cases hx with
  | expr _ _ e he =>
    simp only [emitS] at hcode hext
    obtain ⟨hc1, hc2⟩ := hcode.append
    rw [emitE_size] at hc2
    have h := ih.e Γ ab e he hok μ st pos lp cs stk g l m out hinv hc1 hext
    simp only [evalS, sizeS]
    cases hr : evalE f e st with
    | val v st1 =>
      rw [hr] at h
      obtain ⟨mv, μ1, m1, hmv, g1, l1, out1, n, hn, hinv1, hg1⟩ := h
      have hst : ({ st1 with last := v } : SState).store = st1.store := rfl
      have hgl : Grow μ1 st1 m1.heap μ1 { st1 with last := v } m1.heap := grow_store_eq hst
      refine ⟨μ1, m1, g1, mv, out1, n + 1, ?_, ?_, hg1.trans hgl⟩
      · rw [execN_step C n _ _ _ hn (step_pop hc2)]; congr 2
      · exact ⟨fun b k hm w hw => by
            obtain ⟨mw, h1, h2⟩ := hinv1.relG b k hm w hw
            exact ⟨mw, h1.grow hgl, h2⟩,
          hmv.grow hgl, hinv1.hr.store_eq hst, hinv1.out, hinv1.pool, hinv1.mok⟩
    | err er st1 => rw [hr] at h; exact h
    | fuel => trivial
    | unspec _ => trivial
    | brk _ => rw [hr] at h; exact h
    | cont _ => rw [hr] at h; exact h
    | ret _ _ => rw [hr] at h; exact h
  | letS _ _ b k e hf he =>
    have hok' := gamOK_cons hok b k hf
    simp only [emitS, setVar] at hcode hext
    obtain ⟨hc1, hc2⟩ := hcode.append
    rw [emitE_size] at hc2
    obtain ⟨hinv0, hg0⟩ := inv5_unbind b k hf hinv
    have h := ih.e _ ab e he hok' μ (st.unbind ⟨b, .global k⟩) pos lp cs stk g l m out hinv0 hc1 hext
    simp only [evalS, sizeS]
    cases hr : evalE f e (st.unbind ⟨b, .global k⟩) with
    | val v st1 =>
      rw [hr] at h
      obtain ⟨mv, μ1, m1, hmv, g1, l1, out1, n, hn, hinv1, hg1⟩ := h
      have hinv2 := relG_bind5 hok' hinv1 b k List.mem_cons_self v mv hmv
      have hst : (st1.bind ⟨b, .global k⟩ v).store = st1.store := by simp [SState.bind, isGlobalSlot]
      refine ⟨μ1, m1, setGlobalArr g1 k mv, l1, out1, n + 1, ?_, hinv2, (hg0.trans hg1).trans (grow_store_eq hst)⟩
      rw [execN_step C n _ _ _ hn (step_setGlobal hc2)]; congr 2
    | err er st1 => rw [hr] at h; exact h
    | fuel => trivial
    | unspec _ => trivial
    | brk st1 =>
      rw [hr] at h
      obtain ⟨h1, μ', m', hre⟩ := h
      obtain ⟨g', l', out', n, hn, hinv', hg'⟩ := hre.weaken (Γ := Γ) [(b, k)]
      exact ⟨h1, μ', m', g', l', out', n, hn, hinv', hg0.trans hg'⟩
    | cont st1 =>
      rw [hr] at h
      obtain ⟨h1, μ', m', hre⟩ := h
      obtain ⟨g', l', out', n, hn, hinv', hg'⟩ := hre.weaken (Γ := Γ) [(b, k)]
      exact ⟨h1, μ', m', g', l', out', n, hn, hinv', hg0.trans hg'⟩
    | ret _ _ => rw [hr] at h; exact h
  | block _ _ b Γ2 hb =>
    simp only [emitS] at hcode hext
    have h := ih.b Γ ab b Γ2 hb hok μ st pos lp cs stk g l m out hinv hcode hext
    obtain ⟨_, d, hd⟩ := hb_scope b hb hok
    simp only [evalS, sizeS]
    cases hr : evalB f b st with
    | val u st1 => rw [hr] at h; subst hd; obtain ⟨μ', m', hre⟩ := h; exact ⟨μ', m', hre.weaken d⟩
    | err er st1 => rw [hr] at h; exact h
    | fuel => trivial
    | unspec _ => trivial
    | brk _ => rw [hr] at h; exact h
    | cont _ => rw [hr] at h; exact h
    | ret _ _ => rw [hr] at h; exact h
  | brk _ =>
    simp only [emitS] at hcode
    simp only [evalS, sizeS, GoalU5]
    refine ⟨by first | rfl | trivial, μ, m, g, l, out, 2, ?_, hinv, Grow.refl _ _ _⟩
    have h1 := execN_one C _ _ (step_null (s0 := s0) (stk := stk) (g := g) (l := l) (m := m) (out := out) hcode)
    rw [execN_step C 1 _ _ _ h1 (step_jump (by simpa [Instr.size] using hcode.tail))]
    rfl
  | cont _ =>
    simp only [emitS] at hcode
    simp only [evalS, sizeS, GoalU5]
    refine ⟨by first | rfl | trivial, μ, m, g, l, out, 2, ?_, hinv, Grow.refl _ _ _⟩
    have h1 := execN_one C _ _ (step_null (s0 := s0) (stk := stk) (g := g) (l := l) (m := m) (out := out) hcode)
    rw [execN_step C 1 _ _ _ h1 (step_jump (by simpa [Instr.size] using hcode.tail))]
    rfl

theorem pb5_succ (f : Nat) (ih : PAll5 s0 CS C f) : PB5 s0 CS C (f + 1) := by
  intro Γ ab b Γ2 hx hok μ st pos lp cs stk g l m out hinv hcode hext
  cases hx with
  | nil _ _ =>
    simp only [evalB, sizeB, GoalU5, Nat.add_zero]
    exact ⟨μ, m, Reach5.refl hinv⟩
  | cons _ _ Γ1 _ s rest hs hrest =>
    simp only [emitB] at hcode hext
    obtain ⟨hc1, hc2⟩ := hcode.append
    rw [emitS_size] at hc2
    have hext1 : Ext (emitS s pos lp cs).2 CS := (emitB_ext rest _ _ _).trans hext
    have h1 := ih.s Γ ab s Γ1 hs hok μ st pos lp cs stk g l m out hinv hc1 hext1
    obtain ⟨hok1, d, hd⟩ := hs_scope hs hok
    simp only [evalB, sizeB]
    cases hr : evalS f s st with
    | val u st1 =>
      rw [hr] at h1
      obtain ⟨μ1, m1, g1, l1, out1, n, hn, hinv1, hg1⟩ := h1
      have h2 := ih.b Γ1 ab rest Γ2 hrest hok1 μ1 st1 (pos + sizeS s) lp _ stk g1 l1 m1 out1 hinv1 hc2 hext
      subst hd
      rw [← Nat.add_assoc]
      exact GoalU5.seq d n hn hg1 h2
    | err er st1 => rw [hr] at h1; exact h1
    | fuel => trivial
    | unspec _ => trivial
    | brk _ => rw [hr] at h1; exact h1
    | cont _ => rw [hr] at h1; exact h1
    | ret _ _ => rw [hr] at h1; exact h1

end
end SimH
end Nl
