"""Common flow of a check (DESIGN §2.3)."""
import importlib
import json
import os
import sys
import time

from . import core
from .core import Result, Rng


def table_correspondence(res):
    a = core.impl(["tables"])[0].split(" ;; ")
    b = core.model(["tables"])[0].split(" ;; ")
    res.coverage["table_rows_compared"] = len(a)
    if a != b:
        diffs = [x for x in a if x not in b] + ["model: " + x for x in b if x not in a]
        return diffs
    return []


def main(argv):
    pid = argv[1]
    tier = os.environ.get("VERIF_TIER", "quick")
    replay = None
    i = 2
    while i < len(argv):
        if argv[i] == "--tier":
            tier = argv[i + 1]
            i += 2
        elif argv[i] == "--replay":
            replay = argv[i + 1]
            i += 2
        else:
            i += 1
    seed = int(os.environ.get("VERIF_SEED", "1"))
    mod = importlib.import_module("checklib.props." + pid)
    res = Result(pid, tier, seed)
    try:
        core.build_harness()
        core.build_lean()
    except core.BuildError as e:
        res.violation("the repository (with hooks) or the model does not build, so the correspondence "
                      "cannot be established", dict(kind="build", detail=str(e)[-3000:],
                                                    unchecked=mod.THEOREM_FILE), no_input=True)
        return res.finish(rule="build failed")
    if replay:
        return mod.replay(res, json.load(open(os.path.join(core.VERIF, replay))))
    proofs = core.check_proofs(mod.PROOF_MODULE, mod.PROOF_FILES)
    proofs["module"] = mod.PROOF_MODULE
    # further property modules of the same property (theorems that need lemma files which themselves import the first one)
    for extra in getattr(mod, "MORE_PROOF_MODULES", []):
        more = core.check_proofs(extra, [])
        proofs["obligations"] += more["obligations"]
        proofs["discharged"] += more["discharged"]
        proofs["axioms"].update(more["axioms"])
        proofs["problems"] += more["problems"]
        proofs["names"] = proofs.get("names", []) + more.get("names", [])
        proofs["module"] += " " + extra
    if proofs["problems"]:
        res.violation("a proof obligation of %s does not check" % pid,
                      dict(kind="proof", problems=proofs["problems"], unchecked=mod.PROOF_MODULE), no_input=True)
    if tier == "thorough":
        # independent re-check of the compiled proof module by Lean's external checker
        r = core.sh(["lake", "env", "leanchecker", mod.PROOF_MODULE] + list(getattr(mod, "MORE_PROOF_MODULES", [])), cwd=core.LEAN, timeout=3600)
        res.coverage["leanchecker"] = "ok" if r.returncode == 0 else "failed"
        if r.returncode != 0:
            res.violation("leanchecker rejects the compiled proof module of %s" % pid,
                          dict(kind="proof", problems=[r.stdout[-2000:]], unchecked=mod.PROOF_MODULE), no_input=True)
    diffs = table_correspondence(res)
    if diffs:
        res.coverage["table_differences"] = diffs[:20]
    rng = Rng(seed)
    mod.run(res, tier, rng, table_diffs=diffs)
    return res.finish(proofs=proofs, rule=mod.RULE, exhaustive=getattr(mod, "EXHAUSTIVE", None))
