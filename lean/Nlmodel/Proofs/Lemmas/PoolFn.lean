/- Function constants of the pool: each comes from a function literal, whose entry is certified (entry, 0). -/
import Nlmodel.Proofs.Lemmas.EmitCert
namespace Nl
namespace CV
open Verifier Sim

theorem addConst_mem (cs : List Const) (y x : Const) (h : x ∈ (addConst cs y).1) : x ∈ cs ∨ x = y := by
  unfold addConst at h
  split at h
  · exact .inl h
  · simpa using h

/-- a function constant with entry `ip` stems from the code at `[pos, pos + sz)` -/
def NewFn (pos sz k ip : Nat) (P : Cert → Prop) : Prop :=
  pos + 3 ≤ ip ∧ ip + k < pos + sz ∧ ∀ c, P c → c.get ip = some (ip, 0)

theorem NewFn.mono {pos sz k ip : Nat} {P : Cert → Prop} (h : NewFn pos sz k ip P) {pos' sz' k' : Nat} {P' : Cert → Prop}
    (h1 : pos' ≤ pos) (h2 : pos + sz + k' ≤ pos' + sz' + k) (h3 : ∀ c, P' c → P c) : NewFn pos' sz' k' ip P' :=
  ⟨by have := h.1; omega, by have := h.2.1; omega, fun c hc => h.2.2 c (h3 c hc)⟩

theorem Seg_valWrap {c : Cert} {p : Nat} {b : RBlock} {L : List AI} {o h : Nat} (hL : b = .nil → L = [])
    (hs : Seg c p (valWrap b L o h)) : Seg c p L := by
  cases b with
  | nil => rw [hL rfl]; trivial
  | cons s b' =>
    simp only [valWrap] at hs
    cases hk : (RBlock.cons s b').tailKind <;> simp only [hk, Seg_append] at hs
    · exact hs
    · exact hs.1
    · exact hs.1

theorem Seg_fnWrap {c : Cert} {p : Nat} {b : RBlock} {L : List AI} {e : Nat} (hL : b = .nil → L = [])
    (hs : Seg c p (fnWrap b L e)) : Seg c p L := by
  cases b with
  | nil => rw [hL rfl]; trivial
  | cons s b' =>
    simp only [fnWrap] at hs
    cases hk : (RBlock.cons s b').tailKind <;> simp only [hk, Seg_append] at hs
    · exact hs.1
    · exact hs
    · exact hs.1

theorem annB_nil (v : Bool) (b : RBlock) (pos lp cs o h) (hb : b = .nil) : annB v b pos lp cs o h = [] := by
  subst hb; simp [annB]

theorem sizeB_le_BV (b : RBlock) : sizeB b ≤ sizeBV b + 1 := by
  unfold sizeBV valSize
  cases b with
  | nil => simp [sizeB]
  | cons s b' => cases (RBlock.cons s b').tailKind <;> simp only <;> omega

theorem sizeB_le_BF (b : RBlock) : sizeB b ≤ sizeBF b := by
  unfold sizeBF fnSize
  cases b with
  | nil => simp [sizeB]
  | cons s b' => cases (RBlock.cons s b').tailKind <;> simp only <;> omega

mutual
theorem poolE : (e : RExpr) → ∀ (pos : Nat) (lp : LoopCtx) (cs : List Const) (ip nl : Nat),
    Const.fn ip nl ∈ (emitE e pos lp cs).2 →
    Const.fn ip nl ∈ cs ∨ NewFn pos (sizeE e) 0 ip (fun c => ∃ o h, Seg c pos (annE e pos lp cs o h))
  | .int v, pos, lp, cs, ip, nl, hm => by
    simp only [emitE] at hm
    rcases addConst_mem _ _ _ hm with h | h
    · exact .inl h
    · cases h
  | .float v, pos, lp, cs, ip, nl, hm => by
    simp only [emitE] at hm
    rcases addConst_mem _ _ _ hm with h | h
    · exact .inl h
    · cases h
  | .str v, pos, lp, cs, ip, nl, hm => by
    simp only [emitE] at hm
    rcases addConst_mem _ _ _ hm with h | h
    · exact .inl h
    · cases h
  | .bool b, pos, lp, cs, ip, nl, hm => by simp only [emitE] at hm; exact .inl hm
  | .var r, pos, lp, cs, ip, nl, hm => by simp only [emitE] at hm; exact .inl hm
  | .not r, pos, lp, cs, ip, nl, hm => by
    simp only [emitE] at hm
    rcases poolE r pos lp cs ip nl hm with h | h
    · exact .inl h
    · refine .inr (h.mono (Nat.le_refl _) (by simp only [sizeE]; omega) ?_)
      rintro c ⟨o, h, hs⟩
      simp only [annE, Seg_append] at hs
      exact ⟨_, _, hs.1⟩
  | .neg r, pos, lp, cs, ip, nl, hm => by
    simp only [emitE] at hm
    rcases poolE r pos lp cs ip nl hm with h | h
    · exact .inl h
    · refine .inr (h.mono (Nat.le_refl _) (by simp only [sizeE]; omega) ?_)
      rintro c ⟨o, h, hs⟩
      simp only [annE, Seg_append] at hs
      exact ⟨_, _, hs.1⟩
  | .assignVar r e, pos, lp, cs, ip, nl, hm => by
    simp only [emitE] at hm
    rcases poolE e pos lp cs ip nl hm with h | h
    · exact .inl h
    · refine .inr (h.mono (Nat.le_refl _) (by simp only [sizeE]; omega) ?_)
      rintro c ⟨o, h, hs⟩
      simp only [annE, Seg_append] at hs
      exact ⟨_, _, hs.1⟩
  | .assignIndex l i v, pos, lp, cs, ip, nl, hm => by
    simp only [emitE] at hm
    rcases poolE v _ lp _ ip nl hm with h | h
    · rcases poolE i _ lp _ ip nl h with h | h
      · rcases poolE l _ lp _ ip nl h with h | h
        · exact .inl h
        · refine .inr (h.mono (Nat.le_refl _) (by simp only [sizeE]; omega) ?_)
          rintro c ⟨o, h, hs⟩
          simp only [annE, Seg_append, asize_append, asizeE, ← Nat.add_assoc] at hs
          exact ⟨_, _, hs.1.1.1⟩
      · refine .inr (h.mono (by omega) (by simp only [sizeE]; omega) ?_)
        rintro c ⟨o, h, hs⟩
        simp only [annE, Seg_append, asize_append, asizeE, ← Nat.add_assoc] at hs
        exact ⟨_, _, hs.1.1.2⟩
    · refine .inr (h.mono (by omega) (by simp only [sizeE]; omega) ?_)
      rintro c ⟨o, h, hs⟩
      simp only [annE, Seg_append, asize_append, asizeE, ← Nat.add_assoc] at hs
      exact ⟨_, _, hs.1.2⟩
  | .infix l op r, pos, lp, cs, ip, nl, hm => by
    simp only [emitE] at hm
    cases hf : fusedCandidate l op r with
    | some p =>
      obtain ⟨op', k, v⟩ := p
      simp only [hf] at hm
      rcases addConst_mem _ _ _ hm with h | h
      · exact .inl h
      · cases h
    | none =>
      simp only [hf] at hm
      rcases poolE r _ lp _ ip nl hm with h | h
      · rcases poolE l _ lp _ ip nl h with h | h
        · exact .inl h
        · refine .inr (h.mono (Nat.le_refl _) (by simp only [sizeE, hf]; omega) ?_)
          rintro c ⟨o, h, hs⟩
          simp only [annE, hf, Seg_append, asize_append, asizeE, ← Nat.add_assoc] at hs
          exact ⟨_, _, hs.1.1⟩
      · refine .inr (h.mono (by omega) (by simp only [sizeE, hf]; omega) ?_)
        rintro c ⟨o, h, hs⟩
        simp only [annE, hf, Seg_append, asize_append, asizeE, ← Nat.add_assoc] at hs
        exact ⟨_, _, hs.1.2⟩
  | .index l i, pos, lp, cs, ip, nl, hm => by
    simp only [emitE] at hm
    rcases poolE i _ lp _ ip nl hm with h | h
    · rcases poolE l _ lp _ ip nl h with h | h
      · exact .inl h
      · refine .inr (h.mono (Nat.le_refl _) (by simp only [sizeE]; omega) ?_)
        rintro c ⟨o, h, hs⟩
        simp only [annE, Seg_append, asize_append, asizeE, ← Nat.add_assoc] at hs
        exact ⟨_, _, hs.1.1⟩
    · refine .inr (h.mono (by omega) (by simp only [sizeE]; omega) ?_)
      rintro c ⟨o, h, hs⟩
      simp only [annE, Seg_append, asize_append, asizeE, ← Nat.add_assoc] at hs
      exact ⟨_, _, hs.1.2⟩
  | .call f as, pos, lp, cs, ip, nl, hm => by
    simp only [emitE] at hm
    rcases poolE f _ lp _ ip nl hm with h | h
    · rcases poolEs as _ lp _ ip nl h with h | h
      · exact .inl h
      · refine .inr (h.mono (Nat.le_refl _) (by simp only [sizeE]; omega) ?_)
        rintro c ⟨o, h, hs⟩
        simp only [annE, Seg_append, asize_append, asizeE, asizeEs, ← Nat.add_assoc] at hs
        exact ⟨_, _, hs.1.1⟩
    · refine .inr (h.mono (by omega) (by simp only [sizeE]; omega) ?_)
      rintro c ⟨o, h, hs⟩
      simp only [annE, Seg_append, asize_append, asizeE, asizeEs, ← Nat.add_assoc] at hs
      exact ⟨_, _, hs.1.2⟩
  | .callBuiltin b as, pos, lp, cs, ip, nl, hm => by
    simp only [emitE] at hm
    rcases poolEs as pos lp cs ip nl hm with h | h
    · exact .inl h
    · refine .inr (h.mono (Nat.le_refl _) (by simp only [sizeE]; omega) ?_)
      rintro c ⟨o, h, hs⟩
      simp only [annE, Seg_append] at hs
      exact ⟨_, _, hs.1⟩
  | .arr vs, pos, lp, cs, ip, nl, hm => by
    simp only [emitE] at hm
    rcases poolEs vs pos lp cs ip nl hm with h | h
    · exact .inl h
    · refine .inr (h.mono (Nat.le_refl _) (by simp only [sizeE]; omega) ?_)
      rintro c ⟨o, h, hs⟩
      simp only [annE, Seg_append] at hs
      exact ⟨_, _, hs.1⟩
  | .ifE cnd t e, pos, lp, cs, ip, nl, hm => by
    simp only [emitE] at hm
    have hle := sizeB_le_BV t
    rcases poolO e _ lp _ ip nl hm with h | h
    · rcases poolB t _ lp _ ip nl h with h | h
      · rcases poolE cnd _ lp _ ip nl h with h | h
        · exact .inl h
        · refine .inr (h.mono (Nat.le_refl _) (by simp only [sizeE]; omega) ?_)
          rintro c ⟨o, h, hs⟩
          simp only [annE, Seg_append, asize_append, asizeE, ← Nat.add_assoc] at hs
          exact ⟨_, _, hs.1.1.1.1⟩
      · refine .inr (h.mono (by omega) (by simp only [sizeE, sizeBV] at hle ⊢; omega) ?_)
        rintro c ⟨o, h, hs⟩
        simp only [annE, Seg_append, asize_append, asizeE, asize_cons, asize_nil, Instr.size, ← Nat.add_assoc,
          Nat.add_zero] at hs
        exact ⟨true, _, _, Seg_valWrap (annB_nil _ _ _ _ _ _ _) hs.1.1.2⟩
    · refine .inr (h.mono (by omega) (by simp only [sizeE, sizeBV]; omega) ?_)
      rintro c ⟨o, h, hs⟩
      simp only [annE, Seg_append, asize_append, asizeE, asizeBV, asize_cons, asize_nil, Instr.size, ← Nat.add_assoc,
        Nat.add_zero] at hs
      exact ⟨_, _, hs.2⟩
  | .whileE cnd b, pos, lp, cs, ip, nl, hm => by
    simp only [emitE] at hm
    have hle := sizeB_le_BV b
    rcases poolB b _ _ _ ip nl hm with h | h
    · rcases poolE cnd _ _ _ ip nl h with h | h
      · exact .inl h
      · refine .inr (h.mono (by omega) (by simp only [sizeE]; omega) ?_)
        rintro c ⟨o, h, hs⟩
        simp only [annE, Seg_append, asize_append, asizeE, asize_cons, asize_nil, Instr.size, ← Nat.add_assoc,
          Nat.add_zero] at hs
        exact ⟨_, _, hs.1.1.1.2⟩
    · refine .inr (h.mono (by omega) (by simp only [sizeE, sizeBV] at hle ⊢; omega) ?_)
      rintro c ⟨o, h, hs⟩
      simp only [annE, Seg_append, asize_append, asizeE, asize_cons, asize_nil, Instr.size, ← Nat.add_assoc,
        Nat.add_zero] at hs
      exact ⟨true, _, _, Seg_valWrap (annB_nil _ _ _ _ _ _ _) hs.1.2⟩
  | .func fid self ps nlf body, pos, lp, cs, ip, nl, hm => by
    simp only [emitE] at hm
    have hle := sizeB_le_BF body
    have hseg : ∀ c, (∃ o h, Seg c pos (annE (.func fid self ps nlf body) pos lp cs o h)) →
        Seg c (pos + 3) (fnWrap body (annB true body (pos + 3) none cs (pos + 3) 0) (pos + 3)) := by
      rintro c ⟨o, h, hs⟩
      simp only [annE, Seg_append, asize_append, asize_cons, asize_nil, Instr.size, ← Nat.add_assoc, Nat.add_zero] at hs
      exact hs.1.1.2
    rcases addConst_mem _ _ _ hm with h | h
    · rcases poolB body _ _ _ ip nl h with h | h
      · exact .inl h
      · refine .inr (h.mono (by omega) (by simp only [sizeE, sizeBF] at hle ⊢; omega) ?_)
        intro c hc
        exact ⟨true, _, _, Seg_fnWrap (annB_nil _ _ _ _ _ _ _) (hseg c hc)⟩
    · simp only [Const.fn.injEq] at h
      obtain ⟨rfl, rfl⟩ := h
      refine .inr ⟨Nat.le_refl _, by simp only [sizeE]; omega, ?_⟩
      intro c hc
      exact Seg_starts (hseg c hc) (head_fnWrap ..)
theorem poolEs : (es : RExprs) → ∀ (pos : Nat) (lp : LoopCtx) (cs : List Const) (ip nl : Nat),
    Const.fn ip nl ∈ (emitEs es pos lp cs).2 →
    Const.fn ip nl ∈ cs ∨ NewFn pos (sizeEs es) 0 ip (fun c => ∃ o h, Seg c pos (annEs es pos lp cs o h))
  | .nil, pos, lp, cs, ip, nl, hm => by simp only [emitEs] at hm; exact .inl hm
  | .cons e es, pos, lp, cs, ip, nl, hm => by
    simp only [emitEs] at hm
    rcases poolEs es _ lp _ ip nl hm with h | h
    · rcases poolE e _ lp _ ip nl h with h | h
      · exact .inl h
      · refine .inr (h.mono (Nat.le_refl _) (by simp only [sizeEs]; omega) ?_)
        rintro c ⟨o, h, hs⟩
        simp only [annEs, Seg_append, asizeE] at hs
        exact ⟨_, _, hs.1⟩
    · refine .inr (h.mono (by omega) (by simp only [sizeEs]; omega) ?_)
      rintro c ⟨o, h, hs⟩
      simp only [annEs, Seg_append, asizeE] at hs
      exact ⟨_, _, hs.2⟩
theorem poolS : (s : RStmt) → ∀ (pos : Nat) (lp : LoopCtx) (cs : List Const) (ip nl : Nat),
    Const.fn ip nl ∈ (emitS s pos lp cs).2 →
    Const.fn ip nl ∈ cs ∨ NewFn pos (sizeS s) 1 ip (fun c => ∃ v o h, Seg c pos (annS v s pos lp cs o h))
  | .expr e, pos, lp, cs, ip, nl, hm => by
    simp only [emitS] at hm
    rcases poolE e pos lp cs ip nl hm with h | h
    · exact .inl h
    · refine .inr (h.mono (Nat.le_refl _) (by simp only [sizeS]; omega) ?_)
      rintro c ⟨v, o, h, hs⟩
      simp only [annS, Seg_append] at hs
      exact ⟨_, _, hs.1⟩
  | .letS r e, pos, lp, cs, ip, nl, hm => by
    simp only [emitS] at hm
    rcases poolE e pos lp cs ip nl hm with h | h
    · exact .inl h
    · refine .inr (h.mono (Nat.le_refl _) (by simp only [sizeS]; omega) ?_)
      rintro c ⟨v, o, h, hs⟩
      simp only [annS, Seg_append] at hs
      exact ⟨_, _, hs.1⟩
  | .ret e, pos, lp, cs, ip, nl, hm => by
    simp only [emitS] at hm
    rcases poolE e pos lp cs ip nl hm with h | h
    · exact .inl h
    · refine .inr (h.mono (Nat.le_refl _) (by simp only [sizeS]; omega) ?_)
      rintro c ⟨v, o, h, hs⟩
      simp only [annS, Seg_append] at hs
      exact ⟨_, _, hs.1⟩
  | .block b, pos, lp, cs, ip, nl, hm => by
    simp only [emitS] at hm
    rcases poolB b pos lp cs ip nl hm with h | h
    · exact .inl h
    · refine .inr (h.mono (Nat.le_refl _) (by simp only [sizeS]; omega) ?_)
      rintro c ⟨v, o, h, hs⟩
      simp only [annS] at hs
      exact ⟨_, _, _, hs⟩
  | .brk, pos, lp, cs, ip, nl, hm => by simp only [emitS] at hm; exact .inl hm
  | .cont, pos, lp, cs, ip, nl, hm => by simp only [emitS] at hm; exact .inl hm
theorem poolB : (b : RBlock) → ∀ (pos : Nat) (lp : LoopCtx) (cs : List Const) (ip nl : Nat),
    Const.fn ip nl ∈ (emitB b pos lp cs).2 →
    Const.fn ip nl ∈ cs ∨ NewFn pos (sizeB b) 1 ip (fun c => ∃ v o h, Seg c pos (annB v b pos lp cs o h))
  | .nil, pos, lp, cs, ip, nl, hm => by simp only [emitB] at hm; exact .inl hm
  | .cons s .nil, pos, lp, cs, ip, nl, hm => by
    simp only [emitB] at hm
    rcases poolS s pos lp cs ip nl hm with h | h
    · exact .inl h
    · refine .inr (h.mono (Nat.le_refl _) (by simp only [sizeB]; omega) ?_)
      rintro c ⟨v, o, h, hs⟩
      simp only [annB, RBlock.isEmpty, Bool.and_true, List.append_nil] at hs
      exact ⟨_, _, _, hs⟩
  | .cons s (.cons s2 b2), pos, lp, cs, ip, nl, hm => by
    rw [emitB] at hm
    have esz : sizeB (.cons s (.cons s2 b2)) = sizeS s + sizeB (.cons s2 b2) := by rw [sizeB]
    rcases poolB (.cons s2 b2) _ lp _ ip nl hm with h | h
    · rcases poolS s pos lp cs ip nl h with h | h
      · exact .inl h
      · refine .inr (h.mono (Nat.le_refl _) (by omega) ?_)
        rintro c ⟨v, o, h, hs⟩
        rw [annB] at hs
        simp only [RBlock.isEmpty, Bool.and_false, Seg_append] at hs
        exact ⟨_, _, _, hs.1⟩
    · refine .inr (h.mono (by omega) (by omega) ?_)
      rintro c ⟨v, o, h, hs⟩
      rw [annB] at hs
      simp only [RBlock.isEmpty, Bool.and_false, Seg_append, asizeS] at hs
      exact ⟨_, _, _, hs.2⟩
theorem poolO : (x : ROptBlock) → ∀ (pos : Nat) (lp : LoopCtx) (cs : List Const) (ip nl : Nat),
    Const.fn ip nl ∈ (emitO x pos lp cs).2 →
    Const.fn ip nl ∈ cs ∨ NewFn pos (sizeO x) 0 ip (fun c => ∃ o h, Seg c pos (annO x pos lp cs o h))
  | .none, pos, lp, cs, ip, nl, hm => by simp only [emitO] at hm; exact .inl hm
  | .some b, pos, lp, cs, ip, nl, hm => by
    simp only [emitO] at hm
    have hle := sizeB_le_BV b
    rcases poolB b pos lp cs ip nl hm with h | h
    · exact .inl h
    · refine .inr (h.mono (Nat.le_refl _) (by simp only [sizeO, sizeBV] at hle ⊢; omega) ?_)
      rintro c ⟨o, h, hs⟩
      simp only [annO] at hs
      exact ⟨true, _, _, Seg_valWrap (annB_nil _ _ _ _ _ _ _) hs⟩
end

end CV
end Nl
