#!/bin/sh
# Measurement, not a check (not registered in MANIFEST.json): which lines of /repo/src do the quick tiers of all 17
# checks execute?  Builds a coverage-instrumented copy of the harness (nightly toolchain: its llvm-tools match) against a
# scratch worktree of /repo's HEAD, runs every quick check with that harness (NL_HARNESS_EXE), merges the profiles and
# prints the per-file summary plus every source line that was never executed.  Scratch lives under $1 (default /tmp/cov)
# and is removed at the end unless KEEP=1.
set -e
S=${1:-/tmp/cov}
V=$(cd "$(dirname "$0")/.." && pwd)
B=$(dirname "$(rustup which --toolchain nightly rustc)")/../lib/rustlib/x86_64-unknown-linux-gnu/bin
rm -rf "$S"; mkdir -p "$S/prof"
git -C /repo worktree add -q --detach "$S/repo" HEAD
cp -r "$V/harness" "$S/harness"
sed -i "s#path = \"/repo\"#path = \"$S/repo\"#" "$S/harness/Cargo.toml"
( cd "$S/harness" && RUSTFLAGS="-C instrument-coverage" CARGO_NET_OFFLINE=true CARGO_TARGET_DIR="$S/target" cargo +nightly build --offline --release --quiet )
cd "$V"
for i in 01 02 03 04 05 06 07 08 09 10 11 12 13 14 15 16 17; do
  NL_HARNESS_EXE="$S/target/release/nlharness" LLVM_PROFILE_FILE="$S/prof/%p-%8m.profraw" ./check C$i --tier quick | grep -E "VIOLATION" || true
done
git -C "$V" checkout -- evidence
"$B/llvm-profdata" merge -sparse "$S"/prof/*.profraw -o "$S/all.profdata"
"$B/llvm-cov" report "$S/target/release/nlharness" -instr-profile="$S/all.profdata" --ignore-filename-regex='(registry|rustc|harness|rustlib)' | cut -c1-60,120-
for f in "$S"/repo/src/*.rs; do
  echo "=== never executed: $(basename "$f")"
  "$B/llvm-cov" show "$S/target/release/nlharness" -instr-profile="$S/all.profdata" "$f" | awk -F'|' '$2 ~ /^ +0$/ {print $1 "|" $3}'
done
if [ -z "$KEEP" ]; then git -C /repo worktree remove --force "$S/repo"; rm -rf "$S"; fi
