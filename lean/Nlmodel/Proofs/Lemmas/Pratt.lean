/- The Pratt-loop lemma and the print/parse round trip for binary-operator expressions (C07). -/
import Nlmodel.Proofs.C14
import Nlmodel.Model.Printer
namespace Nl
namespace RT

def isBin (op : Op) : Prop :=
  op = .add ∨ op = .sub ∨ op = .mul ∨ op = .div ∨ op = .mod ∨ op = .gt ∨ op = .gte ∨ op = .lt ∨ op = .lte
  ∨ op = .eq ∨ op = .neq ∨ op = .and ∨ op = .or

theorem op_facts (op : Op) (h : isBin op) :
    (opToken op).prec = docLevel op ∧ (opToken op).binop = some op ∧ 2 ≤ docLevel op ∧ docLevel op ≤ 6
    ∧ opToken op ≠ .semi ∧ opToken op ≠ .assign := by
  rcases h with rfl | rfl | rfl | rfl | rfl | rfl | rfl | rfl | rfl | rfl | rfl | rfl | rfl <;>
    refine ⟨rfl, rfl, by decide, by decide, by decide, by decide⟩

/-- binary-operator expressions over atoms: the fragment of the round-trip theorem -/
inductive BinE : Expr → Prop where
  | ident (n : Text) : BinE (.ident n)
  | int (v : Int) : 0 ≤ v → v ≤ MAX_INT → BinE (.int v)
  | bool (b : Bool) : BinE (.bool b)
  | bin (l : Expr) (op : Op) (r : Expr) : isBin op → BinE l → BinE r → BinE (.infix l op r)

/-- what follows does not continue an expression of level `q` -/
def Stops (q : Nat) (rest : List Token) : Prop := cur rest = .semi ∨ (cur rest).prec ≤ q

theorem parseLoop_stop (f p : Nat) (l : Expr) (rest : List Token) (h : Stops p rest) :
    parseLoop (f + 1) p l rest = .ok (l, rest) := by
  unfold parseLoop
  rcases h with h | h
  · simp [h]
  · by_cases hs : cur rest = .semi
    · simp [hs]
    · have : ¬ p < (cur rest).prec := by omega
      simp [hs, this]


def cost : Expr → Nat
  | .infix l op _ => (if level l < docLevel op then 1 else cost l) + 1
  | _ => 1

def need : Expr → Nat
  | .infix l op r =>
    (if level l < docLevel op then cost l + need l + 2 else need l)
    + (if level r ≤ docLevel op then 1 else cost r)
    + (if level r ≤ docLevel op then cost r + need r + 2 else need r) + 1
  | _ => 1

theorem level_ge (e : Expr) (h : BinE e) : 2 ≤ level e ∧ ¬ isFunc e := by
  cases h with
  | ident n => simp [level, isAtomic, isFunc]
  | int v _ _ => simp [level, isAtomic, isFunc]
  | bool b => simp [level, isAtomic, isFunc]
  | bin l op r hop _ _ => exact ⟨by simpa [level] using (op_facts op hop).2.2.1, by simp [isFunc]⟩

theorem need_pos (e : Expr) : 1 ≤ need e := by
  cases e <;> simp [need] <;> omega

/-- the first token of a printed fragment expression is not `=` (so the op-assign detection of
    `parse_infix_expr` does not fire) -/
theorem head_ne_assign (e : Expr) (h : BinE e) (rest : List Token) : cur (printE e ++ rest) ≠ .assign := by
  induction h generalizing rest with
  | ident n => simp [printE, cur]
  | int v _ _ => simp [printE, cur]
  | bool b => cases b <;> simp [printE, cur]
  | bin l op r hop hl hr ihl ihr =>
    simp only [printE]
    split
    · simp [paren, cur]
    · simpa [List.append_assoc] using ihl _

theorem paren_head_ne_assign (ts rest : List Token) : cur (paren ts ++ rest) ≠ .assign := by
  simp [paren, cur]

theorem parseIntLit_natToDec (n : Nat) (h : (n : Int) ≤ MAX_INT) : parseIntLit (natToDec n) = .ok (.int n) := by
  unfold parseIntLit
  simp only [(C14.natToDec_spec n).1]
  simp [h]

/-- one iteration of the Pratt loop over a binary operator -/
theorem loop_step (g p : Nat) (l : Expr) (op : Op) (hop : isBin op) (ts1 : List Token)
    (hp : p < docLevel op) (hl : ¬ isFunc l) (ha : cur ts1 ≠ .assign) :
    parseLoop (g + 1) p l (opToken op :: ts1) =
      (match parseExpr g (docLevel op) ts1 with
       | .ok (r, ts2) => parseLoop g p (.infix l op r) ts2
       | .error e => .error e) := by
  obtain ⟨h1, h2, _, _, h5, _⟩ := op_facts op hop
  rw [parseLoop]
  have c1 : cur (opToken op :: ts1) = opToken op := rfl
  have a1 : adv (opToken op :: ts1) = ts1 := rfl
  have hprec : p < (opToken op).prec := by rw [h1]; exact hp
  have hf : isFunc l = false := by simpa using hl
  have ha' : (cur ts1 == Token.assign) = false := by simpa using ha
  simp only [c1, a1, h5, ↓reduceIte, Bool.false_eq_true, h2, hf, h1]
  have d1 : (!decide (p < docLevel op)) = false := by simp [hp]
  have d2 : (decide (cur ts1 = Token.assign) && isIdent l) = false := by simp [ha]
  simp only [d1, d2, Bool.false_eq_true, ↓reduceIte]
  cases parseExpr g (docLevel op) ts1 with
  | error e => rfl
  | ok pr => obtain ⟨r, ts2⟩ := pr; rfl


/-- the statement proved by induction: parsing the printed form of `e` in context `p` continues
    the Pratt loop with `e` as the left operand -/
def S (e : Expr) : Prop :=
  ∀ p rest f, p < level e → Stops (level e) rest → need e ≤ f →
    parseExpr (f + cost e) p (printE e ++ rest) = parseLoop f p e rest

theorem parseExpr_unfold (f p : Nat) (ts : List Token) :
    parseExpr (f + 1) p ts = (match parsePrefix f ts with
      | .ok (l, ts') => parseLoop f p l ts'
      | .error e => .error e) := by
  rw [parseExpr]
  cases parsePrefix f ts with
  | error e => rfl
  | ok pr => obtain ⟨l, ts'⟩ := pr; rfl

theorem paren_operand (x : Expr) (hx : BinE x) (hS : S x) (p : Nat) (rest : List Token) (f : Nat)
    (hf : cost x + need x + 2 ≤ f) :
    parseExpr (f + 1) p (paren (printE x) ++ rest) = parseLoop f p x rest := by
  rw [parseExpr_unfold]
  obtain ⟨f', rfl⟩ : ∃ f', f = f' + 1 := ⟨f - 1, by omega⟩
  have hts : paren (printE x) ++ rest = .lparen :: (printE x ++ (.rparen :: rest)) := by
    simp [paren, List.append_assoc]
  rw [hts, parsePrefix]
  simp only [cur, adv]
  obtain ⟨f'', hf''⟩ : ∃ f'', f' = f'' + cost x := ⟨f' - cost x, by omega⟩
  have hlev := (level_ge x hx).1
  rw [hf'', hS 0 (.rparen :: rest) f'' (by omega) (Or.inr (by simp [cur, Token.prec])) (by omega)]
  obtain ⟨k, hk⟩ : ∃ k, f'' = k + 1 := ⟨f'' - 1, by have := need_pos x; omega⟩
  rw [hk, parseLoop_stop k 0 x _ (Or.inr (by simp [cur, Token.prec]))]
  simp [skipTok, cur, adv]


theorem S_atom (e : Expr) (t : Token) (hp : printE e = [t]) (hc : cost e = 1) (hn : need e = 1)
    (hpre : ∀ k rest, parsePrefix (k + 1) (t :: rest) = .ok (e, rest)) : S e := by
  intro p rest f _ _ hf
  rw [hc, hp, parseExpr_unfold]
  obtain ⟨k, rfl⟩ : ∃ k, f = k + 1 := ⟨f - 1, by omega⟩
  simp only [List.singleton_append, hpre k rest]

/-- an operand of a binary operator, parenthesised (`b = true`) or not -/
theorem operand (x : Expr) (hx : BinE x) (hS : S x) (b : Bool) (p : Nat) (rest : List Token) (f : Nat)
    (hctx : b = false → p < level x ∧ Stops (level x) rest)
    (hf : (if b then cost x + need x + 2 else need x) ≤ f) :
    parseExpr (f + (if b then 1 else cost x)) p ((if b then paren (printE x) else printE x) ++ rest)
      = parseLoop f p x rest := by
  cases b with
  | true => simpa using paren_operand x hx hS p rest f (by simpa using hf)
  | false =>
    obtain ⟨h1, h2⟩ := hctx rfl
    simpa using hS p rest f h1 h2 (by simpa using hf)

theorem S_all (e : Expr) (h : BinE e) : S e := by
  induction h with
  | ident n =>
    exact S_atom _ (.ident n) rfl rfl rfl (by intro k rest; rw [parsePrefix]; rfl)
  | int v h0 h1 =>
    refine S_atom _ (.int (natToDec v.toNat)) rfl rfl rfl ?_
    intro k rest
    rw [parsePrefix]
    simp only [cur, adv]
    have hv : ((v.toNat : Nat) : Int) = v := Int.toNat_of_nonneg h0
    rw [parseIntLit_natToDec v.toNat (by omega), hv]
  | bool b =>
    cases b
    · exact S_atom _ .kwFalse rfl rfl rfl (by intro k rest; rw [parsePrefix]; rfl)
    · exact S_atom _ .kwTrue rfl rfl rfl (by intro k rest; rw [parsePrefix]; rfl)
  | bin l op r hop hl hr ihl ihr =>
    intro p rest f hp hstop hf
    obtain ⟨h1, h2, h3, h4, h5, h6⟩ := op_facts op hop
    have hlev : level (.infix l op r) = docLevel op := rfl
    rw [hlev] at hp hstop
    -- names for the two parenthesisation decisions
    generalize hbl : decide (level l < docLevel op) = bl
    generalize hbr : decide (level r ≤ docLevel op) = br
    have hcost : cost (.infix l op r) = (if bl then 1 else cost l) + 1 := by
      simp only [cost, ← hbl]; by_cases h : level l < docLevel op <;> simp [h]
    have hneed : need (.infix l op r) = (if bl then cost l + need l + 2 else need l)
        + (if br then 1 else cost r) + (if br then cost r + need r + 2 else need r) + 1 := by
      simp only [need, ← hbl, ← hbr]
      by_cases h : level l < docLevel op <;> by_cases h' : level r ≤ docLevel op <;> simp [h, h']
    have hprint : printE (.infix l op r) ++ rest =
        (if bl then paren (printE l) else printE l) ++ (opToken op :: ((if br then paren (printE r) else printE r) ++ rest)) := by
      simp only [printE, ← hbl, ← hbr, List.append_assoc, List.singleton_append]
      by_cases h : level l < docLevel op <;> by_cases h' : level r ≤ docLevel op <;> simp [h, h']
    rw [hneed] at hf
    rw [hcost, hprint]
    -- left operand, then the loop takes the operator
    have e1 : f + ((if bl then 1 else cost l) + 1) = (f + 1) + (if bl then 1 else cost l) := by omega
    rw [e1, operand l hl ihl bl p _ (f + 1) ?_ (by omega)]
    · have hra : cur ((if br then paren (printE r) else printE r) ++ rest) ≠ .assign := by
        cases br
        · exact head_ne_assign r hr rest
        · exact paren_head_ne_assign _ rest
      rw [loop_step f p l op hop _ hp (level_ge l hl).2 hra]
      -- right operand at the operator's own level; it stops at `rest`
      obtain ⟨f2, hf2⟩ : ∃ f2, f = f2 + (if br then 1 else cost r) := ⟨f - (if br then 1 else cost r), by omega⟩
      have hstopr : ∀ q, docLevel op ≤ q → Stops q rest := by
        intro q hq
        rcases hstop with hs | hs
        · exact Or.inl hs
        · exact Or.inr (by omega)
      rw [hf2, operand r hr ihr br (docLevel op) rest f2 ?_ (by omega)]
      · obtain ⟨k, hk⟩ : ∃ k, f2 = k + 1 := ⟨f2 - 1, by omega⟩
        rw [hk, parseLoop_stop k (docLevel op) r rest (hstopr _ (Nat.le_refl _))]
      · intro hb
        subst hb
        have : ¬ level r ≤ docLevel op := by simpa using hbr
        exact ⟨by omega, hstopr _ (by omega)⟩
    · intro hb
      subst hb
      have : ¬ level l < docLevel op := by simpa using hbl
      refine ⟨by omega, Or.inr ?_⟩
      simp only [cur, h1]; omega


/-- fuel accounting is linear in the number of tokens -/
theorem bound (e : Expr) (h : BinE e) : need e + cost e ≤ 2 * (printE e).length ∧ 1 ≤ (printE e).length := by
  induction h with
  | ident n => simp [need, cost, printE]
  | int v _ _ => simp [need, cost, printE]
  | bool b => simp [need, cost, printE]
  | bin l op r hop hl hr ihl ihr =>
    obtain ⟨il, il'⟩ := ihl
    obtain ⟨ir, ir'⟩ := ihr
    simp only [need, cost, printE]
    by_cases h1 : level l < docLevel op <;> by_cases h2 : level r ≤ docLevel op <;>
      simp only [h1, h2, ↓reduceIte, paren, List.length_append, List.length_cons, List.length_nil] <;> omega

/-- the first token of a printed fragment expression starts an expression statement -/
inductive StartsExpr : Token → Prop where
  | ident (n : Text) : StartsExpr (.ident n)
  | int (s : Text) : StartsExpr (.int s)
  | t : StartsExpr .kwTrue
  | f : StartsExpr .kwFalse
  | lp : StartsExpr .lparen

theorem first_token (e : Expr) (h : BinE e) : ∃ t tl, printE e = t :: tl ∧ StartsExpr t := by
  induction h with
  | ident n => exact ⟨_, _, rfl, .ident n⟩
  | int v _ _ => exact ⟨_, _, rfl, .int _⟩
  | bool b => cases b <;> exact ⟨_, _, rfl, by constructor⟩
  | bin l op r hop hl hr ihl ihr =>
    simp only [printE]
    split
    · exact ⟨.lparen, _, by simp only [paren, List.cons_append]; rfl, .lp⟩
    · obtain ⟨t, tl, ht, hs⟩ := ihl
      exact ⟨t, _, by rw [ht]; rfl, hs⟩

/-- ROUND TRIP: every expression tree over the 13 binary operators and atoms (identifiers,
    integer literals, booleans), printed with minimal parentheses according to the DOCUMENTED
    table, parses back to exactly that tree, with ANY fuel from `need + cost` on (so in particular
    with the fuel `parse` supplies), in any context that does not continue the expression -/
theorem print_parse_expr (e : Expr) (h : BinE e) (rest : List Token) (hstop : Stops 0 rest) (F : Nat)
    (hF : need e + cost e + 1 ≤ F) :
    parseExpr F 0 (printE e ++ rest) = .ok (e, rest) := by
  obtain ⟨f, rfl⟩ : ∃ f, F = f + cost e := ⟨F - cost e, by omega⟩
  have hlev := (level_ge e h).1
  have hs : Stops (level e) rest := by
    rcases hstop with hs | hs
    · exact Or.inl hs
    · exact Or.inr (by omega)
  rw [S_all e h 0 rest f (by omega) hs (by omega)]
  obtain ⟨k, rfl⟩ : ∃ k, f = k + 1 := ⟨f - 1, by have := need_pos e; omega⟩
  exact parseLoop_stop k 0 e rest hstop

/-- statement level: the printed program `e;` parses to the one-statement program `e` -/
theorem print_parse_program (e : Expr) (h : BinE e) :
    parseTokens (printProgram (.cons (.expr e) .nil)) = .ok (.cons (.expr e) .nil) := by
  have hp : printProgram (.cons (.expr e) .nil) = printE e ++ [.semi] := by
    simp [printProgram, printStmts, printS]
  obtain ⟨hb, hlen⟩ := bound e h
  obtain ⟨t, tl, ht, hst⟩ := first_token e h
  rw [hp]
  unfold parseTokens parseFuel
  generalize hts : printE e ++ [Token.semi] = ts
  have hlen' : ts.length = (printE e).length + 1 := by rw [← hts]; simp
  have hcur : cur ts = t := by rw [← hts, ht]; rfl
  obtain ⟨F2, hF2⟩ : ∃ F2, 4 * ts.length + 16 = F2 + 2 := ⟨4 * ts.length + 14, by omega⟩
  rw [hF2]
  have hne : ¬ (cur ts = .eof) := by rw [hcur]; cases hst <;> simp
  have e1 : parseStmts (F2 + 2) false ts =
      (match parseStatement (F2 + 1) ts with
       | .ok (s, ts1) => (match parseStmts (F2 + 1) false ts1 with
          | .ok (b, ts2) => .ok (.cons s b, ts2)
          | .error e => .error e)
       | .error e => .error e) := by
    rw [parseStmts]
    simp [hne]
    cases parseStatement (F2 + 1) ts with
    | error e => rfl
    | ok p =>
      obtain ⟨s, ts1⟩ := p
      simp only
      cases parseStmts (F2 + 1) false ts1 with
      | error e => rfl
      | ok q => obtain ⟨b, ts2⟩ := q; rfl
  have e2 : parseStatement (F2 + 1) ts = .ok (.expr e, []) := by
    rw [parseStatement]
    have hpe : parseExpr F2 0 ts = .ok (e, [.semi]) := by
      rw [← hts]
      exact print_parse_expr e h [.semi] (Or.inl rfl) F2 (by omega)
    rw [hcur]
    cases hst <;> simp [hpe, skipOpt, cur, adv]
  rw [e1, e2]
  simp [parseStmts, cur]

end RT
end Nl
